// Real-threads phases of C14 (MapIterator's Mutex/Cond discipline; data races of MapIterator / MapStream).
//
// testing/synctest schedules the goroutines of a bubble cooperatively: it never stops the dispatcher of
// MapIterator between its check `mIter.inFlight >= bufferSize` and its registration in `cond.Wait()`,
// and it never runs two critical sections at the same time. The Lean LTS makes these sections atomic
// labels because both lock `mapIterator.m`, which is the cond's locker (generated facts Gen.ParSync,
// `Iter.sectionsAtomic`); this file is the *search* side of that tie: it runs MapIterator on real threads
// and finds the input on which code without that discipline fails.
//
//	mapiter  (a phase of TestVerif, every tier) rounds of MapIterator(P, B) with P = B in {1, 2, 4} over
//	         n >= 20000 items, trivial f, the consumer calling Next in a loop in the child's *main*
//	         goroutine. Verdicts: (1) "a consumer Next has not returned although every item was produced
//	         and every call of f returned" = every goroutine of the child asleep: the Go runtime aborts
//	         the child with `fatal error: all goroutines are asleep - deadlock!` and a goroutine dump; the
//	         parent maps the blocked frames (`sync.(*Cond).Wait` under `MapIterator.func1`,
//	         `mapIterator.Next` in chan receive, workers in chan receive / send) to
//	         `mapiter-lost-wakeup-real-threads`. (2) order / exactly-once / count of what was consumed
//	         (`mapiter-order-real-threads`, `mapiter-count-real-threads`, `mapiter-f-once-real-threads`,
//	         `mapiter-inflight-real-threads`).
//	race     (TestVerifRace, harness entry c14race, thorough tier, built with -race) rounds of MapIterator
//	         and MapStream with P, B in small ranges (P = B, B < P, 1), up to 20000 items, f with zero /
//	         tiny / variable latency, consumers of varying pace, early Close; verdicts as above plus the
//	         race detector's report: `WARNING: DATA RACE` in the child's stderr = `data-race-real-threads`
//	         with the two stack tops as parameters.
//
// No wall-clock timeout decides a verdict: the clock only bounds the number of rounds. The rounds run in a
// child process (this test binary re-executed with VERIF_C14_STRESS_CHILD set, see TestMain) whose main
// goroutine is the consumer; nothing in the child keeps a goroutine runnable for ever (no tickers, no
// signal.Notify, no pending timers in the mapiter phase), so a call that is stuck for good leaves every
// goroutine asleep. A backstop kill of a child that neither finishes nor deadlocks is a harness error
// (t.Errorf), never a property violation.
package c14

import (
	"bytes"
	"context"
	"fmt"
	"os"
	"os/exec"
	"regexp"
	"runtime"
	"strconv"
	"strings"
	"sync/atomic"
	"testing"
	"time"

	"github.com/bradenaw/juniper/iterator"
	"github.com/bradenaw/juniper/parallel"
	"github.com/bradenaw/juniper/stream"
	"verifharness/vlib"
)

const stressEnv = "VERIF_C14_STRESS_CHILD"

func TestMain(m *testing.M) {
	if spec := os.Getenv(stressEnv); spec != "" {
		stressChild(spec) // does not return
	}
	os.Exit(m.Run())
}

// stressCfg: one configuration. Kind mapiter | mapstream; How: consumer / f behaviour
// ("-" trivial f, eager consumer; "yield" f calls runtime.Gosched; "sleep" f sleeps 0-20 µs depending on
// the item; "slowcons" the consumer yields the processor between calls; "close<k>" (mapstream) Close after
// k results).
type stressCfg struct {
	Kind   string
	P, B   int
	N      int
	Rounds int // rounds of this configuration in a replay / confirmation run
	How    string
}

func (c stressCfg) String() string {
	how := c.How
	if how == "" {
		how = "-"
	}
	if how == "-" {
		return fmt.Sprintf("stress %s %d %d %d %d", c.Kind, c.P, c.B, c.N, c.Rounds)
	}
	return fmt.Sprintf("stress %s %d %d %d %d %s", c.Kind, c.P, c.B, c.N, c.Rounds, how)
}

func parseStressCfg(l string) (stressCfg, bool) {
	f := strings.Fields(l)
	if (len(f) != 6 && len(f) != 7) || f[0] != "stress" || (f[1] != "mapiter" && f[1] != "mapstream") {
		return stressCfg{}, false
	}
	var v [4]int
	for i := 0; i < 4; i++ {
		x, err := strconv.Atoi(f[2+i])
		if err != nil {
			return stressCfg{}, false
		}
		v[i] = x
	}
	if v[0] < -4 || v[0] > 64 || v[1] < -4 || v[1] > 1000 || v[2] < 0 || v[2] > 10000000 || v[3] < 1 {
		return stressCfg{}, false
	}
	c := stressCfg{Kind: f[1], P: v[0], B: v[1], N: v[2], Rounds: v[3], How: "-"}
	if len(f) == 7 {
		c.How = f[6]
	}
	return c, true
}

// mapIterCfgOf: configuration of round r of the mapiter phase (deterministic in the seed).
func mapIterCfgOf(seed uint64, r int) stressCfg {
	rng := vlib.NewRand(seed*1000003 + 700001 + uint64(r))
	pb := []int{1, 1, 2, 4, 4}[rng.Intn(5)]
	return stressCfg{Kind: "mapiter", P: pb, B: pb, N: 20000, Rounds: 1, How: "-"}
}

// raceCfgOf: configuration of round r of the race phase.
func raceCfgOf(seed uint64, r int) stressCfg {
	rng := vlib.NewRand(seed*1000003 + 900007 + uint64(r))
	c := stressCfg{Rounds: 1}
	c.Kind = []string{"mapiter", "mapiter", "mapstream"}[rng.Intn(3)]
	switch rng.Intn(4) {
	case 0:
		c.P = []int{1, 2, 4}[rng.Intn(3)]
		c.B = c.P
	case 1:
		c.P = []int{2, 4, 8}[rng.Intn(3)]
		c.B = rng.Intn(c.P) // B < P: clamped to P
	case 2:
		c.P, c.B = 1, 1
	default:
		c.P = []int{1, 2, 3, 4}[rng.Intn(4)]
		c.B = c.P + rng.Intn(6)
	}
	c.N = []int{0, 1, 7, 300, 3000, 20000}[rng.Intn(6)]
	c.How = []string{"-", "-", "yield", "sleep", "slowcons"}[rng.Intn(5)]
	if c.Kind == "mapstream" && c.N > 0 && rng.Chance(1, 3) {
		c.How = fmt.Sprintf("close%d", rng.Intn(c.N+1))
	}
	if c.How == "sleep" && c.N > 400 {
		c.N = 400 // a sleep of a few µs takes a millisecond on a loaded machine
	}
	return c
}

type counterIter struct{ i, n int }

func (c *counterIter) Next() (int, bool) {
	if c.i >= c.n {
		return 0, false
	}
	c.i++
	return c.i - 1, true
}

type counterStream struct {
	i, n   int
	closed int32
}

func (c *counterStream) Next(ctx context.Context) (int, error) {
	if ctx.Err() != nil {
		return 0, ctx.Err()
	}
	if c.i >= c.n {
		return 0, stream.End
	}
	c.i++
	return c.i - 1, nil
}
func (c *counterStream) Close() { atomic.AddInt32(&c.closed, 1) }

func fval(x int) int { return 3*x + 1 }

// stressRound runs one round in the calling (main) goroutine of the child. It returns one "kind|what" per
// violated clause that does not involve blocking; a call stuck for good never returns from here (the
// runtime's deadlock detector ends the process).
func stressRound(c stressCfg) []string {
	var out []string
	fail := func(kind, format string, a ...interface{}) {
		for _, o := range out {
			if strings.HasPrefix(o, kind+"|") {
				return
			}
		}
		out = append(out, kind+"|"+fmt.Sprintf(format, a...))
	}
	shape := c.String()
	var calls, running, maxRunning atomic.Int64
	body := func(x int) {
		r := running.Add(1)
		for {
			m := maxRunning.Load()
			if r <= m || maxRunning.CompareAndSwap(m, r) {
				break
			}
		}
		calls.Add(1)
		switch c.How {
		case "yield":
			runtime.Gosched()
		case "sleep":
			if d := x % 5; d > 0 {
				time.Sleep(time.Duration(d*5) * time.Microsecond)
			}
		}
		running.Add(-1)
	}
	par := c.P
	if par <= 0 {
		par = runtime.GOMAXPROCS(-1)
	}
	switch c.Kind {
	case "mapiter":
		src := &counterIter{n: c.N}
		var it iterator.Iterator[int] = parallel.MapIterator[int, int](src, c.P, c.B, func(x int) int {
			body(x)
			return fval(x)
		})
		k := 0
		for {
			v, ok := it.Next() // a lost wakeup parks the process here for good
			if !ok {
				break
			}
			if v != fval(k) {
				fail("mapiter-order-real-threads", "%s: result %d is %d, f of source item %d is %d", shape, k, v, k, fval(k))
			}
			k++
			if c.How == "slowcons" && k%3 == 0 {
				runtime.Gosched()
			}
			if k > c.N+8 {
				fail("mapiter-count-real-threads", "%s: more than %d results for %d source items", shape, k-1, c.N)
				break
			}
		}
		if k != c.N {
			fail("mapiter-count-real-threads", "%s: the iterator ended after %d results for %d source items", shape, k, c.N)
		}
		if n := calls.Load(); k == c.N && n != int64(c.N) {
			fail("mapiter-f-once-real-threads", "%s: f was called %d times for %d source items", shape, n, c.N)
		}
		if m := maxRunning.Load(); m > int64(par) {
			fail("mapiter-inflight-real-threads", "%s: %d calls of f ran at once, parallelism %d", shape, m, par)
		}
	case "mapstream":
		src := &counterStream{n: c.N}
		ctx := context.Background()
		st := parallel.MapStream[int, int](ctx, src, c.P, c.B, func(ctx context.Context, x int) (int, error) {
			body(x)
			return fval(x), nil
		})
		closeAt := -1
		if strings.HasPrefix(c.How, "close") {
			closeAt, _ = strconv.Atoi(strings.TrimPrefix(c.How, "close"))
		}
		k := 0
		ended := false
		for closeAt < 0 || k < closeAt {
			v, err := st.Next(ctx)
			if err == stream.End {
				ended = true
				break
			}
			if err != nil {
				fail("mapstream-error-real-threads", "%s: Next returned %v after %d results although neither the source nor f failed and nobody cancelled anything", shape, err, k)
				break
			}
			if v != fval(k) {
				fail("mapstream-order-real-threads", "%s: result %d is %d, f of source item %d is %d", shape, k, v, k, fval(k))
			}
			k++
			if c.How == "slowcons" && k%3 == 0 {
				runtime.Gosched()
			}
			if k > c.N+8 {
				break
			}
		}
		if ended && k != c.N {
			fail("mapstream-count-real-threads", "%s: the stream ended after %d results for %d source items", shape, k, c.N)
		}
		st.Close()
		if n := atomic.LoadInt32(&src.closed); n != 1 {
			fail("mapstream-close-real-threads", "%s: the source's Close had returned %d times when the stream's Close returned", shape, n)
		}
		if r := running.Load(); r != 0 {
			fail("mapstream-close-real-threads", "%s: %d calls of f were still running when Close returned", shape, r)
		}
		if m := maxRunning.Load(); m > int64(par) {
			fail("mapstream-inflight-real-threads", "%s: %d calls of f ran at once, parallelism %d", shape, m, par)
		}
	}
	return out
}

// stressChild: spec = "<seed> <rounds> <ms> <fixed cfg | mapiter | race>". Prints "round <r> <cfg>" before
// every round, one "FAIL kind|what" per violated non-blocking clause, "done <rounds> procs <n>" at the end;
// exit 3 if a round failed, 0 otherwise (the race detector turns 0 into 66 when it has reported a race).
func stressChild(spec string) {
	f := strings.SplitN(spec, " ", 4)
	if len(f) != 4 {
		fmt.Println("BAD spec")
		os.Exit(4)
	}
	seed, _ := strconv.ParseUint(f[0], 10, 64)
	rounds, _ := strconv.Atoi(f[1])
	ms, _ := strconv.Atoi(f[2])
	fixed, isFixed := parseStressCfg(f[3])
	if runtime.GOMAXPROCS(0) < 4 {
		runtime.GOMAXPROCS(4) // the window needs goroutines that really run at the same time
	}
	start := time.Now()
	r, failing := 0, 0
	for ; r < rounds && time.Since(start) < time.Duration(ms)*time.Millisecond; r++ {
		c := fixed
		switch {
		case isFixed:
		case f[3] == "race":
			c = raceCfgOf(seed, r)
		default:
			c = mapIterCfgOf(seed, r)
		}
		fmt.Fprintf(os.Stdout, "round %d %s\n", r, c)
		if raceEnabled {
			fmt.Fprintf(os.Stderr, "round %d %s\n", r, c) // the race detector reports on stderr: which round it was
		}
		if msgs := stressRound(c); len(msgs) > 0 {
			for _, msg := range msgs {
				fmt.Fprintf(os.Stdout, "FAIL %s\n", msg)
			}
			failing++
			if isFixed || failing >= 8 {
				break
			}
		}
	}
	fmt.Fprintf(os.Stdout, "done %d procs %d\n", r, runtime.GOMAXPROCS(0))
	if failing > 0 {
		os.Exit(3)
	}
	os.Exit(0)
}

// ---------------------------------------------------------------------------------------------
// parent side

type stressFind struct {
	kind, what string
	cfg        stressCfg
	round      int
	params     map[string]interface{}
}

type stressOutcome struct {
	rounds   int
	procs    int
	lastCfg  stressCfg
	lastR    int
	finds    []stressFind // the first finding of every kind
	dump     []string
	harness  string // non-empty: the child could not be run / ended in a way that is not a verdict
	perKind  map[string]int
	duration time.Duration
}

func (o *stressOutcome) add(kind, what string, params map[string]interface{}) {
	for _, f := range o.finds {
		if f.kind == kind {
			return
		}
	}
	o.finds = append(o.finds, stressFind{kind, what, o.lastCfg, o.lastR, params})
}

var (
	parFrame  = regexp.MustCompile(`juniper/parallel\.(?:\(\*(\w+)\[[^\]]*\]\)\.(\w+)|(\w+)\[[^\]]*\]\.(func\d+(?:\.\d+)?)|(\w+)\[[^\]]*\])`)
	goStateRe = regexp.MustCompile(`^goroutine \d+ \[([^\]]*)\]`)
)

// blockedGoroutines summarises the goroutine dump of a deadlocked child: for every goroutine with a
// juniper/parallel frame "state@outermost-runtime-call in innermost-parallel-frame".
func blockedGoroutines(stderr string) (summary []string, condWait, nextRecv bool) {
	for _, g := range strings.Split(stderr, "\n\n") {
		g = strings.TrimLeft(g, "\n")
		if !strings.HasPrefix(g, "goroutine ") {
			continue
		}
		lines := strings.Split(g, "\n")
		state := ""
		if m := goStateRe.FindStringSubmatch(lines[0]); m != nil {
			state = m[1]
		}
		frame, top := "", ""
		cw := strings.Contains(state, "Cond.Wait")
		for _, l := range lines[1:] {
			if strings.HasPrefix(l, "\t") || strings.HasPrefix(l, " ") {
				continue
			}
			if strings.HasPrefix(l, "sync.(*Cond).Wait") {
				cw = true
			}
			if top == "" && strings.HasPrefix(l, "sync.") {
				top = strings.SplitN(l, "(0x", 2)[0]
				top = strings.TrimSuffix(top, "(...)")
			}
			if m := parFrame.FindStringSubmatch(l); m != nil {
				switch {
				case m[1] != "":
					frame = m[1] + "." + m[2]
				case m[3] != "":
					frame = m[3] + "." + m[4]
				default:
					frame = m[5]
				}
				break
			}
		}
		if frame == "" {
			continue
		}
		s := "[" + state + "]"
		if top != "" {
			s += " " + top
		}
		s += " in " + frame
		if cw && strings.HasPrefix(frame, "MapIterator") {
			condWait = true
		}
		if frame == "mapIterator.Next" && strings.Contains(state, "chan receive") {
			nextRecv = true
		}
		dup := false
		for i, x := range summary {
			if strings.HasPrefix(x, s) {
				dup = true
				if !strings.HasSuffix(x, " (several)") {
					summary[i] = x + " (several)"
				}
			}
		}
		if !dup {
			summary = append(summary, s)
		}
	}
	return
}

var raceTopRe = regexp.MustCompile(`(?m)^(?:(?:Previous )?(?:[Rr]ead|[Ww]rite|atomic read|atomic write) at 0x[0-9a-f]+ by (?:main )?goroutine[^\n]*:)\n  ([^\n]+)\n      ([^\n]+)`)

// raceTops extracts the two stack tops of the first race report.
func raceTops(stderr string) (n int, a, b string) {
	n = strings.Count(stderr, "WARNING: DATA RACE")
	i := strings.Index(stderr, "WARNING: DATA RACE")
	if i < 0 {
		return
	}
	rep := stderr[i:]
	if j := strings.Index(rep, "=================="); j > 0 {
		rep = rep[:j]
	}
	ms := raceTopRe.FindAllStringSubmatch(rep, 2)
	clean := func(m []string) string {
		fn := strings.TrimSpace(m[1])
		if k := strings.LastIndex(fn, "("); k > 0 && strings.HasSuffix(fn, ")") {
			fn = fn[:k] // the argument list
		}
		if k := strings.LastIndex(fn, "/"); k >= 0 {
			fn = fn[k+1:]
		}
		loc := strings.Fields(m[2])
		file := ""
		if len(loc) > 0 {
			file = loc[0]
			if k := strings.LastIndex(file, "/"); k >= 0 {
				file = file[k+1:]
			}
		}
		return fn + " " + file
	}
	if len(ms) > 0 {
		a = clean(ms[0])
	}
	if len(ms) > 1 {
		b = clean(ms[1])
	}
	return
}

func runStressChild(seed uint64, rounds, ms int, mode string) stressOutcome {
	o := stressOutcome{perKind: map[string]int{}, lastR: -1}
	self, err := os.Executable()
	if err != nil {
		self = os.Args[0]
	}
	cmd := exec.Command(self, "-test.run=^$")
	cmd.Env = append(os.Environ(), fmt.Sprintf("%s=%d %d %d %s", stressEnv, seed, rounds, ms, mode))
	var stdout, stderr bytes.Buffer
	cmd.Stdout, cmd.Stderr = &stdout, &stderr
	start := time.Now()
	if err := cmd.Start(); err != nil {
		o.harness = "cannot start the stress child: " + err.Error()
		return o
	}
	backstop := time.AfterFunc(120*time.Second+time.Duration(ms)*time.Millisecond, func() { cmd.Process.Kill() })
	err = cmd.Wait()
	killed := !backstop.Stop()
	o.duration = time.Since(start)
	failed := false
	for _, l := range strings.Split(stdout.String(), "\n") {
		switch {
		case strings.HasPrefix(l, "round "):
			f := strings.SplitN(l, " ", 3)
			if len(f) == 3 {
				if c, ok := parseStressCfg(f[2]); ok {
					o.lastR, _ = strconv.Atoi(f[1])
					o.lastCfg = c
					o.perKind[c.Kind]++
					o.rounds++
				}
			}
		case strings.HasPrefix(l, "done "):
			f := strings.Fields(l)
			if len(f) >= 4 {
				o.procs, _ = strconv.Atoi(f[3])
			}
		case strings.HasPrefix(l, "FAIL "):
			failed = true
			p := append(strings.SplitN(strings.TrimPrefix(l, "FAIL "), "|", 2), "")
			o.add(p[0], fmt.Sprintf("round %d: %s", o.lastR, p[1]), map[string]interface{}{"p": o.lastCfg.P, "b": o.lastCfg.B, "real_threads": true})
		}
	}
	es := stderr.String()
	if n, a, b := raceTops(es); n > 0 {
		// the round in which the first report was made: the last marker on stderr before it
		rr, rc := o.lastR, o.lastCfg
		for _, l := range strings.Split(es[:strings.Index(es, "WARNING: DATA RACE")], "\n") {
			if f := strings.SplitN(l, " ", 3); len(f) == 3 && f[0] == "round" {
				if c, ok := parseStressCfg(f[2]); ok {
					rr, _ = strconv.Atoi(f[1])
					rc = c
				}
			}
		}
		keepR, keepC := o.lastR, o.lastCfg
		o.lastR, o.lastCfg = rr, rc
		o.add("data-race-real-threads",
			fmt.Sprintf("round %d (%s): the race detector reported a data race (%d report(s) in this run); first report: %s  <->  %s", rr, rc, n, a, b),
			map[string]interface{}{"access_1": a, "access_2": b, "p": rc.P, "b": rc.B, "real_threads": true})
		o.lastR, o.lastCfg = keepR, keepC
	}
	switch {
	case killed:
		o.harness = fmt.Sprintf("the stress child neither finished nor deadlocked within the backstop (last: round %d %s)", o.lastR, o.lastCfg)
	case err == nil:
	case strings.Contains(es, "all goroutines are asleep - deadlock!"):
		sum, condWait, nextRecv := blockedGoroutines(es)
		o.dump = sum
		kind := "call-stuck-real-threads"
		cond := "the source had more to give or had ended and every call of f had returned, so the consumer's call had to return"
		switch {
		case o.lastCfg.Kind == "mapiter" && condWait:
			kind = "mapiter-lost-wakeup-real-threads"
			cond = "the dispatcher sits in cond.Wait() although nothing is in flight that could wake it: a Signal was issued before it had parked (or inFlight lost an update); every call of f has returned, the consumer's Next waits for a result that cannot come"
		case o.lastCfg.Kind == "mapiter" && nextRecv:
			kind = "mapiter-next-stuck-real-threads"
		case o.lastCfg.Kind == "mapstream":
			kind = "mapstream-call-stuck-real-threads"
		}
		o.add(kind, fmt.Sprintf("round %d (%s): a call never returned — the Go runtime found every goroutine of the process asleep (%s); blocked: %s",
			o.lastR, o.lastCfg, cond, strings.Join(sum, "; ")), map[string]interface{}{"p": o.lastCfg.P, "b": o.lastCfg.B, "real_threads": true})
	case failed && cmd.ProcessState != nil && cmd.ProcessState.ExitCode() == 3:
	case cmd.ProcessState != nil && cmd.ProcessState.ExitCode() == 66 && strings.Contains(es, "WARNING: DATA RACE"):
		// the race detector's exit code; the report has been recorded above
	case strings.Contains(es, "fatal error: ") || strings.Contains(es, "panic: "):
		// a crash of the library on real threads (e.g. "sync: unlock of unlocked mutex")
		line := ""
		for _, l := range strings.Split(es, "\n") {
			if strings.HasPrefix(l, "fatal error: ") || strings.HasPrefix(l, "panic: ") {
				line = l
				break
			}
		}
		sum, _, _ := blockedGoroutines(es)
		o.dump = sum
		o.add("crash-real-threads", fmt.Sprintf("round %d (%s): the process crashed: %s", o.lastR, o.lastCfg, line),
			map[string]interface{}{"p": o.lastCfg.P, "b": o.lastCfg.B, "real_threads": true})
	default:
		tail := es
		if len(tail) > 600 {
			tail = tail[len(tail)-600:]
		}
		o.harness = fmt.Sprintf("the stress child ended with %v (last: round %d %s): %s", err, o.lastR, o.lastCfg, tail)
	}
	return o
}

// stressReport records the findings of a phase: every kind with the configuration that showed it, confirmed
// with that configuration alone where possible (a race needs luck: an unconfirmed finding is still reported,
// with the round of the original run).
func stressReport(t *testing.T, res *vlib.Result, env vlib.Env, o stressOutcome, tag string, confirmMs int) {
	res.CountN(tag+"-rounds", o.rounds)
	for k, n := range o.perKind {
		res.CountN(tag+"-"+k, n)
	}
	if o.procs == 1 {
		res.Count("stress-single-proc")
	}
	if o.harness != "" && len(o.finds) == 0 {
		t.Errorf("real-threads phase (%s): %s", tag, o.harness)
		return
	}
	for n, f := range o.finds {
		if n >= 6 {
			break
		}
		best := f
		cfg := f.cfg
		cfg.Rounds = 2000
		trace := []string{fmt.Sprintf("seed %d round %d of phase %s", env.Seed, f.round, tag)}
		dump := o.dump
		if confirmMs > 0 {
			o2 := runStressChild(env.Seed, cfg.Rounds, confirmMs, cfg.String())
			for _, f2 := range o2.finds {
				if f2.kind == f.kind {
					best = f2
					trace = append(trace, fmt.Sprintf("this configuration alone: violated in round %d", f2.round))
					if o2.dump != nil {
						dump = o2.dump
					}
				}
			}
		}
		params := best.params
		if params == nil {
			params = map[string]interface{}{"real_threads": true}
		}
		res.Fail(vlib.Failure{Source: "monitor", Kind: f.kind, Params: params, What: best.what,
			Case: &Scenario{Kind: "stress", Variant: map[string]string{"mapiter": "iter", "mapstream": "stream"}[cfg.Kind], P: cfg.P, B: cfg.B,
				Stress: cfg.String(), Trace: append(trace, dump...)}})
	}
}

// stressMapIter: the quick real-threads phase of TestVerif.
func stressMapIter(t *testing.T, res *vlib.Result, env vlib.Env) {
	ms := 1500
	if env.BudgetMs > 0 && env.BudgetMs < 8000 {
		ms = 150 + env.BudgetMs/10 // C08 / C09 run this harness with a 4 s budget for their own kinds
	}
	rounds := 100000
	if env.Thorough() || env.Deep {
		ms = 12000
	}
	if raceEnabled {
		ms /= 2
	}
	o := runStressChild(env.Seed, rounds, ms, "mapiter")
	res.CountN("stress-mapiter-items", o.rounds*20000)
	stressReport(t, res, env, o, "stress-mapiter", 6000)
}

// replayStress re-runs a recorded real-threads case with many more rounds.
func replayStress(sc *Scenario) {
	cfg, ok := parseStressCfg(sc.Stress)
	if !ok {
		fmt.Println("bad stress case:", sc.Stress)
		os.Exit(2)
	}
	cfg.Rounds = 100000
	fmt.Printf("replay: %s (real threads, up to %d rounds / 20 s)\n", cfg, cfg.Rounds)
	o := runStressChild(1, cfg.Rounds, 20000, cfg.String())
	switch {
	case o.harness != "" && len(o.finds) == 0:
		fmt.Println("harness:", o.harness)
		os.Exit(2)
	case len(o.finds) == 0:
		fmt.Printf("monitor: no clause violated in %d rounds\n", o.rounds)
	default:
		for _, f := range o.finds {
			fmt.Printf("monitor: %s\n  %s\n", f.kind, f.what)
		}
		os.Exit(1)
	}
}

// TestVerifRace: harness entry c14race (built with -race, thorough tier). Runs the race rounds and the
// mapiter rounds in children and reports the race detector's findings and every other verdict.
func TestVerifRace(t *testing.T) {
	env := vlib.GetEnv()
	res := vlib.NewResult("C14", "-race real-threads rounds of MapIterator / MapStream (parallelism and bufferSize in small ranges incl. P = B, B < P, 1; up to 20000 items; "+
		"f with zero / tiny / variable latency; eager and slow consumers; early Close); non-trivial = every round; distinct = configuration")
	if env.Replay != "" {
		var sc Scenario
		if err := vlib.ReplayCase(env.Replay, &sc); err != nil || sc.Kind != "stress" {
			fmt.Println("cannot read replay:", err)
			os.Exit(2)
		}
		replayStress(&sc)
		return
	}
	defer res.Write(env.Out)
	ms := env.BudgetMs / 4
	if ms < 3000 {
		ms = 3000
	}
	if ms > 30000 {
		ms = 30000
	}
	o := runStressChild(env.Seed, 1000000, ms, "race")
	for r := 0; r < o.rounds; r++ {
		c := raceCfgOf(env.Seed, r)
		res.Case(c.String(), true, nil)
	}
	stressReport(t, res, env, o, "race", 0)
	o2 := runStressChild(env.Seed, 1000000, ms/2, "mapiter")
	res.CountN("race-mapiter-items", o2.rounds*20000)
	for r := 0; r < o2.rounds; r++ {
		res.Case(mapIterCfgOf(env.Seed, r).String()+fmt.Sprint(" #", r), true, nil)
	}
	stressReport(t, res, env, o2, "race-mapiter", 0)
}
