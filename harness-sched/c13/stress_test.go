// C13, real-threads phase (fix8b): the index hand-out of Do / DoContext at the *tail* of a run.
//
// The scripted and timed scenarios run inside synctest bubbles, where every call of f parks on a channel
// or a timer: the workers come back to the hand-out one at a time, so a check-then-act window between
// "is anything left?" and "claim the next index" is never entered by two workers at once. Here the calls
// run on real threads, outside any bubble: parallelism p, n = p+1 .. p+3, and the first p calls of f (one
// per worker) are held at a spin barrier and let go together, so that all p workers come back for the
// last one to three indices at the same instant; the round is repeated as often as the slice of the
// budget allows.
//
// Verdicts (true positives only, whatever the scheduling and the load): after the call has returned,
//   - f was called with an index outside [0, n)                    ("call f exactly once for every index"),
//   - f was called more than once, or not at all, for an index in [0, n) although no call failed.
// Nothing is concluded from time: the spin barrier gives up after a bounded number of iterations (a
// worker that has not arrived only makes the round a less aimed one), the wall clock only bounds the
// number of rounds. f never panics (it checks the index before using it), so a stray index cannot take
// the test binary down here - which it does in the Map variants, where the library's own callback
// indexes the input slice: once a stray index has been seen the Map scenarios are skipped (outOfRange).
package c13

import (
	"context"
	"fmt"
	"runtime"
	"sync/atomic"
	"time"

	"github.com/bradenaw/juniper/parallel"
	"verifharness/vlib"
)

// StressCase is the replayable form: mode "do" | "dc", parallelism P, n, with or without the barrier,
// at most Rounds rounds.
type StressCase struct {
	Kind    string `json:"kind"` // "stress"
	Mode    string `json:"mode"`
	P       int    `json:"p"`
	N       int    `json:"n"`
	Barrier bool   `json:"barrier"`
	Rounds  int    `json:"rounds"`
}

type stressViol struct {
	what   string
	params map[string]interface{}
	round  int
}

// stressRun repeats the round until `until`, at most maxRounds times; returns the first violation.
func stressRun(sc StressCase, maxRounds int, until time.Time) (*stressViol, int) {
	slack := sc.P + 8
	counts := make([]int32, sc.N+slack)
	var stray int64 // an index outside counts (beyond n+slack or negative), +1; 0 = none
	var arrived int32
	p32 := int32(sc.P)
	body := func(i int) {
		if i < 0 || i >= len(counts) {
			atomic.StoreInt64(&stray, int64(i)+1)
			return
		}
		atomic.AddInt32(&counts[i], 1)
		if sc.Barrier && i < sc.P {
			// the first p indices are in progress on p different workers (a worker runs one call at a
			// time): hold them until all have arrived, or give up after a bounded spin
			atomic.AddInt32(&arrived, 1)
			for k := 0; k < 40000 && atomic.LoadInt32(&arrived) < p32; k++ {
				if k%128 == 127 {
					runtime.Gosched()
				}
			}
		}
	}
	rounds := 0
	for rounds < maxRounds && (rounds%64 != 0 || time.Now().Before(until)) {
		rounds++
		for i := range counts {
			counts[i] = 0
		}
		atomic.StoreInt32(&arrived, 0)
		var err error
		switch sc.Mode {
		case "do":
			parallel.Do(sc.P, sc.N, body)
		case "dc":
			err = parallel.DoContext(context.Background(), sc.P, sc.N, func(_ context.Context, i int) error {
				body(i)
				return nil
			})
		}
		// the call has returned: every call of f it started has finished (that is the barrier clause;
		// should it be broken, a count read here is still what f had been called with by now)
		if s := atomic.LoadInt64(&stray); s != 0 {
			return &stressViol{fmt.Sprintf("f was called with index %d outside [0,%d) (parallelism %d, round %d, real threads)", s-1, sc.N, sc.P, rounds),
				map[string]interface{}{"count": 1, "caller_ctx_ended": false}, rounds}, rounds
		}
		if err != nil {
			return &stressViol{fmt.Sprintf("DoContext returned %q although no call of f failed and the caller's context is context.Background() (n=%d, parallelism %d, round %d, real threads)", err, sc.N, sc.P, rounds),
				map[string]interface{}{"err": "other"}, rounds}, rounds
		}
		for i := len(counts) - 1; i >= 0; i-- {
			c := int(atomic.LoadInt32(&counts[i]))
			if i >= sc.N && c != 0 {
				return &stressViol{fmt.Sprintf("f was called with index %d outside [0,%d) (%d time(s); n=%d, parallelism %d, round %d, real threads; calls per index %v)", i, sc.N, c, sc.N, sc.P, rounds, counts[:sc.N+sc.P]),
					map[string]interface{}{"count": c, "caller_ctx_ended": false}, rounds}, rounds
			}
			if i < sc.N && c != 1 {
				return &stressViol{fmt.Sprintf("f was called %d times for index %d (n=%d, parallelism=%d) although no call failed (round %d, real threads; calls per index %v)", c, i, sc.N, sc.P, rounds, counts[:sc.N]),
					map[string]interface{}{"count": c, "caller_ctx_ended": false}, rounds}, rounds
			}
		}
	}
	return nil, rounds
}

func stressConfigs() []StressCase {
	var out []StressCase
	for _, mode := range []string{"do", "dc"} {
		for _, p := range []int{2, 3, 4, 8} {
			for _, extra := range []int{1, 2, 3} {
				out = append(out, StressCase{Kind: "stress", Mode: mode, P: p, N: p + extra, Barrier: true})
			}
		}
		// no barrier: trivial calls, the workers race through the whole range
		out = append(out, StressCase{Kind: "stress", Mode: mode, P: 4, N: 6}, StressCase{Kind: "stress", Mode: mode, P: 8, N: 24})
	}
	return out
}

// stressPhase runs every configuration for an equal share of `budget`; the first violation of a mode is
// recorded (source "monitor", kind "exactly-once" / "error-provenance", phase real-threads-stress).
// Returns whether a stray index was seen.
func stressPhase(res *vlib.Result, budget time.Duration) bool {
	if runtime.GOMAXPROCS(-1) < 2 {
		res.Count("stress-skipped-gomaxprocs-1")
		return false
	}
	cfgs := stressConfigs()
	slice := budget / time.Duration(len(cfgs))
	failed := map[string]bool{}
	strayIndex := false
	for _, sc := range cfgs {
		if failed[sc.Mode] {
			continue
		}
		v, rounds := stressRun(sc, 1<<30, time.Now().Add(slice))
		res.CountN("stress-rounds-"+sc.Mode, rounds)
		res.Case(fmt.Sprintf("stress %s %d %d %v", sc.Mode, sc.P, sc.N, sc.Barrier), rounds > 0, nil)
		if v == nil {
			continue
		}
		failed[sc.Mode] = true
		kind := "exactly-once"
		if _, isErr := v.params["err"]; isErr {
			kind = "error-provenance"
		}
		v.params["mode"] = sc.Mode
		v.params["phase"] = "real-threads-stress"
		sc.Rounds = 200000
		res.Count("monitor-failure.stress-" + kind)
		res.Fail(vlib.Failure{Source: "monitor", Kind: kind, Params: v.params, What: v.what, Case: sc})
		strayIndex = true
	}
	return strayIndex
}

// replayStress re-runs a stress case: at most Rounds rounds, at most two minutes.
func replayStress(sc StressCase) *stressViol {
	rounds := sc.Rounds
	if rounds <= 0 {
		rounds = 200000
	}
	v, _ := stressRun(sc, rounds, time.Now().Add(120*time.Second))
	return v
}
