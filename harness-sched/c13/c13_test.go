// C13: parallel.Do / DoContext / Map / MapContext — exactly once, bounded, positional, barrier,
// first error, cancellation.
//
// Two kinds of scenario, both inside testing/synctest bubbles (virtual time, deterministic
// quiescence):
//   - script: every call of f is gated; the script releases one call at a time (so late indices can
//     finish first), cancels the caller's context, and after each action the quiescent observation
//     (calls begun in order with the context state at entry, calls in progress, return value, out) is
//     (1) fed to the Lean LTS through `driver pardo` (state-set conformance, P <= 3, n <= 6; Do / DoContext against
//     the LTS of Model/ParDo.lean, Map / MapContext against the wrapper LTS of Model/ParWrap.lean) and
//     (2) checked by the monitors written from the property text.
//   - timed: per-index virtual latencies and scripted failures, n up to 10^4 and P up to 64; monitors only.
package c13

import (
	"context"
	"encoding/json"
	"errors"
	"fmt"
	"os"
	"runtime"
	"sort"
	"strings"
	"sync"
	"testing"
	"testing/synctest"
	"time"

	"github.com/bradenaw/juniper/parallel"
	"verifharness/vlib"
)

// ---------------------------------------------------------------------------------------------
// scenarios

type Step struct {
	Op string `json:"op"` // "ok" | "err" | "cancel" | "err2"
	I  int    `json:"i,omitempty"`
	V  int    `json:"v,omitempty"` // value (ok) or error number (err)
	// W (op "err"): what the error of the failing call wraps (errors.Is / errors.Unwrap): 0 nothing,
	// 1 context.Canceled, 2 context.DeadlineExceeded - a call that fails for reasons of its own with an
	// error that *looks like* a context error although neither the caller's context nor the one handed
	// to f has ended. To the library (and to the model: "end i err k") it is an error like any other.
	W int `json:"w,omitempty"`
	// err2: calls I and J are released together, failing with errors V and V2, before the next quiescent
	// point - both workers hold a failure at once (audit C13 F7)
	J  int `json:"j,omitempty"`
	V2 int `json:"v2,omitempty"`
}

type Scenario struct {
	Kind string `json:"kind"` // "script" | "timed"
	Mode string `json:"mode"` // "do" | "dc" | "map" | "mc"
	P    int    `json:"p"`
	N    int    `json:"n"`
	Gmp  int    `json:"gmp"` // GOMAXPROCS during the scenario when P <= 0 (0 = leave alone)
	// script
	Steps []Step `json:"steps,omitempty"`
	// timed
	LatMode    int    `json:"lat_mode,omitempty"` // 0 uniform random, 1 decreasing (late items first), 2 constant, 3 one slow call
	LatSeed    uint64 `json:"lat_seed,omitempty"`
	LatMax     int    `json:"lat_max,omitempty"`
	Fail       []int  `json:"fail,omitempty"`        // failing indices (error number = index+1)
	FailWrap   int    `json:"fail_wrap,omitempty"`   // what the errors of the failing calls wrap (Step.W)
	CancelAt   int    `json:"cancel_at,omitempty"`   // virtual ms; -1 already cancelled; 0 never
	CancelKind string `json:"cancel_kind,omitempty"` // "cancel" | "deadline"
}

func (sc *Scenario) ctxMode() bool { return sc.Mode == "dc" || sc.Mode == "mc" }

func (sc *Scenario) key() string {
	b, _ := json.Marshal(sc)
	return string(b)
}

func (sc *Scenario) latency(i int) time.Duration {
	if sc.LatMax <= 0 {
		return 0
	}
	switch sc.LatMode {
	case 1:
		return time.Duration(1+(sc.N-i)*sc.LatMax/(sc.N+1)) * time.Millisecond
	case 2:
		return time.Duration(sc.LatMax) * time.Millisecond
	case 3:
		if uint64(i) == sc.LatSeed%uint64(sc.N+1) {
			return time.Duration(sc.LatMax*50) * time.Millisecond
		}
		return time.Millisecond
	}
	r := vlib.NewRand(sc.LatSeed + uint64(i)*7919)
	return time.Duration(r.Intn(sc.LatMax+1)) * time.Millisecond
}

// ---------------------------------------------------------------------------------------------
// instrumented f

type callErr struct {
	k    int
	wrap error // nil, context.Canceled or context.DeadlineExceeded (Step.W)
}

func (e *callErr) Error() string {
	if e.wrap != nil {
		return fmt.Sprintf("call error %d (lookup abandoned: %v)", e.k, e.wrap)
	}
	return fmt.Sprintf("call error %d", e.k)
}

func (e *callErr) Unwrap() error { return e.wrap }

// mkErr: error number k wrapping what w says (Step.W).
func mkErr(k, w int) *callErr {
	switch w {
	case 1:
		return &callErr{k, context.Canceled}
	case 2:
		return &callErr{k, context.DeadlineExceeded}
	}
	return &callErr{k, nil}
}

func wrapName(w int) string {
	return [...]string{"nothing", "context.Canceled", "context.DeadlineExceeded"}[w%3]
}

type gateRes struct {
	v   int
	err error
}

type call struct {
	seq         int
	idx         int
	ctx         context.Context
	cancelled   bool // ctx already cancelled at entry
	callerLive  bool // caller's own context live at entry
	gate        chan gateRes
	ended       bool
	res         gateRes
	endTime     time.Time
	afterReturn bool
}

type Viol struct {
	Kind   string
	What   string
	Params map[string]interface{}
}

type env struct {
	sc                 *Scenario
	mu                 sync.Mutex
	calls              []*call
	gauge              int
	maxGauge           int
	returned           bool
	callerDoneAtReturn bool // the caller's own context was done when the call returned
	retErr             error
	retOut             []int
	callerCtx          context.Context
	viols              []Viol
	reqPar             int
	failTimes          []time.Time
	panicked           interface{}
}

func (e *env) viol(kind, what string, params map[string]interface{}) {
	if params == nil {
		params = map[string]interface{}{}
	}
	params["mode"] = e.sc.Mode
	e.viols = append(e.viols, Viol{kind, what, params})
}

// enter is the instrumented entry of f; it returns the call record.
func (e *env) enter(ctx context.Context, idx int) *call {
	e.mu.Lock()
	defer e.mu.Unlock()
	c := &call{seq: len(e.calls), idx: idx, ctx: ctx, gate: make(chan gateRes, 1)}
	if ctx != nil {
		c.cancelled = ctx.Err() != nil
	}
	c.callerLive = e.callerCtx == nil || e.callerCtx.Err() == nil
	c.afterReturn = e.returned
	e.calls = append(e.calls, c)
	e.gauge++
	if e.gauge > e.maxGauge {
		e.maxGauge = e.gauge
	}
	return c
}

func (e *env) leave(c *call, r gateRes) {
	e.mu.Lock()
	defer e.mu.Unlock()
	c.ended = true
	c.res = r
	c.endTime = time.Now()
	e.gauge--
	if r.err != nil {
		e.failTimes = append(e.failTimes, c.endTime)
	}
	// "cancel the context handed to the others": a call still running strictly after (virtual
	// time) another call returned an error must find its context cancelled (parallel path only:
	// in the sequential path no two calls overlap).
	if c.ctx != nil && e.sc.Kind == "timed" {
		for _, ft := range e.failTimes {
			if ft.Before(c.endTime) && c.ctx.Err() == nil {
				e.viol("not-cancelled", fmt.Sprintf("call %d ended at %v with a live context although another call had returned an error at %v", c.idx, c.endTime.UnixMilli(), ft.UnixMilli()), map[string]interface{}{"at": "return-of-call"})
				break
			}
		}
	}
}

// body is what f does between entry and exit.
func (e *env) body(c *call) gateRes {
	if e.sc.Kind == "script" {
		return <-c.gate
	}
	if d := e.sc.latency(c.idx); d > 0 {
		time.Sleep(d)
	}
	for _, f := range e.sc.Fail {
		if f == c.idx && e.sc.ctxMode() {
			return gateRes{err: mkErr(c.idx+1, e.sc.FailWrap)}
		}
	}
	return gateRes{v: 100 + c.idx}
}

// invoke runs the function under test; in[i] = 1000+i for the Map variants.
func (e *env) invoke(ctx context.Context) {
	sc := e.sc
	in := make([]int, sc.N)
	for i := range in {
		in[i] = 1000 + i
	}
	var err error
	var out []int
	switch sc.Mode {
	case "do":
		parallel.Do(sc.P, sc.N, func(i int) {
			c := e.enter(nil, i)
			r := e.body(c)
			e.leave(c, r)
		})
	case "dc":
		err = parallel.DoContext(ctx, sc.P, sc.N, func(ctx context.Context, i int) error {
			c := e.enter(ctx, i)
			r := e.body(c)
			e.leave(c, r)
			return r.err
		})
	case "map":
		out = parallel.Map(sc.P, in, func(x int) int {
			c := e.enter(nil, x-1000)
			r := e.body(c)
			e.leave(c, r)
			return r.v
		})
	case "mc":
		out, err = parallel.MapContext(ctx, sc.P, in, func(ctx context.Context, x int) (int, error) {
			c := e.enter(ctx, x-1000)
			r := e.body(c)
			e.leave(c, r)
			return r.v, r.err
		})
	}
	e.mu.Lock()
	e.returned = true
	e.callerDoneAtReturn = e.callerCtx != nil && e.callerCtx.Err() != nil
	e.retErr = err
	e.retOut = out
	if e.gauge != 0 {
		e.viol("barrier", fmt.Sprintf("returned while %d call(s) of f were still running", e.gauge), nil)
	}
	e.mu.Unlock()
}

func (e *env) outstanding() []*call {
	var o []*call
	for _, c := range e.calls {
		if !c.ended {
			o = append(o, c)
		}
	}
	return o
}

func (e *env) errName(err error) string {
	if err == nil {
		return "nil"
	}
	var ce *callErr
	if errors.As(err, &ce) {
		return fmt.Sprintf("E%d", ce.k)
	}
	if errors.Is(err, context.DeadlineExceeded) {
		return "ctxcaller"
	}
	if errors.Is(err, context.Canceled) {
		return "ctxlib"
	}
	return "other"
}

// observe renders the quiescent observation in the model driver's canonical form.
func (e *env) observe() string {
	e.mu.Lock()
	defer e.mu.Unlock()
	var b, run []string
	var runIdx []int
	for _, c := range e.calls {
		f := 0
		if c.cancelled {
			f = 1
		}
		b = append(b, fmt.Sprintf("%d:%d", c.idx, f))
		if !c.ended {
			runIdx = append(runIdx, c.idx)
		}
	}
	sort.Ints(runIdx)
	for _, i := range runIdx {
		run = append(run, fmt.Sprint(i))
	}
	ret := "-"
	out := ""
	if e.returned {
		ret = e.errName(e.retErr)
		// the slice Map / MapContext returned (Do / DoContext have none: the callback of the harness is
		// not part of the code under test)
		if e.retErr == nil && (e.sc.Mode == "map" || e.sc.Mode == "mc") {
			if e.retOut == nil {
				out = "nil"
			}
			var parts []string
			for _, v := range e.retOut {
				if v == 0 {
					parts = append(parts, "_")
				} else {
					parts = append(parts, fmt.Sprint(v))
				}
			}
			if e.retOut != nil {
				out = strings.Join(parts, ",")
			}
		}
	}
	// is the context of the calls in progress cancelled right now (they all hold the same context)
	cx := "-"
	if e.sc.ctxMode() {
		for _, c := range e.calls {
			if c.ended {
				continue
			}
			v := "0"
			if c.ctx.Err() != nil {
				v = "1"
			}
			if cx != "-" && cx != v {
				v = "?"
			}
			cx = v
		}
	}
	return fmt.Sprintf("b=[%s] run=[%s] cx=%s ret=%s out=[%s]", strings.Join(b, ","), strings.Join(run, ","), cx, ret, out)
}

// quiescentMonitors: clauses that can be evaluated at every quiescent point.
func (e *env) quiescentMonitors() {
	e.mu.Lock()
	defer e.mu.Unlock()
	if e.sc.ctxMode() {
		failed := false
		for _, c := range e.calls {
			if c.ended && c.res.err != nil {
				failed = true
			}
		}
		if failed {
			for _, c := range e.calls {
				if !c.ended && c.ctx.Err() == nil {
					e.viol("not-cancelled", fmt.Sprintf("a call returned an error but the context handed to running call %d is still live at quiescence", c.idx), map[string]interface{}{"at": "quiescence"})
					break
				}
			}
		}
	}
}

// finalMonitors: the property's clauses, evaluated after the call returned and the bubble settled.
func (e *env) finalMonitors() {
	e.mu.Lock()
	defer e.mu.Unlock()
	sc := e.sc
	if !e.returned {
		e.viol("no-return", "the call never returned although every call of f has returned", nil)
		return
	}
	count := map[int]int{}
	anyFail := false
	// the caller's context as it was when the call returned (timed scenarios look at the result a virtual
	// day later, when the one-hour deadline of the caller's context has passed in any case); a call that
	// panicked out or never returned: as it is now
	callerCancelledSeen := e.callerDoneAtReturn
	if e.panicked != nil {
		callerCancelledSeen = e.callerCtx != nil && e.callerCtx.Err() != nil
	}
	startedCancelled := 0
	for _, c := range e.calls {
		count[c.idx]++
		if c.res.err != nil {
			anyFail = true
		}
		if c.afterReturn {
			e.viol("call-after-return", fmt.Sprintf("f(%d) began after the call had returned", c.idx), nil)
		}
		if c.cancelled && c.callerLive {
			startedCancelled++
		}
	}
	// "call f exactly once for every index or element when no call fails": with a live caller context
	// unconditionally; with a cancelled one the call may stop early, but then it has to say so - a nil
	// result claims that everything was done (nil error => every index called exactly once).
	claimsDone := e.panicked == nil && e.retErr == nil
	if !anyFail && (!callerCancelledSeen || claimsDone) {
		why := "although no call failed"
		if callerCancelledSeen {
			why = "although no call failed and the result is nil (the caller's context ended, but the call did not report it)"
		}
		p := func(n int) map[string]interface{} {
			return map[string]interface{}{"count": n, "caller_ctx_ended": callerCancelledSeen}
		}
		for i := 0; i < sc.N; i++ {
			if count[i] != 1 {
				e.viol("exactly-once", fmt.Sprintf("f was called %d times for index %d (n=%d, parallelism=%d) %s", count[i], i, sc.N, sc.P, why), p(count[i]))
				break
			}
		}
		for i := range count {
			if i < 0 || i >= sc.N {
				e.viol("exactly-once", fmt.Sprintf("f was called with index %d outside [0,%d)", i, sc.N), p(count[i]))
				break
			}
		}
	}
	if e.maxGauge > e.reqPar {
		e.viol("bound", fmt.Sprintf("%d calls of f ran at the same time, requested parallelism %d (effective %d)", e.maxGauge, sc.P, e.reqPar), nil)
	}
	if (sc.Mode == "map" || sc.Mode == "mc") && e.retErr == nil {
		if len(e.retOut) != sc.N {
			e.viol("positional", fmt.Sprintf("result has length %d for %d inputs", len(e.retOut), sc.N), nil)
		} else {
			// "put result i at position i": after a nil return every position holds what the one call for
			// that element returned (a position no call produced is not a result)
			val := map[int]int{}
			for _, c := range e.calls {
				val[c.idx] = c.res.v
			}
			for i := 0; i < sc.N; i++ {
				if count[i] == 0 {
					e.viol("positional", fmt.Sprintf("the result is nil but out[%d] = %d was produced by no call of f (f was never called for element %d)", i, e.retOut[i], i), map[string]interface{}{"missing": true})
					break
				}
				if count[i] == 1 && e.retOut[i] != val[i] {
					e.viol("positional", fmt.Sprintf("out[%d] = %d but f(in[%d]) returned %d", i, e.retOut[i], i, val[i]), nil)
					break
				}
			}
		}
	}
	if sc.ctxMode() {
		if anyFail && e.retErr == nil {
			what, wp := "a call of f returned an error but the result is nil", map[string]interface{}{}
			for _, c := range e.calls {
				var ce *callErr
				if c.res.err != nil && errors.As(c.res.err, &ce) && ce.wrap != nil {
					what = fmt.Sprintf("call %d of f returned %q (an error of its own that wraps %v; the caller's context when the call returned: %s) but the result is nil", c.idx, c.res.err, ce.wrap, map[bool]string{false: "live", true: "ended"}[e.callerDoneAtReturn])
					wp["f_error_wraps"] = fmt.Sprint(ce.wrap)
					break
				}
			}
			e.viol("error-swallowed", what, wp)
		}
		if e.retErr != nil {
			ok := false
			for _, c := range e.calls {
				if c.res.err != nil && c.res.err == e.retErr {
					ok = true
				}
			}
			if !ok && e.callerCtx.Err() != nil && e.retErr == e.callerCtx.Err() {
				ok = true
			}
			if !ok {
				e.viol("error-provenance", fmt.Sprintf("returned %q, which no call of f returned and which is not the caller's context error (caller context: %v)", e.retErr, e.callerCtx.Err()), map[string]interface{}{"err": e.errName(e.retErr)})
			}
		}
		lim := e.reqPar - 1
		if lim < 0 {
			lim = 0
		}
		if startedCancelled > lim {
			e.viol("start-cancelled", fmt.Sprintf("%d calls began with an already-cancelled context while the caller's context was live (parallelism %d)", startedCancelled, e.reqPar), nil)
		}
	}
}

// ---------------------------------------------------------------------------------------------
// running one scenario

type Outcome struct {
	Lines    []string // driver lines (script scenarios): action / obs alternating
	Viols    []Viol
	Applied  []Step
	Panicked string
	// the call under test never returned: the bubble was left with blocked goroutines (the monitor
	// failures recorded up to then are kept, the harness goes on with the next scenario)
	Stuck string
	Stats map[string]int
}

func runScenario(t *testing.T, sc *Scenario, r *vlib.Rand, maxSteps int) *Outcome {
	out := &Outcome{Stats: map[string]int{}}
	if sc.P <= 0 && sc.Gmp > 0 {
		old := runtime.GOMAXPROCS(sc.Gmp)
		defer runtime.GOMAXPROCS(old)
	}
	gmp := runtime.GOMAXPROCS(-1)
	e := &env{sc: sc}
	e.reqPar = sc.P
	if sc.P <= 0 {
		e.reqPar = gmp
	}
	// A call that never returns leaves goroutines blocked for good; synctest.Test then panics in this
	// goroutine ("deadlock: ..."), which is recovered here. (A panic raised *inside* the bubble function
	// would kill the test binary and lose every failure recorded so far.)
	stuck, sv := vlib.Try(func() {
		e.bubble(t, sc, r, maxSteps, out, gmp)
	})
	if stuck {
		out.Stuck = fmt.Sprint(sv)
		e.finalMonitors()
	}
	out.Viols = append(out.Viols, e.viols...)
	if e.panicked != nil {
		out.Panicked = fmt.Sprint(e.panicked)
	}
	out.Stats["calls"] = len(e.calls)
	out.Stats["maxGauge"] = e.maxGauge
	for _, c := range e.calls {
		if c.cancelled {
			out.Stats["startedCancelled"]++
		}
		if c.res.err != nil {
			out.Stats["failedCalls"]++
		}
	}
	return out
}

func (e *env) bubble(t *testing.T, sc *Scenario, r *vlib.Rand, maxSteps int, out *Outcome, gmp int) {
	synctest.Test(t, func(t *testing.T) {
		start := time.Now()
		var callerCtx context.Context
		var cancel context.CancelFunc
		deadline := start.Add(time.Hour)
		if sc.Kind == "timed" && sc.CancelKind == "cancel" {
			callerCtx, cancel = context.WithCancel(context.Background())
		} else {
			if sc.Kind == "timed" && sc.CancelAt > 0 {
				deadline = start.Add(time.Duration(sc.CancelAt) * time.Millisecond)
			}
			callerCtx, cancel = context.WithDeadline(context.Background(), deadline)
		}
		defer cancel()
		if sc.Kind == "timed" && sc.CancelAt < 0 {
			if sc.CancelKind == "cancel" {
				cancel()
			} else {
				c2, cancel2 := context.WithDeadline(context.Background(), start)
				defer cancel2()
				callerCtx = c2
			}
		}
		if sc.ctxMode() {
			e.callerCtx = callerCtx
		}
		done := make(chan struct{})
		go func() {
			defer close(done)
			defer func() {
				if p := recover(); p != nil {
					e.mu.Lock()
					e.panicked = p
					e.returned = true
					e.mu.Unlock()
				}
			}()
			e.invoke(callerCtx)
		}()
		if sc.Kind == "timed" {
			if sc.CancelKind == "cancel" && sc.CancelAt > 0 {
				go func() {
					time.Sleep(time.Duration(sc.CancelAt) * time.Millisecond)
					cancel()
				}()
			}
			<-done
			// let virtual time pass: a call started after the return would show up now, and every
			// goroutine that the call left behind (a missing barrier) gets the time to finish
			time.Sleep(24 * time.Hour)
			synctest.Wait()
			e.finalMonitors()
			return
		}
		// script
		// Map / MapContext are checked against the wrapper model (`init map|mapctx`), whose observation
		// goes through the regenerated wrapper facts (index expressions, context handed to f, result slice)
		mode := sc.Mode
		if mode == "mc" {
			mode = "mapctx"
		}
		synctest.Wait()
		out.Lines = append(out.Lines, fmt.Sprintf("init %s %d %d %d", mode, sc.P, sc.N, gmp), "obs "+e.observe())
		e.quiescentMonitors()
		apply := func(st Step) bool {
			e.mu.Lock()
			switch st.Op {
			case "cancel":
				e.mu.Unlock()
				if !sc.ctxMode() || callerCtx.Err() != nil {
					return false
				}
				time.Sleep(time.Until(deadline))
				out.Lines = append(out.Lines, "cancel")
				return true
			case "ok", "err":
				var target *call
				for _, c := range e.calls {
					if !c.ended && c.idx == st.I {
						target = c
						break
					}
				}
				e.mu.Unlock()
				if target == nil || (st.Op == "err" && !sc.ctxMode()) {
					return false
				}
				if st.Op == "ok" {
					target.gate <- gateRes{v: st.V}
					out.Lines = append(out.Lines, fmt.Sprintf("end %d ok %d", st.I, st.V))
				} else {
					target.gate <- gateRes{err: mkErr(st.V, st.W)}
					out.Lines = append(out.Lines, fmt.Sprintf("end %d err %d", st.I, st.V))
				}
				return true
			case "err2":
				var t1, t2 *call
				for _, c := range e.calls {
					if !c.ended && c.idx == st.I && t1 == nil {
						t1 = c
					} else if !c.ended && c.idx == st.J && t2 == nil {
						t2 = c
					}
				}
				e.mu.Unlock()
				if t1 == nil || t2 == nil || st.I == st.J || !sc.ctxMode() {
					return false
				}
				// both are let go before anything else runs: the two failures are simultaneous
				t1.gate <- gateRes{err: mkErr(st.V, 0)}
				t2.gate <- gateRes{err: mkErr(st.V2, 0)}
				out.Lines = append(out.Lines, fmt.Sprintf("end2 %d err %d %d err %d", st.I, st.V, st.J, st.V2))
				return true
			}
			e.mu.Unlock()
			return false
		}
		after := func(st Step) {
			synctest.Wait()
			out.Applied = append(out.Applied, st)
			out.Lines = append(out.Lines, "obs "+e.observe())
			e.quiescentMonitors()
		}
		for _, st := range sc.Steps {
			if apply(st) {
				after(st)
			}
		}
		// generated continuation (r != nil): choose among the calls in progress
		for n := 0; r != nil && n < maxSteps; n++ {
			e.mu.Lock()
			o := e.outstanding()
			ret := e.returned
			e.mu.Unlock()
			if ret || len(o) == 0 {
				break
			}
			var st Step
			switch {
			case sc.ctxMode() && callerCtx.Err() == nil && r.Chance(1, 12):
				st = Step{Op: "cancel"}
			case sc.ctxMode() && len(o) >= 2 && r.Chance(1, 8):
				a := r.Intn(len(o))
				b := (a + 1 + r.Intn(len(o)-1)) % len(o)
				st = Step{Op: "err2", I: o[a].idx, V: o[a].idx + 1, J: o[b].idx, V2: o[b].idx + 1}
			case sc.ctxMode() && r.Chance(1, 6):
				c := o[r.Intn(len(o))]
				st = Step{Op: "err", I: c.idx, V: c.idx + 1, W: []int{0, 0, 1, 1, 2}[r.Intn(5)]}
			default:
				// late items first more often than not
				c := o[len(o)-1]
				if r.Chance(1, 3) {
					c = o[r.Intn(len(o))]
				}
				st = Step{Op: "ok", I: c.idx, V: 100 + c.idx}
			}
			if apply(st) {
				after(st)
			}
		}
		// drain: release what is still running
		for n := 0; n < 4*sc.N+64; n++ {
			e.mu.Lock()
			o := e.outstanding()
			e.mu.Unlock()
			if len(o) == 0 {
				break
			}
			st := Step{Op: "ok", I: o[0].idx, V: 100 + o[0].idx}
			if apply(st) {
				after(st)
			}
		}
		e.mu.Lock()
		ret := e.returned
		e.mu.Unlock()
		if ret {
			<-done
		}
		e.finalMonitors()
		// if the call never returned (already recorded as "no-return"), the bubble is left with its
		// goroutines blocked: synctest.Test panics in the caller, which runScenario recovers
	})
}

// ---------------------------------------------------------------------------------------------
// generators

func genScript(r *vlib.Rand) *Scenario {
	sc := &Scenario{Kind: "script"}
	sc.Mode = []string{"do", "dc", "dc", "dc", "map", "mc", "mc"}[r.Intn(7)]
	sc.P = []int{-1, 0, 1, 2, 2, 3, 3, 5}[r.Intn(8)]
	sc.N = []int{0, 1, 2, 3, 4, 5, 6}[r.Intn(7)]
	if sc.P <= 0 {
		sc.Gmp = r.Range(1, 3)
	}
	if sc.P > 3 && sc.N > 3 {
		sc.N = r.Range(0, 3) // keep the effective parallelism <= 3 (state-set size of the conformance)
	}
	if sc.ctxMode() && r.Chance(1, 10) {
		sc.Steps = append(sc.Steps, Step{Op: "cancel"})
	}
	return sc
}

func genTimed(r *vlib.Rand, big bool) *Scenario {
	sc := &Scenario{Kind: "timed"}
	sc.Mode = []string{"do", "dc", "dc", "dc", "map", "mc", "mc"}[r.Intn(7)]
	sc.P = []int{-3, 0, 1, 2, 3, 4, 8, 16, 64}[r.Intn(9)]
	p := sc.P
	if p <= 0 {
		sc.Gmp = r.Range(1, 6)
		p = sc.Gmp
	}
	switch r.Intn(6) {
	case 0:
		sc.N = r.Intn(2)
	case 1:
		sc.N = r.Intn(p + 1) // < P (or = P)
	case 2:
		sc.N = p + r.Intn(3)
	case 3:
		sc.N = p * r.Range(2, 12)
	default:
		sc.N = r.Range(0, 200)
	}
	if big && r.Chance(1, 4) {
		sc.N = r.Range(2000, 10000)
	}
	if r.Chance(1, 8) {
		sc.P = sc.N + r.Range(1, 5) // > n
	}
	sc.LatMode = r.Intn(4)
	sc.LatSeed = r.Uint64() >> 8
	sc.LatMax = []int{0, 1, 5, 20}[r.Intn(4)]
	if sc.ctxMode() && sc.N > 0 {
		switch r.Intn(5) {
		case 0:
			sc.Fail = []int{r.Intn(sc.N)}
		case 1:
			for i := 0; i < sc.N; i++ {
				if r.Chance(1, 4) {
					sc.Fail = append(sc.Fail, i)
				}
			}
		case 2:
			for i := 0; i < sc.N && i < 300; i++ {
				sc.Fail = append(sc.Fail, i)
			}
		}
		if len(sc.Fail) > 300 {
			sc.Fail = sc.Fail[:300]
		}
		if len(sc.Fail) > 0 && r.Chance(1, 2) {
			sc.FailWrap = r.Range(1, 2)
		}
		switch r.Intn(6) {
		case 0:
			sc.CancelAt = -1
		case 1, 2:
			sc.CancelAt = 1 + r.Intn(sc.LatMax*3+2)
		}
		sc.CancelKind = []string{"cancel", "deadline"}[r.Intn(2)]
	}
	return sc
}

// ---------------------------------------------------------------------------------------------
// checking one scenario: monitors + conformance, shrinking

func nontrivial(sc *Scenario, o *Outcome) bool {
	return sc.N >= 2 && o.Stats["maxGauge"] >= 2 || o.Stats["failedCalls"] > 0 || o.Stats["startedCancelled"] > 0
}

func conform(m *vlib.Model, lines []string) (int, string, error) {
	outs, err := m.Run(lines)
	if err != nil {
		return -1, "", err
	}
	for i, o := range outs {
		if !strings.HasPrefix(o, "ok ") {
			return i, o, nil
		}
	}
	return -1, "", nil
}

// outOfRange is set once a scenario has shown f being called with an index outside [0,n): the Map
// variants would then index their input slice out of range inside a library goroutine and take the
// whole test binary down, so they are skipped from then on (the violation is already recorded).
var outOfRange bool

func check(t *testing.T, sc *Scenario, r *vlib.Rand, m *vlib.Model, res *vlib.Result) *Outcome {
	if outOfRange && (sc.Mode == "map" || sc.Mode == "mc") {
		return &Outcome{Stats: map[string]int{}}
	}
	var fork *vlib.Rand
	if r != nil {
		fork = r.Fork()
	}
	o := runScenario(t, sc, fork, 40)
	if sc.Kind == "script" {
		// the realised script replays without the generator
		sc.Steps = o.Applied
	}
	if o.Panicked != "" && !(sc.N < 0) {
		res.Fail(vlib.Failure{Source: "monitor", Kind: "panic", Params: map[string]interface{}{"mode": sc.Mode}, What: "panic: " + o.Panicked, Case: sc})
	}
	for _, v := range o.Viols {
		if v.Kind == "exactly-once" && strings.Contains(v.What, "outside") {
			outOfRange = true
		}
		small := sc
		if sc.Kind == "script" && len(sc.Steps) > 1 && o.Stuck == "" {
			steps := vlib.Shrink(sc.Steps, func(c []Step) bool {
				s2 := *sc
				s2.Steps = c
				o2 := runScenario(t, &s2, nil, 0)
				for _, v2 := range o2.Viols {
					if v2.Kind == v.Kind {
						return true
					}
				}
				return false
			})
			// an error that wraps nothing where the failure does not depend on what it wraps
			for i := range steps {
				if steps[i].W != 0 {
					alt := append([]Step(nil), steps...)
					alt[i].W = 0
					s3 := *sc
					s3.Steps = alt
					for _, v2 := range runScenario(t, &s3, nil, 0).Viols {
						if v2.Kind == v.Kind {
							steps = alt
							break
						}
					}
				}
			}
			s2 := *sc
			s2.Steps = steps
			small = &s2
		} else if sc.Kind == "timed" && o.Stuck == "" {
			small = shrinkTimed(t, sc, v.Kind)
		}
		what, params := v.What, v.Params
		if small != sc {
			// describe the shrunk case, not the one it was found on
			for _, v2 := range runScenario(t, small, nil, 0).Viols {
				if v2.Kind == v.Kind {
					what, params = v2.What, v2.Params
					break
				}
			}
		}
		res.Fail(vlib.Failure{Source: "monitor", Kind: v.Kind, Params: params, What: what, Case: small})
	}
	if m != nil && sc.Kind == "script" && len(o.Lines) > 0 {
		i, got, err := conform(m, o.Lines)
		if err != nil {
			res.ModelMissing = err.Error()
		} else {
			res.Traces++
			if i >= 0 {
				act := ""
				if i > 0 {
					act = o.Lines[i-1]
				}
				res.Fail(vlib.Failure{Source: "correspondence", Kind: "pardo-trace-not-in-model",
					What: fmt.Sprintf("after action %q the implementation shows %q; model: %s", act, o.Lines[i], got), Case: sc})
			}
		}
	}
	return o
}

// shrinkTimed simplifies a failing timed scenario (fewer elements, plainer parallelism, fewer failing
// calls, no latencies) as long as the same monitor kind still fires; bounded number of runs.
func shrinkTimed(t *testing.T, sc *Scenario, kind string) *Scenario {
	cur := *sc
	runs := 0
	fails := func(c *Scenario) bool {
		if runs >= 60 {
			return false
		}
		runs++
		o := runScenario(t, c, nil, 0)
		for _, v := range o.Viols {
			if v.Kind == kind {
				return true
			}
		}
		return false
	}
	for changed := true; changed && runs < 60; {
		changed = false
		try := func(mod func(c *Scenario)) {
			c := cur
			c.Fail = append([]int(nil), cur.Fail...)
			mod(&c)
			var keep []int
			for _, f := range c.Fail {
				if f < c.N {
					keep = append(keep, f)
				}
			}
			c.Fail = keep
			if c.key() == cur.key() {
				return
			}
			if fails(&c) {
				cur, changed = c, true
			}
		}
		for _, n := range []int{0, 1, 2, 3, 4, cur.N / 2, cur.N - 1} {
			if n >= 0 && n < cur.N {
				n := n
				before := cur.N
				try(func(c *Scenario) { c.N = n })
				if cur.N != before {
					break
				}
			}
		}
		if len(cur.Fail) > 0 {
			try(func(c *Scenario) { c.Fail = nil })
		}
		if cur.FailWrap != 0 {
			try(func(c *Scenario) { c.FailWrap = 0 })
		}
		if len(cur.Fail) > 1 {
			try(func(c *Scenario) { c.Fail = c.Fail[:1] })
			try(func(c *Scenario) { c.Fail = c.Fail[len(c.Fail)-1:] })
		}
		if cur.LatMax != 0 {
			try(func(c *Scenario) { c.LatMax, c.LatMode, c.LatSeed = 0, 0, 0 })
		}
		if cur.LatMode != 2 && cur.LatMax != 0 {
			try(func(c *Scenario) { c.LatMode, c.LatSeed = 2, 0 })
		}
		if cur.P != 1 {
			try(func(c *Scenario) { c.P, c.Gmp = 1, 0 })
		}
		if cur.P > 2 {
			try(func(c *Scenario) { c.P = 2 })
		}
		if cur.P <= 0 && cur.Gmp > 1 {
			try(func(c *Scenario) { c.Gmp = 1 })
			try(func(c *Scenario) { c.Gmp = 2 })
		}
		if cur.CancelAt > 1 {
			try(func(c *Scenario) { c.CancelAt = 1 })
		}
	}
	return &cur
}

// directedSequential: the sequential path (effective parallelism 1: parallelism == 1; n == 1 with any
// parallelism; parallelism <= 0 under GOMAXPROCS 1) crossed with a caller context that is already
// cancelled / is cancelled while call k is in progress, every call succeeding. Script form (gated calls,
// conformance with the LTS) and timed form (constant latency 2ms, cancellation by cancel() or by
// deadline at 2k+1 ms). Parallel rows with the same cancellation points for contrast.
func directedSequential() []Scenario {
	type cfg struct{ p, n, gmp int }
	var cfgs []cfg
	for n := 1; n <= 4; n++ {
		cfgs = append(cfgs, cfg{1, n, 0}, cfg{0, n, 1}, cfg{-1, n, 1})
	}
	for _, p := range []int{2, 3, 7} {
		cfgs = append(cfgs, cfg{p, 1, 0})
	}
	cfgs = append(cfgs, cfg{0, 1, 2}, cfg{-1, 1, 3}, cfg{2, 3, 0}, cfg{0, 3, 2})
	var out []Scenario
	for _, mode := range []string{"dc", "mc"} {
		for _, c := range cfgs {
			for k := 0; k < c.n; k++ {
				sc := Scenario{Kind: "script", Mode: mode, P: c.p, N: c.n, Gmp: c.gmp}
				for i := 0; i < k; i++ {
					sc.Steps = append(sc.Steps, Step{Op: "ok", I: i, V: 100 + i})
				}
				sc.Steps = append(sc.Steps, Step{Op: "cancel"})
				out = append(out, sc)
			}
			for _, ck := range []string{"cancel", "deadline"} {
				for k := -1; k < c.n; k++ {
					sc := Scenario{Kind: "timed", Mode: mode, P: c.p, N: c.n, Gmp: c.gmp, LatMode: 2, LatMax: 2, CancelKind: ck, CancelAt: -1}
					if k >= 0 {
						sc.CancelAt = 2*k + 1
					}
					out = append(out, sc)
				}
			}
		}
	}
	return out
}

// directedCancelOthers: "if any call fails, cancel the context handed to the others" on the parallel path,
// as scripts (every call of f gated, conformance with the LTS / the wrapper LTS, the quiescent
// `not-cancelled` monitor): with parallelism p, p calls are parked inside f; `pre` of them return a value
// first (so that later indices are in progress), then call k fails while the others are still parked in f
// holding the context they were handed - at the next quiescent point each of them has to find that
// context cancelled. Afterwards the parked calls are released (the drain of the script runner). For
// MapContext the context in question is the one the wrapper's callback hands to the user's f.
func directedCancelOthers() []Scenario {
	var out []Scenario
	for _, mode := range []string{"mc", "dc"} {
		for _, pn := range [][3]int{{2, 2, 0}, {2, 3, 0}, {2, 4, 0}, {3, 3, 0}, {3, 5, 0}, {0, 3, 2}, {-1, 4, 3}, {5, 3, 0}} {
			p, n, gmp := pn[0], pn[1], pn[2]
			eff := p
			if p <= 0 {
				eff = gmp
			}
			if eff > n {
				eff = n
			}
			for pre := 0; pre <= 1 && pre+eff <= n; pre++ {
				// after `pre` successful returns of call 0.., the calls in progress are pre .. pre+eff-1
				for k := pre; k < pre+eff; k++ {
					// w: the failing call's error wraps nothing / context.Canceled / context.DeadlineExceeded
					// (the first failure, caller's context live: that error is what has to come back)
					for w := 0; w <= 2; w++ {
						sc := Scenario{Kind: "script", Mode: mode, P: p, N: n, Gmp: gmp}
						for i := 0; i < pre; i++ {
							sc.Steps = append(sc.Steps, Step{Op: "ok", I: i, V: 100 + i})
						}
						sc.Steps = append(sc.Steps, Step{Op: "err", I: k, V: k + 1, W: w})
						out = append(out, sc)
					}
				}
			}
		}
	}
	return out
}

// directedTwoFailures: two (of the p parked) calls fail at the same quiescent point (audit C13 F7): the
// model states with two workers holding an error at once - reachable, never produced by one-release-per-
// action scripts - are now on the implementation side of the inclusion as well. The call must return one
// of the two errors (whichever won), the remaining parked calls must find their context cancelled, and
// the observed trace must be a trace of the LTS / the wrapper LTS.
func directedTwoFailures() []Scenario {
	var out []Scenario
	for _, mode := range []string{"dc", "mc"} {
		for _, pn := range [][3]int{{2, 2, 0}, {2, 4, 0}, {3, 3, 0}, {3, 5, 0}, {3, 6, 0}, {0, 4, 3}, {5, 3, 0}} {
			p, n, gmp := pn[0], pn[1], pn[2]
			eff := p
			if p <= 0 {
				eff = gmp
			}
			if eff > n {
				eff = n
			}
			for pre := 0; pre <= 1 && pre+eff <= n; pre++ {
				for a := pre; a < pre+eff; a++ {
					for b := pre; b < pre+eff; b++ {
						if a == b {
							continue
						}
						sc := Scenario{Kind: "script", Mode: mode, P: p, N: n, Gmp: gmp}
						for i := 0; i < pre; i++ {
							sc.Steps = append(sc.Steps, Step{Op: "ok", I: i, V: 100 + i})
						}
						sc.Steps = append(sc.Steps, Step{Op: "err2", I: a, V: a + 1, J: b, V2: b + 1})
						out = append(out, sc)
					}
				}
			}
		}
	}
	return out
}

func TestVerif(t *testing.T) {
	env := vlib.GetEnv()
	res := vlib.NewResult("C13", "script scenarios (every call of f gated, released one at a time in random/late-first order, with failures "+
		"and caller cancellation; n in 0..6, parallelism in {-1,0,1,2,3,5}) checked against the Lean LTS and the monitors, plus timed scenarios "+
		"(virtual latencies, n up to 10^4, parallelism up to 64) checked by the monitors; a case is non-trivial if at least two calls overlapped "+
		"(n >= 2) or a call failed or a call began with a cancelled context; distinct = different scenario record")
	m, err := vlib.StartModel(env.Driver, "pardo")
	if err != nil {
		res.ModelMissing = err.Error()
		m = nil
	}
	defer m.Close()

	if env.Replay != "" {
		var sc Scenario
		if err := vlib.ReplayCase(env.Replay, &sc); err != nil {
			fmt.Println("cannot read replay:", err)
			os.Exit(2)
		}
		if sc.Kind == "mixed" {
			var mc MixedCase
			if err := vlib.ReplayCase(env.Replay, &mc); err != nil {
				fmt.Println("cannot read replay:", err)
				os.Exit(2)
			}
			fmt.Printf("replay of %+v (real threads, in a child process)\n", mc)
			if !replayMixed(mc) {
				os.Exit(1)
			}
			return
		}
		if sc.Kind == "stress" {
			var st StressCase
			if err := vlib.ReplayCase(env.Replay, &st); err != nil {
				fmt.Println("cannot read replay:", err)
				os.Exit(2)
			}
			fmt.Printf("replay of %+v (real threads, at most %d rounds / 2 min)\n", st, st.Rounds)
			if v := replayStress(st); v != nil {
				fmt.Printf("monitor: FAILS: %s\n", v.what)
				os.Exit(1)
			}
			fmt.Println("no clause violated")
			return
		}
		o := runScenario(t, &sc, nil, 0)
		fmt.Printf("replay of %s\n", sc.key())
		for _, l := range o.Lines {
			fmt.Println("  ", l)
		}
		for _, v := range o.Viols {
			fmt.Printf("monitor: %s: %s\n", v.Kind, v.What)
		}
		if o.Stuck != "" {
			fmt.Println("the call never returned:", o.Stuck)
		}
		if m != nil && len(o.Lines) > 0 {
			if i, got, err := conform(m, o.Lines); err == nil && i >= 0 {
				fmt.Printf("correspondence: line %d %q: %s\n", i, o.Lines[i], got)
			} else if err == nil {
				fmt.Println("correspondence: the observed trace is a trace of the model")
			}
		}
		if len(o.Viols) > 0 {
			os.Exit(1)
		}
		return
	}

	// real-threads phase first (stress_test.go): the tail of the index hand-out with all workers coming
	// back at once. A stray index found here is written out at once and switches the Map variants off (in
	// them a stray index is an index-out-of-range panic inside a library goroutine, which nothing recovers).
	stressBudget := 1500 * time.Millisecond
	if env.Thorough() || env.Deep {
		stressBudget = 12 * time.Second
	}
	if stressPhase(res, stressBudget) {
		outOfRange = true
		res.Write(env.Out)
	}
	// failing calls whose errors are of different dynamic types, each case in a child process (mixed_test.go)
	mixedPhase(res, env.Out)
	// probe: Do/DoContext on small configurations before anything else (see outOfRange)
	for _, mode := range []string{"do", "dc"} {
		for p := -1; p <= 3; p++ {
			for n := 0; n <= 4; n++ {
				sc := &Scenario{Kind: "timed", Mode: mode, P: p, N: n, Gmp: 2, LatMax: 1, LatMode: 1}
				res.Count("probe")
				o := check(t, sc, nil, m, res)
				res.Case(sc.key(), nontrivial(sc, o), nil)
			}
		}
	}
	// sweep: every single failing index, caller already cancelled / cancelled mid-flight, for small n
	// and parallelism below, at and above n, two latency patterns (timed scenarios)
	for _, mode := range []string{"dc", "mc"} {
		for _, p := range []int{-1, 1, 2, 3, 7} {
			for n := 0; n <= 5; n++ {
				for _, lm := range []int{0, 1} {
					base := Scenario{Kind: "timed", Mode: mode, P: p, N: n, Gmp: 2, LatMode: lm, LatSeed: env.Seed, LatMax: 5, CancelKind: "deadline"}
					list := []Scenario{base}
					for k := 0; k < n; k++ {
						sc := base
						sc.Fail = []int{k}
						list = append(list, sc)
						sc.FailWrap = 1 + (k+n+lm)%2 // the same failure with an error that wraps a context error
						list = append(list, sc)
					}
					for _, c := range []int{-1, 3} {
						sc := base
						sc.CancelAt = c
						list = append(list, sc)
					}
					for i := range list {
						res.Count("sweep")
						o := check(t, &list[i], nil, m, res)
						res.Case(list[i].key(), nontrivial(&list[i], o), nil)
					}
				}
			}
		}
	}
	// the sequential path under a cancelled / mid-flight-cancelled caller context, every call succeeding
	for _, sc := range directedSequential() {
		sc := sc
		res.Count("directed-sequential-" + sc.Kind)
		if sc.CancelAt < 0 {
			res.Count("directed-sequential-already-cancelled")
		}
		o := check(t, &sc, nil, m, res)
		res.Case(sc.key(), nontrivial(&sc, o), nil)
	}
	// a call fails while the others are parked in f: they must find their context cancelled
	for _, sc := range directedCancelOthers() {
		sc := sc
		res.Count("directed-cancel-others-" + sc.Mode)
		o := check(t, &sc, nil, m, res)
		res.Case(sc.key(), nontrivial(&sc, o), nil)
	}
	// two calls fail at the same quiescent point
	for _, sc := range directedTwoFailures() {
		sc := sc
		res.Count("directed-two-failures-" + sc.Mode)
		o := check(t, &sc, nil, m, res)
		res.Case(sc.key(), nontrivial(&sc, o), nil)
	}
	for _, f := range vlib.CorpusFiles(env.Corpus, ".json") {
		b, err := os.ReadFile(f)
		if err != nil {
			continue
		}
		var sc Scenario
		if json.Unmarshal(b, &sc) != nil {
			t.Fatalf("bad corpus file %s", f)
		}
		res.Count("corpus")
		o := check(t, &sc, nil, m, res)
		res.Case(sc.key(), nontrivial(&sc, o), nil)
	}
	r := vlib.NewRand(env.Seed)
	deadline := env.Deadline()
	big := env.Thorough() || env.Deep
	maxCases := 12000
	if big {
		maxCases = 200000
	}
	for i := 0; i < maxCases && time.Now().Before(deadline); i++ {
		var sc *Scenario
		var rr *vlib.Rand
		if i%3 != 2 {
			sc = genScript(r.Fork())
			rr = r.Fork()
			res.Count("script")
		} else {
			sc = genTimed(r.Fork(), big)
			res.Count("timed")
			if sc.N >= 2000 {
				res.Count("timed-n>=2000")
			}
		}
		o := check(t, sc, rr, m, res)
		res.Count("mode-" + sc.Mode)
		res.CountN("calls-of-f", o.Stats["calls"])
		if o.Stats["failedCalls"] > 0 {
			res.Count("cases-with-failed-call")
		}
		if o.Stats["startedCancelled"] > 0 {
			res.Count("cases-with-call-started-cancelled")
		}
		if o.Stats["maxGauge"] >= 2 {
			res.Count("cases-with-overlap")
		}
		if sc.P <= 0 {
			res.Count("parallelism<=0")
		} else if sc.P > sc.N {
			res.Count("parallelism>n")
		}
		if sc.N == 0 {
			res.Count("n=0")
		}
		var sample interface{}
		if len(o.Lines) > 0 && len(o.Lines) < 14 {
			sample = map[string]interface{}{"scenario": sc, "trace": o.Lines}
		}
		res.Case(sc.key(), nontrivial(sc, o), sample)
	}
	res.Write(env.Out)
}

// TestVerifRace: supporting evidence for the "effects visible" clause. Built with -race, outside any
// bubble: every call writes a plain (non-atomic) slot, the caller reads all slots after the return.
// A missing happens-before edge between the workers and the return is reported by the race detector
// (non-zero exit of this binary = broken tie).
func TestVerifRace(t *testing.T) {
	env := vlib.GetEnv()
	res := vlib.NewResult("C13", "-race stress: plain writes inside f, plain reads after the return; non-trivial if n >= 2 and parallelism != 1")
	r := vlib.NewRand(env.Seed + 77)
	deadline := time.Now().Add(time.Duration(env.BudgetMs/6) * time.Millisecond)
	for it := 0; it < 20000 && time.Now().Before(deadline); it++ {
		n := r.Range(0, 300)
		p := []int{-1, 0, 1, 2, 3, 8, 64}[r.Intn(7)]
		mode := r.Intn(4)
		eff := make([]int, n)
		in := make([]int, n)
		for i := range in {
			in[i] = i
		}
		failAt := -1
		if mode%2 == 1 && n > 0 && r.Chance(1, 3) {
			failAt = r.Intn(n)
		}
		var out []int
		var err error
		// one run in four of the context variants hands over an already cancelled context: a nil result
		// still claims that every call was made
		bg := context.Background()
		if mode%2 == 1 && r.Chance(1, 4) {
			c, cancel := context.WithCancel(bg)
			cancel()
			bg = c
			res.Count("race-caller-cancelled")
		}
		switch mode {
		case 0:
			parallel.Do(p, n, func(i int) { eff[i] = i + 1 })
		case 1:
			err = parallel.DoContext(bg, p, n, func(ctx context.Context, i int) error {
				eff[i] = i + 1
				if i == failAt {
					return &callErr{k: i}
				}
				return nil
			})
		case 2:
			out = parallel.Map(p, in, func(x int) int { eff[x] = x + 1; return x * 2 })
		case 3:
			out, err = parallel.MapContext(bg, p, in, func(ctx context.Context, x int) (int, error) {
				eff[x] = x + 1
				if x == failAt {
					return 0, &callErr{k: x}
				}
				return x * 2, nil
			})
		}
		sum := 0
		for i := range eff {
			sum += eff[i] // plain read: races with a worker that is still running
		}
		if err == nil {
			for i := range eff {
				if eff[i] != i+1 {
					res.Fail(vlib.Failure{Source: "monitor", Kind: "effects-visible", What: fmt.Sprintf("effect of call %d not visible after return (mode %d, n=%d, p=%d)", i, mode, n, p),
						Case: map[string]int{"mode": mode, "n": n, "p": p}})
					break
				}
			}
			for i := range out {
				if out[i] != 2*i {
					res.Fail(vlib.Failure{Source: "monitor", Kind: "positional", What: fmt.Sprintf("out[%d]=%d", i, out[i]), Case: map[string]int{"mode": mode, "n": n, "p": p}})
					break
				}
			}
		}
		res.Count(fmt.Sprintf("race-mode-%d", mode))
		res.Case(fmt.Sprintf("%d/%d/%d/%d", mode, n, p, failAt), n >= 2 && p != 1, nil)
		_ = sum
	}
	res.Write(env.Out)
}
