// Several calls of f fail in the same DoContext / MapContext call with errors of *different dynamic types*
// (the text: "all positions and multiplicities of failing calls" - nothing says the calls' errors are of one
// type). Every other phase fails its calls with *callErr values only.
//
// Real threads, no bubble, and each case in a child process of its own (this test binary re-executed with
// VERIF_C13_MIXED_CHILD set): what goes wrong here may go wrong inside a goroutine the library started, where
// nothing can recover it, and the finding must not die with the process that found it.
//
// Shapes. rendezvous: the first min(p, n) calls - one per worker - meet (bounded wait), then every one of them
// returns an error, call i of type i mod 4 out of {*callErr, *errors.errorString, *fmt.wrapError, *fs.PathError}.
// bystander: call 0 waits until call 1 runs, then fails with a *callErr; call 1 waits for its context to end and
// returns that context's error (*errors.errorString).
// Verdict (child, after the call returned): the result is one of the very error values a call returned.
package c13

import (
	"bytes"
	"context"
	"encoding/json"
	"errors"
	"fmt"
	"io/fs"
	"os"
	"os/exec"
	"runtime"
	"strings"
	"sync"
	"testing"
	"time"

	"github.com/bradenaw/juniper/parallel"
	"verifharness/vlib"
)

const mixedEnv = "VERIF_C13_MIXED_CHILD"

type MixedCase struct {
	Kind  string `json:"kind"` // "mixed"
	Mode  string `json:"mode"` // "dc" | "mc"
	P     int    `json:"p"`
	N     int    `json:"n"`
	Shape string `json:"shape"` // "rendezvous" | "bystander"
}

func TestMain(m *testing.M) {
	if spec := os.Getenv(mixedEnv); spec != "" {
		var mc MixedCase
		if err := json.Unmarshal([]byte(spec), &mc); err != nil {
			fmt.Println("HARNESS bad case:", err)
			os.Exit(2)
		}
		os.Exit(mixedChild(mc))
	}
	os.Exit(m.Run())
}

func mixedErr(i int) error {
	switch i % 4 {
	case 1:
		return errors.New(fmt.Sprintf("call %d: plain failure", i))
	case 2:
		return fmt.Errorf("call %d: %w", i, &callErr{k: i + 1})
	case 3:
		return &fs.PathError{Op: "open", Path: fmt.Sprintf("/item/%d", i), Err: fs.ErrNotExist}
	}
	return &callErr{k: i + 1}
}

// mixedChild runs one case in this process and prints the verdict: "OK ..." (exit 0) or "FAIL kind|what" (exit 3).
func mixedChild(mc MixedCase) int {
	var mu sync.Mutex
	returned := map[int]error{}
	meet := mc.P
	if meet <= 0 {
		meet = runtime.GOMAXPROCS(0)
	}
	if mc.N < meet {
		meet = mc.N
	}
	arrived := make(chan struct{}, mc.N+1)
	release := make(chan struct{})
	var once sync.Once
	go func() { // releases the rendezvous when `meet` calls are in, or after a bounded wait
		t := time.After(5 * time.Second)
		for k := 0; k < meet; k++ {
			select {
			case <-arrived:
			case <-t:
				k = meet
			}
		}
		once.Do(func() { close(release) })
	}()
	oneRuns := make(chan struct{})
	var oneOnce sync.Once
	f := func(ctx context.Context, i int) (err error) {
		defer func() {
			mu.Lock()
			returned[i] = err
			mu.Unlock()
		}()
		switch mc.Shape {
		case "bystander":
			switch i {
			case 0:
				select {
				case <-oneRuns:
				case <-time.After(5 * time.Second):
				}
				return &callErr{k: 1}
			case 1:
				oneOnce.Do(func() { close(oneRuns) })
				select {
				case <-ctx.Done():
					return ctx.Err()
				case <-time.After(10 * time.Second):
					return nil
				}
			}
			return nil
		default:
			if i >= meet {
				return nil
			}
			arrived <- struct{}{}
			<-release
			return mixedErr(i)
		}
	}
	var err error
	if mc.Mode == "mc" {
		in := make([]int, mc.N)
		for i := range in {
			in[i] = i
		}
		_, err = parallel.MapContext(context.Background(), mc.P, in, func(ctx context.Context, x int) (int, error) { return x, f(ctx, x) })
	} else {
		err = parallel.DoContext(context.Background(), mc.P, mc.N, f)
	}
	mu.Lock()
	defer mu.Unlock()
	var failed []string
	match := false
	for i := 0; i < mc.N; i++ {
		if e, ok := returned[i]; ok && e != nil {
			failed = append(failed, fmt.Sprintf("call %d: %T %q", i, e, e.Error()))
			if e == err {
				match = true
			}
		}
	}
	switch {
	case len(failed) == 0:
		fmt.Println("OK no call failed (the rendezvous was not reached)")
		return 0
	case err == nil:
		fmt.Printf("FAIL error-swallowed|%d calls of f returned an error (%s) but the result is nil\n", len(failed), strings.Join(failed, "; "))
		return 3
	case !match:
		fmt.Printf("FAIL error-provenance|the result is %T %q, which no call returned (the caller's context is live); the calls returned %s\n", err, err.Error(), strings.Join(failed, "; "))
		return 3
	}
	fmt.Printf("OK %d calls failed, the result is one of their errors (%T)\n", len(failed), err)
	return 0
}

type mixedVerdict struct {
	kind, what string
	harness    string // the child could not be run / neither finished nor died
	note       string
}

func runMixedChild(mc MixedCase) mixedVerdict {
	self, err := os.Executable()
	if err != nil {
		self = os.Args[0]
	}
	spec, _ := json.Marshal(mc)
	cmd := exec.Command(self, "-test.run=^$")
	cmd.Env = append(os.Environ(), mixedEnv+"="+string(spec))
	var stdout, stderr bytes.Buffer
	cmd.Stdout, cmd.Stderr = &stdout, &stderr
	if err := cmd.Start(); err != nil {
		return mixedVerdict{harness: "cannot start the child: " + err.Error()}
	}
	backstop := time.AfterFunc(60*time.Second, func() { cmd.Process.Kill() })
	err = cmd.Wait()
	if !backstop.Stop() {
		return mixedVerdict{harness: "the child neither finished nor died within 60 s"}
	}
	for _, l := range strings.Split(stdout.String(), "\n") {
		if strings.HasPrefix(l, "FAIL ") {
			p := append(strings.SplitN(strings.TrimPrefix(l, "FAIL "), "|", 2), "")
			return mixedVerdict{kind: p[0], what: p[1]}
		}
		if strings.HasPrefix(l, "OK ") {
			return mixedVerdict{note: l}
		}
	}
	se := stderr.String()
	if i := strings.Index(se, "panic: "); i >= 0 {
		msg := se[i:]
		if j := strings.Index(msg, "\n"); j >= 0 {
			msg = msg[:j]
		}
		where := ""
		for _, l := range strings.Split(se[i:], "\n") {
			if strings.Contains(l, "juniper/parallel.") {
				where = " (in " + strings.TrimSpace(l) + ")"
				break
			}
		}
		return mixedVerdict{kind: "panic", what: fmt.Sprintf("the process running the call died: %s%s; the call did not return", msg, where)}
	}
	return mixedVerdict{harness: fmt.Sprintf("the child ended (%v) without a verdict: %s", err, clipTo(se, 400))}
}

func mixedCases() []MixedCase {
	var out []MixedCase
	for _, mode := range []string{"dc", "mc"} {
		out = append(out, MixedCase{Kind: "mixed", Mode: mode, P: 2, N: 2, Shape: "bystander"})
		for _, pn := range [][2]int{{2, 2}, {2, 4}, {3, 3}, {4, 6}, {8, 3}, {-1, 5}} {
			out = append(out, MixedCase{Kind: "mixed", Mode: mode, P: pn[0], N: pn[1], Shape: "rendezvous"})
		}
	}
	return out
}

// mixedPhase: every case in a child of its own; findings are written at once.
func mixedPhase(res *vlib.Result, out string) {
	reported := map[string]bool{}
	for _, mc := range mixedCases() {
		v := runMixedChild(mc)
		res.Count("mixed-error-types")
		res.Evaluations++
		switch {
		case v.harness != "":
			res.Count("mixed-error-types-no-verdict")
			res.Fail(vlib.Failure{Source: "correspondence", Kind: "mixed-child-no-verdict", Params: map[string]interface{}{"mode": mc.Mode}, What: v.harness, Case: mc})
			res.Write(out)
		case v.kind != "":
			if reported[v.kind+mc.Mode] {
				continue
			}
			reported[v.kind+mc.Mode] = true
			res.Fail(vlib.Failure{Source: "monitor", Kind: v.kind,
				Params: map[string]interface{}{"mode": mc.Mode, "phase": "mixed-error-types"},
				What:   fmt.Sprintf("%s with parallelism %d, n = %d, shape %s (failing calls return errors of different dynamic types): %s", map[string]string{"dc": "DoContext", "mc": "MapContext"}[mc.Mode], mc.P, mc.N, mc.Shape, v.what),
				Case:   mc})
			res.Write(out)
		}
	}
}

func replayMixed(mc MixedCase) bool {
	v := runMixedChild(mc)
	switch {
	case v.harness != "":
		fmt.Println("replay: no verdict:", v.harness)
		return true
	case v.kind != "":
		fmt.Printf("monitor: FAILS: %s: %s\n", v.kind, v.what)
		return false
	}
	fmt.Println("no clause violated:", v.note)
	return true
}

func clipTo(s string, n int) string {
	if len(s) > n {
		return s[:n] + "..."
	}
	return s
}
