// C18, Watchable: real-threads phase (TestReal, harness entry `c18real`, runs in the QUICK tier).
//
// testing/synctest never preempts a goroutine inside Set or Value, so the scenarios of TestVerif only
// produce sequential call sequences; the interleavings of the atomic operations on Watchable.p
// (Value racing the first Set: Load=nil, Set's Swap, failed CompareAndSwap, reload; several Sets
// between Swap and close) are covered by the Lean LTS — and the LTS's assumption "each of Load, Swap,
// CompareAndSwap is ONE atomic step" is tied to the source only by the declared type of the field.
// This phase exercises exactly that assumption on the real code with real goroutines, real
// preemption and GOMAXPROCS >= 4 (no -race: `c18race` stays in the thorough tier).
//
// Every verdict is a pure safety statement about values that the goroutines themselves observed,
// derived from the property text; none depends on timing, so an arbitrary schedule cannot produce a
// false alarm (there are no timeouts and no sleeps):
//
//	(a) Set / Value do not panic                                          watchable-set-panicked / -value-panicked
//	(b) "Value returns the most recently Set value": with ONE setter writing 1,2,3,… the value a call
//	    returns was the latest at some instant between its call and its return, hence
//	      - is >= the argument of the last Set that had RETURNED before the call began,
//	      - is <= the argument of the last Set that had been ENTERED when the call returned,
//	      - is >= what the same goroutine got from its previous call        watchable-value-not-latest
//	    (several setters: the same per setter)
//	(c) "a channel that is closed iff a later Set has happened": a channel observed closed although no
//	    Set of a larger value had been entered                               watchable-chan-closed-without-later-set
//	    and, once every Set has returned: a channel handed out with a value that is not the final one
//	    is closed, the one handed out with the final value is open           watchable-chan-not-closed-after-set
//	(d) "an observer loop always ends up seeing the final value": a Value that follows a closed
//	    channel returns a later value                                        watchable-observer-no-progress
//	    and, after every Set has returned, an observer that calls Value until the returned channel is
//	    not closed (non-blocking test; at most #Sets+2 calls) holds the final value   watchable-observer-stale
//
// The setter publishes `entered = k` before calling Set(k) and `returned = k` after it returned; the
// readers read `returned` before and `entered` after their call (sync/atomic is sequentially
// consistent), which is what makes the inequalities in (b) and (c) sound.
package c18

import (
	"encoding/json"
	"fmt"
	"os"
	"runtime"
	"sync"
	"sync/atomic"
	"testing"
	"time"

	"github.com/bradenaw/juniper/xsync"
	"verifharness/vlib"
)

// RealCfg: one configuration of the real-threads phase.
type RealCfg struct {
	Scenario  string `json:"scenario"` // first-set-race | observer-loops | many-setters
	Sets      int    `json:"sets"`     // number of Sets per setter
	Setters   int    `json:"setters"`
	Readers   int    `json:"readers"`   // goroutines calling Value repeatedly
	Observers int    `json:"observers"` // goroutines running the documented observer loop
}

type RealCase struct {
	Real  *RealCfg `json:"real"`
	Seed  uint64   `json:"seed"`
	Round int      `json:"round"`
}

type realFail struct {
	kind, what string
}

// failSlot keeps the first failure reported by any goroutine of a round.
type failSlot struct {
	mu sync.Mutex
	f  *realFail
}

func (s *failSlot) set(kind, format string, a ...interface{}) {
	s.mu.Lock()
	if s.f == nil {
		s.f = &realFail{kind, fmt.Sprintf(format, a...)}
	}
	s.mu.Unlock()
}

func (s *failSlot) get() *realFail {
	s.mu.Lock()
	defer s.mu.Unlock()
	return s.f
}

// safeValue calls Value and turns a panic / nil channel into a failure.
func safeValue(w *xsync.Watchable[int], fs *failSlot) (v int, ch chan struct{}, ok bool) {
	defer func() {
		if r := recover(); r != nil {
			fs.set("watchable-value-panicked", "Value panicked: %v", r)
			ok = false
		}
	}()
	v, ch = w.Value()
	if ch == nil {
		fs.set("watchable-value-panicked", "Value returned a nil channel (value %d)", v)
		return v, ch, false
	}
	return v, ch, true
}

func safeSet(w *xsync.Watchable[int], v int, fs *failSlot) {
	defer func() {
		if r := recover(); r != nil {
			fs.set("watchable-set-panicked", "Set(%d) panicked: %v", v, r)
		}
	}()
	w.Set(v)
}

// obs: one (value, channel) pair a goroutine got from Value.
type obs struct {
	v  int
	ch chan struct{}
}

// quiescentChecks: every Set has returned and every goroutine of the round has been joined.
func quiescentChecks(w *xsync.Watchable[int], final int, isFinal func(int) bool, held [][]obs, fs *failSlot, nSets int) {
	v, ch, ok := safeValue(w, fs)
	if !ok {
		return
	}
	if final >= 0 && v != final {
		fs.set("watchable-value-not-latest", "every Set has returned, the last one was Set(%d), but Value returns %d", final, v)
		return
	}
	if !isFinal(v) {
		fs.set("watchable-value-not-latest", "every Set has returned, but Value returns %d, which is not the last value of any setter", v)
		return
	}
	if isClosed(ch) {
		fs.set("watchable-chan-closed-without-later-set", "every Set has returned; Value returns the final value %d with a channel that is already closed", v)
		return
	}
	fin := v
	for g, hs := range held {
		for _, o := range hs {
			if o.ch == nil {
				continue
			}
			if o.v != fin && !isClosed(o.ch) {
				fs.set("watchable-chan-not-closed-after-set", "goroutine %d got value %d with a channel that is still open although every Set has returned and the final value is %d", g, o.v, fin)
				return
			}
			if o.v == fin && isClosed(o.ch) {
				fs.set("watchable-chan-closed-without-later-set", "goroutine %d got the final value %d with a channel that is closed although no later Set exists", g, o.v)
				return
			}
		}
		// the end of the documented observer loop, without blocking: call Value until the channel it
		// returns is not closed; what the observer then holds must be the final value
		if len(hs) == 0 {
			continue
		}
		cur := hs[len(hs)-1]
		calls := 0
		for cur.ch != nil && isClosed(cur.ch) {
			if calls > nSets+2 {
				fs.set("watchable-observer-no-progress", "goroutine %d: after every Set has returned, %d successive Value calls each returned a closed channel", g, calls)
				return
			}
			nv, nch, ok := safeValue(w, fs)
			if !ok {
				return
			}
			cur = obs{nv, nch}
			calls++
		}
		if cur.v != fin {
			fs.set("watchable-observer-stale", "goroutine %d: every Set has returned and the observer waits on an open channel, but the value it holds is %d, the final value is %d", g, cur.v, fin)
			return
		}
	}
}

// ---------------------------------------------------------------------------------------------
// scenario "first-set-race": a FRESH Watchable per round; one setter (Set(1) … Set(sets)) and
// `readers` goroutines calling Value twice, all released at the same instant by persistent workers
// spinning on a round counter — Value's `Load() == nil; CompareAndSwap(nil, empty)` against Set's
// first Swap, many thousands of times per second.

type raceRig struct {
	cfg      RealCfg
	w        atomic.Pointer[xsync.Watchable[int]]
	round    atomic.Int64
	done     atomic.Int64
	quit     atomic.Bool
	entered  atomic.Int64
	returned atomic.Int64
	held     [][]obs
	fs       failSlot
	wg       sync.WaitGroup
}

const raceCalls = 2

func spinUntil(cond func() bool) {
	for i := 0; !cond(); i++ {
		if i%64 == 63 {
			runtime.Gosched()
		}
	}
}

func newRaceRig(cfg RealCfg) *raceRig {
	r := &raceRig{cfg: cfg, held: make([][]obs, cfg.Readers)}
	for i := range r.held {
		r.held[i] = make([]obs, raceCalls)
	}
	r.wg.Add(1 + cfg.Readers)
	go func() { // the setter
		defer r.wg.Done()
		for my := int64(1); ; my++ {
			spinUntil(func() bool { return r.round.Load() >= my || r.quit.Load() })
			if r.quit.Load() {
				return
			}
			w := r.w.Load()
			for k := 1; k <= r.cfg.Sets; k++ {
				r.entered.Store(int64(k))
				safeSet(w, k, &r.fs)
				r.returned.Store(int64(k))
			}
			r.done.Add(1)
		}
	}()
	for g := 0; g < cfg.Readers; g++ {
		go func() {
			defer r.wg.Done()
			for my := int64(1); ; my++ {
				spinUntil(func() bool { return r.round.Load() >= my || r.quit.Load() })
				if r.quit.Load() {
					return
				}
				w := r.w.Load()
				last := 0
				var lastCh chan struct{}
				for k := 0; k < raceCalls; k++ {
					r.held[g][k] = obs{}
					wasClosed := lastCh != nil && isClosed(lastCh)
					r0 := int(r.returned.Load())
					v, ch, ok := safeValue(w, &r.fs)
					if !ok {
						break
					}
					closed := isClosed(ch)
					st := int(r.entered.Load())
					checkOne(&r.fs, "first-set-race", g, v, r0, st, last, closed, wasClosed, k > 0)
					r.held[g][k] = obs{v, ch}
					last, lastCh = v, ch
				}
				r.done.Add(1)
			}
		}()
	}
	return r
}

// checkOne: the per-call clauses (b), (c), (d) for a run with ONE setter writing 1, 2, 3, ….
func checkOne(fs *failSlot, sc string, g, v, returnedBefore, enteredAfter, last int, closed, prevClosed, hasPrev bool) {
	switch {
	case v < returnedBefore:
		fs.set("watchable-value-not-latest", "%s: goroutine %d: Value returned %d although Set(%d) had returned before the call began", sc, g, v, returnedBefore)
	case v > enteredAfter:
		fs.set("watchable-value-not-latest", "%s: goroutine %d: Value returned %d although only Set(1..%d) had been entered when it returned", sc, g, v, enteredAfter)
	case hasPrev && v < last:
		fs.set("watchable-value-not-latest", "%s: goroutine %d: Value returned %d after an earlier call had returned %d", sc, g, v, last)
	case closed && enteredAfter <= v:
		fs.set("watchable-chan-closed-without-later-set", "%s: goroutine %d: Value returned %d with a closed channel although no Set of a later value had been entered (last entered: %d)", sc, g, v, enteredAfter)
	case hasPrev && prevClosed && v <= last:
		fs.set("watchable-observer-no-progress", "%s: goroutine %d: the channel returned with value %d was closed, the next Value returned %d", sc, g, last, v)
	}
}

// round runs one round; nil = no clause violated.
func (r *raceRig) roundOnce() *realFail {
	var w xsync.Watchable[int]
	r.entered.Store(0)
	r.returned.Store(0)
	r.done.Store(0)
	r.w.Store(&w)
	r.round.Add(1)
	n := int64(1 + r.cfg.Readers)
	spinUntil(func() bool { return r.done.Load() == n })
	if f := r.fs.get(); f != nil {
		return f
	}
	quiescentChecks(&w, r.cfg.Sets, func(v int) bool { return v == r.cfg.Sets }, r.held, &r.fs, r.cfg.Sets)
	return r.fs.get()
}

func (r *raceRig) close() {
	r.quit.Store(true)
	r.wg.Wait()
}

// ---------------------------------------------------------------------------------------------
// scenario "observer-loops" (one setter) and "many-setters": goroutines per round.
//   - setter s writes s*1000+1 … s*1000+sets
//   - observers run the documented loop `v, ch := w.Value(); …; <-ch` (the wait also ends when every
//     setter has been joined), readers call Value in a tight loop until then.

func loopsRound(cfg RealCfg) *realFail {
	var w xsync.Watchable[int]
	var fs failSlot
	entered := make([]atomic.Int64, cfg.Setters)
	returned := make([]atomic.Int64, cfg.Setters)
	stop := make(chan struct{})
	var setters, others sync.WaitGroup
	ng := cfg.Observers + cfg.Readers
	held := make([][]obs, ng)
	single := cfg.Setters == 1
	// per-call checks; `lastBy[s]` = largest index seen from setter s by this goroutine
	call := func(g int, lastBy []int, prev *obs, prevClosed bool) (obs, bool) {
		r0 := make([]int, cfg.Setters)
		for s := range r0 {
			r0[s] = int(returned[s].Load())
		}
		v, ch, ok := safeValue(&w, &fs)
		if !ok {
			return obs{}, false
		}
		closed := isClosed(ch)
		s, j := v/1000, v%1000
		if v == 0 {
			s, j = -1, 0
		}
		if v != 0 && (s < 0 || s >= cfg.Setters || j < 1 || j > cfg.Sets) {
			fs.set("watchable-value-not-latest", "%s: goroutine %d: Value returned %d, which no Set was given", cfg.Scenario, g, v)
			return obs{}, false
		}
		if s >= 0 {
			st := int(entered[s].Load())
			switch {
			case j < r0[s]:
				fs.set("watchable-value-not-latest", "%s: goroutine %d: Value returned value %d of setter %d although its Set of value %d had returned before the call began", cfg.Scenario, g, j, s, r0[s])
			case j > st:
				fs.set("watchable-value-not-latest", "%s: goroutine %d: Value returned value %d of setter %d, of which only values 1..%d had been entered", cfg.Scenario, g, j, s, st)
			case j < lastBy[s]:
				fs.set("watchable-value-not-latest", "%s: goroutine %d: Value returned value %d of setter %d after an earlier call had returned its value %d", cfg.Scenario, g, j, s, lastBy[s])
			}
			lastBy[s] = j
		} else {
			for s2 := range r0 {
				if r0[s2] > 0 {
					fs.set("watchable-value-not-latest", "%s: goroutine %d: Value returned the zero value although a Set of setter %d had returned before the call began", cfg.Scenario, g, s2)
				}
			}
		}
		if single {
			st := int(entered[0].Load())
			if closed && st <= j {
				fs.set("watchable-chan-closed-without-later-set", "%s: goroutine %d: Value returned %d with a closed channel although no Set of a later value had been entered (last entered: %d)", cfg.Scenario, g, j, st)
			}
			if prev != nil && prevClosed && v <= prev.v {
				fs.set("watchable-observer-no-progress", "%s: goroutine %d: the channel returned with value %d was closed, the next Value returned %d", cfg.Scenario, g, prev.v, v)
			}
		} else if prev != nil && prevClosed && v == prev.v && ch == prev.ch {
			fs.set("watchable-observer-no-progress", "%s: goroutine %d: the channel returned with value %d was closed, the next Value returned the same value and channel", cfg.Scenario, g, v)
		}
		return obs{v, ch}, fs.get() == nil
	}
	for g := 0; g < ng; g++ {
		others.Add(1)
		go func() {
			defer others.Done()
			lastBy := make([]int, cfg.Setters)
			var prev *obs
			prevClosed := false
			for it := 0; ; it++ {
				o, ok := call(g, lastBy, prev, prevClosed)
				if !ok {
					return
				}
				// keep the first and the latest observation for the quiescent checks
				if len(held[g]) < 2 {
					held[g] = append(held[g], o)
				} else {
					held[g][1] = o
				}
				prev = &held[g][len(held[g])-1]
				if g < cfg.Observers {
					select { // the documented loop: wait for the next value
					case <-o.ch:
						prevClosed = true
					case <-stop:
						return
					}
				} else {
					prevClosed = isClosed(o.ch)
					select {
					case <-stop:
						return
					default:
					}
					if it%8 == 7 {
						runtime.Gosched()
					}
				}
			}
		}()
	}
	for s := 0; s < cfg.Setters; s++ {
		setters.Add(1)
		go func() {
			defer setters.Done()
			for j := 1; j <= cfg.Sets; j++ {
				entered[s].Store(int64(j))
				safeSet(&w, s*1000+j, &fs)
				returned[s].Store(int64(j))
				if j%4 == 0 {
					runtime.Gosched()
				}
			}
		}()
	}
	setters.Wait()
	close(stop)
	others.Wait()
	if f := fs.get(); f != nil {
		return f
	}
	final := -1
	if single {
		final = cfg.Sets
	}
	quiescentChecks(&w, final, func(v int) bool { return v%1000 == cfg.Sets && v/1000 < cfg.Setters }, held, &fs, cfg.Sets*cfg.Setters)
	return fs.get()
}

// ---------------------------------------------------------------------------------------------

func realConfigs() []RealCfg {
	return []RealCfg{
		{Scenario: "first-set-race", Sets: 1, Setters: 1, Readers: 3},
		{Scenario: "first-set-race", Sets: 2, Setters: 1, Readers: 2},
		{Scenario: "first-set-race", Sets: 1, Setters: 1, Readers: 1},
		{Scenario: "observer-loops", Sets: 24, Setters: 1, Readers: 2, Observers: 2},
		{Scenario: "observer-loops", Sets: 3, Setters: 1, Readers: 1, Observers: 3},
		{Scenario: "many-setters", Sets: 10, Setters: 3, Readers: 1, Observers: 2},
	}
}

// runReal runs one configuration for the given time; it returns the number of rounds and the first
// failure with the round in which it occurred.
func runReal(cfg RealCfg, d time.Duration, maxRounds int) (int, *realFail) {
	until := time.Now().Add(d)
	rounds := 0
	if cfg.Scenario == "first-set-race" {
		rig := newRaceRig(cfg)
		defer rig.close()
		for rounds < maxRounds {
			if rounds%256 == 0 && time.Now().After(until) {
				break
			}
			rounds++
			if f := rig.roundOnce(); f != nil {
				return rounds, f
			}
		}
		return rounds, nil
	}
	for rounds < maxRounds && time.Now().Before(until) {
		rounds++
		if f := loopsRound(cfg); f != nil {
			return rounds, f
		}
	}
	return rounds, nil
}

func TestReal(t *testing.T) {
	env := vlib.GetEnv()
	if old := runtime.GOMAXPROCS(0); old < 4 {
		runtime.GOMAXPROCS(4)
		defer runtime.GOMAXPROCS(old)
	}
	if env.Replay != "" {
		var c RealCase
		if err := vlib.ReplayCase(env.Replay, &c); err != nil || c.Real == nil {
			fmt.Println("cannot read replay:", err)
			os.Exit(2)
		}
		// a real-threads case names a configuration; whether a given round hits the window depends on
		// the scheduler, so the replay runs that configuration for many rounds
		b, _ := json.Marshal(c.Real)
		fmt.Printf("replay of real-threads configuration %s (first seen in round %d)\n", b, c.Round)
		n, f := runReal(*c.Real, 20*time.Second, 1<<30)
		if f != nil {
			fmt.Printf("  FAILS (round %d) %s: %s\n", n, f.kind, f.what)
			os.Exit(1)
		}
		fmt.Printf("  no clause violated in %d rounds\n", n)
		return
	}
	res := vlib.NewResult("C18", "real goroutines, no synctest, GOMAXPROCS >= 4: Value racing the first Set on a fresh Watchable (persistent workers released together), "+
		"one setter with observer loops and polling readers, several setters; safety verdicts only (no timeouts); a configuration counts as non-trivial when it ran >= 100 rounds")
	cfgs := realConfigs()
	// share of the budget per configuration: the first-Set race gets most of it
	share := []int{40, 15, 10, 15, 10, 10}
	budget := time.Duration(env.BudgetMs) * time.Millisecond
	for i, cfg := range cfgs {
		d := budget * time.Duration(share[i]) / 100
		rounds, f := runReal(cfg, d, 1<<30)
		res.Evaluations += rounds
		res.CountN("real-rounds."+cfg.Scenario, rounds)
		b, _ := json.Marshal(cfg)
		res.Case("real:"+string(b), rounds >= 100, nil)
		res.Evaluations-- // Case counted one
		if f != nil {
			res.Count("real-violation." + f.kind)
			res.Fail(vlib.Failure{Source: "monitor", Kind: f.kind,
				Params: map[string]interface{}{"phase": "real-threads", "scenario": cfg.Scenario},
				What:   "real threads: " + f.what,
				Case:   RealCase{Real: &cfg, Seed: env.Seed, Round: rounds}})
		}
	}
	res.Write(env.Out)
}
