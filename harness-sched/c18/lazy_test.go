// C18, Lazy: "Lazy runs its function once and gives every caller that result", over "concurrent first
// calls of a Lazy".
//
// "That result" is the outcome of the single run of f. Lazy is documented as sync.OnceValue
// ("Deprecated: sync.OnceValue is in the standard library"), whose contract covers a run that does
// not return: "If f panics, the returned function will panic with the same value on every call."
// So an outcome is `returned v` or `panicked with v`, and every call must end with the outcome of the
// one run — in particular a call must never hand out a value that f did not produce (the zero value
// after a panicking run). Reasoning and the cases that stay open: notes/C18.md, "fix6".
//
// Scenario ops (Kind "lazy"), every call of the Lazy on a goroutine of its own, f gated:
//
//	call v / callp v   one call run to completion: if it is the call that runs f, f returns v /
//	                   panics with lazyPanic(v)
//	go                 a new caller enters and is left where it gets to (inside f at the gate, parked
//	                   behind the running call, or finished with the stored outcome)
//	ret v / pan v      the run of f that waits at the gate returns v / panics with lazyPanic(v)
//
// Real threads, no synctest bubble (see waitFor). After every action the monitor judges the clause on
// the calls that have ended (lazyJudge) and, where the state is determined (no caller is racing
// towards the Once while a run is held), the observation is recorded for `driver lazy`.
package c18

import (
	"fmt"
	"strconv"
	"strings"
	"sync"
	"sync/atomic"
	"runtime"
	"time"

	"github.com/bradenaw/juniper/xsync"
	"verifharness/vlib"
)

// lazyPanic is what the harness's f panics with: comparable, and distinguishable from any panic of
// the runtime or of the library.
type lazyPanic int

type lazyOut struct {
	pan bool
	v   int
}

func (o lazyOut) String() string {
	if o.pan {
		return "panic " + strconv.Itoa(o.v)
	}
	return strconv.Itoa(o.v)
}

func (o lazyOut) short() string {
	if o.pan {
		return "p" + strconv.Itoa(o.v)
	}
	return "v" + strconv.Itoa(o.v)
}

func (o lazyOut) how() string {
	if o.pan {
		return "panicked"
	}
	return "returned"
}

// lazyCallSt is one call of the function Lazy returned.
type lazyCallSt struct {
	done  atomic.Bool
	out   lazyOut
	other string // the call panicked with something that is not a lazyPanic
	// joined: the call was made while a run of f was being held at the gate (a concurrent first call)
	joined bool
}

func (c *lazyCallSt) show() string {
	if !c.done.Load() {
		return "pend"
	}
	if c.other != "" {
		return "x"
	}
	return c.out.short()
}

func (c *lazyCallSt) long() string {
	if c.other != "" {
		return "panicked with " + c.other
	}
	if c.out.pan {
		return fmt.Sprintf("panicked with %d", c.out.v)
	}
	return fmt.Sprintf("returned %d", c.out.v)
}

// lazyJudge: the clause, judged after every action on what has ENDED so far (true-positive-only: no
// verdict needs to know where a pending call is). runs = how often f was started, ends = the
// outcomes of the runs of f that have ended, calls in the order they were made. A call that never
// ends is not a verdict here (it shows as a harness-level broken tie after 5 s).
func lazyJudge(step int, runs int, ends []lazyOut, calls []*lazyCallSt) *Verdict {
	if runs > 1 {
		return &Verdict{Kind: "lazy-not-once", What: fmt.Sprintf("step %d: f has been started %d times by %d call(s)", step, runs, len(calls)),
			Params: map[string]interface{}{"runs": "several"}}
	}
	for k, c := range calls {
		if !c.done.Load() {
			continue
		}
		if len(ends) == 0 {
			st := "f has never been started"
			fs := "not-started"
			if runs > 0 {
				st = "the one run of f is still in progress"
				fs = "running"
			}
			return &Verdict{Kind: "lazy-returned-before-f-finished",
				What:   fmt.Sprintf("step %d: call %d %s although %s: that is not the result of f", step, k, c.long(), st),
				Params: map[string]interface{}{"f": fs, "caller": c.out.how(), "joined_running_f": c.joined}}
		}
		o := ends[0]
		if c.other != "" || c.out != o {
			with := ""
			if o.pan {
				with = " with"
			}
			what := fmt.Sprintf("step %d: call %d %s, but the single run of f %s%s %d", step, k, c.long(), o.how(), with, o.v)
			if o.pan && c.other == "" && !c.out.pan {
				what += fmt.Sprintf(" and never returned: %d is a value f did not produce", c.out.v)
			}
			if c.joined {
				what += " (the call was made while that run was in progress)"
			}
			how := c.out.how()
			if c.other != "" {
				how = "panicked-otherwise"
			}
			return &Verdict{Kind: "lazy-result-differs", What: what,
				Params: map[string]interface{}{"f": o.how(), "caller": how, "joined_running_f": c.joined}}
		}
	}
	return nil
}

// waitFor polls cond on real threads (no bubble: a goroutine parked on the mutex of a sync.Once is
// not "durably blocked" for synctest, so synctest.Wait / the bubble's clock would hang as soon as a
// caller is parked behind the run of f). It only waits for progress that has to come; when it does
// not come within 5 s the scenario is given up as a harness-level broken tie (Outcome.Bug), never
// as a verdict.
func waitFor(cond func() bool) bool {
	for i := 0; i < 2000; i++ {
		if cond() {
			return true
		}
		runtime.Gosched()
	}
	end := time.Now().Add(60 * time.Second) // generous: only a broken tie, never a verdict
	for time.Now().Before(end) {
		if cond() {
			return true
		}
		time.Sleep(50 * time.Microsecond)
	}
	return cond()
}

func runLazy(sc Scenario) (out Outcome) {
	var runs, atGate atomic.Int32
	gate := make(chan lazyOut)
	var mu sync.Mutex
	var ends []lazyOut
	l := xsync.Lazy(func() int {
		runs.Add(1)
		atGate.Add(1)
		o := <-gate
		atGate.Add(-1) // before the outcome is published: "outcome recorded" implies "no longer at the gate"
		mu.Lock()
		ends = append(ends, o)
		mu.Unlock()
		if o.pan {
			panic(lazyPanic(o.v))
		}
		return o.v
	})
	var calls []*lazyCallSt
	nEnds := func() int { mu.Lock(); defer mu.Unlock(); return len(ends) }
	allDone := func() bool {
		for _, c := range calls {
			if !c.done.Load() {
				return false
			}
		}
		return true
	}
	// start: a new caller; returns when it has ended or a run of f waits at the gate. While a run is
	// already held the caller can be anywhere (parked, most likely): a few yields only widen the
	// window, the state is not observed (empty observation: not compared with the model).
	start := func() (*lazyCallSt, bool) {
		held := atGate.Load() > 0
		c := &lazyCallSt{joined: held}
		calls = append(calls, c)
		go func() {
			var r int
			p, pv := vlib.Try(func() { r = l() })
			switch v := pv.(type) {
			case lazyPanic:
				c.out = lazyOut{pan: true, v: int(v)}
			default:
				if p {
					c.other = fmt.Sprintf("%T %v", pv, pv)
				} else {
					c.out = lazyOut{v: r}
				}
			}
			c.done.Store(true)
		}()
		if held {
			for i := 0; i < 20; i++ {
				runtime.Gosched()
			}
			time.Sleep(20 * time.Microsecond)
			return c, false
		}
		if !waitFor(func() bool { return c.done.Load() || atGate.Load() > 0 }) {
			out.Bug = "lazy: a call neither ended nor started f within 5 s"
		}
		return c, true
	}
	// release: the run of f at the gate ends with o; returns when every call made so far has ended
	// or another run of f waits at the gate.
	release := func(o lazyOut) bool {
		if atGate.Load() == 0 {
			return false
		}
		n := nEnds()
		gate <- o
		if !waitFor(func() bool { return nEnds() > n && (allDone() || atGate.Load() > 0) }) {
			out.Bug = "lazy: calls still pending 5 s after the run of f ended and no run in progress"
		}
		return true
	}
	status := func() string {
		var b []string
		for _, c := range calls {
			b = append(b, c.show())
		}
		return fmt.Sprintf("st=%s runs=%d", strings.Join(b, ","), runs.Load())
	}
	judge := func(step int) {
		if out.Verdict != nil {
			return
		}
		mu.Lock()
		e := append([]lazyOut(nil), ends...)
		mu.Unlock()
		out.Verdict = lazyJudge(step, int(runs.Load()), e, calls)
	}
	record := func(line, obs string) {
		out.Lines = append(out.Lines, line)
		out.Obs = append(out.Obs, obs)
	}
	for step, a := range sc.Acts {
		if out.Bug != "" {
			break
		}
		op := a.Op
		if (op == "call" || op == "callp") && atGate.Load() > 0 {
			op = "go" // a run of f is being held: the new caller can only join
		}
		switch op {
		case "call", "callp":
			o := lazyOut{pan: op == "callp", v: a.I}
			c, _ := start()
			release(o)
			obs := fmt.Sprintf("stuck runs=%d", runs.Load())
			if c.done.Load() {
				if c.other != "" {
					obs = fmt.Sprintf("panic(%s) runs=%d", c.other, runs.Load())
				} else {
					obs = fmt.Sprintf("%s runs=%d", c.out, runs.Load())
				}
			}
			record(a.String(), obs)
		case "go":
			if _, observed := start(); observed {
				record("go", status())
			} else {
				record("go", "")
			}
		case "ret", "pan":
			if !release(lazyOut{pan: op == "pan", v: a.I}) {
				continue
			}
			record(a.String(), status())
		default:
			continue
		}
		judge(step)
	}
	// every run of f still at the gate returns 0 (an environment action like any other)
	for i := 0; i < 64 && out.Bug == "" && release(lazyOut{v: 0}); i++ {
		record("ret 0", status())
		judge(len(sc.Acts) + i)
	}
	judge(len(sc.Acts) + 64)
	return out
}

func lazyCalls(sc Scenario) int {
	n := 0
	for _, a := range sc.Acts {
		if a.Op == "call" || a.Op == "callp" || a.Op == "go" {
			n++
		}
	}
	return n
}

// genLazy: sequential scenarios (the first call's f panics in half of them) and concurrent ones
// (callers parked behind a gated run that returns or panics, later callers).
func genLazy(r *vlib.Rand, res *vlib.Result) Scenario {
	sc := Scenario{Kind: "lazy"}
	if r.Bool() {
		res.Count("lazy-sequential")
		for i, n := 0, r.Range(1, 5); i < n; i++ {
			op := "call"
			if r.Chance(1, 2) {
				op = "callp"
			}
			sc.Acts = append(sc.Acts, Act{Op: op, I: r.Range(1, 9)})
		}
		return sc
	}
	res.Count("lazy-concurrent")
	for i, n := 0, r.Range(2, 9); i < n; i++ {
		switch r.Pick(5, 2, 2, 1) {
		case 0:
			sc.Acts = append(sc.Acts, Act{Op: "go"})
		case 1:
			sc.Acts = append(sc.Acts, Act{Op: "ret", I: r.Range(1, 9)})
		case 2:
			sc.Acts = append(sc.Acts, Act{Op: "pan", I: r.Range(1, 9)})
		case 3:
			sc.Acts = append(sc.Acts, Act{Op: pick2(r, "call", "callp"), I: r.Range(1, 9)})
		}
	}
	return sc
}

func pick2(r *vlib.Rand, a, b string) string {
	if r.Bool() {
		return a
	}
	return b
}

// directedLazy (every run): a run of f that returns / panics x 0..3 callers parked behind it x 0..2
// later callers; sequential second and third calls after a returning / panicking first run.
func directedLazy() []Scenario {
	var out []Scenario
	for _, end := range []string{"ret", "pan"} {
		for parked := 0; parked <= 3; parked++ {
			for later := 0; later <= 2; later++ {
				sc := Scenario{Kind: "lazy"}
				for i := 0; i <= parked; i++ {
					sc.Acts = append(sc.Acts, Act{Op: "go"})
				}
				sc.Acts = append(sc.Acts, Act{Op: end, I: 7})
				for i := 0; i < later; i++ {
					sc.Acts = append(sc.Acts, Act{Op: "go"})
				}
				out = append(out, sc)
			}
		}
	}
	for _, first := range []string{"call", "callp"} {
		for _, second := range []string{"call", "callp"} {
			out = append(out,
				Scenario{Kind: "lazy", Acts: []Act{{Op: first, I: 7}, {Op: second, I: 5}}},
				Scenario{Kind: "lazy", Acts: []Act{{Op: first, I: 7}, {Op: second, I: 5}, {Op: "call", I: 3}}})
		}
	}
	return out
}
