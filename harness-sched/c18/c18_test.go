// C18 (Watchable / Future / Lazy part).
//
// TestVerif: scenarios under testing/synctest against the real code. After every action
// synctest.Wait() gives a quiescent point; what is observed there is (a) compared with the Lean
// models (`driver watch`, `driver future`, `driver lazy`: source "correspondence") and (b) judged by
// monitors written from the property text alone (source "monitor").
// TestStress (built with -race, thorough tier): real concurrency — Value racing the first Set,
// concurrent Sets with observer loops, Fill racing Wait/WaitContext, concurrent first calls of a
// Lazy — judged by the same clauses; the race detector covers the memory-model side.
package c18

import (
	"context"
	"fmt"
	"os"
	"runtime"
	"strconv"
	"strings"
	"sync"
	"sync/atomic"
	"testing"
	"testing/synctest"
	"time"

	"github.com/bradenaw/juniper/xsync"
	"verifharness/vlib"
)

type Act struct {
	Op string `json:"op"`
	I  int    `json:"i"`
}

func (a Act) String() string {
	switch a.Op {
	case "value", "observe", "chans", "go", "setz":
		return a.Op
	}
	return a.Op + " " + strconv.Itoa(a.I)
}

// Scenario: Kind "watch" (ops set v / setz / value / observe / chans; `set v` passes the same pointer
// object for the same v, so a repeated value is a Set of a value equal (==) to the current one; setz is
// Set of the zero value of T, the nil pointer — outside the model, whose values are integers: monitor only), "future" (Flags per waiter "p"/"c";
// ops call j / cancel j / fill v), "lazy" (ops call v / callp v: one call run to completion, v = what f
// would return / panic with if it ran now; go / ret v / pan v: concurrent callers of a gated f, see
// lazy_test.go).
type Scenario struct {
	Kind  string   `json:"kind"`
	Flags []string `json:"flags,omitempty"`
	Acts  []Act    `json:"acts"`
}

func (s Scenario) Key() string {
	var b strings.Builder
	b.WriteString(s.Kind + ":" + strings.Join(s.Flags, "") + ":")
	for _, a := range s.Acts {
		b.WriteString(a.String() + ";")
	}
	return b.String()
}

type Verdict struct {
	Kind   string
	What   string
	Params map[string]interface{}
}

// Outcome of running a scenario: the protocol lines for the model, the outputs observed on the real
// code, and the first clause violated (if any).
type Outcome struct {
	Lines   []string
	Obs     []string
	Verdict *Verdict
	Bug     string
}

func box(v int) *int { return &v }
func showPtr(p *int) string {
	if p == nil {
		return "zero"
	}
	return strconv.Itoa(*p)
}

func isClosed(ch chan struct{}) bool {
	select {
	case <-ch:
		return true
	default:
		return false
	}
}

// ---------------------------------------------------------------------------------------------
// Watchable

type observer struct {
	mu   sync.Mutex
	last *int
	ch   chan struct{}
	n    int
}

func runWatch(sc Scenario) (out Outcome) {
	var w xsync.Watchable[*int]
	var seen []chan struct{}
	idx := func(ch chan struct{}) int {
		for i, c := range seen {
			if c == ch {
				return i
			}
		}
		seen = append(seen, ch)
		return len(seen) - 1
	}
	var lastSet *int // reference: most recent Set
	nSets := 0
	ptrs := map[int]*int{} // one pointer object per value: Set(v) twice hands the library two equal values
	intern := func(v int) *int {
		if p, ok := ptrs[v]; ok {
			return p
		}
		ptrs[v] = box(v)
		return ptrs[v]
	}
	type ret struct {
		ch    chan struct{}
		epoch int // number of Sets when it was returned
	}
	var returned []ret
	var observers []*observer
	stop := make(chan struct{})
	var wg sync.WaitGroup
	fail := func(kind, what string, params map[string]interface{}) {
		if out.Verdict == nil {
			out.Verdict = &Verdict{Kind: kind, What: what, Params: params}
		}
	}
	showCell := func(v *int, ch chan struct{}) string {
		st := "open"
		if isClosed(ch) {
			st = "closed"
		}
		return fmt.Sprintf("%s k%d %s", showPtr(v), idx(ch), st)
	}
	checkValue := func(step int, v *int, ch chan struct{}) {
		if showPtr(v) != showPtr(lastSet) {
			fail("watchable-value-not-latest", fmt.Sprintf("step %d: Value returned %s, the most recent Set was %s", step, showPtr(v), showPtr(lastSet)), map[string]interface{}{"sets": nSets})
		}
		if isClosed(ch) {
			fail("watchable-chan-closed-without-later-set", fmt.Sprintf("step %d: Value returned a channel that is already closed although no later Set has happened", step), map[string]interface{}{"sets": nSets})
		}
		returned = append(returned, ret{ch, nSets})
	}
	for step, a := range sc.Acts {
		var o string
		switch a.Op {
		case "set", "setz":
			arg := intern(a.I)
			if a.Op == "setz" {
				arg = nil
			}
			p, _ := vlib.Try(func() { w.Set(arg) })
			lastSet = arg
			nSets++
			synctest.Wait()
			var vals []string
			for j, ob := range observers {
				ob.mu.Lock()
				vals = append(vals, showPtr(ob.last))
				idx(ob.ch)
				if showPtr(ob.last) != showPtr(lastSet) {
					fail("watchable-observer-stale", fmt.Sprintf("step %d: after Set(%s) observer %d is parked having last seen %s", step, showPtr(arg), j, showPtr(ob.last)), map[string]interface{}{"sets": nSets})
				}
				ob.mu.Unlock()
			}
			o = "ok obs=" + strings.Join(vals, ",")
			if p {
				o = "panic obs=" + strings.Join(vals, ",")
				fail("watchable-set-panicked", fmt.Sprintf("step %d: Set(%s) panicked", step, showPtr(arg)), nil)
			}
			for _, r := range returned {
				if r.epoch < nSets && !isClosed(r.ch) {
					fail("watchable-chan-not-closed-after-set", fmt.Sprintf("step %d: a channel returned by Value after %d Set(s) is still open after Set number %d", step, r.epoch, nSets), map[string]interface{}{"sets": nSets, "returned_after": r.epoch})
				}
			}
		case "value":
			var v *int
			var ch chan struct{}
			p, _ := vlib.Try(func() { v, ch = w.Value() })
			if p || ch == nil {
				o = "panic"
				fail("watchable-value-panicked", fmt.Sprintf("step %d: Value panicked or returned a nil channel", step), nil)
				break
			}
			o = showCell(v, ch)
			checkValue(step, v, ch)
		case "observe":
			ob := &observer{}
			observers = append(observers, ob)
			first := make(chan struct{})
			wg.Add(1)
			go func() {
				defer wg.Done()
				for {
					var v *int
					var ch chan struct{}
					if p, _ := vlib.Try(func() { v, ch = w.Value() }); p || ch == nil {
						return
					}
					ob.mu.Lock()
					ob.last, ob.ch = v, ch
					ob.n++
					if ob.n == 1 {
						close(first)
					}
					ob.mu.Unlock()
					select {
					case <-ch:
					case <-stop:
						return
					}
				}
			}()
			synctest.Wait()
			ob.mu.Lock()
			if ob.n == 0 {
				o = "panic"
				fail("watchable-value-panicked", fmt.Sprintf("step %d: observer's Value panicked", step), nil)
			} else {
				o = showCell(ob.last, ob.ch)
				checkValue(step, ob.last, ob.ch)
			}
			ob.mu.Unlock()
		case "chans":
			var fl []string
			for _, c := range seen {
				if isClosed(c) {
					fl = append(fl, "closed")
				} else {
					fl = append(fl, "open")
				}
			}
			o = "chans " + strings.Join(fl, ",")
		default:
			continue
		}
		out.Lines = append(out.Lines, a.String())
		out.Obs = append(out.Obs, o)
	}
	close(stop)
	wg.Wait()
	return out
}

// ---------------------------------------------------------------------------------------------
// Future

type fwaiter struct {
	withCtx bool
	ctx     context.Context
	cancel  context.CancelFunc
	mu      sync.Mutex
	started bool
	done    bool
	val     *int
	err     error
}

func runFuture(sc Scenario) (out Outcome) {
	f := xsync.NewFuture[*int]()
	k := len(sc.Flags)
	ws := make([]*fwaiter, k)
	for j := range ws {
		ws[j] = &fwaiter{withCtx: sc.Flags[j] == "c"}
		ws[j].ctx, ws[j].cancel = context.WithCancel(context.Background())
	}
	var wg sync.WaitGroup
	filled := false
	var first *int
	cancelled := make([]bool, k)
	fail := func(kind, what string, params map[string]interface{}) {
		if out.Verdict == nil {
			out.Verdict = &Verdict{Kind: kind, What: what, Params: params}
		}
	}
	status := func() string {
		var st []string
		for _, w := range ws {
			w.mu.Lock()
			switch {
			case !w.started:
				st = append(st, "I")
			case !w.done:
				st = append(st, "B")
			case w.err != nil:
				st = append(st, "E")
			default:
				st = append(st, "V"+showPtr(w.val))
			}
			w.mu.Unlock()
		}
		return strings.Join(st, ",")
	}
	out.Lines = append(out.Lines, "init "+strings.Join(sc.Flags, " "))
	out.Obs = append(out.Obs, "")
	fills := 0
	for step, a := range sc.Acts {
		fillRes := "-"
		switch a.Op {
		case "call":
			if a.I < 0 || a.I >= k || ws[a.I].started {
				continue
			}
			w := ws[a.I]
			w.started = true
			wg.Add(1)
			go func() {
				defer wg.Done()
				var v *int
				var err error
				if w.withCtx {
					v, err = f.WaitContext(w.ctx)
				} else {
					v = f.Wait()
				}
				w.mu.Lock()
				w.done, w.val, w.err = true, v, err
				w.mu.Unlock()
			}()
		case "cancel":
			if a.I < 0 || a.I >= k || cancelled[a.I] {
				continue
			}
			cancelled[a.I] = true
			ws[a.I].cancel()
		case "fill":
			p, _ := vlib.Try(func() { f.Fill(box(a.I)) })
			fills++
			fillRes = "ok"
			if p {
				fillRes = "panic"
			}
			if !filled {
				filled = true
				first = box(a.I)
				if p {
					fail("future-first-fill-panicked", fmt.Sprintf("step %d: the first Fill panicked", step), nil)
				}
			} else if !p {
				fail("future-second-fill-no-panic", fmt.Sprintf("step %d: Fill on a filled Future did not panic", step), nil)
			}
		default:
			continue
		}
		synctest.Wait()
		obs := fillRes + " " + status()
		out.Lines = append(out.Lines, a.String()+" = "+obs)
		out.Obs = append(out.Obs, obs)
		// clauses (judged only while the Future has been filled at most once: a second Fill is a
		// documented panic, what the object holds afterwards is left open)
		if fills > 1 {
			continue
		}
		for j, w := range ws {
			w.mu.Lock()
			switch {
			case w.started && !w.done:
				if filled {
					fail("future-waiter-not-released", fmt.Sprintf("step %d %q: waiter %d is still blocked although the Future is filled", step, a, j), map[string]interface{}{"ctx": w.withCtx})
				} else if w.withCtx && cancelled[j] {
					fail("future-waitcontext-did-not-give-up", fmt.Sprintf("step %d %q: WaitContext of waiter %d is still blocked although its context has ended", step, a, j), nil)
				}
			case w.done && w.err != nil:
				if !w.withCtx || !cancelled[j] || w.err != w.ctx.Err() {
					fail("future-spurious-error", fmt.Sprintf("step %d %q: waiter %d returned error %v (context ended: %v)", step, a, j, w.err, cancelled[j]), nil)
				}
				if w.val != nil {
					fail("future-error-with-value", fmt.Sprintf("step %d %q: waiter %d returned an error together with a non-zero value", step, a, j), nil)
				}
			case w.done:
				if !filled {
					fail("future-returned-before-fill", fmt.Sprintf("step %d %q: waiter %d returned %s before any Fill", step, a, j, showPtr(w.val)), nil)
				} else if showPtr(w.val) != showPtr(first) {
					fail("future-wrong-value", fmt.Sprintf("step %d %q: waiter %d got %s, the Future was filled with %s", step, a, j, showPtr(w.val), showPtr(first)), map[string]interface{}{"ctx": w.withCtx})
				}
			}
			w.mu.Unlock()
		}
	}
	// clean-up
	for _, w := range ws {
		w.cancel()
	}
	if !filled {
		vlib.Try(func() { f.Fill(box(0)) })
	}
	wg.Wait()
	return out
}

func runInBubble(t *testing.T, sc Scenario) (out Outcome) {
	if sc.Kind == "lazy" { // real threads: callers parked on the mutex of a sync.Once are not durably blocked
		if p, pv := vlib.Try(func() { out = runLazy(sc) }); p {
			out.Bug = fmt.Sprintf("lazy scenario panicked: %v", pv)
		}
		return out
	}
	ok := false
	p, pv := vlib.Try(func() {
		synctest.Test(t, func(t *testing.T) {
			switch sc.Kind {
			case "watch":
				out = runWatch(sc)
			case "future":
				out = runFuture(sc)
			}
			ok = true
		})
	})
	if p || !ok {
		out.Bug = fmt.Sprintf("bubble failed: %v", pv)
	}
	return out
}

// ---------------------------------------------------------------------------------------------
// conformance

type models struct{ watch, future, lazy *vlib.Model }

// outsideModel: the Watchable model's values are integers; a Set of the nil pointer is judged by the monitor only.
func outsideModel(sc Scenario) bool {
	for _, a := range sc.Acts {
		if a.Op == "setz" {
			return true
		}
	}
	return false
}

func (ms *models) of(kind string) *vlib.Model {
	switch kind {
	case "watch":
		return ms.watch
	case "future":
		return ms.future
	case "lazy":
		return ms.lazy
	}
	return nil
}

// conform compares the observations with the model's answers.
func conform(m *vlib.Model, kind string, out Outcome) (string, error) {
	mo, err := m.Run(out.Lines)
	if err != nil {
		return "", err
	}
	for i := range mo {
		if kind == "future" {
			if !strings.HasPrefix(mo[i], "ok") {
				return fmt.Sprintf("line %d %q: model answers %q", i, out.Lines[i], mo[i]), nil
			}
		} else if out.Obs[i] == "" { // lazy: a caller racing towards a held Once — state not observed
			continue
		} else if mo[i] != out.Obs[i] {
			return fmt.Sprintf("line %d %q: impl %q, model %q", i, out.Lines[i], out.Obs[i], mo[i]), nil
		}
	}
	return "", nil
}

// ---------------------------------------------------------------------------------------------
// generators

func genScenario(r *vlib.Rand, res *vlib.Result) Scenario {
	switch r.Pick(5, 5, 1) {
	case 0:
		res.Count("kind-watch")
		sc := Scenario{Kind: "watch"}
		n := r.Range(2, 14)
		mode := r.Intn(3)
		v := 0
		repeat := r.Chance(1, 2) // Sets that carry the value the Watchable already holds
		zero := r.Chance(1, 4)   // Sets of the zero value of T (also as the very first Set)
		for i := 0; i < n; i++ {
			w := []int{5, 4, 2, 1}
			if mode == 1 && i < 3 { // Value / observers before the first Set
				w = []int{0, 4, 4, 1}
			}
			if mode == 2 { // set-heavy
				w = []int{8, 2, 1, 1}
			}
			switch r.Pick(w...) {
			case 0:
				if zero && r.Chance(1, 3) {
					sc.Acts = append(sc.Acts, Act{Op: "setz"})
					break
				}
				if repeat && v > 0 && r.Chance(1, 3) {
					if r.Chance(1, 4) {
						sc.Acts = append(sc.Acts, Act{Op: "set", I: r.Range(1, v)}) // an earlier value again
					} else {
						sc.Acts = append(sc.Acts, Act{Op: "set", I: v}) // (the current one unless a setz / earlier value came between)
					}
					break
				}
				v++
				sc.Acts = append(sc.Acts, Act{Op: "set", I: v})
			case 1:
				sc.Acts = append(sc.Acts, Act{Op: "value"})
			case 2:
				sc.Acts = append(sc.Acts, Act{Op: "observe"})
			case 3:
				sc.Acts = append(sc.Acts, Act{Op: "chans"})
			}
		}
		sc.Acts = append(sc.Acts, Act{Op: "chans"})
		return sc
	case 1:
		res.Count("kind-future")
		k := r.Range(1, 4)
		sc := Scenario{Kind: "future"}
		for j := 0; j < k; j++ {
			if r.Bool() {
				sc.Flags = append(sc.Flags, "c")
			} else {
				sc.Flags = append(sc.Flags, "p")
			}
		}
		n := r.Range(2, 10)
		fills := 0
		for i := 0; i < n; i++ {
			switch r.Pick(5, 3, 2) {
			case 0:
				sc.Acts = append(sc.Acts, Act{Op: "call", I: r.Intn(k)})
			case 1:
				sc.Acts = append(sc.Acts, Act{Op: "cancel", I: r.Intn(k)})
			case 2:
				if fills == 0 || r.Chance(1, 6) { // a second Fill: the documented panic
					fills++
					sc.Acts = append(sc.Acts, Act{Op: "fill", I: 10 + fills})
				}
			}
		}
		for j := 0; j < k; j++ {
			if r.Bool() {
				sc.Acts = append(sc.Acts, Act{Op: "call", I: j})
			}
		}
		return sc
	}
	res.Count("kind-lazy")
	return genLazy(r, res)
}

func nontrivial(sc Scenario) bool {
	switch sc.Kind {
	case "watch":
		sets, reads := 0, 0
		for _, a := range sc.Acts {
			if a.Op == "set" || a.Op == "setz" {
				sets++
			} else if a.Op == "value" || a.Op == "observe" {
				reads++
			}
		}
		return sets >= 2 && reads >= 2
	case "future":
		calls, fills := 0, 0
		for _, a := range sc.Acts {
			if a.Op == "call" {
				calls++
			} else if a.Op == "fill" {
				fills++
			}
		}
		return calls >= 2 && fills >= 1
	}
	return lazyCalls(sc) >= 2
}

type checker struct {
	t   *testing.T
	ms  *models
	res *vlib.Result
}

func (c *checker) check(sc Scenario, reps int) {
	for j := 0; j < reps; j++ {
		out := runInBubble(c.t, sc)
		if out.Bug != "" {
			if v := out.Verdict; v != nil { // e.g. callers of a Lazy parked for good: the clause was judged before the bubble was left
				c.res.Fail(vlib.Failure{Source: "monitor", Kind: v.Kind, Params: v.Params, What: v.What, Case: sc})
			}
			c.res.Fail(vlib.Failure{Source: "correspondence", Kind: "harness-bubble", What: out.Bug, Case: sc})
			return
		}
		if j == 0 {
			c.res.Case(sc.Key(), nontrivial(sc), out.Lines)
			for _, a := range sc.Acts {
				c.res.Count(sc.Kind + "-" + a.Op)
			}
		}
		if v := out.Verdict; v != nil {
			small := vlib.Shrink(sc.Acts, func(acts []Act) bool {
				for r := 0; r < 3; r++ {
					o := runInBubble(c.t, Scenario{Kind: sc.Kind, Flags: sc.Flags, Acts: acts})
					if o.Verdict != nil && o.Verdict.Kind == v.Kind && (sc.Kind != "lazy" || fmt.Sprint(o.Verdict.Params) == fmt.Sprint(v.Params)) {
						return true // lazy: the parameters say which calls deviate (later ones / concurrent first calls): shrinking keeps the class
					}
				}
				return false
			})
			ssc := Scenario{Kind: sc.Kind, Flags: sc.Flags, Acts: small}
			vv := v
			for r := 0; r < 5; r++ {
				if o := runInBubble(c.t, ssc); o.Verdict != nil && o.Verdict.Kind == v.Kind && (sc.Kind != "lazy" || fmt.Sprint(o.Verdict.Params) == fmt.Sprint(v.Params)) {
					vv = o.Verdict
					break
				}
			}
			c.res.Fail(vlib.Failure{Source: "monitor", Kind: vv.Kind, Params: vv.Params, What: vv.What, Case: ssc})
		}
		if m := c.ms.of(sc.Kind); m != nil && !outsideModel(sc) {
			bad, err := conform(m, sc.Kind, out)
			if err != nil {
				c.res.ModelMissing = err.Error()
				continue
			}
			c.res.Traces++
			if bad != "" {
				small := vlib.Shrink(sc.Acts, func(acts []Act) bool {
					o := runInBubble(c.t, Scenario{Kind: sc.Kind, Flags: sc.Flags, Acts: acts})
					if o.Bug != "" {
						return false
					}
					b, err := conform(m, sc.Kind, o)
					return err == nil && b != ""
				})
				c.res.Fail(vlib.Failure{Source: "correspondence", Kind: sc.Kind + "-trace-not-in-model", What: bad, Case: Scenario{Kind: sc.Kind, Flags: sc.Flags, Acts: small}})
			}
		}
	}
}

func startModels(env vlib.Env, res *vlib.Result) *models {
	ms := &models{}
	var err error
	if ms.watch, err = vlib.StartModel(env.Driver, "watch"); err != nil {
		res.ModelMissing = err.Error()
		ms.watch = nil
	}
	if ms.future, err = vlib.StartModel(env.Driver, "future"); err != nil {
		ms.future = nil
	}
	if ms.lazy, err = vlib.StartModel(env.Driver, "lazy"); err != nil {
		ms.lazy = nil
	}
	return ms
}

func TestVerif(t *testing.T) {
	env := vlib.GetEnv()
	res := vlib.NewResult("C18", "synctest scenarios: Watchable (Set / Value / observer loops / channel states, incl. Value and observers before the first Set), "+
		"Future (Wait and WaitContext callers before and after Fill, context expiry before and after Fill, second Fill), Lazy (repeated calls; callers parked behind a gated run of f and later callers; runs of f that return and runs that panic); "+
		"non-trivial: Watchable >= 2 Sets and >= 2 reads, Future >= 2 callers and a Fill, Lazy >= 2 calls; distinct = different action sequence")
	ms := startModels(env, res)
	defer ms.watch.Close()
	defer ms.future.Close()
	defer ms.lazy.Close()
	c := &checker{t: t, ms: ms, res: res}

	if env.Replay != "" {
		var sc Scenario
		if err := vlib.ReplayCase(env.Replay, &sc); err != nil {
			fmt.Println("cannot read replay:", err)
			os.Exit(2)
		}
		out := runInBubble(t, sc)
		for i := range out.Lines {
			o := out.Obs[i]
			if o == "" {
				o = "(state not observed: the caller is on its way to a Once that is held)"
			}
			fmt.Printf("  %-28s -> %s\n", out.Lines[i], o)
		}
		if out.Verdict != nil {
			fmt.Printf("monitor: %s: %s\n", out.Verdict.Kind, out.Verdict.What)
		} else {
			fmt.Println("monitor: no clause violated")
		}
		if outsideModel(sc) {
			fmt.Println("conformance: a Set of the nil pointer is outside the model (monitor only)")
		} else if m := ms.of(sc.Kind); m != nil {
			if bad, err := conform(m, sc.Kind, out); err == nil && bad != "" {
				fmt.Println("conformance:", bad)
			} else if err == nil {
				fmt.Println("conformance: the trace is a trace of the model")
			}
		}
		if out.Verdict != nil {
			os.Exit(1)
		}
		return
	}

	for _, f := range vlib.CorpusFiles(env.Corpus, ".scn") {
		ls := vlib.ReadLines(f)
		if len(ls) == 0 {
			continue
		}
		sc := Scenario{}
		hd := strings.Fields(ls[0])
		sc.Kind = hd[0]
		sc.Flags = hd[1:]
		for _, l := range ls[1:] {
			fl := strings.Fields(l)
			a := Act{Op: fl[0]}
			if len(fl) > 1 {
				a.I, _ = strconv.Atoi(fl[1])
			}
			sc.Acts = append(sc.Acts, a)
		}
		res.Count("corpus")
		c.check(sc, 2)
	}
	for _, sc := range directedLazy() {
		res.Count("lazy-directed")
		c.check(sc, 1)
	}
	r := vlib.NewRand(env.Seed)
	deadline := time.Now().Add(time.Duration(env.BudgetMs) * time.Millisecond / 2)
	maxCases := 2500
	if env.Thorough() || env.Deep {
		maxCases = 60000
	}
	for i := 0; i < maxCases && time.Now().Before(deadline); i++ {
		sc := genScenario(r.Fork(), res)
		reps := 1
		if sc.Kind == "future" {
			reps = 2
		}
		c.check(sc, reps)
	}
	res.Write(env.Out)
}

// ---------------------------------------------------------------------------------------------
// stress under the race detector (no bubble: real scheduling)

func TestStress(t *testing.T) {
	env := vlib.GetEnv()
	res := vlib.NewResult("C18", "race-detector stress: Value racing the first Set, concurrent Sets with observer loops, Fill racing Wait/WaitContext, concurrent first calls of a Lazy, concurrent typed-map operations")
	r := vlib.NewRand(env.Seed)
	deadline := time.Now().Add(time.Duration(env.BudgetMs) * time.Millisecond / 4)
	var failMu sync.Mutex
	fail := func(kind, what string) {
		failMu.Lock()
		defer failMu.Unlock()
		res.Fail(vlib.Failure{Source: "monitor", Kind: kind, What: what, Case: map[string]interface{}{"stress": kind, "seed": env.Seed}})
	}
	rounds := 0
	for time.Now().Before(deadline) && rounds < 4000 {
		rounds++
		// --- Watchable: one setter 1..n, readers check monotonicity, observers must see n
		{
			var w xsync.Watchable[int]
			n := r.Range(1, 40)
			nr, no := r.Range(1, 3), r.Range(1, 3)
			var wg sync.WaitGroup
			var bad atomic.Value
			stopReaders := make(chan struct{})
			for i := 0; i < nr; i++ {
				wg.Add(1)
				go func() {
					defer wg.Done()
					last := 0
					for {
						v, ch := w.Value()
						if v < last {
							bad.Store(fmt.Sprintf("Value went back from %d to %d", last, v))
						}
						last = v
						if ch == nil {
							bad.Store("Value returned a nil channel")
						}
						select {
						case <-stopReaders:
							return
						default:
						}
					}
				}()
			}
			obsDone := make(chan int, no)
			for i := 0; i < no; i++ {
				go func() {
					for {
						v, ch := w.Value()
						if v == n {
							obsDone <- v
							return
						}
						<-ch
					}
				}()
			}
			for v := 1; v <= n; v++ {
				w.Set(v)
			}
			for i := 0; i < no; i++ {
				select {
				case <-obsDone:
				case <-time.After(300 * time.Second): // generous backstop (loaded machines)
					fail("watchable-observer-stuck", fmt.Sprintf("an observer loop did not reach the final value %d", n))
				}
			}
			close(stopReaders)
			wg.Wait()
			if v, ch := w.Value(); v != n || isClosed(ch) {
				fail("watchable-value-not-latest", fmt.Sprintf("after the last Set(%d) Value returned %d (channel closed: %v)", n, v, isClosed(ch)))
			}
			if b := bad.Load(); b != nil {
				fail("watchable-value-not-latest", b.(string))
			}
			res.Evaluations++
		}
		// --- Watchable: concurrent setters; observers end on whatever Value reports at the end
		{
			var w xsync.Watchable[int]
			ns := r.Range(2, 4)
			var wg sync.WaitGroup
			type seenT struct {
				v  int
				ch chan struct{}
			}
			first := make([]seenT, 3)
			for i := range first {
				v, ch := w.Value() // before any Set (racing the first Set for later rounds)
				first[i] = seenT{v, ch}
			}
			for s := 0; s < ns; s++ {
				wg.Add(1)
				go func() {
					defer wg.Done()
					for j := 1; j <= 10; j++ {
						w.Set(s*100 + j)
					}
				}()
			}
			wg.Wait()
			for _, f := range first {
				if f.v != 0 || !isClosed(f.ch) {
					fail("watchable-chan-not-closed-after-set", fmt.Sprintf("a channel handed out before the first Set (value %d) is not closed after %d Sets", f.v, ns*10))
				}
			}
			v, ch := w.Value()
			if v%100 != 10 || isClosed(ch) {
				fail("watchable-value-not-latest", fmt.Sprintf("after all setters finished Value returned %d (channel closed: %v)", v, isClosed(ch)))
			}
			res.Evaluations++
		}
		// --- Future: Fill racing Wait / WaitContext
		{
			f := xsync.NewFuture[int]()
			nw := r.Range(1, 6)
			var wg sync.WaitGroup
			got := make([]int, nw)
			errs := make([]error, nw)
			ctx, cancel := context.WithCancel(context.Background())
			for i := 0; i < nw; i++ {
				wg.Add(1)
				go func() {
					defer wg.Done()
					if i%2 == 0 {
						got[i] = f.Wait()
					} else {
						got[i], errs[i] = f.WaitContext(ctx)
					}
				}()
			}
			if r.Bool() {
				time.Sleep(time.Microsecond)
			}
			f.Fill(42)
			wg.Wait()
			cancel()
			for i := range got {
				if errs[i] == nil && got[i] != 42 {
					fail("future-wrong-value", fmt.Sprintf("waiter %d got %d, the Future was filled with 42", i, got[i]))
				}
				if errs[i] != nil {
					fail("future-spurious-error", fmt.Sprintf("waiter %d returned %v although its context had not ended", i, errs[i]))
				}
			}
			if v := f.Wait(); v != 42 {
				fail("future-wrong-value", fmt.Sprintf("a later Wait got %d", v))
			}
			res.Evaluations++
		}
		// --- Lazy: concurrent first calls
		{
			var runs atomic.Int32
			l := xsync.Lazy(func() int { return int(runs.Add(1)) * 7 })
			ng := r.Range(2, 8)
			var wg sync.WaitGroup
			got := make([]int, ng)
			for i := 0; i < ng; i++ {
				wg.Add(1)
				go func() { defer wg.Done(); got[i] = l() }()
			}
			wg.Wait()
			for i := range got {
				if got[i] != 7 || runs.Load() != 1 {
					fail("lazy-not-once", fmt.Sprintf("caller %d got %d, f ran %d time(s)", i, got[i], runs.Load()))
				}
			}
			res.Evaluations++
		}
		// --- Lazy: concurrent first calls of a Lazy whose f panics (sync.OnceValue: "If f panics, the
		// returned function will panic with the same value on every call"): every caller must end with
		// the outcome of the single run, none with a value f did not produce
		{
			var runs atomic.Int32
			l := xsync.Lazy(func() int { runs.Add(1); runtime.Gosched(); panic(lazyPanic(9)) })
			ng := r.Range(2, 8)
			var wg sync.WaitGroup
			got := make([]string, ng)
			for i := 0; i < ng; i++ {
				wg.Add(1)
				go func() {
					defer wg.Done()
					var v int
					p, pv := vlib.Try(func() { v = l() })
					if p {
						got[i] = fmt.Sprintf("panic %T %v", pv, pv)
					} else {
						got[i] = fmt.Sprintf("returned %d", v)
					}
				}()
			}
			wg.Wait()
			for i := range got {
				if got[i] != "panic c18.lazyPanic 9" {
					fail("lazy-result-differs", fmt.Sprintf("caller %d of %d concurrent first calls: %s, but the single run of f panicked with 9 (f ran %d time(s))", i, ng, got[i], runs.Load()))
				} else if runs.Load() != 1 {
					fail("lazy-not-once", fmt.Sprintf("f ran %d time(s) for %d concurrent first calls", runs.Load(), ng))
				}
			}
			res.Evaluations++
		}
		// --- typed map under concurrent use (race detector)
		{
			var m xsync.Map[int, error]
			var wg sync.WaitGroup
			for g := 0; g < 4; g++ {
				wg.Add(1)
				go func() {
					defer wg.Done()
					if p, pv := vlib.Try(func() {
						for i := 0; i < 20; i++ {
							m.Store(i%3, nil)
							m.Load(i % 3)
							m.LoadOrStore(i%3, nil)
							m.Swap(i%3, nil)
							m.Delete(i % 3)
							m.Range(func(int, error) bool { return true })
						}
					}); p {
						fail("typedmap-panic-concurrent", fmt.Sprintf("xsync.Map[int,error] panicked under concurrent use with nil values: %v", pv))
					}
				}()
			}
			wg.Wait()
			res.Evaluations++
		}
	}
	res.Nontrivial = res.Evaluations
	res.Dist["stress-rounds"] = rounds
	res.Write(env.Out)
}
