// Real-threads phase of C16, liveness half: "Broadcast wakes all of them, however far each waiter has
// progressed inside Wait" with the Broadcast call overlapping the internal reader sections of OTHER
// goroutines' Wait calls (outside any synctest bubble; under synctest no two calls ever overlap).
//
// One round: a waiter W does `L.Lock(); c.Wait(ctx)` with a context nobody has ended. The driver learns
// that W holds L, then acquires L itself: that acquisition succeeds only after W's Wait has released the
// lock - W has ENTERED Wait in the sense of the property text (and has taken its snapshot of the channel,
// which the code does before the release). Only then is Broadcast called - without L, or holding L; both
// are allowed by the documentation - while `Entrants` goroutines keep calling `L.Lock(); c.Wait(ended
// context)`: each of those calls passes through Wait's internal read section and returns its context's error
// at once (or nil, holding L, when a Broadcast fell between its snapshot and its select). No Signal is ever
// called in this phase, so the two open findings about Signal tokens (D13 / D13b) cannot play a part.
//
// Verdict, a true positive without any assumption about time: AFTER Broadcast has returned, W's goroutine
// is observed PARKED in the select of ContextCond.Wait (runtime.Stack reports the goroutine's state as
// "select" with a Wait frame). On a ContextCond that wakes every entered waiter this state is unreachable
// once Broadcast has returned: the channel W snapshotted is closed by then (by this Broadcast - nobody else
// broadcasts), a waiter that was parked on it has been made runnable inside close() before Broadcast
// returned, and one that reaches the select later finds it closed and never parks. The observation is
// confirmed by a second dump (W still parked, still not returned), then W's context is ended so that the
// round can finish. W returning nil ends the round without a verdict; W returning an error although nobody
// ended its context is the existing clause `wait-err-without-expiry`.
//
// The clock only bounds the search. A round in which W neither returns nor is seen parked within 120 s is a
// harness-level observation (source "correspondence"), never a property verdict.
package c16

import (
	"bytes"
	"context"
	"fmt"
	"runtime"
	"sync"
	"sync/atomic"
	"time"

	"github.com/bradenaw/juniper/xsync"
	"verifharness/vlib"
)

// parkedInWait: is goroutine id waiting in a select inside ContextCond.Wait right now? (stops the world)
func parkedInWait(id uint64, buf []byte) bool {
	n := runtime.Stack(buf, true)
	if n >= len(buf) {
		return false // truncated dump: no observation
	}
	head := []byte(fmt.Sprintf("goroutine %d [", id))
	for _, sec := range bytes.Split(buf[:n], []byte("\n\n")) {
		if !bytes.HasPrefix(sec, head) {
			continue
		}
		rest := sec[len(head):]
		end := bytes.IndexByte(rest, ']')
		if end < 0 {
			return false
		}
		state := rest[:end]
		return (bytes.Equal(state, []byte("select")) || bytes.HasPrefix(state, []byte("select,"))) &&
			bytes.Contains(sec, []byte("xsync.(*ContextCond).Wait"))
	}
	return false
}

// fastLock: a mutex whose Unlock never hits the runtime's fatal error: an Unlock that finds the lock not held is
// recorded instead. On code that keeps the Locker contract (Wait returns nil only holding the lock, an error only
// without it) every Unlock of this phase finds the lock held by its caller, so `anomaly` stays false.
type fastLock struct {
	mu      sync.Mutex
	held    atomic.Bool
	anomaly atomic.Bool
}

func (l *fastLock) Lock() { l.mu.Lock(); l.held.Store(true) }
func (l *fastLock) Unlock() {
	if !l.held.CompareAndSwap(true, false) {
		l.anomaly.Store(true)
		return
	}
	l.mu.Unlock()
}

// lockStateOK releases the lock after a Wait that returned nil and reports an Unlock that found the lock not held
// (by this caller or, after somebody else's lock was released by mistake, by a later one); false = a verdict was
// recorded and the caller should stop. What an error return leaves behind is judged by the other phase.
func lockStateOK(L *fastLock, me uint64, err error, desc string, fail func(kind, what string)) bool {
	if err == nil {
		L.Unlock()
	}
	if L.anomaly.Load() {
		fail("wait-nil-without-lock-real-threads", fmt.Sprintf("%s: an Unlock after a Wait that returned nil found the caller's lock not held: some Wait returned nil without holding it", desc))
		return false
	}
	return true
}

type bcStats struct{ rounds, wokenNil, entrantCalls, dumps int64 }

func stressBroadcastParked(cfg CondStress, budget time.Duration) (*stressFail, bcStats) {
	old := runtime.GOMAXPROCS(0)
	gmp := cfg.Gmp
	if gmp <= 0 {
		gmp = 16
	}
	runtime.GOMAXPROCS(gmp)
	defer runtime.GOMAXPROCS(old)

	// not the holder-recording lock of the other phase (that one spends microseconds inside Lock and the window of
	// this phase is then no longer hit), but not a bare sync.Mutex either: a Wait that comes back nil without the
	// lock must end up as a verdict, not as the fatal error "unlock of unlocked mutex" that loses the whole run
	L := &fastLock{}
	c := xsync.NewContextCond(L)
	var stop atomic.Bool
	var firstFail atomic.Pointer[stressFail]
	fail := func(kind, what string) {
		firstFail.CompareAndSwap(nil, &stressFail{kind, what})
		stop.Store(true)
	}
	desc := fmt.Sprintf("real threads (1 waiter, %d goroutines entering Wait with an ended context, Broadcast %s, GOMAXPROCS %d)",
		cfg.Entrants, map[bool]string{true: "holding L", false: "without L"}[cfg.HoldL], gmp)
	var st bcStats
	var nEntr atomic.Int64
	var wg sync.WaitGroup
	ended, endIt := context.WithCancel(context.Background())
	endIt()
	for i := 0; i < cfg.Entrants; i++ {
		wg.Add(1)
		go func() {
			defer wg.Done()
			n := int64(0)
			me := goid()
			for !stop.Load() {
				var err error
				L.Lock()
				if p, pv := vlib.Try(func() { err = c.Wait(ended) }); p {
					fail("wait-panicked-real-threads", fmt.Sprintf("%s: Wait panicked: %v", desc, pv))
					return
				}
				if !lockStateOK(L, me, err, desc, fail) {
					return
				}
				n++
			}
			nEntr.Add(n)
		}()
	}
	buf := make([]byte, 1<<20)
	deadline := time.Now().Add(budget)
	for !stop.Load() && time.Now().Before(deadline) {
		ctxW, cancelW := context.WithCancel(context.Background())
		holding := make(chan struct{})
		done := make(chan error, 1)
		var wid atomic.Uint64
		go func() {
			me := goid()
			wid.Store(me)
			L.Lock()
			close(holding)
			var err error
			if p, pv := vlib.Try(func() { err = c.Wait(ctxW) }); p {
				fail("wait-panicked-real-threads", fmt.Sprintf("%s: Wait panicked: %v", desc, pv))
				done <- fmt.Errorf("panicked")
				return
			}
			lockStateOK(L, me, err, desc, fail)
			done <- err
		}()
		<-holding
		// W holds L and is in (or about to call) Wait; this acquisition succeeds only once Wait has released L
		L.Lock()
		bc := func() {
			if p, pv := vlib.Try(c.Broadcast); p {
				fail("broadcast-panicked-real-threads", fmt.Sprintf("%s: Broadcast panicked: %v", desc, pv))
			}
		}
		if cfg.HoldL {
			bc()
			L.Unlock()
		} else {
			L.Unlock()
			bc()
		}
		// Broadcast has returned
		st.rounds++
		start := time.Now()
		// how long to wait before looking at W's goroutine (a dump stops the world): only a matter of search
		// efficiency - a healthy round ends within microseconds, and no verdict depends on these delays
		patience := 2 * time.Millisecond
		for {
			var err error
			got := false
			tm := time.NewTimer(patience)
			select {
			case err = <-done:
				got = true
			case <-tm.C:
			}
			tm.Stop()
			if got {
				if err == nil {
					st.wokenNil++
				} else if firstFail.Load() == nil {
					fail("wait-err-without-expiry-real-threads", fmt.Sprintf("%s, round %d: Wait returned %q although its context has not ended", desc, st.rounds, err))
				}
				break
			}
			st.dumps++
			if parkedInWait(wid.Load(), buf) && parkedInWait(wid.Load(), buf) && len(done) == 0 {
				fail("broadcast-wakeup-lost-real-threads", fmt.Sprintf("%s, round %d: the waiter had entered Wait (released the lock) before Broadcast was called, Broadcast has returned, and the waiter's goroutine is parked in the select of ContextCond.Wait: it was not woken (its context has not ended; nothing but a later Broadcast or the end of its context will wake it)", desc, st.rounds))
				cancelW()
				<-done
				break
			}
			if time.Since(start) > 120*time.Second {
				fail("stress-goroutines-remain", desc+": the waiter neither returned nor was seen parked within 120 s of real time after Broadcast returned")
				cancelW()
				break
			}
			if patience < 200*time.Millisecond {
				patience *= 2
			}
		}
		cancelW()
	}
	stop.Store(true)
	endedCh := make(chan struct{})
	go func() { wg.Wait(); close(endedCh) }()
	t := time.NewTimer(120 * time.Second)
	select {
	case <-endedCh:
	case <-t.C:
		firstFail.CompareAndSwap(nil, &stressFail{"stress-goroutines-remain", desc + ": the entrant goroutines did not end within 120 s of real time"})
	}
	t.Stop()
	st.entrantCalls = nEntr.Load()
	return firstFail.Load(), st
}

func broadcastParkedConfigs() []CondStress {
	return []CondStress{
		{Entrants: 2, Gmp: 16},
		{Entrants: 6, Gmp: 16},
		{Entrants: 3, Gmp: 32},
		{Entrants: 2, HoldL: true, Gmp: 16},
	}
}

// stressBroadcastPhase splits the budget over the configurations; stops at the first failure.
func stressBroadcastPhase(res *vlib.Result, budget time.Duration) {
	cfgs := broadcastParkedConfigs()
	for _, cfg := range cfgs {
		f, st := stressBroadcastParked(cfg, budget/time.Duration(len(cfgs)))
		res.CountN("real-threads-broadcast-rounds", int(st.rounds))
		res.CountN(fmt.Sprintf("real-threads-broadcast-rounds.entrants-%d-gmp-%d-holdl-%v", cfg.Entrants, cfg.Gmp, cfg.HoldL), int(st.rounds))
		res.CountN("real-threads-broadcast-rounds-woken", int(st.wokenNil))
		res.CountN("real-threads-entrant-wait-calls", int(st.entrantCalls))
		res.CountN("real-threads-broadcast-goroutine-dumps", int(st.dumps))
		if f != nil {
			c := cfg
			source := "monitor"
			if f.kind == "stress-goroutines-remain" {
				source = "correspondence"
			}
			res.Count("real-threads-failure." + f.kind)
			res.Fail(vlib.Failure{Source: source, Kind: f.kind, Params: map[string]interface{}{"phase": "real-threads-broadcast"}, What: f.what,
				Case: Scenario{K: 0, Deadline: -1, Stress: &c}})
			break
		}
	}
	res.Case(fmt.Sprintf("real-threads-broadcast:%d-configurations", len(cfgs)), true, nil)
}
