// C16: xsync.ContextCond never loses a wakeup.
//
// Every scenario is a script of environment actions executed inside a testing/synctest bubble
// against the real ContextCond. The caller's sync.Locker is a gated lock: its Unlock stops the
// calling waiter twice inside Wait — at gate A (lock still held, channel already snapshotted) and at
// gate B (lock released, select not yet reached) — so that the window "released the lock but not
// yet parked" is under the script's control. After every action synctest.Wait() gives a quiescent
// point at which one status letter per waiter and the lock holder are observed.
//
//   - conformance (source "correspondence"): the observed quiescent trace must be a trace of the Lean
//     LTS (`driver cond`, state-set engine over Model/Cond.lean with the regenerated configuration);
//   - monitors (source "monitor"): the clauses of the property text, evaluated on the observed trace
//     only (no model involved): signals wake enough waiters (matching against an ideal condition
//     variable), Broadcast wakes every entered waiter, a nil return holds the lock, an error return
//     is the context's error, prompt, without the lock.
package c16

import (
	"context"
	"encoding/json"
	"errors"
	"fmt"
	"os"
	"runtime"
	"strconv"
	"strings"
	"sync"
	"testing"
	"testing/synctest"
	"time"

	"github.com/bradenaw/juniper/xsync"
	"verifharness/vlib"
)

// ---------------------------------------------------------------------------------------------
// scenarios

type Act struct {
	Op string `json:"op"` // start release arrive signal broadcast cancel hunlock
	I  int    `json:"i"`
}

func (a Act) String() string {
	switch a.Op {
	case "signal", "broadcast", "hunlock":
		return a.Op
	}
	return a.Op + " " + strconv.Itoa(a.I)
}

type Scenario struct {
	K        int   `json:"k"`        // number of waiters
	Deadline int   `json:"deadline"` // index of the waiter whose context ends by deadline (-1: none)
	Acts     []Act `json:"acts"`
	// real-threads case (no script): the configuration of stress_test.go in which the failure was seen
	Stress *CondStress `json:"stress,omitempty"`
}

func (s Scenario) Key() string {
	var b strings.Builder
	fmt.Fprintf(&b, "%d/%d:", s.K, s.Deadline)
	for _, a := range s.Acts {
		b.WriteString(a.String())
		b.WriteByte(';')
	}
	return b.String()
}

// Step is one executed action with the observation at the following quiescent point.
type Step struct {
	Act     Act
	Letters string // one status letter per waiter
	Holder  int    // waiter holding the lock, -1 none
	Anomaly string // a Signal/Broadcast call that did not return, an unexpected panic, ...
}

func (s Step) Line() string {
	h := "-"
	if s.Holder >= 0 {
		h = strconv.Itoa(s.Holder)
	}
	return fmt.Sprintf("%s = %s %s", s.Act, s.Letters, h)
}

type Trace struct {
	K     int
	Steps []Step
	Errs  []string // error text per waiter ("" = nil / not returned)
	// per waiter: whether the error equals its context's error
	ErrIsCtx []bool
	Bug      string // harness-level problem (not a property failure)
}

// ---------------------------------------------------------------------------------------------
// the gated locker

func goid() uint64 {
	var buf [64]byte
	n := runtime.Stack(buf[:], false)
	f := strings.Fields(string(buf[:n]))
	if len(f) < 2 {
		return 0
	}
	id, _ := strconv.ParseUint(f[1], 10, 64)
	return id
}

type wstat struct {
	started, inWait, unlockCalled, released, passedB, relockCalled, relocked, returned bool
	err                                                                            error
	cancelled                                                                      bool
}

type world struct {
	mu     sync.Mutex // protects everything below; never held across a blocking operation
	who    map[uint64]int
	st     []wstat
	holder int
	sem    chan struct{} // the caller's lock: full = held
	gateA  []chan struct{}
	gateB  []chan struct{}
	openA  []bool
	openB  []bool
}

func newWorld(k int) *world {
	w := &world{who: map[uint64]int{}, st: make([]wstat, k), holder: -1, sem: make(chan struct{}, 1)}
	for i := 0; i < k; i++ {
		w.gateA = append(w.gateA, make(chan struct{}))
		w.gateB = append(w.gateB, make(chan struct{}))
	}
	w.openA = make([]bool, k)
	w.openB = make([]bool, k)
	return w
}

func (w *world) me() int {
	id := goid()
	w.mu.Lock()
	defer w.mu.Unlock()
	if i, ok := w.who[id]; ok {
		return i
	}
	return -1
}

// Lock implements sync.Locker.
func (w *world) Lock() {
	i := w.me()
	if i < 0 {
		return // a drainer goroutine of the clean-up phase
	}
	w.mu.Lock()
	if w.st[i].inWait {
		w.st[i].relockCalled = true
	}
	w.mu.Unlock()
	w.sem <- struct{}{}
	w.mu.Lock()
	w.holder = i
	if w.st[i].inWait {
		w.st[i].relocked = true
	}
	w.mu.Unlock()
}

// Unlock implements sync.Locker: gate A, release, gate B.
func (w *world) Unlock() {
	i := w.me()
	if i < 0 {
		return
	}
	w.mu.Lock()
	w.st[i].unlockCalled = true
	w.mu.Unlock()
	<-w.gateA[i]
	w.mu.Lock()
	w.holder = -1
	w.st[i].released = true
	w.mu.Unlock()
	<-w.sem
	<-w.gateB[i]
	w.mu.Lock()
	w.st[i].passedB = true
	w.mu.Unlock()
}

func (w *world) rawUnlock() {
	w.mu.Lock()
	w.holder = -1
	w.mu.Unlock()
	<-w.sem
}

func (w *world) letter(i int) byte {
	s := w.st[i]
	switch {
	case !s.started:
		return 'I'
	case s.returned && s.err == nil:
		return 'N'
	case s.returned:
		return 'E'
	case s.relockCalled:
		return 'R'
	case s.passedB:
		return 'P'
	case s.released:
		return 'B'
	case s.unlockCalled:
		return 'A'
	}
	return '?' // inside Wait but never reached c.L.Unlock()
}

func (w *world) observe() (string, int) {
	w.mu.Lock()
	defer w.mu.Unlock()
	b := make([]byte, len(w.st))
	for i := range w.st {
		b[i] = w.letter(i)
	}
	return string(b), w.holder
}

// ---------------------------------------------------------------------------------------------
// running a scenario against the real ContextCond

const deadlineAfter = time.Hour

// runScenario executes the script; inapplicable actions are skipped (so that every sub-script of a
// script is a script). Must be called inside a synctest bubble.
func runScenario(sc Scenario) Trace {
	k := sc.K
	tr := Trace{K: k, Errs: make([]string, k), ErrIsCtx: make([]bool, k)}
	w := newWorld(k)
	c := xsync.NewContextCond(w)
	ctxs := make([]context.Context, k)
	cancels := make([]context.CancelFunc, k)
	for i := 0; i < k; i++ {
		if i == sc.Deadline {
			ctxs[i], cancels[i] = context.WithTimeout(context.Background(), deadlineAfter)
		} else {
			ctxs[i], cancels[i] = context.WithCancel(context.Background())
		}
	}
	var wg sync.WaitGroup
	type call struct {
		done     bool
		panicked bool
	}
	var pendingCalls []*call
	var callMu sync.Mutex
	apiCall := func(f func()) *call {
		cl := &call{}
		wg.Add(1)
		go func() {
			defer wg.Done()
			p, _ := vlib.Try(f)
			callMu.Lock()
			cl.done, cl.panicked = true, p
			callMu.Unlock()
		}()
		return cl
	}

	for _, a := range sc.Acts {
		letters, holder := w.observe()
		i := a.I
		if a.Op == "start" || a.Op == "release" || a.Op == "arrive" || a.Op == "cancel" {
			if i < 0 || i >= k {
				continue
			}
		}
		var cl *call
		switch a.Op {
		case "start":
			if letters[i] != 'I' || holder != -1 {
				continue
			}
			w.mu.Lock()
			w.st[i].started = true
			w.mu.Unlock()
			wg.Add(1)
			go func() {
				defer wg.Done()
				w.mu.Lock()
				w.who[goid()] = i
				w.mu.Unlock()
				w.Lock()
				w.mu.Lock()
				w.st[i].inWait = true
				w.mu.Unlock()
				var err error
				p, pv := vlib.Try(func() { err = c.Wait(ctxs[i]) })
				if p {
					err = fmt.Errorf("panic: %v", pv)
				}
				w.mu.Lock()
				w.st[i].returned = true
				w.st[i].err = err
				w.mu.Unlock()
			}()
		case "release":
			if letters[i] != 'A' {
				continue
			}
			w.openA[i] = true
			close(w.gateA[i])
		case "arrive":
			if letters[i] != 'B' {
				continue
			}
			w.openB[i] = true
			close(w.gateB[i])
		case "signal":
			cl = apiCall(c.Signal)
		case "broadcast":
			cl = apiCall(c.Broadcast)
		case "cancel":
			w.mu.Lock()
			was := w.st[i].cancelled
			w.st[i].cancelled = true
			w.mu.Unlock()
			if was {
				continue
			}
			if i == sc.Deadline {
				if d, ok := ctxs[i].Deadline(); ok {
					time.Sleep(time.Until(d))
				}
			} else {
				cancels[i]()
			}
		case "hunlock":
			if holder < 0 || (letters[holder] != 'N' && letters[holder] != 'E') {
				continue
			}
			w.rawUnlock()
		default:
			continue
		}
		synctest.Wait()
		st := Step{Act: a}
		st.Letters, st.Holder = w.observe()
		if cl != nil {
			callMu.Lock()
			if !cl.done {
				st.Anomaly = a.Op + "-did-not-return"
				pendingCalls = append(pendingCalls, cl)
			} else if cl.panicked {
				st.Anomaly = a.Op + "-panicked"
			}
			callMu.Unlock()
		}
		tr.Steps = append(tr.Steps, st)
		if st.Anomaly != "" {
			break // a Signal/Broadcast that does not return: nothing after it is meaningful
		}
	}

	// record results
	w.mu.Lock()
	for i := 0; i < k; i++ {
		if w.st[i].returned && w.st[i].err != nil {
			tr.Errs[i] = w.st[i].err.Error()
			tr.ErrIsCtx[i] = ctxs[i].Err() != nil && errors.Is(w.st[i].err, ctxs[i].Err()) && w.st[i].err == ctxs[i].Err()
		}
	}
	w.mu.Unlock()

	// clean-up (not part of the trace): let every goroutine end before the bubble exits
	for i := 0; i < k; i++ {
		if !w.openA[i] {
			close(w.gateA[i])
		}
		if !w.openB[i] {
			close(w.gateB[i])
		}
		cancels[i]()
	}
	for round := 0; round < 3*k+6; round++ {
		synctest.Wait()
		_, holder := w.observe()
		if holder >= 0 {
			w.rawUnlock()
			continue
		}
		callMu.Lock()
		blocked := 0
		for _, cl := range pendingCalls {
			if !cl.done {
				blocked++
			}
		}
		callMu.Unlock()
		if blocked == 0 {
			break
		}
		// a Signal blocked in its send: give it a receiver
		wg.Add(1)
		go func() {
			defer wg.Done()
			ctx, cancel := context.WithTimeout(context.Background(), time.Second)
			defer cancel()
			vlib.Try(func() { c.Wait(ctx) })
		}()
	}
	done := make(chan struct{})
	go func() { wg.Wait(); close(done) }()
	select {
	case <-done:
	case <-time.After(24 * time.Hour): // virtual time: fires only if everything else is durably blocked
		tr.Bug = "goroutines still blocked after clean-up"
	}
	return tr
}

// runInBubble runs one scenario in its own bubble.
func runInBubble(t *testing.T, sc Scenario) (tr Trace) {
	ok := false
	p, pv := vlib.Try(func() {
		synctest.Test(t, func(t *testing.T) {
			tr = runScenario(sc)
			ok = true
		})
	})
	if p || !ok {
		tr.K = sc.K
		if tr.Bug == "" {
			tr.Bug = fmt.Sprintf("bubble failed: %v", pv)
		}
	}
	return tr
}

// ---------------------------------------------------------------------------------------------
// monitors (property text only; independent of the Lean model)

type Verdict struct {
	Kind   string
	What   string
	Params map[string]interface{}
}

func classOf(v *Verdict) string {
	if v == nil || v.Params == nil {
		return ""
	}
	c, _ := v.Params["class"].(string)
	return c
}

func isWaiting(b byte) bool { return b == 'B' || b == 'P' }
func isWoken(b byte) bool   { return b == 'R' || b == 'N' }

// monitor evaluates the clauses on an observed trace; it returns the first violated clause.
func monitor(tr Trace) *Verdict {
	k := tr.K
	n := len(tr.Steps)
	if n == 0 {
		return nil
	}
	const never = 1 << 30
	entered := make([]int, k) // step at which the waiter released the lock
	woken := make([]int, k)   // step at which it was first seen woken (R or N)
	errAt := make([]int, k)
	cancelAt := make([]int, k)
	for i := range entered {
		entered[i], woken[i], errAt[i], cancelAt[i] = never, never, never, never
	}
	prev := strings.Repeat("I", k)
	nSignals, nBroadcasts, nCancels, maxUnparked := 0, 0, 0, 0
	for t, st := range tr.Steps {
		if len(st.Letters) != k {
			return nil
		}
		switch st.Act.Op {
		case "signal":
			nSignals++
			u := strings.Count(prev, "B")
			if u > maxUnparked {
				maxUnparked = u
			}
		case "broadcast":
			nBroadcasts++
		case "cancel":
			nCancels++
			if cancelAt[st.Act.I] == never {
				cancelAt[st.Act.I] = t
			}
		}
		for i := 0; i < k; i++ {
			a, b := prev[i], st.Letters[i]
			if (a == 'I' || a == 'A') && b != 'I' && b != 'A' && entered[i] == never {
				entered[i] = t
			}
			if !isWoken(a) && isWoken(b) && woken[i] == never {
				woken[i] = t
			}
			if a != 'N' && b == 'N' {
				// A Wait that returns nil holds the lock again.
				if st.Holder != i {
					return &Verdict{Kind: "wait-nil-without-lock", What: fmt.Sprintf("step %d %q: Wait of waiter %d returned nil but the lock holder is %d", t, st.Act, i, st.Holder),
						Params: map[string]interface{}{"op": st.Act.Op}}
				}
			}
			if a != 'E' && b == 'E' {
				errAt[i] = t
				if cancelAt[i] == never {
					return &Verdict{Kind: "wait-err-without-expiry", What: fmt.Sprintf("step %d %q: Wait of waiter %d returned %q although its context has not ended", t, st.Act, i, tr.Errs[i]),
						Params: map[string]interface{}{"op": st.Act.Op}}
				}
				if !tr.ErrIsCtx[i] {
					return &Verdict{Kind: "wait-err-not-ctx-error", What: fmt.Sprintf("step %d %q: Wait of waiter %d returned %q, not its context's error", t, st.Act, i, tr.Errs[i]),
						Params: map[string]interface{}{"op": st.Act.Op}}
				}
				if st.Holder == i {
					return &Verdict{Kind: "wait-err-holds-lock", What: fmt.Sprintf("step %d %q: Wait of waiter %d returned the context's error holding the lock", t, st.Act, i),
						Params: map[string]interface{}{"op": st.Act.Op}}
				}
			}
		}
		// promptness: a parked waiter whose context ends returns at once; a waiter that reaches the
		// select with an ended context does not park
		if st.Act.Op == "cancel" {
			i := st.Act.I
			if prev[i] == 'P' && st.Letters[i] == 'P' {
				return &Verdict{Kind: "wait-err-not-prompt", What: fmt.Sprintf("step %d: the context of parked waiter %d ended but Wait did not return", t, i),
					Params: map[string]interface{}{"stage": "parked"}}
			}
		}
		if st.Act.Op == "arrive" {
			i := st.Act.I
			if cancelAt[i] != never && st.Letters[i] == 'P' {
				return &Verdict{Kind: "wait-err-not-prompt", What: fmt.Sprintf("step %d: waiter %d reached the select with an ended context and parked", t, i),
					Params: map[string]interface{}{"stage": "arrive"}}
			}
		}
		// Broadcast wakes all entered waiters: a parked one immediately
		if st.Act.Op == "broadcast" && st.Anomaly == "" {
			for i := 0; i < k; i++ {
				if prev[i] == 'P' && st.Letters[i] == 'P' {
					return &Verdict{Kind: "broadcast-wakeup-lost", What: fmt.Sprintf("step %d: Broadcast left parked waiter %d parked", t, i),
						Params: map[string]interface{}{"stage": "parked"}}
				}
			}
		}
		prev = st.Letters
	}
	// a waiter that ran into a blocked relock keeps status R; only settled traces are judged for
	// lost wake-ups: no waiter at a gate, nobody waiting for a lock that a returned waiter holds
	final := tr.Steps[n-1]
	settled := !strings.ContainsAny(final.Letters, "AB?") && !(strings.Contains(final.Letters, "R") && final.Holder >= 0 && (final.Letters[final.Holder] == 'N' || final.Letters[final.Holder] == 'E'))
	if !settled {
		return nil
	}
	stranded := []int{}
	for i := 0; i < k; i++ {
		if final.Letters[i] == 'P' && cancelAt[i] == never {
			stranded = append(stranded, i)
		}
	}
	if len(stranded) == 0 {
		return nil
	}
	// Broadcast wakes every waiter that had entered, however far it had got
	for t, st := range tr.Steps {
		if st.Act.Op != "broadcast" || st.Anomaly != "" {
			continue
		}
		for _, i := range stranded {
			if entered[i] < t {
				return &Verdict{Kind: "broadcast-wakeup-lost", What: fmt.Sprintf("waiter %d had released the lock (step %d) before the Broadcast of step %d and is still parked at the end", i, entered[i], t),
					Params: map[string]interface{}{"stage": "unparked"}}
			}
		}
	}
	// "Once k goroutines have entered Wait (released the lock), m Signal calls wake at least min(k, m) OF
	// THEM": the clause, literally and attributed, for every Signal call T of the trace after which no Broadcast
	// runs. K = the waiters that have released the lock and are not yet woken when that Signal is issued (letters
	// B, P), m = the Signal calls from T on (T included), W = the members of K that are woken at the (settled) end, E = the members of K
	// that returned their context's error instead (they leave; the clause about expiry says they must not take
	// a wake-up with them). Violated iff W < min(|K| - E, m). A wake-up that goes to a waiter that entered
	// only after T does not count — "of them"; `taken` = such wake-ups (late entrants that returned nil).
	if v := signalWindows(tr, entered, woken, cancelAt, stranded); v != nil {
		return v
	}
	// Second, unattributed reading (kept as a net under the first one; it never fired alone on the unchanged
	// tree): counted against an ideal condition variable run on the same events. `inM` = waiters that have entered and that
	// the ideal one may still have asleep; `anon` = Signals that woke one of them (which one is not
	// determined), i.e. wake-ups still owed. An observed wake-up of a waiter in M pays one owed
	// wake-up if there is one (otherwise it is a spurious wake-up: a remembered token), an error
	// return takes its waiter out of M; a Broadcast turns M into individually owed wake-ups (checked
	// above). Wake-ups are counted, not attributed: the property text is silent about a waiter that
	// enters after the Signal and consumes the remembered token (see notes/C16.md).
	inM := make([]bool, k)
	sizeM := func() int {
		n := 0
		for _, b := range inM {
			if b {
				n++
			}
		}
		return n
	}
	anon := 0
	for t, st := range tr.Steps {
		for i := 0; i < k; i++ {
			if entered[i] == t {
				inM[i] = true
			}
		}
		if st.Anomaly == "" {
			switch st.Act.Op {
			case "signal":
				if sizeM() > anon {
					anon++
				}
			case "broadcast":
				for i := range inM {
					inM[i] = false
				}
				anon = 0
			}
		}
		for i := 0; i < k; i++ {
			if woken[i] == t && inM[i] {
				inM[i] = false
				if anon > 0 {
					anon--
				}
			}
			if errAt[i] == t && inM[i] {
				inM[i] = false
				if anon > sizeM() {
					anon = sizeM()
				}
			}
		}
	}
	if anon > 0 {
		return &Verdict{Kind: "signal-wakeup-lost",
			What: fmt.Sprintf("waiter(s) %v released the lock and are still parked at the end although %d wake-up(s) that an ideal condition variable performs for the same Signal calls never happened (%d Signal calls in the scenario, at most %d entered waiters not yet parked at a Signal)",
				stranded, anon, nSignals, maxUnparked),
			Params: map[string]interface{}{"unparked_waiters": maxUnparked, "signals": nSignals, "broadcasts": nBroadcasts, "cancels": nCancels,
				"attributed": false, "class": "unattributed"}}
	}
	return nil
}

// signalWindows: see the comment at its call site. The parameters it reports are intrinsic to the window it
// reports (not to the whole scenario), so that they mean the same before and after shrinking:
//
//	signals            Signal calls from T on
//	unparked_waiters   largest number of entered, not yet parked waiters (letter B) at one of these Signal calls
//	broadcasts         Broadcast calls from T on (always 0: such windows are not judged)
//	cancels            members of K and late entrants that took a wake-up whose context was ended at some time
//	deficit            min(|K| - E, m) - W
//	taken_by_late_entrants  waiters that released the lock after T and returned nil
//	unexplained_deficit     max(0, deficit - taken_by_late_entrants)
//	class              "d13" (>= 2 un-parked waiters, >= 2 Signals, no expiry involved), "late-entrant" (at most one
//	                   un-parked waiter, no expiry involved, the deficit is covered by wake-ups that late entrants
//	                   took), else "other"
func signalWindows(tr Trace, entered, woken, cancelAt []int, stranded []int) *Verdict {
	const never = 1 << 30
	k := tr.K
	n := len(tr.Steps)
	final := tr.Steps[n-1].Letters
	lastBroadcast := -1
	for t, st := range tr.Steps {
		if st.Act.Op == "broadcast" {
			lastBroadcast = t
		}
	}
	type win struct {
		T, m, K, E, W, deficit, taken, cancels, unparked int
		members                                      []int
	}
	var best *win
	// T ranges over the Signal calls after the last Broadcast: K is judged at the instant a Signal is issued ("once
	// k goroutines have entered … m Signal calls": k counts the waiters that have entered when the first of the m
	// Signal calls is made; a waiter that enters between T and a later Signal belongs to the window of that later
	// Signal)
	for T := lastBroadcast + 1; T < n; T++ {
		if tr.Steps[T].Act.Op != "signal" || tr.Steps[T].Anomaly != "" {
			continue
		}
		prev := strings.Repeat("I", k)
		if T > 0 {
			prev = tr.Steps[T-1].Letters
		}
		w := win{T: T}
		inK := make([]bool, k)
		for i := 0; i < k; i++ {
			if prev[i] == 'B' || prev[i] == 'P' {
				inK[i] = true
				w.K++
				w.members = append(w.members, i)
				switch final[i] {
				case 'R', 'N':
					w.W++
				case 'E':
					w.E++
				}
				if cancelAt[i] != never {
					w.cancels++
				}
			}
		}
		if w.K == 0 {
			continue
		}
		p := prev
		for t := T; t < n; t++ {
			if tr.Steps[t].Act.Op == "signal" && tr.Steps[t].Anomaly == "" {
				w.m++
				if u := strings.Count(p, "B"); u > w.unparked {
					w.unparked = u
				}
			}
			p = tr.Steps[t].Letters
		}
		for i := 0; i < k; i++ {
			if !inK[i] && entered[i] != never && entered[i] >= T && final[i] == 'N' {
				w.taken++
				if cancelAt[i] != never {
					w.cancels++
				}
			}
		}
		need := w.K - w.E
		if w.m < need {
			need = w.m
		}
		w.deficit = need - w.W
		if w.deficit <= 0 {
			continue
		}
		// prefer the largest deficit, then the window least explained by late entrants, then the earliest
		if best == nil || w.deficit > best.deficit || (w.deficit == best.deficit && w.taken < best.taken) {
			ww := w
			best = &ww
		}
	}
	if best == nil {
		return nil
	}
	unexplained := best.deficit - best.taken
	if unexplained < 0 {
		unexplained = 0
	}
	class := "other"
	switch {
	case best.cancels == 0 && best.unparked >= 2 && best.m >= 2:
		class = "d13"
	case best.cancels == 0 && best.unparked <= 1 && best.taken >= best.deficit:
		class = "late-entrant"
	}
	return &Verdict{Kind: "signal-wakeup-lost",
		What: fmt.Sprintf("when the Signal of step %d was issued waiters %v had released the lock and were not yet woken; %d Signal call(s) from there on (no Broadcast); of these waiters %d are woken and %d returned their context's error at the end, %d wake-up(s) short of min(k - expired, m); %d wake-up(s) went to waiter(s) that released the lock only after step %d; still parked at the end: %v",
			best.T, best.members, best.m, best.W, best.E, best.deficit, best.taken, best.T, stranded),
		Params: map[string]interface{}{"unparked_waiters": best.unparked, "signals": best.m, "broadcasts": 0, "cancels": best.cancels,
			"deficit": best.deficit, "taken_by_late_entrants": best.taken, "unexplained_deficit": unexplained, "attributed": true, "class": class}}
}

// ---------------------------------------------------------------------------------------------
// conformance against the Lean LTS

func traceLines(tr Trace) []string {
	out := []string{fmt.Sprintf("init %d", tr.K)}
	for _, st := range tr.Steps {
		out = append(out, st.Line())
	}
	return out
}

// conform returns "" or a description of the first observed step the model cannot do.
func conform(m *vlib.Model, tr Trace) (string, error) {
	for _, st := range tr.Steps {
		if st.Anomaly != "" {
			return fmt.Sprintf("%q: %s (the model lets the call return)", st.Act, st.Anomaly), nil
		}
	}
	ls := traceLines(tr)
	out, err := m.Run(ls)
	if err != nil {
		return "", err
	}
	for i, o := range out {
		if !strings.HasPrefix(o, "ok") {
			return fmt.Sprintf("line %d %q: model answers %q", i, ls[i], o), nil
		}
	}
	return "", nil
}

// ---------------------------------------------------------------------------------------------
// generators

func settleActs(k int) []Act {
	// open every gate in index order, then hand the lock round so that every woken waiter returns
	var out []Act
	for r := 0; r < 2; r++ {
		for i := 0; i < k; i++ {
			out = append(out, Act{Op: "release", I: i}, Act{Op: "hunlock"})
		}
	}
	for i := 0; i < k; i++ {
		out = append(out, Act{Op: "arrive", I: i}, Act{Op: "hunlock"})
	}
	for i := 0; i < k; i++ {
		out = append(out, Act{Op: "hunlock"})
	}
	return out
}

func genScenario(r *vlib.Rand, res *vlib.Result) Scenario {
	k := r.Range(1, 4)
	sc := Scenario{K: k, Deadline: -1}
	if r.Chance(1, 4) {
		sc.Deadline = r.Intn(k)
	}
	mode := r.Intn(7)
	res.Count(fmt.Sprintf("mode-%d", mode))
	add := func(op string, i int) { sc.Acts = append(sc.Acts, Act{Op: op, I: i}) }
	enter := func(i int) { add("hunlock", 0); add("start", i); add("release", i) }
	switch mode {
	case 0: // uniformly random actions
		n := r.Range(4, 24)
		for j := 0; j < n; j++ {
			switch r.Pick(6, 6, 6, 5, 2, 2, 4) {
			case 0:
				add("start", r.Intn(k))
			case 1:
				add("release", r.Intn(k))
			case 2:
				add("arrive", r.Intn(k))
			case 3:
				add("signal", 0)
			case 4:
				add("broadcast", 0)
			case 5:
				add("cancel", r.Intn(k))
			case 6:
				add("hunlock", 0)
			}
		}
	case 1: // several waiters between Unlock and the select, a burst of signals, then they park
		if r.Chance(1, 3) {
			add("signal", 0) // a remembered token
		}
		u := r.Range(1, k)
		for i := 0; i < u; i++ {
			enter(i)
		}
		for j := r.Range(1, 4); j > 0; j-- {
			add("signal", 0)
		}
		for i := u; i < k; i++ {
			if r.Bool() {
				enter(i)
			}
		}
	case 2: // parked waiters first, then signals / late waiters
		p := r.Range(1, k)
		for i := 0; i < p; i++ {
			enter(i)
			add("arrive", i)
		}
		for i := p; i < k; i++ {
			enter(i)
		}
		for j := r.Range(1, 4); j > 0; j-- {
			add("signal", 0)
			if r.Chance(1, 3) {
				add("hunlock", 0)
			}
		}
	case 3: // Broadcast with waiters at every stage
		for i := 0; i < k; i++ {
			switch r.Intn(4) {
			case 0:
				enter(i)
				add("arrive", i)
			case 1:
				enter(i)
			case 2:
				add("hunlock", 0)
				add("start", i) // stays at gate A holding the lock
			}
		}
		if r.Bool() {
			add("signal", 0)
		}
		add("broadcast", 0)
		for j := r.Intn(3); j > 0; j-- {
			add([]string{"signal", "broadcast", "hunlock"}[r.Intn(3)], 0)
		}
		for i := 0; i < k; i++ {
			if r.Chance(1, 3) {
				enter(i)
			}
		}
	case 4: // context expiry at every stage, with signals around it
		for i := 0; i < k; i++ {
			stage := r.Intn(5)
			if stage == 0 {
				add("cancel", i)
			}
			add("hunlock", 0)
			add("start", i)
			if stage == 1 {
				add("cancel", i)
			}
			add("release", i)
			if stage == 2 {
				add("cancel", i)
			}
			if r.Bool() {
				add("signal", 0)
			}
			if r.Bool() {
				add("arrive", i)
				if stage == 3 {
					add("cancel", i)
				}
			}
		}
		for j := r.Intn(3); j > 0; j-- {
			add("signal", 0)
		}
		if r.Chance(1, 2) {
			add("cancel", r.Intn(k))
		}
	case 5: // signal, then expiry of the signalled waiter's neighbour: the token must survive
		for i := 0; i < k; i++ {
			enter(i)
			if r.Bool() {
				add("arrive", i)
			}
		}
		add("cancel", r.Intn(k))
		add("signal", 0)
		if r.Bool() {
			add("cancel", r.Intn(k))
		}
	case 6: // interleaved rounds: waiters come and go
		for round := r.Range(1, 3); round > 0; round-- {
			i := r.Intn(k)
			enter(i)
			if r.Bool() {
				add("signal", 0)
			}
			if r.Bool() {
				add("arrive", i)
			}
			if r.Chance(1, 4) {
				add("broadcast", 0)
			}
			if r.Bool() {
				add("signal", 0)
			}
		}
	}
	// limit the number of signals to 4 (the bounds of the conformance)
	nsig := 0
	var acts []Act
	for _, a := range sc.Acts {
		if a.Op == "signal" {
			nsig++
			if nsig > 4 {
				continue
			}
		}
		acts = append(acts, a)
	}
	sc.Acts = append(acts, settleActs(k)...)
	return sc
}

// executed returns the scenario reduced to the actions that were applicable (as executed).
func executed(sc Scenario, tr Trace) Scenario {
	out := Scenario{K: sc.K, Deadline: sc.Deadline}
	for _, st := range tr.Steps {
		out.Acts = append(out.Acts, st.Act)
	}
	return out
}

func nontrivial(tr Trace) bool {
	enteredN, events := 0, 0
	seen := map[int]bool{}
	prev := strings.Repeat("I", tr.K)
	for _, st := range tr.Steps {
		if (st.Act.Op == "signal" || st.Act.Op == "broadcast" || st.Act.Op == "cancel") && strings.ContainsAny(prev, "BP") {
			events++
		}
		for i := 0; i < len(st.Letters) && i < tr.K; i++ {
			if (st.Letters[i] == 'B' || st.Letters[i] == 'P') && !seen[i] {
				seen[i] = true
				enteredN++
			}
		}
		prev = st.Letters
	}
	return enteredN >= 2 && events >= 1
}

// ---------------------------------------------------------------------------------------------
// checking one scenario

type checker struct {
	t   *testing.T
	m   *vlib.Model
	res *vlib.Result
}

func (c *checker) verdictOf(sc Scenario, reps int) (*Verdict, Trace) {
	var last Trace
	for j := 0; j < reps; j++ {
		tr := runInBubble(c.t, sc)
		last = tr
		if tr.Bug != "" {
			continue
		}
		if v := monitor(tr); v != nil {
			return v, tr
		}
	}
	return nil, last
}

func (c *checker) check(sc Scenario, reps int) {
	for j := 0; j < reps; j++ {
		tr := runInBubble(c.t, sc)
		if tr.Bug != "" {
			c.res.Fail(vlib.Failure{Source: "correspondence", Kind: "harness-bubble", What: tr.Bug, Case: sc})
			return
		}
		if j == 0 {
			c.res.Case(executed(sc, tr).Key(), nontrivial(tr), traceLines(tr))
			for _, st := range tr.Steps {
				c.res.Count("act-" + st.Act.Op)
			}
			c.res.Count(fmt.Sprintf("waiters-%d", tr.K))
		}
		if v := monitor(tr); v != nil {
			small := vlib.Shrink(executed(sc, tr).Acts, func(acts []Act) bool {
				vv, _ := c.verdictOf(Scenario{K: sc.K, Deadline: sc.Deadline, Acts: append(append([]Act{}, acts...), settleActs(sc.K)...)}, 3)
				return vv != nil && vv.Kind == v.Kind
			})
			ssc := Scenario{K: sc.K, Deadline: sc.Deadline, Acts: append(append([]Act{}, small...), settleActs(sc.K)...)}
			vv, str := c.verdictOf(ssc, 5)
			if vv == nil {
				vv, str, ssc = v, tr, sc
			}
			ex := executed(ssc, str)
			c.res.Fail(vlib.Failure{Source: "monitor", Kind: vv.Kind, Params: vv.Params, What: vv.What + " | trace: " + strings.Join(traceLines(str), "; "), Case: ex})
			c.res.Count("monitor-failures")
		}
		if c.m != nil {
			bad, err := conform(c.m, tr)
			if err != nil {
				c.res.ModelMissing = err.Error()
				c.m = nil
			} else {
				c.res.Traces++
				if bad != "" {
					small := vlib.Shrink(executed(sc, tr).Acts, func(acts []Act) bool {
						for r := 0; r < 2; r++ {
							t2 := runInBubble(c.t, Scenario{K: sc.K, Deadline: sc.Deadline, Acts: acts})
							if t2.Bug != "" {
								continue
							}
							b, err := conform(c.m, t2)
							if err == nil && b != "" {
								return true
							}
						}
						return false
					})
					ssc := Scenario{K: sc.K, Deadline: sc.Deadline, Acts: small}
					c.res.Fail(vlib.Failure{Source: "correspondence", Kind: "cond-trace-not-in-model", What: bad, Case: ssc})
				}
			}
		}
	}
}

// enumerate runs every applicable action sequence of the given depth over k waiters (followed by
// the settling suffix); returns whether the enumeration completed within the deadline.
func (c *checker) enumerate(k, depth int, deadline time.Time) bool {
	alphabet := []Act{{Op: "signal"}, {Op: "broadcast"}, {Op: "hunlock"}}
	for i := 0; i < k; i++ {
		alphabet = append(alphabet, Act{Op: "start", I: i}, Act{Op: "release", I: i}, Act{Op: "arrive", I: i}, Act{Op: "cancel", I: i})
	}
	complete := true
	var rec func(prefix []Act)
	rec = func(prefix []Act) {
		if !complete {
			return
		}
		if time.Now().After(deadline) {
			complete = false
			return
		}
		if len(prefix) == depth {
			sc := Scenario{K: k, Deadline: -1, Acts: append(append([]Act{}, prefix...), settleActs(k)...)}
			c.check(sc, 1)
			c.res.Count("enumerated")
			return
		}
		// applicability by a dry run of the prefix on the real object: only extend by actions that execute
		for _, a := range alphabet {
			cand := append(append([]Act{}, prefix...), a)
			tr := runInBubble(c.t, Scenario{K: k, Deadline: -1, Acts: cand})
			if tr.Bug != "" || len(tr.Steps) != len(cand) {
				continue // not applicable here
			}
			rec(cand)
		}
	}
	rec(nil)
	return complete
}

func TestVerif(t *testing.T) {
	env := vlib.GetEnv()
	res := vlib.NewResult("C16", "scripts of start/release/arrive/signal/broadcast/cancel/hunlock over k<=4 waiters and m<=4 signals in 7 modes "+
		"(random; several un-parked waiters + signal burst; parked first; Broadcast at every stage; context expiry at every stage; token must survive an expiry; rounds), "+
		"each followed by a settling suffix, run against the real ContextCond under synctest with a gated Locker; "+
		"a case is non-trivial if at least two waiters released the lock and at least one Signal/Broadcast/expiry happened while a waiter was waiting; "+
		"distinct = different executed action sequence. thorough adds every applicable action sequence of length 5 over 2 waiters (each followed by the settling suffix)")
	m, err := vlib.StartModel(env.Driver, "cond")
	if err != nil {
		res.ModelMissing = err.Error()
		m = nil
	}
	defer m.Close()
	c := &checker{t: t, m: m, res: res}

	if env.Replay != "" {
		var sc Scenario
		if err := vlib.ReplayCase(env.Replay, &sc); err != nil {
			fmt.Println("cannot read replay:", err)
			os.Exit(2)
		}
		if sc.Stress != nil {
			b, _ := json.Marshal(sc.Stress)
			fmt.Printf("replay of the real-threads configuration %s\n", b)
			for n := 0; n < 10; n++ {
				if sc.Stress.Entrants > 0 {
					f, bst := stressBroadcastParked(*sc.Stress, 1500*time.Millisecond)
					if f != nil {
						fmt.Printf("  FAILS (slice %d, round %d) %s: %s\n", n, bst.rounds, f.kind, f.what)
						os.Exit(1)
					}
					continue
				}
				f, st := stressCond(*sc.Stress, 1500*time.Millisecond)
				if f != nil {
					fmt.Printf("  FAILS (slice %d, after %d Signal calls, %d Broadcast calls, %d Wait returns) %s: %s\n", n, st.signals, st.broadcasts, st.waitsNil+st.waitsErr, f.kind, f.what)
					os.Exit(1)
				}
			}
			fmt.Println("  no clause violated in 10 slices of 1.5 s")
			return
		}
		failed := false
		for j := 0; j < 5 && !failed; j++ {
			tr := runInBubble(t, sc)
			fmt.Printf("replay run %d:\n  %s\n", j, strings.Join(traceLines(tr), "\n  "))
			if tr.Bug != "" {
				fmt.Println("harness problem:", tr.Bug)
			}
			if v := monitor(tr); v != nil {
				fmt.Printf("monitor: %s %v: %s\n", v.Kind, v.Params, v.What)
				failed = true
			} else {
				fmt.Println("monitor: no clause violated")
			}
			if m != nil {
				if bad, err := conform(m, tr); err == nil {
					if bad == "" {
						fmt.Println("conformance: the trace is a trace of the model")
					} else {
						fmt.Println("conformance:", bad)
					}
				}
			}
		}
		if failed {
			os.Exit(1)
		}
		return
	}

	// Model-vs-Spec search on the Lean side: Signal and Broadcast calls statement by statement as regenerated,
	// every interleaving with one waiter. On the unchanged code no state has panicked (that is the theorem
	// `signal_broadcast_never_panic`); if the regenerated lock discipline changed, the search shows the
	// interleaving even if the real scheduler does not produce it in this run.
	if m != nil {
		if out, err := m.Run([]string{"cex 1"}); err == nil && len(out) > 0 {
			res.Count("model-vs-spec-searches")
			if last := out[len(out)-1]; strings.HasPrefix(last, "cex") {
				res.Fail(vlib.Failure{Source: "correspondence", Kind: "model-counterexample-signal-broadcast-panic",
					What: "in the fine-grained Lean model of Signal / Broadcast as they are in the source now a panic is reachable: " + last,
					Case: Scenario{K: 1, Deadline: -1}})
			}
		}
	}
	// real threads: overlapping Signal / Broadcast / Wait
	// (results are written after each phase: a later phase that the library under test brings down or blocks
	// must not take the findings of an earlier one with it; the broadcast phase assumes the lock discipline of
	// Wait that the first phase judges, so it is skipped once that one has failed)
	long := env.Thorough() || env.Deep
	before := len(res.Failures)
	if long {
		stressCondPhase(res, 10*time.Second)
	} else {
		stressCondPhase(res, 1200*time.Millisecond)
	}
	res.Write(env.Out)
	if len(res.Failures) == before {
		if long {
			stressBroadcastPhase(res, 8*time.Second)
		} else {
			stressBroadcastPhase(res, 1200*time.Millisecond)
		}
		res.Write(env.Out)
	}
	for _, f := range vlib.CorpusFiles(env.Corpus, ".scn") {
		b, err := os.ReadFile(f)
		if err != nil {
			continue
		}
		var sc Scenario
		if err := json.Unmarshal(b, &sc); err != nil {
			t.Fatalf("corpus file %s: %v", f, err)
		}
		res.Count("corpus")
		c.check(sc, 2)
	}
	r := vlib.NewRand(env.Seed)
	deadline := env.Deadline()
	maxCases := 1500
	if env.Thorough() || env.Deep {
		maxCases = 40000
	}
	for i := 0; i < maxCases && time.Now().Before(deadline); i++ {
		sc := genScenario(r.Fork(), res)
		reps := 1
		for _, a := range sc.Acts {
			if a.Op == "cancel" {
				reps = 3 // both ready arms of the select get a chance
				break
			}
		}
		c.check(sc, reps)
	}
	if env.Thorough() {
		ok := c.enumerate(2, 5, time.Now().Add(time.Duration(env.BudgetMs)*time.Millisecond/2))
		res.Exhaustive = ok
	}
	res.Write(env.Out)
}
