// Real-threads phase of C16 (outside any synctest bubble).
//
// Under synctest every Signal / Broadcast call of a script runs to completion between two quiescent
// points, so no Signal ever overlaps a Broadcast and the lock discipline of the internal `c.m` — what
// the fine-grained LTS of Model/CondFine.lean is about — is never exercised (audit C16 F1). This phase
// hammers one ContextCond from real goroutines: signallers loop on Signal, broadcasters on Broadcast,
// waiters on `L.Lock(); err := c.Wait(ctx); …; L.Unlock()` with contexts that a canceller goroutine ends
// at arbitrary moments.
//
// Verdicts — each one a true positive, none depends on a clock:
//   - a Signal, Broadcast or Wait call panics (`send on closed channel`, `close of closed channel`, …):
//     recovered in the calling goroutine, reported with the runtime's message. On the code as it is the fine
//     LTS proves this unreachable (`signal_broadcast_never_panic`);
//   - a Wait that returns nil without holding the lock: the caller's Locker records its holder (the
//     goroutine id of the last successful Lock, cleared by Unlock); after `Wait` returned nil the holder
//     must be the calling goroutine — nobody else can have acquired the lock in between if it is held;
//   - a Wait that returns an error holding the lock (holder == caller), or an error that is not its
//     context's error, or an error although its context has not ended.
//
// The clock only bounds the search (quick ≈ 1.2 s, thorough 10 s). A phase whose goroutines do not end
// within 10 s of real time after everything has been cancelled and broadcast is a harness-level
// observation (`source:"correspondence"`), not a property violation.
package c16

import (
	"context"
	"fmt"
	"runtime"
	"sync"
	"sync/atomic"
	"time"

	"github.com/bradenaw/juniper/xsync"
	"verifharness/vlib"
)

// CondStress: one configuration of the real-threads phase.
type CondStress struct {
	Signallers   int `json:"signallers"`
	Broadcasters int `json:"broadcasters"`
	Waiters      int `json:"waiters"`
	Gmp          int `json:"gmp,omitempty"`
	// the liveness form (broadcast_real_test.go): one waiter that has entered Wait, then one Broadcast per
	// round, while Entrants goroutines keep entering Wait with an ended context; HoldL: Broadcast is called
	// holding the caller's lock
	Entrants int  `json:"entrants,omitempty"`
	HoldL    bool `json:"hold_l,omitempty"`
}

// ownerLock is the caller's sync.Locker; it records which goroutine holds it.
type ownerLock struct {
	mu     sync.Mutex
	holder atomic.Uint64
}

func (l *ownerLock) Lock()   { l.mu.Lock(); l.holder.Store(goid()) }
func (l *ownerLock) Unlock() { l.holder.Store(0); l.mu.Unlock() }

type stressStats struct{ signals, broadcasts, waitsNil, waitsErr int64 }

type stressFail struct {
	kind, what string
}

func stressCond(cfg CondStress, budget time.Duration) (*stressFail, stressStats) {
	old := runtime.GOMAXPROCS(0)
	gmp := cfg.Gmp
	if gmp <= 0 {
		gmp = 16
	}
	runtime.GOMAXPROCS(gmp)
	defer runtime.GOMAXPROCS(old)

	L := &ownerLock{}
	c := xsync.NewContextCond(L)
	var stop atomic.Bool
	var firstFail atomic.Pointer[stressFail]
	fail := func(kind, what string) {
		firstFail.CompareAndSwap(nil, &stressFail{kind, what})
		stop.Store(true)
	}
	var st stressStats
	var nSig, nBc, nNil, nErr atomic.Int64
	var wg sync.WaitGroup
	guard := func(kind string, f func()) {
		if p, pv := vlib.Try(f); p {
			fail(kind, fmt.Sprintf("real threads (%d signallers, %d broadcasters, %d waiters, GOMAXPROCS %d): the call panicked: %v", cfg.Signallers, cfg.Broadcasters, cfg.Waiters, gmp, pv))
		}
	}
	for i := 0; i < cfg.Signallers; i++ {
		wg.Add(1)
		go func() {
			defer wg.Done()
			n := int64(0)
			for !stop.Load() {
				guard("signal-panicked-real-threads", c.Signal)
				n++
			}
			nSig.Add(n)
		}()
	}
	for i := 0; i < cfg.Broadcasters; i++ {
		wg.Add(1)
		go func() {
			defer wg.Done()
			n := int64(0)
			for !stop.Load() {
				guard("broadcast-panicked-real-threads", c.Broadcast)
				n++
				if n%8 == 0 {
					runtime.Gosched()
				}
			}
			nBc.Add(n)
		}()
	}
	// contexts of the waiters, ended by the canceller at arbitrary moments
	cancels := make([]atomic.Pointer[context.CancelFunc], cfg.Waiters)
	var waitersDone sync.WaitGroup
	for i := 0; i < cfg.Waiters; i++ {
		wg.Add(1)
		waitersDone.Add(1)
		go func(i int) {
			defer wg.Done()
			defer waitersDone.Done()
			me := goid()
			for !stop.Load() {
				ctx, cancel := context.WithCancel(context.Background())
				cancels[i].Store(&cancel)
				var err error
				L.Lock()
				guard("wait-panicked-real-threads", func() { err = c.Wait(ctx) })
				if firstFail.Load() != nil {
					// after a panic the lock state is unknown; leave
					cancel()
					return
				}
				h := L.holder.Load()
				if err == nil {
					nNil.Add(1)
					if h != me {
						fail("wait-nil-without-lock-real-threads", fmt.Sprintf("real threads: Wait returned nil but the caller's lock is held by goroutine %d (0 = nobody), not by the caller (goroutine %d)", h, me))
						cancel()
						return
					}
					L.Unlock()
				} else {
					nErr.Add(1)
					switch {
					case h == me:
						fail("wait-err-holds-lock-real-threads", fmt.Sprintf("real threads: Wait returned %q holding the caller's lock", err))
						L.Unlock()
					case ctx.Err() == nil:
						fail("wait-err-without-expiry-real-threads", fmt.Sprintf("real threads: Wait returned %q although its context has not ended", err))
					case err != ctx.Err():
						fail("wait-err-not-ctx-error-real-threads", fmt.Sprintf("real threads: Wait returned %q, not its context's error %q", err, ctx.Err()))
					}
				}
				cancel()
			}
		}(i)
	}
	// canceller: ends waiter contexts round-robin
	wg.Add(1)
	go func() {
		defer wg.Done()
		for i := 0; !stop.Load(); i++ {
			if cfg.Waiters > 0 {
				if cp := cancels[i%cfg.Waiters].Load(); cp != nil {
					(*cp)()
				}
			}
			if i%4 == 0 {
				runtime.Gosched()
			}
		}
	}()
	deadline := time.Now().Add(budget)
	for !stop.Load() && time.Now().Before(deadline) {
		time.Sleep(2 * time.Millisecond)
	}
	stop.Store(true)
	// release whoever is still inside Wait: end every context, and keep broadcasting until the waiters are gone
	relDone := make(chan struct{})
	go func() {
		for {
			select {
			case <-relDone:
				return
			default:
			}
			for i := range cancels {
				if cp := cancels[i].Load(); cp != nil {
					(*cp)()
				}
			}
			vlib.Try(c.Broadcast)
			runtime.Gosched()
		}
	}()
	ended := make(chan struct{})
	go func() { wg.Wait(); close(ended) }()
	hung := false
	t := time.NewTimer(120 * time.Second) // generous backstop: a loaded machine must not turn a slow round into a verdict
	select {
	case <-ended:
	case <-t.C:
		hung = true
	}
	t.Stop()
	close(relDone)
	st = stressStats{signals: nSig.Load(), broadcasts: nBc.Load(), waitsNil: nNil.Load(), waitsErr: nErr.Load()}
	if f := firstFail.Load(); f != nil {
		return f, st
	}
	if hung {
		return &stressFail{"stress-goroutines-remain", "real threads: Signal / Broadcast / Wait goroutines did not end within 10 s of real time after every context was cancelled and Broadcast was called repeatedly"}, st
	}
	return nil, st
}

func condStressConfigs() []CondStress {
	return []CondStress{
		{Signallers: 4, Broadcasters: 2, Waiters: 4, Gmp: 16},
		{Signallers: 8, Broadcasters: 1, Waiters: 2, Gmp: 32},
		{Signallers: 2, Broadcasters: 4, Waiters: 6, Gmp: 16},
	}
}

// stressCondPhase splits the budget over the configurations; stops at the first failure.
func stressCondPhase(res *vlib.Result, budget time.Duration) {
	cfgs := condStressConfigs()
	for _, cfg := range cfgs {
		f, st := stressCond(cfg, budget/time.Duration(len(cfgs)))
		res.CountN("real-threads-signal-calls", int(st.signals))
		res.CountN("real-threads-broadcast-calls", int(st.broadcasts))
		res.CountN("real-threads-wait-nil", int(st.waitsNil))
		res.CountN("real-threads-wait-err", int(st.waitsErr))
		if f != nil {
			c := cfg
			source := "monitor"
			if f.kind == "stress-goroutines-remain" {
				source = "correspondence"
			}
			res.Count("real-threads-failure." + f.kind)
			res.Fail(vlib.Failure{Source: source, Kind: f.kind, Params: map[string]interface{}{"phase": "real-threads"}, What: f.what,
				Case: Scenario{K: 0, Deadline: -1, Stress: &c}})
			break
		}
	}
	res.Case(fmt.Sprintf("real-threads:%d-configurations", len(cfgs)), true, nil)
}
