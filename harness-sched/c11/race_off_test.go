//go:build !race

package c11

const raceEnabled = false
