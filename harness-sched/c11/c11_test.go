// C11 (and the Batch clauses of C08 / C09): stream.Batch / stream.BatchFunc under every timing.
//
// A scenario is a script of environment actions over a gated source, run on the real code inside a
// testing/synctest bubble (virtual time: maxWait is exact, zero slack). After every action the
// harness waits until every goroutine is durably blocked (synctest.Wait) and records what it can
// observe: which Next call completed with what, whether Close has returned, the source's call log.
//
//   - correspondence: the observed quiescent trace is fed line by line to the Lean LTS
//     (`driver batch`, a state-set conformance engine over Model/Batch.lean); an empty state set is a
//     `correspondence` failure (model and code disagree).
//   - monitors: the clauses of the property text, checked on the trace against the source's own log
//     (kinds c11-*, c08-*, c09-*), independent of the model.
//
// Actions: rel <v> (source gets an item to hand out; v >= 1000 = "marked": the scripted full() of
// BatchFunc answers true on a batch whose last item is marked) | eof | err [kind] (the source fails:
// with its own error value; kind canceled = with context.Canceled itself, wrapcanceled = with
// fmt.Errorf("…: %w", context.Canceled), deadline / wrapdeadline = the same for
// context.DeadlineExceeded — all of them failures of the *source*: nobody has cancelled the consumer's
// or Batch's own context) | next live | next dead |
// cancel (the pending Next's context) | sleep <ms> (virtual time; any length — scenarios idle for 59 s,
// 61 s, an hour, 25 hours with the producer parked in the source's Next: Batch's own background context
// must not end, nothing may be reported, and when the source goes on nothing may be missing) | fullret (one gated full() call may return) |
// fullopen (full() is no longer gated) | close | srcclosed (scenarios with a `slowclose` line: the
// source's Close takes time — the call returns only when the script says so; what the stream does in
// the meantime, in particular whether its own Close returns, is judged).
package c11

import (
	"context"
	"errors"
	"fmt"
	"os"
	"path/filepath"
	"strconv"
	"strings"
	"sync"
	"testing"
	"testing/synctest"
	"time"

	"github.com/bradenaw/juniper/stream"
	"verifharness/vlib"
)

// ---------------------------------------------------------------------------------------------
// scenarios

type Act struct {
	Op string `json:"op"`
	V  int    `json:"v,omitempty"`
}

func (a Act) String() string {
	switch a.Op {
	case "rel", "sleep":
		return fmt.Sprintf("%s %d", a.Op, a.V)
	case "next":
		if a.V == 1 {
			return "next live"
		}
		return "next dead"
	case "err":
		if a.V > 0 && a.V < len(errKinds) {
			return "err " + errKinds[a.V]
		}
	}
	return a.Op
}

// errKinds: what the failing source returns (Act.V of an "err" action).
var errKinds = []string{"", "canceled", "wrapcanceled", "deadline", "wrapdeadline"}

func errKindOf(name string) int {
	for i, k := range errKinds {
		if k == name && i > 0 {
			return i
		}
	}
	return 0
}

// srcError builds the error value of a failing source.
func srcError(kind int) error {
	switch kind {
	case 1:
		return context.Canceled
	case 2:
		return fmt.Errorf("source: backend read: %w", context.Canceled)
	case 3:
		return context.DeadlineExceeded
	case 4:
		return fmt.Errorf("source: backend read: %w", context.DeadlineExceeded)
	}
	return errSrc
}

type Scn struct {
	Mode     string `json:"mode"` // "batch" | "func"
	MaxWait  int    `json:"maxwait"`
	Size     int    `json:"size"`               // batch mode
	Gated    bool   `json:"gated,omitempty"`    // func mode: full() waits for a token
	CtxFirst bool   `json:"ctxfirst,omitempty"` // the source checks its context before its queue
	// the source's Close does not return before the script's `srcclosed` (or the end of the scenario)
	SlowClose bool  `json:"slowclose,omitempty"`
	Script    []Act `json:"script"`
}

func (s Scn) cfgLine() string {
	if s.Mode == "batch" {
		return fmt.Sprintf("cfg batch %d %d", s.MaxWait, s.Size)
	}
	g := 0
	if s.Gated {
		g = 1
	}
	return fmt.Sprintf("cfg func %d %d", s.MaxWait, g)
}

// modelCfgLine: the configuration as the Lean engine is told (it has to know who releases the
// source's Close).
func (s Scn) modelCfgLine() string {
	if s.SlowClose {
		return s.cfgLine() + " slow"
	}
	return s.cfgLine()
}

func (s Scn) Lines() []string {
	out := []string{s.cfgLine()}
	if s.CtxFirst {
		out = append(out, "ctxfirst")
	}
	if s.SlowClose {
		out = append(out, "slowclose")
	}
	for _, a := range s.Script {
		out = append(out, a.String())
	}
	return out
}

func parseScn(lines []string) (Scn, error) {
	var s Scn
	for _, l := range lines {
		f := strings.Fields(l)
		if len(f) == 0 {
			continue
		}
		num := func(i int) int {
			if i < len(f) {
				v, _ := strconv.Atoi(f[i])
				return v
			}
			return 0
		}
		switch f[0] {
		case "cfg":
			if len(f) < 4 {
				return s, fmt.Errorf("bad cfg line %q", l)
			}
			s.Mode = f[1]
			s.MaxWait = num(2)
			if s.Mode == "batch" {
				s.Size = num(3)
			} else {
				s.Gated = num(3) == 1
			}
		case "ctxfirst":
			s.CtxFirst = true
		case "slowclose":
			s.SlowClose = true
		case "rel", "sleep":
			s.Script = append(s.Script, Act{Op: f[0], V: num(1)})
		case "next":
			v := 0
			if len(f) > 1 && f[1] == "live" {
				v = 1
			}
			s.Script = append(s.Script, Act{Op: "next", V: v})
		case "err":
			k := 0
			if len(f) > 1 {
				if k = errKindOf(f[1]); k == 0 {
					return s, fmt.Errorf("bad line %q", l)
				}
			}
			s.Script = append(s.Script, Act{Op: "err", V: k})
		case "eof", "cancel", "fullret", "fullopen", "close", "srcclosed":
			s.Script = append(s.Script, Act{Op: f[0]})
		default:
			return s, fmt.Errorf("bad line %q", l)
		}
	}
	if s.Mode != "batch" && s.Mode != "func" {
		return s, fmt.Errorf("no cfg line")
	}
	return s, nil
}

func marked(v int) bool { return v >= 1000 }

// ---------------------------------------------------------------------------------------------
// instrumented source

var errSrc = errors.New("source failed")

type handRec struct {
	v int
	t int64
}

type source struct {
	mu       sync.Mutex
	q        []Act // rel v | eof | err
	wake     chan struct{}
	t0       time.Time
	ctxFirst bool

	handed     []handRec
	term       string // "" | "eof" | "err": what Next returned last, if terminal
	termErr    error  // the error value Next failed with (term == "err")
	termKind   int    // its kind (index into errKinds)
	termAt     int64
	nextActive int
	closeCalls int // Close calls begun
	closeRets  int // Close calls that have returned
	inClose    int
	closeGate  chan struct{} // nil: Close is instantaneous; else it returns once this is closed

	nextAfterClose, nextDuringClose, closeDuringNext, nextOverlap bool
}

func (s *source) ms() int64 { return int64(time.Since(s.t0) / time.Millisecond) }

func (s *source) Next(ctx context.Context) (int, error) {
	s.mu.Lock()
	if s.closeCalls > 0 {
		s.nextAfterClose = true
	}
	if s.inClose > 0 {
		s.nextDuringClose = true
	}
	if s.nextActive > 0 {
		s.nextOverlap = true
	}
	s.nextActive++
	s.mu.Unlock()
	defer func() {
		s.mu.Lock()
		s.nextActive--
		s.mu.Unlock()
	}()
	for {
		if s.ctxFirst && ctx.Err() != nil {
			return 0, ctx.Err()
		}
		s.mu.Lock()
		if len(s.q) > 0 {
			ev := s.q[0]
			s.q = s.q[1:]
			defer s.mu.Unlock()
			switch ev.Op {
			case "rel":
				s.handed = append(s.handed, handRec{ev.V, s.ms()})
				return ev.V, nil
			case "eof":
				s.term, s.termAt = "eof", s.ms()
				return 0, stream.End
			default:
				s.term, s.termAt = "err", s.ms()
				s.termErr, s.termKind = srcError(ev.V), ev.V
				return 0, s.termErr
			}
		}
		s.mu.Unlock()
		select {
		case <-s.wake:
		case <-ctx.Done():
			return 0, ctx.Err()
		}
	}
}

func (s *source) Close() {
	s.mu.Lock()
	s.closeCalls++
	if s.nextActive > 0 {
		s.closeDuringNext = true
	}
	s.inClose++
	s.mu.Unlock()
	if s.closeGate != nil {
		<-s.closeGate // a Close that takes time (flushes, gives a connection back)
	}
	s.mu.Lock()
	s.inClose--
	s.closeRets++
	s.mu.Unlock()
}

func (s *source) push(a Act) {
	s.mu.Lock()
	s.q = append(s.q, a)
	s.mu.Unlock()
	select {
	case s.wake <- struct{}{}:
	default:
	}
}

// ---------------------------------------------------------------------------------------------
// one run of a scenario on the real code

type fullCall struct {
	batch      []int
	begin, end int64
	done       bool
	ret        bool
}

type Obs struct {
	Act     string `json:"act"`
	T       int64  `json:"t"`
	Cons    string `json:"cons"` // idle | pend
	NRes    int    `json:"nres"`
	LastRes string `json:"last"`
	Pulled  int    `json:"pulled"`
	SPend   bool   `json:"spend"`
	SClosed int    `json:"sclosed"`
	CRet    bool   `json:"cret"`
	FPend   bool   `json:"fpend"`
	SInCl   bool   `json:"sinclose"`
}

func b01(b bool) string {
	if b {
		return "1"
	}
	return "0"
}

func (o Obs) Line() string {
	return fmt.Sprintf("step %s obs %s %d %s %d %s %d %s %s %s", o.Act, o.Cons, o.NRes, o.LastRes, o.Pulled, b01(o.SPend), o.SClosed, b01(o.CRet), b01(o.FPend), b01(o.SInCl))
}

type callRes struct {
	kind    string // batch | end | err | ctx | other
	batch   []int  // copy made the moment Next returned
	raw     []int  // the slice Next returned itself (re-read at the end of the scenario: it is the consumer's)
	t       int64
	step    int  // index of the step in which the completion was observed
	live    bool // the call's context was never cancelled by the script
	detail  string
	started int64
}

func (r callRes) show() string {
	switch r.kind {
	case "batch":
		p := make([]string, len(r.batch))
		for i, v := range r.batch {
			p[i] = strconv.Itoa(v)
		}
		return "b:" + strings.Join(p, ",")
	}
	return r.kind
}

type Viol struct {
	Kind string
	What string
}

type Trace struct {
	Steps    []Obs
	Results  []callRes
	Viols    []Viol
	Leak     bool
	Panic    string
	Features map[string]bool
}

func (t *Trace) add(kind, what string) {
	for _, v := range t.Viols {
		if v.Kind == kind {
			return
		}
	}
	t.Viols = append(t.Viols, Viol{kind, what})
}

// runOnce executes the scenario once inside a bubble and returns the observed trace with the
// monitors' verdicts.
func runOnce(t *testing.T, scn Scn) (tr *Trace) {
	tr = &Trace{Features: map[string]bool{}}
	closeReturned := false
	func() {
		defer func() {
			if r := recover(); r != nil {
				msg := fmt.Sprint(r)
				if strings.Contains(msg, "blocked goroutines remain") {
					tr.Leak = true
				} else {
					tr.Panic = msg
				}
			}
		}()
		synctest.Test(t, func(t *testing.T) {
			closeReturned = bubble(scn, tr)
		})
	}()
	if tr.Leak && closeReturned {
		tr.add("c11-goroutine-leak", "Close returned but goroutines of the stream are still blocked when the scenario ends")
	}
	if tr.Panic != "" {
		tr.add("c11-panic", "panic: "+tr.Panic)
	}
	return tr
}

func bubble(scn Scn, tr *Trace) (closeReturned bool) {
	src := &source{wake: make(chan struct{}, 1), t0: time.Now(), ctxFirst: scn.CtxFirst}
	srcCloseReleased := false
	if scn.SlowClose {
		src.closeGate = make(chan struct{})
		tr.Features["slow-source-close"] = true
	}
	// what the source's Close had done at the very instant the stream's Close returned (judged in the
	// goroutine that called Close, before anything else runs)
	type closeSnap struct{ begun, returned int }
	var atCloseRet *closeSnap
	var mu sync.Mutex
	var fulls []*fullCall
	gate := make(chan struct{}, 4096)
	gateOpen := !scn.Gated
	full := func(b []int) bool {
		mu.Lock()
		fc := &fullCall{batch: append([]int{}, b...), begin: src.ms()}
		fulls = append(fulls, fc)
		gated := !gateOpen
		mu.Unlock()
		if gated {
			<-gate
		}
		r := len(b) > 0 && marked(b[len(b)-1])
		mu.Lock()
		fc.end, fc.done, fc.ret = src.ms(), true, r
		mu.Unlock()
		return r
	}
	var st stream.Stream[[]int]
	if scn.Mode == "batch" {
		st = stream.Batch[int](src, time.Duration(scn.MaxWait)*time.Millisecond, scn.Size)
	} else {
		st = stream.BatchFunc[int](src, time.Duration(scn.MaxWait)*time.Millisecond, full)
	}

	// consumer
	var pending bool
	var pendCancel context.CancelFunc
	var pendLive bool
	var pendDone bool
	var pendRes callRes
	closeCalled, closeRet := false, false
	var closeRetAt int64

	startNext := func(live bool) {
		ctx, cancel := context.WithCancel(context.Background())
		if !live {
			cancel()
		}
		pending, pendCancel, pendLive, pendDone = true, cancel, live, false
		started := src.ms()
		go func() {
			var b []int
			var err error
			if p, v := vlib.Try(func() { b, err = st.Next(ctx) }); p {
				err = fmt.Errorf("panic: %v", v)
			}
			r := callRes{t: src.ms(), started: started}
			src.mu.Lock()
			srcErr := src.termErr
			src.mu.Unlock()
			switch {
			case err == nil:
				r.kind, r.batch, r.raw = "batch", append([]int{}, b...), b
			case err == stream.End:
				r.kind = "end"
			case err == errSrc:
				r.kind = "err"
			case err == context.Canceled && ctx.Err() != nil:
				// this call's own context has expired: its error (a source that failed with
				// context.Canceled itself is indistinguishable here; both arms of Next are ready)
				r.kind = "ctx"
			case srcErr != nil && (err == srcErr || errors.Is(err, srcErr)):
				// the very error the source failed with (identity, or wrapping it)
				r.kind = "err"
			case err == context.Canceled:
				r.kind = "ctx"
			default:
				r.kind, r.detail = "other", err.Error()
			}
			mu.Lock()
			pendRes, pendDone = r, true
			mu.Unlock()
		}()
	}

	script := append([]Act{}, scn.Script...)
	// cleanup tail: every scenario ends with the pending call cancelled, full() ungated, Close, and the
	// source's Close allowed to return
	script = append(script, Act{Op: "cancel"}, Act{Op: "fullopen"}, Act{Op: "close"}, Act{Op: "srcclosed"})

	for _, a := range script {
		switch a.Op {
		case "rel":
			if src.term != "" || closeCalled && false {
				// still allowed: the source simply never hands it out
			}
			src.push(a)
		case "eof", "err":
			src.push(a)
		case "next":
			if pending || closeCalled {
				continue
			}
			startNext(a.V == 1)
		case "cancel":
			if !pending {
				continue
			}
			pendLive = false
			pendCancel()
		case "sleep":
			if a.V <= 0 {
				continue
			}
			if a.V >= 59_000 {
				tr.Features["idle-for-a-minute-or-more"] = true
				if pending {
					tr.Features["idle-with-next-pending"] = true
				}
			}
			time.Sleep(time.Duration(a.V) * time.Millisecond)
		case "fullret":
			mu.Lock()
			open := gateOpen
			mu.Unlock()
			if open {
				continue
			}
			gate <- struct{}{}
		case "fullopen":
			mu.Lock()
			open := gateOpen
			gateOpen = true
			mu.Unlock()
			if open {
				continue
			}
			close(gate)
		case "close":
			if closeCalled || pending {
				continue
			}
			closeCalled = true
			go func() {
				if p, v := vlib.Try(func() { st.Close() }); p {
					mu.Lock()
					tr.Panic = fmt.Sprintf("Close panicked: %v", v)
					mu.Unlock()
				}
				mu.Lock()
				src.mu.Lock()
				atCloseRet = &closeSnap{src.closeCalls, src.closeRets}
				src.mu.Unlock()
				closeRet, closeRetAt = true, src.ms()
				mu.Unlock()
			}()
		case "srcclosed":
			if src.closeGate == nil || srcCloseReleased {
				continue
			}
			srcCloseReleased = true
			close(src.closeGate)
		default:
			continue
		}
		synctest.Wait()

		// observe
		mu.Lock()
		src.mu.Lock()
		if pending && pendDone {
			r := pendRes
			r.live = pendLive
			r.step = len(tr.Steps)
			tr.Results = append(tr.Results, r)
			pending = false
			pendCancel()
		}
		o := Obs{Act: a.String(), T: src.ms(), Cons: "idle", NRes: len(tr.Results), LastRes: "-",
			Pulled: len(src.handed), SPend: src.nextActive > 0, SClosed: src.closeRets, CRet: closeRet, SInCl: src.inClose > 0}
		if pending {
			o.Cons = "pend"
		}
		if n := len(tr.Results); n > 0 {
			o.LastRes = tr.Results[n-1].show()
		}
		for _, fc := range fulls {
			if !fc.done {
				o.FPend = true
			}
		}
		tr.Steps = append(tr.Steps, o)
		if atCloseRet != nil && (atCloseRet.begun != 1 || atCloseRet.returned != 1) {
			how := fmt.Sprintf("the source had been closed %d times", atCloseRet.begun)
			switch {
			case atCloseRet.begun == 0:
				how = "the source's Close had not been called"
			case atCloseRet.begun == 1 && atCloseRet.returned == 0:
				how = "the source's Close was still in progress (begun 1, returned 0)"
			}
			tr.add("c09-source-close-count", fmt.Sprintf("at the moment Close returned (t=%d), %s", closeRetAt, how))
			if atCloseRet.returned == 0 {
				tr.add("c11-close-source-not-closed", fmt.Sprintf("Close returned (t=%d) without having closed the source: %s", closeRetAt, how))
			}
		}
		monitorStep(scn, tr, src, fulls, pending && pendLive, pending && !pendLive, closeCalled, closeRet, a)
		src.mu.Unlock()
		mu.Unlock()
	}
	// A batch that was handed out belongs to the consumer: whatever the stream did afterwards, the
	// slices returned by Next still hold what they held when they were returned (every goroutine of the
	// stream is blocked or gone here; on a stream that re-uses the backing array of a batch it handed out
	// a later item has overwritten an earlier batch by now).
	mu.Lock()
	for i, r := range tr.Results {
		if r.kind != "batch" {
			continue
		}
		same := len(r.raw) == len(r.batch)
		for j := 0; same && j < len(r.batch); j++ {
			same = r.raw[j] == r.batch[j]
		}
		if !same {
			tr.add("c11-lost-or-duplicated", fmt.Sprintf("result %d: Next returned the batch %v at t=%d; at the end of the scenario the same slice holds %v (the stream wrote into a batch it had handed out)", i, r.batch, r.t, r.raw))
		}
	}
	mu.Unlock()
	return closeRet
}

// ---------------------------------------------------------------------------------------------
// monitors: the clauses of the property text, evaluated after every step on what is observable

func monitorStep(scn Scn, tr *Trace, src *source, fulls []*fullCall, waitingLive, cancelledPending, closeCalled, closeRet bool, a Act) {
	now := tr.Steps[len(tr.Steps)-1].T
	stepIdx := len(tr.Steps) - 1
	fpend := tr.Steps[stepIdx].FPend
	handed := src.handed
	mw := int64(scn.MaxWait)
	anyCtxFail := false
	for _, r := range tr.Results {
		if r.kind == "ctx" {
			anyCtxFail = true
		}
	}
	// concatenation of the batches handed out so far
	var concat []int
	for _, r := range tr.Results {
		if r.kind == "batch" {
			concat = append(concat, r.batch...)
		}
	}
	isPrefix := len(concat) <= len(handed)
	if isPrefix {
		for i, v := range concat {
			if handed[i].v != v {
				isPrefix = false
			}
		}
	}
	handedVals := func() []int {
		out := make([]int, len(handed))
		for i, h := range handed {
			out[i] = h.v
		}
		return out
	}
	// a result observed in this step
	if n := len(tr.Results); n > 0 && tr.Results[n-1].step == stepIdx {
		r := tr.Results[n-1]
		switch r.kind {
		case "batch":
			tr.Features["batch"] = true
			if len(r.batch) == 0 {
				tr.add("c11-empty-batch", fmt.Sprintf("Next returned an empty batch at t=%d", r.t))
			}
			if scn.Mode == "batch" && len(r.batch) > scn.Size {
				tr.add("c11-batch-too-large", fmt.Sprintf("Batch with batchSize %d returned %v", scn.Size, r.batch))
			}
			if !isPrefix {
				what := fmt.Sprintf("batches so far concatenate to %v, the source handed out %v", concat, handedVals())
				tr.add("c11-lost-or-duplicated", what)
				if anyCtxFail {
					tr.add("c08-failed-next-cost-items", what)
				}
			} else if len(r.batch) > 0 {
				first := len(concat) - len(r.batch)
				under := false
				if scn.Mode == "batch" {
					under = len(r.batch) < scn.Size
				} else {
					under = !marked(r.batch[len(r.batch)-1])
				}
				ended := src.term != "" && src.termAt <= r.t
				if under {
					tr.Features["underfilled"] = true
				}
				if under && !ended && r.t-handed[first].t < mw {
					tr.add("c11-underfilled-too-early", fmt.Sprintf("underfilled batch %v handed out at t=%d, its oldest item arrived at t=%d, maxWait=%d, source not ended", r.batch, r.t, handed[first].t, mw))
				}
				if under && !ended {
					tr.Features["underfilled-by-wait"] = true
				}
			}
		case "end":
			tr.Features["end"] = true
			if src.term == "err" {
				what := fmt.Sprintf("the source failed with %q (neither the consumer's nor Batch's own context was cancelled) but Next reported the normal end", src.termErr)
				tr.add("c08-error-replaced-by-end", what)
				tr.add("c11-error-replaced-by-end", what)
			} else if src.term == "" {
				tr.add("c11-end-without-source-end", "Next reported End although the source has not ended")
			}
			if !isPrefix || len(concat) != len(handed) {
				what := fmt.Sprintf("End reported; batches concatenate to %v, the source handed out %v", concat, handedVals())
				tr.add("c11-lost-or-duplicated", what)
				if anyCtxFail {
					tr.add("c08-failed-next-cost-items", what)
				}
			}
		case "err":
			tr.Features["err"] = true
			if src.termKind > 0 {
				tr.Features["err-ctx-flavoured"] = true
			}
			if src.term != "err" {
				tr.add("c08-spurious-error", "Next reported the source's error although the source has not failed")
				tr.add("c11-spurious-error", "Next reported the source's error although the source has not failed")
			}
			if !isPrefix || len(concat) != len(handed) {
				tr.add("c08-error-before-items", fmt.Sprintf("source error reported; batches concatenate to %v, the source handed out %v before failing", concat, handedVals()))
				tr.add("c11-error-before-items", fmt.Sprintf("source error reported; batches concatenate to %v, the source handed out %v before failing", concat, handedVals()))
			}
		case "ctx":
			tr.Features["ctxfail"] = true
			if r.live {
				tr.add("c11-spurious-ctx-error", "Next failed with a context error although its context is live")
			}
		default:
			tr.add("c08-other-error", "Next returned an unexpected error: "+r.detail)
			tr.add("c11-other-error", "Next returned an unexpected error: "+r.detail)
		}
	}
	// a live consumer is waiting at quiescence: nothing may be held back from it
	if waitingLive && !fpend && !closeCalled {
		// (a source Close that is still running — it takes time, the script has not let it return — is
		// the environment's turn: a report the stream makes only after it is not overdue yet)
		if src.term != "" && src.inClose == 0 {
			tr.add("c11-end-not-reported", fmt.Sprintf("the source ended (%s) at t=%d, a Next call with a live context is still blocked at t=%d with every goroutine idle", src.term, src.termAt, now))
			if src.term == "err" {
				tr.add("c08-error-not-reported", "the source failed and a Next call with a live context stays blocked")
			}
		}
		if isPrefix && len(concat) < len(handed) {
			first := len(concat)
			entry, ok := int64(0), false
			if scn.Mode == "batch" {
				entry, ok = handed[first].t, true
				for _, r := range tr.Results {
					if r.kind == "batch" && r.t > entry {
						entry = r.t
					}
				}
			} else {
				for _, fc := range fulls {
					if fc.done && !fc.ret && len(fc.batch) == 1 && fc.batch[0] == handed[first].v {
						entry, ok = fc.end, true
					}
				}
			}
			if ok && now-entry >= mw {
				tr.add("c11-held-back", fmt.Sprintf("item %d has been in the batch since t=%d, now t=%d >= maxWait %d later, a Next call with a live context is waiting and nothing is handed out", handed[first].v, entry, now, mw))
			}
		}
	}
	if waitingLive {
		tr.Features["waiter-at-quiescence"] = true
	}
	// a Next whose context has expired must not stay blocked
	if cancelledPending {
		tr.add("c11-next-stuck-after-cancel", fmt.Sprintf("the pending Next's context was cancelled and the call is still blocked with every goroutine idle (t=%d)", now))
		tr.add("c08-next-stuck-after-cancel", "a Next whose context expired does not return")
	}
	// Close
	if closeCalled && !closeRet && !fpend && src.inClose == 0 {
		tr.add("c11-close-deadlock", fmt.Sprintf("Close was called and has not returned although every goroutine is idle (t=%d, source Next pending=%v, items handed out=%d, delivered=%d)", now, src.nextActive > 0, len(handed), len(concat)))
	}
	if closeCalled && len(concat) < len(handed) {
		tr.Features["close-with-items-in-flight"] = true
	}
	if closeRet {
		if src.closeCalls != 1 || src.closeRets != 1 {
			tr.add("c09-source-close-count", fmt.Sprintf("Close has returned; the source's Close was begun %d times and has returned %d times", src.closeCalls, src.closeRets))
		}
		if src.closeRets == 0 {
			tr.add("c11-close-source-not-closed", "Close returned without having closed the source")
		}
		if src.nextActive > 0 {
			tr.add("c09-next-pending-after-close", "Close returned while a Next call on the source is still running")
		}
	}
	if src.closeCalls > 1 {
		tr.add("c09-source-close-count", fmt.Sprintf("the source was closed %d times", src.closeCalls))
	}
	if src.nextAfterClose {
		tr.add("c09-next-after-close", "the source saw Next after Close")
	}
	if src.nextDuringClose || src.closeDuringNext {
		tr.add("c09-next-close-concurrent", "the source saw Next and Close running concurrently")
	}
	if src.nextOverlap {
		tr.add("c09-next-next-concurrent", "the source saw two concurrent Next calls")
	}
	_ = a
}

// ---------------------------------------------------------------------------------------------
// conformance of one trace against the Lean LTS

func conform(m *vlib.Model, scn Scn, tr *Trace) (ok bool, what string, err error) {
	lines := []string{scn.modelCfgLine()}
	for _, o := range tr.Steps {
		lines = append(lines, o.Line())
	}
	out, err := m.Run(lines)
	if err != nil {
		return true, "", err
	}
	for i, l := range out {
		if !strings.HasPrefix(l, "ok") {
			return false, fmt.Sprintf("line %d %q: model says %s", i, lines[i], l), nil
		}
	}
	return true, "", nil
}

// ---------------------------------------------------------------------------------------------
// generators

type gen struct {
	r    *vlib.Rand
	next int
}

func (g *gen) item(mark bool) Act {
	g.next++
	if mark {
		return Act{Op: "rel", V: 1000 + g.next}
	}
	return Act{Op: "rel", V: g.next}
}

// genScn: one scenario in three has a source whose Close takes time; it returns at a random point
// after the first action that can make the producer leave (source end / error, Close), or only at the
// end of the scenario.
func genScn(r *vlib.Rand, res *vlib.Result) Scn {
	s := genScnFast(r, res)
	if !r.Chance(1, 3) {
		return s
	}
	s.SlowClose = true
	first := -1
	for i, a := range s.Script {
		if a.Op == "eof" || a.Op == "err" || a.Op == "close" {
			first = i
			break
		}
	}
	if first >= 0 && r.Chance(3, 4) {
		at := first + 1 + r.Intn(len(s.Script)-first)
		script := append([]Act{}, s.Script[:at]...)
		script = append(script, Act{Op: "srcclosed"})
		s.Script = append(script, s.Script[at:]...)
	}
	if first < 0 || r.Chance(1, 3) {
		s.Script = append(s.Script, Act{Op: "close"}) // Close while the source's Close is outstanding
		if r.Bool() {
			s.Script = append(s.Script, Act{Op: "sleep", V: 1})
		}
	}
	return s
}

// directedSlowClose: a source whose Close takes time x {source ends, fails with its own / a
// context-flavoured error, neither} x {a Next waiting, asked afterwards} x {Close of the stream before
// / after the source's Close returned}. Run in every tier.
func directedSlowClose() []Scn {
	var out []Scn
	live := Act{Op: "next", V: 1}
	rel := func(v int) Act { return Act{Op: "rel", V: v} }
	for _, base := range []Scn{{Mode: "batch", MaxWait: 2, Size: 2}, {Mode: "batch", MaxWait: 0, Size: 1}, {Mode: "func", MaxWait: 3}} {
		for _, term := range []Act{{Op: "eof"}, {Op: "err"}, {Op: "err", V: 1}, {Op: "err", V: 2}} {
			for _, script := range [][]Act{
				{live, rel(1), term, live, {Op: "srcclosed"}, live, {Op: "close"}},
				{rel(1), term, live, live, {Op: "close"}, {Op: "sleep", V: 1}, {Op: "srcclosed"}},
				{term, {Op: "close"}, {Op: "srcclosed"}},
				{term, live, {Op: "srcclosed"}, {Op: "close"}},
				{live, term, {Op: "close"}, {Op: "sleep", V: 5}, {Op: "srcclosed"}},
			} {
				sc := base
				sc.SlowClose = true
				sc.Script = append([]Act{}, script...)
				out = append(out, sc)
			}
		}
		for _, script := range [][]Act{
			{{Op: "close"}, {Op: "srcclosed"}},
			{rel(1), {Op: "close"}, {Op: "sleep", V: 1}, {Op: "srcclosed"}},
			{live, rel(1), rel(2), rel(3), {Op: "close"}, {Op: "srcclosed"}},
			{live, {Op: "cancel"}, {Op: "close"}, {Op: "srcclosed"}},
			{{Op: "srcclosed"}, rel(1), live, {Op: "close"}},
		} {
			sc := base
			sc.SlowClose = true
			sc.Script = append([]Act{}, script...)
			out = append(out, sc)
		}
	}
	return out
}

// idleDurations: how long (virtual ms) a scenario may do nothing at all: just below / above a minute,
// just above an hour, 25 hours. Nothing in Batch has a deadline: the stream must be exactly where it
// was afterwards.
var idleDurations = []int{59_000, 61_000, 3_600_001, 90_000_000}

// directedIdle: the stream idles for a long time — the producer parked in the source's Next (which
// honours the context it was given: it returns ctx.Err() as soon as that context is done), with and
// without a consumer's Next pending, with an empty and with a non-empty underfilled batch, right at
// the start and after batches were delivered, the batcher inside a gated full(), Batch and BatchFunc —
// and then the source goes on (items, end, an error of its own, also context.DeadlineExceeded as the
// source's own failure) and the consumer reads to the end. Judged by the ordinary monitors: nothing
// lost (c11-lost-or-duplicated at End), no error nobody produced (c11-/c08-other-error), no End before
// the source's (c11-end-without-source-end), nothing held back, Close returns. Run in every tier.
func directedIdle() []Scn {
	var out []Scn
	live := Act{Op: "next", V: 1}
	rel := func(v int) Act { return Act{Op: "rel", V: v} }
	sl := func(d int) Act { return Act{Op: "sleep", V: d} }
	eof := Act{Op: "eof"}
	bases := []Scn{{Mode: "batch", MaxWait: 2, Size: 2}, {Mode: "batch", MaxWait: 10, Size: 3}, {Mode: "func", MaxWait: 3},
		{Mode: "batch", MaxWait: 2, Size: 2, CtxFirst: true}}
	for _, base := range bases {
		mw := base.MaxWait
		m := 0 // "marked" offset: in func mode every second item fills the batch
		if base.Mode == "func" {
			m = 1000
		}
		for _, d := range idleDurations {
			for _, script := range [][]Act{
				// nobody asks, nothing in the batch
				{sl(d), rel(1), rel(2 + m), live, live, eof, live, live},
				// a consumer waits at the empty batch
				{live, sl(d), rel(1), sl(mw + 1), rel(2), rel(3 + m), live, live, eof, live, live},
				// an underfilled batch sits there, nobody asks
				{rel(1), sl(d), live, rel(2), rel(3 + m), live, eof, live, live},
				// a waiter got the underfilled batch after maxWait; idle; again
				{live, rel(1), sl(d), rel(2), live, sl(d), eof, live, live},
				// after full batches were delivered
				{rel(1), rel(2 + m), live, sl(d), rel(3), live, sl(mw + 1), sl(d), rel(4), rel(5 + m), live, eof, live, live},
				// then the source fails: its own error value / context.DeadlineExceeded as its own failure
				{live, sl(d), {Op: "err"}, live},
				{sl(d), rel(1), {Op: "err", V: 3}, live, live, live},
				// then a call with a dead context, then Close
				{live, sl(d), {Op: "cancel"}, {Op: "next", V: 0}, rel(1), {Op: "close"}},
			} {
				sc := base
				sc.Script = append([]Act{}, script...)
				out = append(out, sc)
			}
		}
	}
	// the batcher sits inside the user's full() for the whole time
	for _, d := range idleDurations {
		out = append(out,
			Scn{Mode: "func", MaxWait: 2, Gated: true, Script: []Act{rel(1), sl(d), {Op: "fullret"}, live, sl(3), rel(1002), {Op: "fullopen"}, live, eof, live, live}},
			Scn{Mode: "func", MaxWait: 2, Gated: true, Script: []Act{live, rel(1), sl(d), {Op: "fullopen"}, sl(3), eof, live, live}})
	}
	return out
}

func genScnFast(r *vlib.Rand, res *vlib.Result) Scn {
	g := &gen{r: r}
	s := Scn{Mode: "batch", MaxWait: []int{0, 1, 2, 3, 5, 10}[r.Intn(6)], Size: r.Range(1, 4), CtxFirst: r.Chance(1, 3)}
	if r.Chance(2, 5) {
		s.Mode = "func"
		s.Size = 0
		s.Gated = r.Chance(3, 5)
	}
	mode := r.Intn(8)
	res.Count(fmt.Sprintf("gen-mode-%d", mode))
	mw := s.MaxWait
	sleeps := []int{1, 2, mw - 1, mw, mw + 1, 2*mw + 1}
	sleep := func() Act {
		if r.Chance(1, 10) { // idle for a minute / an hour / a day
			res.Count("gen-long-sleep")
			return Act{Op: "sleep", V: idleDurations[r.Intn(len(idleDurations))]}
		}
		d := sleeps[r.Intn(len(sleeps))]
		if d <= 0 {
			d = 1
		}
		return Act{Op: "sleep", V: d}
	}
	rel := func() Act { return g.item(s.Mode == "func" && r.Chance(1, 3)) }
	// a failing source: its own error value, or one of the context-flavoured ones
	srcErr := func() Act { return Act{Op: "err", V: []int{0, 0, 1, 2, 3, 4, 1, 2}[r.Intn(8)]} }
	n := r.Range(4, 22)
	ended := false
	add := func(a Act) { s.Script = append(s.Script, a) }
	switch mode {
	case 0: // producer ahead: a burst, no consumer, then Close
		for i := 0; i < r.Range(1, 6); i++ {
			add(rel())
			if s.Gated && r.Bool() {
				add(Act{Op: "fullret"})
			}
		}
		if r.Bool() {
			add(sleep())
		}
		add(Act{Op: "close"})
		return s
	case 1: // stale timer: waiter at empty, item, waiter leaves, latency, second waiter
		add(Act{Op: "next", V: 1})
		add(rel())
		if s.Gated {
			add(Act{Op: "fullret"})
		}
		if r.Bool() {
			add(Act{Op: "cancel"})
		}
		add(rel())
		add(Act{Op: "sleep", V: mw + r.Range(1, 3)})
		add(Act{Op: "cancel"})
		add(Act{Op: "next", V: 1})
		if s.Gated {
			add(Act{Op: "fullret"})
		}
		for i := 0; i < r.Range(0, 4); i++ {
			switch r.Intn(4) {
			case 0:
				add(rel())
			case 1:
				add(Act{Op: "next", V: 1})
			case 2:
				add(sleep())
			case 3:
				add(Act{Op: "fullret"})
			}
		}
	}
	for len(s.Script) < n {
		w := []int{30, 22, 8, 18, 10, 4, 3}
		if !s.Gated {
			w[4] = 0
		}
		if ended {
			w[0], w[5] = 2, 0
		}
		switch r.Pick(w...) {
		case 0:
			add(rel())
			if mode == 2 { // bursts
				for i := 0; i < r.Range(0, 4); i++ {
					add(rel())
				}
			}
		case 1:
			live := 1
			if r.Chance(1, 6) {
				live = 0
			}
			add(Act{Op: "next", V: live})
		case 2:
			add(Act{Op: "cancel"})
		case 3:
			add(sleep())
		case 4:
			add(Act{Op: "fullret"})
			if r.Bool() {
				add(Act{Op: "fullret"})
			}
		case 5:
			if r.Chance(1, 3) {
				add(srcErr())
			} else {
				add(Act{Op: "eof"})
			}
			ended = true
		case 6:
			if r.Chance(1, 2) {
				add(Act{Op: "cancel"})
			}
			add(Act{Op: "close"})
			return s
		}
	}
	if mode >= 4 { // read to the end
		if !ended {
			if r.Chance(1, 4) {
				add(srcErr())
			} else {
				add(Act{Op: "eof"})
			}
		}
		if s.Gated {
			add(Act{Op: "fullopen"})
		}
		for i := 0; i < g.next+3; i++ {
			add(Act{Op: "next", V: 1})
			if r.Chance(1, 3) {
				add(Act{Op: "sleep", V: mw + 1})
			}
		}
	}
	return s
}

// ---------------------------------------------------------------------------------------------
// checking one scenario

type outcome struct {
	viols      []Viol
	corr       string
	traces     int
	feat       map[string]bool
	modelError error
}

func checkScn(t *testing.T, scn Scn, m *vlib.Model, repeats int) outcome {
	out := outcome{feat: map[string]bool{}}
	seen := map[string]bool{}
	for i := 0; i < repeats; i++ {
		tr := runOnce(t, scn)
		for k := range tr.Features {
			out.feat[k] = true
		}
		for _, v := range tr.Viols {
			dup := false
			for _, w := range out.viols {
				if w.Kind == v.Kind {
					dup = true
				}
			}
			if !dup {
				out.viols = append(out.viols, v)
			}
		}
		if m != nil && out.modelError == nil && out.corr == "" {
			var key strings.Builder
			for _, o := range tr.Steps {
				key.WriteString(o.Line())
				key.WriteByte('\n')
			}
			if !seen[key.String()] {
				seen[key.String()] = true
				ok, what, err := conform(m, scn, tr)
				if err != nil {
					out.modelError = err
				} else {
					out.traces++
					if !ok {
						out.corr = what
					}
				}
			}
		}
	}
	return out
}

// shrinkSleeps: after the script has been shrunk, every long idle is replaced by the shortest of the
// idle durations (and 1 ms) that still shows the failure.
func shrinkSleeps(scn Scn, fails func(Scn) bool) Scn {
	for i, a := range scn.Script {
		if a.Op != "sleep" || a.V < idleDurations[0] {
			continue
		}
		for _, d := range append([]int{1}, idleDurations...) {
			if d >= a.V {
				break
			}
			c := scn
			c.Script = append([]Act{}, scn.Script...)
			c.Script[i].V = d
			if fails(c) {
				scn = c
				break
			}
		}
	}
	return scn
}

func hasKind(vs []Viol, k string) (Viol, bool) {
	for _, v := range vs {
		if v.Kind == k {
			return v, true
		}
	}
	return Viol{}, false
}

// lim: at most 2 shrunk reports per kind and 12 per kind-prefix class (c11- / c08- / c09- /
// correspondence): failures of one class never use up the room, or the time, of another.
var lim = vlib.NewClassLimiter(2, 12)

func record(t *testing.T, scn Scn, m *vlib.Model, repeats int, res *vlib.Result) {
	o := checkScn(t, scn, m, repeats)
	if o.modelError != nil && res.ModelMissing == "" {
		res.ModelMissing = o.modelError.Error()
	}
	res.Traces += o.traces
	nontrivial := o.feat["batch"] && (o.feat["underfilled-by-wait"] || o.feat["ctxfail"] || o.feat["close-with-items-in-flight"] || o.feat["err"] || o.feat["end"])
	for k := range o.feat {
		res.Count("scn-with-" + k)
	}
	res.Count("mode-" + scn.Mode)
	if scn.Gated {
		res.Count("gated-full")
	}
	if scn.SlowClose {
		res.Count("slow-source-close")
	}
	res.CountN("actions", len(scn.Script))
	res.Case(strings.Join(scn.Lines(), ";"), nontrivial, scn.Lines())
	for _, v := range o.viols {
		if !lim.Admit("monitor", v.Kind) {
			continue
		}
		small := scn
		small.Script = vlib.Shrink(scn.Script, func(c []Act) bool {
			s2 := scn
			s2.Script = c
			_, hit := hasKind(checkScn(t, s2, nil, repeats).viols, v.Kind)
			return hit
		})
		small = shrinkSleeps(small, func(c Scn) bool {
			_, hit := hasKind(checkScn(t, c, nil, repeats).viols, v.Kind)
			return hit
		})
		what := v.What
		if w, hit := hasKind(checkScn(t, small, nil, repeats*2).viols, v.Kind); hit {
			what = w.What
		} else {
			small = scn
		}
		res.Fail(vlib.Failure{Source: "monitor", Kind: v.Kind, Params: map[string]interface{}{"mode": scn.Mode},
			What: what, Case: small.Lines()})
	}
	if o.corr != "" && lim.Admit("correspondence", "batch-model-differs") {
		small := scn
		small.Script = vlib.Shrink(scn.Script, func(c []Act) bool {
			s2 := scn
			s2.Script = c
			return checkScn(t, s2, m, repeats).corr != ""
		})
		what := o.corr
		if w := checkScn(t, small, m, repeats*2).corr; w != "" {
			what = w
		} else {
			small = scn
		}
		res.Fail(vlib.Failure{Source: "correspondence", Kind: "batch-model-differs", Params: map[string]interface{}{"mode": scn.Mode},
			What: what, Case: small.Lines()})
	}
}

// ---------------------------------------------------------------------------------------------

func TestVerif(t *testing.T) {
	env := vlib.GetEnv()
	if env.Out == "" && env.Replay == "" && os.Getenv("VERIF_SEED") == "" {
		t.Skip("run through bin/check")
	}
	res := vlib.NewResult("C11", "scenario scripts (gated source, consumer calls with live/expiring contexts, virtual sleeps around maxWait, "+
		"scripted full() latency, Close at any quiescent point) in 8 generator modes plus the corpus, each repeated to see both sides of select races; "+
		"a scenario is non-trivial if a batch was handed out and it also saw an underfilled batch released by waiting, a failed Next, a source end/error, "+
		"or Close with items in flight; distinct = different script")
	m, err := vlib.StartModel(env.Driver, "batch")
	if err != nil {
		res.ModelMissing = err.Error()
		m = nil
	}
	defer m.Close()

	if env.Replay != "" {
		var ls []string
		if err := vlib.ReplayCase(env.Replay, &ls); err != nil {
			fmt.Println("cannot read replay:", err)
			os.Exit(2)
		}
		scn, err := parseScn(ls)
		if err != nil {
			fmt.Println("cannot parse replay:", err)
			os.Exit(2)
		}
		o := checkScn(t, scn, m, 200)
		fmt.Printf("replay of %d actions, 200 repetitions\n", len(scn.Script))
		for _, l := range scn.Lines() {
			fmt.Println("  ", l)
		}
		for _, v := range o.viols {
			fmt.Printf("monitor: %s: %s\n", v.Kind, v.What)
		}
		if o.corr != "" {
			fmt.Println("correspondence:", o.corr)
		} else if m != nil {
			fmt.Printf("correspondence: %d distinct traces accepted by the model\n", o.traces)
		}
		if len(o.viols) > 0 {
			os.Exit(1)
		}
		return
	}

	repeats := 8
	if env.Thorough() || env.Deep {
		repeats = 24
	}
	corpus := filepath.Join(filepath.Dir(env.Corpus), "C11")
	for _, f := range vlib.CorpusFiles(corpus, ".scn") {
		scn, err := parseScn(vlib.ReadLines(f))
		if err != nil {
			t.Fatalf("corpus file %s: %v", f, err)
		}
		res.Count("corpus")
		record(t, scn, m, repeats*4, res)
	}
	for _, scn := range directedSlowClose() {
		res.Count("directed-slow-close")
		record(t, scn, m, repeats, res)
	}
	for _, scn := range directedIdle() {
		res.Count("directed-idle")
		record(t, scn, m, 4, res)
	}
	r := vlib.NewRand(env.Seed)
	deadline := env.Deadline()
	if raceEnabled {
		deadline = time.Now().Add(time.Duration(env.BudgetMs/3) * time.Millisecond)
		res.Count("race-detector-build")
	}
	max := 6000
	if env.Thorough() || env.Deep {
		max = 40000
	}
	for i := 0; i < max && time.Now().Before(deadline); i++ {
		scn := genScn(r.Fork(), res)
		record(t, scn, m, repeats, res)
	}
	if env.Thorough() && !raceEnabled {
		res.Exhaustive = exhaustive(t, m, res, time.Now().Add(time.Duration(env.BudgetMs)*time.Millisecond))
	}
	res.Write(env.Out)
}

// exhaustive runs every script up to a length bound over a small alphabet, for one Batch and one
// gated BatchFunc configuration (bounded checking of the model-code correspondence and of the
// monitors; it never stands in for a theorem). Reports whether the enumeration completed.
func exhaustive(t *testing.T, m *vlib.Model, res *vlib.Result, deadline time.Time) bool {
	type space struct {
		scn   Scn
		alpha []Act
		depth int
	}
	spaces := []space{
		{Scn{Mode: "batch", MaxWait: 2, Size: 2},
			[]Act{{Op: "rel"}, {Op: "next", V: 1}, {Op: "next", V: 0}, {Op: "cancel"}, {Op: "sleep", V: 1}, {Op: "sleep", V: 3}, {Op: "eof"}, {Op: "err"}, {Op: "close"}}, 5},
		{Scn{Mode: "func", MaxWait: 2, Gated: true},
			[]Act{{Op: "rel"}, {Op: "rel", V: 1000}, {Op: "next", V: 1}, {Op: "cancel"}, {Op: "sleep", V: 1}, {Op: "sleep", V: 3}, {Op: "fullret"}, {Op: "eof"}, {Op: "close"}}, 5},
		// a source that fails with context-flavoured errors of its own; the stream may idle for an hour
		{Scn{Mode: "batch", MaxWait: 2, Size: 2},
			[]Act{{Op: "rel"}, {Op: "next", V: 1}, {Op: "next", V: 0}, {Op: "cancel"}, {Op: "sleep", V: 3}, {Op: "sleep", V: 3_600_001}, {Op: "err", V: 1}, {Op: "err", V: 2}, {Op: "err", V: 3}, {Op: "close"}}, 4},
		// a source whose Close takes time (a script may go on after `close`: the source's Close returns later)
		{Scn{Mode: "batch", MaxWait: 2, Size: 2, SlowClose: true},
			[]Act{{Op: "rel"}, {Op: "next", V: 1}, {Op: "sleep", V: 3}, {Op: "eof"}, {Op: "err"}, {Op: "close"}, {Op: "srcclosed"}}, 4},
	}
	complete := true
	n := 0
	for _, sp := range spaces {
		var rec func(prefix []Act, items int)
		rec = func(prefix []Act, items int) {
			if !complete {
				return
			}
			if len(prefix) > 0 {
				if time.Now().After(deadline) {
					complete = false
					return
				}
				scn := sp.scn
				scn.Script = append([]Act{}, prefix...)
				record(t, scn, m, 3, res)
				n++
			}
			if len(prefix) == sp.depth || (len(prefix) > 0 && prefix[len(prefix)-1].Op == "close" && !sp.scn.SlowClose) {
				return
			}
			for _, a := range sp.alpha {
				it := items
				if a.Op == "rel" {
					it++
					a.V += it
				}
				if len(prefix) == 0 && (a.Op == "cancel" || a.Op == "fullret") {
					continue
				}
				rec(append(append([]Act{}, prefix...), a), it)
			}
		}
		rec(nil, 0)
	}
	res.Dist["exhaustive-scripts"] = n
	return complete
}
