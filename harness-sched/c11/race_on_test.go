//go:build race

package c11

// Built with -race (the thorough-only "c11race" harness entry): the same scenarios, a third of the
// budget, no exhaustive enumeration; the race detector watches out.err, the batch slices and the
// harness's own logs.
const raceEnabled = true
