// Real-threads phase of the stream.Merge clauses of C08: "reports E itself - never the normal end, another
// error, or silence", for "every timing of the fault".
//
// Inside a synctest bubble the error path of one input's goroutine (record the error, cancel the siblings, close
// the pipe) is never interleaved with the goroutines of the siblings it wakes: which of them records *its* error
// first is decided within a few instructions after the internal context's Done channel is closed. This phase is
// the search side for that window. One input yields p items and then fails with E while every other input is
// parked in Next; the parked inputs are ordinary I/O-like sources: each bounds its fetch by a context derived from
// the one it was given (context.WithTimeout) and reports that context's error when it is done. Cancelling
// Merge's internal context therefore walks over many child contexts and wakes the siblings one after the other
// while the failing input's goroutine is still inside cancel(); every sibling then returns context.Canceled from
// Next - an error that exists only because Merge cancelled, and that the merged stream must never report while
// the consumer's context is live and Close has not been called (the same clause as c12_test.go's
// `c08-merge-spurious-error`: "Next with a live context returned a context error").
//
// Verdict: true-positive-only. A round is judged by what the consumer's Next (live context, no deadline of its
// own) returned after the p items: E is right; the normal end, context.Canceled / DeadlineExceeded or any other
// error is a violation with the round's configuration as the replayable case. No timeout decides anything: a Next
// that does not return within two minutes of real time ends the phase as inconclusive (counted, not reported).
package c12

import (
	"context"
	"errors"
	"fmt"
	"runtime"
	"sync"
	"time"

	"github.com/bradenaw/juniper/stream"
	"verifharness/vlib"
)

var errStressSource = errors.New("the failing input's error E")

// stressCfg is the replayable case of this phase (Scn.Fam == "smerge-stress").
type stressCfg struct {
	Idle     int `json:"idle"`     // inputs parked in Next when the failing input fails
	Children int `json:"children"` // contexts each parked input derives from the one it is given
	Items    int `json:"items"`    // items the failing input yields first
	Rounds   int `json:"rounds"`   // rounds run (replay: upper bound)
}

type stressFailing struct {
	items, pos int
	gate       <-chan struct{}
}

func (s *stressFailing) Next(ctx context.Context) (interface{}, error) {
	if s.pos < s.items {
		s.pos++
		return s.pos, nil
	}
	select {
	case <-s.gate:
		return nil, errStressSource
	case <-ctx.Done():
		return nil, ctx.Err()
	}
}
func (s *stressFailing) Close() {}

// stressIdle never has data. It derives `children` contexts from the one it is given (the last one is what its
// fetch waits on) and reports that context's error when it gives up.
type stressIdle struct {
	children int
	entered  *sync.WaitGroup
	once     sync.Once
}

func (s *stressIdle) Next(ctx context.Context) (interface{}, error) {
	cancels := make([]context.CancelFunc, 0, s.children)
	cctx := ctx
	for i := 0; i < s.children; i++ {
		var c context.CancelFunc
		cctx, c = context.WithTimeout(ctx, time.Hour)
		cancels = append(cancels, c)
	}
	defer func() {
		for _, c := range cancels {
			c()
		}
	}()
	s.once.Do(s.entered.Done)
	<-cctx.Done()
	return nil, cctx.Err()
}
func (s *stressIdle) Close() {}

type stressVerdict struct {
	kind, what string
	round      int
}

// stressRound: "" / a violated clause / "inconclusive".
func stressRound(cfg stressCfg) (kind, what string) {
	gate := make(chan struct{})
	var entered sync.WaitGroup
	entered.Add(cfg.Idle)
	in := []stream.Stream[interface{}]{&stressFailing{items: cfg.Items, gate: gate}}
	for i := 0; i < cfg.Idle; i++ {
		in = append(in, &stressIdle{children: cfg.Children, entered: &entered})
	}
	merged := stream.Merge(in...)
	defer merged.Close()
	ctx := context.Background() // live for ever: a context error out of Next is the library's own
	for i := 1; i <= cfg.Items; i++ {
		v, err := merged.Next(ctx)
		if err != nil || v != i {
			return "c08-merge-spurious-error", fmt.Sprintf("item %d of the only input that yields anything: Next returned (%v, %v)", i, v, err)
		}
	}
	entered.Wait() // every other input is parked in Next
	close(gate)    // the failing input fails with E
	type nr struct {
		v   interface{}
		err error
	}
	done := make(chan nr, 1)
	go func() {
		v, err := merged.Next(ctx)
		done <- nr{v, err}
	}()
	var r nr
	select {
	case r = <-done:
	case <-time.After(2 * time.Minute):
		return "inconclusive", "Next did not return within two minutes of real time"
	}
	switch {
	case r.err == errStressSource:
		return "", ""
	case r.err == stream.End:
		return "c08-merge-end-after-error", fmt.Sprintf("one input failed with %q after %d items while %d inputs were parked in Next; the merged stream reported the normal end", errStressSource, cfg.Items, cfg.Idle)
	case r.err == nil:
		return "c08-merge-spurious-error", fmt.Sprintf("one input failed with %q after its %d items; the merged stream yielded another item %v", errStressSource, cfg.Items, r.v)
	}
	return "c08-merge-spurious-error", fmt.Sprintf("one input failed with %q after %d items while %d inputs were parked in Next (each waiting on a context derived from the one Merge gave it); "+
		"Next with a live context reported %q - an error no input produced by itself: it exists only because Merge cancelled its own context", errStressSource, cfg.Items, cfg.Idle, r.err)
}

// stressCancelWindow runs rounds until the first violation, the round limit or the time limit.
func stressCancelWindow(cfg stressCfg, maxRounds int, limit time.Duration) (v *stressVerdict, rounds int, inconclusive bool) {
	if runtime.GOMAXPROCS(0) < 4 {
		defer runtime.GOMAXPROCS(runtime.GOMAXPROCS(4)) // the window needs goroutines that really run at the same time
	}
	start := time.Now()
	for rounds = 0; rounds < maxRounds && time.Since(start) < limit; rounds++ {
		k, w := stressRound(cfg)
		if k == "inconclusive" {
			return nil, rounds, true
		}
		if k != "" {
			return &stressVerdict{k, w, rounds}, rounds + 1, false
		}
	}
	return nil, rounds, false
}

// stressConfigs: many parked inputs with one derived context each (the siblings are woken one after the other
// all through the walk) and fewer inputs with several derived contexts each (a longer walk per sibling).
var stressConfigs = []stressCfg{
	{Idle: 256, Children: 1, Items: 3},
	{Idle: 64, Children: 8, Items: 1},
	{Idle: 16, Children: 64, Items: 0},
}

func stressPhase(res *vlib.Result, env vlib.Env) {
	budget := time.Duration(env.BudgetMs) * time.Millisecond / 3
	if budget < 1200*time.Millisecond {
		budget = 1200 * time.Millisecond
	}
	maxRounds := 1500
	if env.Thorough() || env.Deep {
		maxRounds = 20000
	}
	per := budget / time.Duration(len(stressConfigs))
	for _, cfg := range stressConfigs {
		v, rounds, inc := stressCancelWindow(cfg, maxRounds, per)
		res.CountN("stress-cancel-window-rounds", rounds)
		res.Evaluations += rounds
		if inc {
			res.Count("stress-cancel-window-inconclusive")
		}
		if v == nil {
			continue
		}
		cfg.Rounds = v.round + 1
		res.Fail(vlib.Failure{Source: "monitor", Kind: v.kind,
			Params: map[string]interface{}{"inputs": cfg.Idle + 1, "phase": "real-threads-cancel-window"},
			What:   fmt.Sprintf("round %d of %+v: %s", v.round, cfg, v.what),
			Case:   map[string]interface{}{"fam": "smerge-stress", "n": cfg.Idle + 1, "steps": []Step{}, "stress": cfg}})
		return // one report is enough; the other configurations find the same window
	}
}

func replayStressCase(cfg stressCfg) bool {
	rounds := 20000
	fmt.Printf("replay: real-threads rounds of %+v (up to %d rounds / 20 s)\n", cfg, rounds)
	v, n, inc := stressCancelWindow(cfg, rounds, 20*time.Second)
	switch {
	case v != nil:
		fmt.Printf("FAILS %s: round %d: %s\n", v.kind, v.round, v.what)
		return false
	case inc:
		fmt.Printf("replay: inconclusive after %d rounds (a Next did not return)\n", n)
	default:
		fmt.Printf("replay: no clause violated in %d rounds\n", n)
	}
	return true
}
