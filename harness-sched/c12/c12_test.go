// C12: chans.Merge / chans.Replicate / stream.Merge move every value exactly once and finish when
// their inputs do (plus the stream.Merge clauses of C08 and C09, kinds `c08-…` / `c09-…`).
//
// Every scenario is a script of environment actions run inside a testing/synctest bubble; after
// every action `synctest.Wait()` gives the next quiescent point and the harness records what is
// observable there. The observed quiescent trace goes (1) to the Lean LTS through the driver
// (state-set conformance, `driver merge|replicate|smerge`): a trace the model excludes is a
// `correspondence` failure; (2) to Go monitors that encode the property's clauses against the
// harness's own log of what was sent / released: a `monitor` failure is a violation with a replay.
package c12

import (
	"context"
	"crypto/sha256"
	"encoding/hex"
	"encoding/json"
	"errors"
	"fmt"
	"os"
	"strings"
	"sync"
	"testing"
	"testing/synctest"
	"time"

	"github.com/bradenaw/juniper/chans"
	"github.com/bradenaw/juniper/stream"
	"verifharness/vlib"
)

// ---------------------------------------------------------------------------------------------
// scenarios

type Step struct {
	Op   string `json:"op"`             // merge: send close take drain | repl: send close take drain | smerge: item end err cnext ccancel close crel sleep
	I    int    `json:"i,omitempty"`    // input / destination
	V    int    `json:"v,omitempty"`    // value; negative = nil interface value
	E    int    `json:"e,omitempty"`    // injected error id
	Live bool   `json:"live,omitempty"` // cnext: context still live
	// sleep: virtual time that passes while nothing else happens (time.ParseDuration syntax: "61s", "25h");
	// `time.Sleep` inside the bubble, which advances the fake clock once every goroutine is durably
	// blocked, followed by synctest.Wait()
	D string `json:"d,omitempty"`
}

type Scn struct {
	Fam   string   `json:"fam"`             // merge | repl | smerge
	N     int      `json:"n"`               // inputs (merge, smerge) / destinations (repl)
	Buf   int      `json:"buf,omitempty"`   // merge/repl: capacity of the input channels; 0 = unbuffered, fed by a goroutine
	Kinds []string `json:"kinds,omitempty"` // smerge: per input "g" (gated, honours ctx) or "i:<cmds>" (never blocks, ignores ctx)
	// smerge: inputs whose Close takes time: the call does not return before the script releases it
	// (step `crel i`; a release that comes first makes the Close instantaneous)
	Slow  []int  `json:"slow_close,omitempty"`
	Steps []Step `json:"steps"`
	// fam "smerge-stress": a configuration of the real-threads phase (stress_test.go), not a bubble scenario
	Stress *stressCfg `json:"stress,omitempty"`
}

func (s Scn) slow(i int) bool {
	for _, j := range s.Slow {
		if i == j {
			return true
		}
	}
	return false
}

func (s Scn) key() string {
	b, _ := json.Marshal(s)
	h := sha256.Sum256(b)
	return hex.EncodeToString(h[:8])
}

type finding struct {
	kind   string
	params map[string]interface{}
	what   string
}

type runOut struct {
	lines    []string // conformance lines
	finds    []finding
	leak     string
	effSteps int
	notes    map[string]int
}

func (o *runOut) fail(kind string, params map[string]interface{}, format string, a ...interface{}) {
	for _, f := range o.finds {
		if f.kind == kind {
			return
		}
	}
	o.finds = append(o.finds, finding{kind, params, fmt.Sprintf(format, a...)})
}

func (o *runOut) has(kind string) bool {
	for _, f := range o.finds {
		if f.kind == kind {
			return true
		}
	}
	return false
}

// runBubble runs f in a synctest bubble. A goroutine left blocked when f returns makes
// synctest.Test panic in this goroutine; that is reported, not fatal.
func runBubble(t *testing.T, f func()) (leak string) {
	defer func() {
		if r := recover(); r != nil {
			leak = fmt.Sprint(r)
		}
	}()
	synctest.Test(t, func(t *testing.T) { f() })
	return ""
}

func showV(v interface{}) string {
	if v == nil {
		return "nil"
	}
	return fmt.Sprint(v)
}

func valOf(v int) interface{} {
	if v < 0 {
		return nil
	}
	return v
}

func pathName(n int) string {
	switch n {
	case 1:
		return "range"
	case 2:
		return "merge2"
	case 3:
		return "merge3"
	}
	return "reflect"
}

// ---------------------------------------------------------------------------------------------
// chans.Merge

type feedCmd struct {
	v     interface{}
	close bool
}

// feeder sends queued values on an unbuffered channel, in order, then closes it when told to.
type feeder struct {
	c      chan interface{}
	cmds   chan feedCmd
	quit   chan struct{}
	mu     *sync.Mutex
	closed *bool
}

func (f *feeder) run() {
	for {
		select {
		case <-f.quit:
			return
		case c := <-f.cmds:
			if c.close {
				f.mu.Lock()
				*f.closed = true
				f.mu.Unlock()
				close(f.c)
				return
			}
			select {
			case f.c <- c.v:
			case <-f.quit:
				return
			}
		}
	}
}

func execMerge(t *testing.T, sc Scn) *runOut {
	o := &runOut{notes: map[string]int{}}
	n := sc.N
	o.leak = runBubble(t, func() {
		var mu sync.Mutex
		ins := make([]chan interface{}, n)
		ro := make([]<-chan interface{}, n)
		chClosed := make([]bool, n) // the channel itself has been closed
		feeders := make([]*feeder, n)
		quit := make(chan struct{})
		for i := range ins {
			if sc.Buf > 0 {
				ins[i] = make(chan interface{}, 256)
			} else {
				ins[i] = make(chan interface{})
				feeders[i] = &feeder{c: ins[i], cmds: make(chan feedCmd, 256), quit: quit, mu: &mu, closed: &chClosed[i]}
				go feeders[i].run()
			}
			ro[i] = ins[i]
		}
		out := make(chan interface{})
		returned, panicked := false, false
		var pval interface{}
		go func() {
			defer func() {
				if r := recover(); r != nil {
					mu.Lock()
					panicked, pval = true, r
					mu.Unlock()
				}
			}()
			chans.Merge[interface{}](out, ro...)
			mu.Lock()
			returned = true
			mu.Unlock()
		}()
		sent := make([][]interface{}, n)
		closedReq := make([]bool, n)
		gotN := make([]int, n)
		nilIn := -1
		totalSent, totalGot := 0, 0
		params := func() map[string]interface{} {
			return map[string]interface{}{"inputs": n, "path": pathName(n), "nil_value": nilIn >= 0}
		}
		retS := func() string {
			mu.Lock()
			defer mu.Unlock()
			if panicked {
				return "panic"
			}
			if returned {
				return "1"
			}
			return "0"
		}
		check := func(act, got string) bool {
			synctest.Wait()
			r := retS()
			o.lines = append(o.lines, fmt.Sprintf("%s ; got=%s ret=%s", act, got, r))
			if r == "panic" {
				o.fail("merge-panic", params(), "chans.Merge over %d inputs panicked: %v", n, pval)
				return false
			}
			allClosed := true
			for i := 0; i < n; i++ {
				if !closedReq[i] {
					allClosed = false
				}
			}
			if r == "1" && (!allClosed || totalGot < totalSent) {
				o.fail("merge-early-return", params(), "chans.Merge returned with an input still open or %d of %d values undelivered", totalSent-totalGot, totalSent)
			}
			if r == "0" && allClosed && totalGot == totalSent {
				o.fail("merge-no-return", params(), "all %d inputs closed and all %d values delivered, but chans.Merge has not returned", n, totalSent)
			}
			if got == "none" && r == "0" && totalGot < totalSent {
				o.fail("merge-not-offered", params(), "%d sent values are undelivered but chans.Merge offers nothing on out", totalSent-totalGot)
			}
			return true
		}
		take := func() bool {
			var v interface{}
			gotS := "none"
			select {
			case v = <-out:
				gotS = showV(v)
				totalGot++
				src := nilIn
				if v != nil {
					src = v.(int) / 1000
				}
				if src < 0 || src >= n || gotN[src] >= len(sent[src]) || sent[src][gotN[src]] != v {
					o.fail("merge-order", params(), "out delivered %s, which is not the next undelivered value of its input (per-input order / same multiset)", gotS)
				} else {
					gotN[src]++
				}
			default:
			}
			return check("take", gotS) && gotS != "none"
		}
		alive := check(fmt.Sprintf("init %d", n), "-")
		for _, st := range sc.Steps {
			if !alive {
				break
			}
			switch st.Op {
			case "send":
				if st.I < 0 || st.I >= n || closedReq[st.I] || len(sent[st.I]) >= 200 {
					continue
				}
				v := valOf(st.V)
				if v == nil {
					if nilIn >= 0 && nilIn != st.I {
						continue // nil values come from one input only, so that they can be attributed
					}
					nilIn = st.I
				} else if st.V/1000 != st.I {
					continue
				}
				sent[st.I] = append(sent[st.I], v)
				totalSent++
				if sc.Buf > 0 {
					ins[st.I] <- v
				} else {
					feeders[st.I].cmds <- feedCmd{v: v}
				}
				o.effSteps++
				alive = check(fmt.Sprintf("send %d %s", st.I, showV(v)), "-")
			case "close":
				if st.I < 0 || st.I >= n || closedReq[st.I] {
					continue
				}
				closedReq[st.I] = true
				if sc.Buf > 0 {
					chClosed[st.I] = true
					close(ins[st.I])
				} else {
					feeders[st.I].cmds <- feedCmd{close: true}
				}
				o.effSteps++
				alive = check(fmt.Sprintf("close %d", st.I), "-")
			case "take":
				o.effSteps++
				take()
				alive = retS() != "panic"
			case "drain":
				for k := 0; k < 400 && take(); k++ {
				}
				alive = retS() != "panic"
			}
		}
		// cleanup: let everything end before the bubble exits
		close(quit)
		synctest.Wait()
		mu.Lock()
		for i := range ins {
			if !chClosed[i] {
				chClosed[i] = true
				close(ins[i])
			}
		}
		mu.Unlock()
		for k := 0; k < 2000; k++ {
			synctest.Wait()
			if retS() != "0" {
				break
			}
			select {
			case <-out:
			default:
				k += 500
			}
		}
	})
	return o
}

// ---------------------------------------------------------------------------------------------
// chans.Replicate

func execRepl(t *testing.T, sc Scn) *runOut {
	o := &runOut{notes: map[string]int{}}
	m := sc.N
	o.leak = runBubble(t, func() {
		var mu sync.Mutex
		quit := make(chan struct{})
		var src chan interface{}
		var fd *feeder
		srcClosed := false
		if sc.Buf > 0 {
			src = make(chan interface{}, 256)
		} else {
			src = make(chan interface{})
			fd = &feeder{c: src, cmds: make(chan feedCmd, 256), quit: quit, mu: &mu, closed: &srcClosed}
			go fd.run()
		}
		dsts := make([]chan interface{}, m)
		wo := make([]chan<- interface{}, m)
		for j := range dsts {
			dsts[j] = make(chan interface{})
			wo[j] = dsts[j]
		}
		returned, panicked := false, false
		go func() {
			defer func() {
				if r := recover(); r != nil {
					mu.Lock()
					panicked = true
					mu.Unlock()
				}
			}()
			chans.Replicate[interface{}](src, wo...)
			mu.Lock()
			returned = true
			mu.Unlock()
		}()
		var sent []interface{}
		closedReq := false
		gotN := make([]int, m)
		params := func() map[string]interface{} { return map[string]interface{}{"destinations": m} }
		retS := func() string {
			mu.Lock()
			defer mu.Unlock()
			if panicked {
				return "panic"
			}
			if returned {
				return "1"
			}
			return "0"
		}
		allHave := func() bool {
			for j := 0; j < m; j++ {
				if gotN[j] < len(sent) {
					return false
				}
			}
			return true
		}
		check := func(act, got string) bool {
			synctest.Wait()
			r := retS()
			o.lines = append(o.lines, fmt.Sprintf("%s ; got=%s ret=%s", act, got, r))
			if r == "panic" {
				o.fail("repl-panic", params(), "chans.Replicate panicked")
				return false
			}
			if r == "1" && (!closedReq || !allHave()) {
				o.fail("repl-early-return", params(), "chans.Replicate returned before src was closed and every destination had all %d values", len(sent))
			}
			if r == "0" && closedReq && allHave() {
				o.fail("repl-no-return", params(), "src closed and all %d values delivered to all %d destinations, but chans.Replicate has not returned", len(sent), m)
			}
			return true
		}
		take := func(j int) bool {
			gotS := "none"
			select {
			case v := <-dsts[j]:
				gotS = showV(v)
				if gotN[j] >= len(sent) || sent[gotN[j]] != v {
					o.fail("repl-order", params(), "destination %d received %s, which is not the next value of the source", j, gotS)
				} else {
					gotN[j]++
				}
			default:
			}
			return check(fmt.Sprintf("take %d", j), gotS) && gotS != "none"
		}
		alive := check(fmt.Sprintf("init %d", m), "-")
		for _, st := range sc.Steps {
			if !alive {
				break
			}
			switch st.Op {
			case "send":
				if closedReq || len(sent) >= 200 {
					continue
				}
				v := valOf(st.V)
				sent = append(sent, v)
				if sc.Buf > 0 {
					src <- v
				} else {
					fd.cmds <- feedCmd{v: v}
				}
				o.effSteps++
				alive = check("send "+showV(v), "-")
			case "close":
				if closedReq {
					continue
				}
				closedReq = true
				if sc.Buf > 0 {
					srcClosed = true
					close(src)
				} else {
					fd.cmds <- feedCmd{close: true}
				}
				o.effSteps++
				alive = check("close", "-")
			case "take":
				if st.I < 0 || st.I >= m {
					continue
				}
				o.effSteps++
				take(st.I)
				alive = retS() != "panic"
			case "drain":
				for k := 0; k < 400; k++ {
					progress := false
					for j := 0; j < m; j++ {
						if take(j) {
							progress = true
						}
					}
					if !progress {
						break
					}
				}
				if retS() == "0" && !allHave() {
					o.fail("repl-not-offered", params(), "some destination still lacks values of the source but chans.Replicate offers nothing to any destination")
				}
				alive = retS() != "panic"
			}
		}
		close(quit)
		synctest.Wait()
		mu.Lock()
		if !srcClosed {
			srcClosed = true
			close(src)
		}
		mu.Unlock()
		for k := 0; k < 2000; k++ {
			synctest.Wait()
			if retS() != "0" {
				break
			}
			progress := false
			for j := 0; j < m; j++ {
				select {
				case <-dsts[j]:
					progress = true
				default:
				}
			}
			if !progress {
				k += 500
			}
		}
	})
	return o
}

// ---------------------------------------------------------------------------------------------
// stream.Merge

// injErr is an error injected into an input. wraps != nil: the error wraps a context error the way
// fmt.Errorf("…: %w", context.Canceled) does (errors.Is sees it, identity does not).
type injErr struct {
	id    int
	wraps error
}

func (e *injErr) Error() string {
	if e.wraps != nil {
		return fmt.Sprintf("E%d: %v", e.id, e.wraps)
	}
	return fmt.Sprintf("E%d", e.id)
}

func (e *injErr) Unwrap() error { return e.wraps }

// Error ids and what an input's Next returns for them — every one of them is the input's *own*
// failure; nobody has cancelled the consumer's or Merge's context:
//
//	1..9, 40..  an error value of the harness
//	11..19      an error wrapping context.Canceled
//	21..29      an error wrapping context.DeadlineExceeded
//	31          context.Canceled itself
//	32          context.DeadlineExceeded itself
const (
	errBareCanceled = 31
	errBareDeadline = 32
)

func injected(id int) error {
	switch {
	case id == errBareCanceled:
		return context.Canceled
	case id == errBareDeadline:
		return context.DeadlineExceeded
	case id >= 11 && id <= 19:
		return &injErr{id: id, wraps: context.Canceled}
	case id >= 21 && id <= 29:
		return &injErr{id: id, wraps: context.DeadlineExceeded}
	}
	return &injErr{id: id}
}

// errID picks the id of the n-th (1-based) error of a scenario: mostly plain, otherwise one of the
// context-flavoured kinds.
func errID(r *vlib.Rand, n int) int {
	d := 1 + (n-1)%9
	switch r.Pick(8, 3, 2, 3, 2) {
	case 1:
		return 10 + d
	case 2:
		return 20 + d
	case 3:
		return errBareCanceled
	case 4:
		return errBareDeadline
	}
	return d
}

type gcmd struct {
	kind string // item end err
	v    int
	e    int
}

// gated is an instrumented input stream. Gated ("g"): Next blocks until the harness releases a
// command, or until its context is done. Immediate ("i:"): Next never blocks and ignores the
// context; commands are preloaded.
type gated struct {
	mu        *sync.Mutex
	honours   bool
	cmds      chan gcmd
	pre       []gcmd
	kill      chan struct{}
	inNext    int
	nexts     int
	closes    int           // Close calls begun
	closed    int           // Close calls that have returned
	inClose   int           // Close calls in progress
	closeGate chan struct{} // nil: Close is instantaneous; else Close returns once this is closed
	returned  []int         // items returned by Next
	ended     bool          // Next returned End
	erred     int           // injected error returned by Next (0 = none)
	nextAfter bool
	overlap   bool // Next/Close or Next/Next running concurrently
	onErr     func(id int)
}

func (g *gated) Next(ctx context.Context) (interface{}, error) {
	g.mu.Lock()
	if g.closes > 0 {
		g.nextAfter = true
	}
	if g.inNext > 0 || g.inClose > 0 {
		g.overlap = true
	}
	g.inNext++
	g.nexts++
	g.mu.Unlock()
	var c gcmd
	var err error
	if !g.honours {
		g.mu.Lock()
		if len(g.pre) > 0 {
			c = g.pre[0]
			g.pre = g.pre[1:]
		} else {
			c = gcmd{kind: "end"}
		}
		g.mu.Unlock()
	} else {
		select {
		case c = <-g.cmds:
		case <-ctx.Done():
			err = ctx.Err()
		case <-g.kill:
			c = gcmd{kind: "end"}
		}
	}
	g.mu.Lock()
	defer g.mu.Unlock()
	g.inNext--
	if err != nil {
		return nil, err
	}
	switch c.kind {
	case "item":
		g.returned = append(g.returned, c.v)
		return c.v, nil
	case "err":
		g.erred = c.e
		if g.onErr != nil {
			g.onErr(c.e)
		}
		return nil, injected(c.e)
	}
	g.ended = true
	return nil, stream.End
}

func (g *gated) Close() {
	g.mu.Lock()
	if g.inNext > 0 {
		g.overlap = true
	}
	g.closes++
	g.inClose++
	g.mu.Unlock()
	if g.closeGate != nil {
		// a Close that takes time (flushes, releases a connection): everything the owner does in the
		// meantime is observable at the quiescent points in between
		select {
		case <-g.closeGate:
		case <-g.kill:
		}
	}
	g.mu.Lock()
	g.inClose--
	g.closed++
	g.mu.Unlock()
}

func parsePre(spec string) []gcmd {
	var out []gcmd
	for _, tk := range strings.Split(strings.TrimPrefix(spec, "i:"), ",") {
		switch {
		case tk == "":
		case tk == "end":
			out = append(out, gcmd{kind: "end"})
		case strings.HasPrefix(tk, "e"):
			var e int
			fmt.Sscanf(tk[1:], "%d", &e)
			out = append(out, gcmd{kind: "err", e: e})
		default:
			var v int
			fmt.Sscanf(tk, "%d", &v)
			out = append(out, gcmd{kind: "item", v: v})
		}
	}
	return out
}

type cres struct {
	kind string // item End err ctx other
	v    int
	e    int
	s    string
}

func (r cres) String() string {
	switch r.kind {
	case "item":
		return fmt.Sprintf("v%d", r.v)
	case "End":
		return "End"
	case "err":
		return fmt.Sprintf("E%d", r.e)
	case "ctx":
		return "ctx"
	}
	return "other:" + r.s
}

func execSmerge(t *testing.T, sc Scn) *runOut {
	o := &runOut{notes: map[string]int{}}
	k := sc.N
	o.leak = runBubble(t, func() {
		var mu sync.Mutex
		firstErr := 0 // the first injected error returned by an input's Next
		// errors returned before the next quiescent point are concurrent with it: any of them may
		// reach the CAS first, so any of them is an acceptable "first error"
		firstErrs := map[int]bool{}
		firstErrOpen := false
		ins := make([]*gated, k)
		arg := make([]stream.Stream[interface{}], k)
		kill := make(chan struct{})
		specs := make([]string, k)
		closeReleased := make([]bool, k)
		anySlow := false
		for i := range ins {
			spec := "g"
			if i < len(sc.Kinds) && strings.HasPrefix(sc.Kinds[i], "i:") {
				spec = sc.Kinds[i]
			}
			specs[i] = spec
			g := &gated{mu: &mu, honours: spec == "g", cmds: make(chan gcmd, 256), kill: kill}
			if sc.slow(i) {
				g.closeGate = make(chan struct{})
				anySlow = true
			}
			if !g.honours {
				g.pre = parsePre(spec)
				// an immediate input always ends explicitly
				if len(g.pre) == 0 || g.pre[len(g.pre)-1].kind == "item" {
					g.pre = append(g.pre, gcmd{kind: "end"})
					specs[i] = strings.TrimSuffix(spec, ",") + map[bool]string{true: "end", false: ",end"}[spec == "i:"]
				}
			}
			g.onErr = func(id int) { // called with mu held
				if firstErr == 0 {
					firstErr = id
					firstErrOpen = true
				}
				if firstErrOpen {
					firstErrs[id] = true
				}
			}
			ins[i] = g
			arg[i] = g
		}
		for i := range specs {
			if sc.slow(i) {
				specs[i] = "s" + specs[i]
			}
		}
		if anySlow {
			o.notes["slow-close"]++
		}
		merged := stream.Merge[interface{}](arg...)
		var results []cres
		reported := 0
		pending, pendingLive := false, false
		closeStarted, closeReturned, closed := false, false, false
		closeSnapshot := "" // an input that was not closed exactly once at the moment Close returned
		closeSnapshotN := 0
		terminated := make([]bool, k) // harness has released end/err for this gated input
		delivered := make([]int, k)
		params := func() map[string]interface{} { return map[string]interface{}{"inputs": k} }
		idle := time.Duration(0) // > 0: the step being judged is `sleep <idle>` — nothing but time has passed
		check := func(act string) {
			synctest.Wait()
			mu.Lock()
			defer mu.Unlock()
			firstErrOpen = false
			var news []string
			for ; reported < len(results); reported++ {
				r := results[reported]
				news = append(news, r.String())
				if idle > 0 && (r.kind == "err" || r.kind == "other") && firstErr == 0 && !closeStarted && pendingLive {
					// the text: "reports the first error of any input", "finishes exactly when its inputs do":
					// a failure that nothing but the passing of time produced is neither
					o.fail("smerge-failed-while-idle", map[string]interface{}{"inputs": k},
						"the merged stream reported %s after %s of idleness although no input had failed, Close had not been called and the consumer's context was live (every input was parked in Next or had ended normally)",
						r.String(), idle)
				}
				allEnded, allDelivered, anyErr := true, true, false
				for i, g := range ins {
					if !g.ended {
						allEnded = false
					}
					if delivered[i] < len(g.returned) {
						allDelivered = false
					}
					if g.erred != 0 {
						anyErr = true
					}
				}
				switch r.kind {
				case "item":
					src := r.v / 1000
					if src < 0 || src >= k || delivered[src] >= len(ins[src].returned) || ins[src].returned[delivered[src]] != r.v {
						o.fail("smerge-order", params(), "merged stream yielded %d, which is not the next undelivered item of its input", r.v)
					} else {
						delivered[src]++
					}
				case "End":
					if anyErr {
						o.fail("c08-merge-end-after-error", params(), "input error E%d occurred but the merged stream reported the normal end", firstErr)
						o.fail("smerge-first-error", params(), "input error E%d occurred but the merged stream reported the normal end", firstErr)
					} else if !allEnded || !allDelivered {
						o.fail("smerge-early-end", params(), "merged stream ended before all inputs ended and all their items were delivered")
					}
				case "err":
					if !firstErrs[r.e] && firstErr == 0 {
						o.fail("smerge-first-error", params(), "merged stream reported E%d although no input had failed", r.e)
						o.fail("c08-merge-wrong-error", params(), "merged stream reported E%d although no input had failed", r.e)
					} else if !firstErrs[r.e] {
						o.fail("smerge-first-error", params(), "merged stream reported E%d, the first input error was E%d", r.e, firstErr)
						o.fail("c08-merge-wrong-error", params(), "merged stream reported E%d, the first input error was E%d", r.e, firstErr)
					}
				case "ctx":
					if pendingLive {
						o.fail("c08-merge-spurious-error", params(), "Next with a live context returned a context error")
					}
				default:
					o.fail("c08-merge-spurious-error", params(), "merged stream reported an error no input produced: %s", r.s)
				}
			}
			// an input's Close that is still running (it takes time and the script has not released it
			// yet) is the environment's turn: a report the owner makes only after it is not overdue, and
			// Close of the merged stream has to wait for it
			closing := 0
			for _, g := range ins {
				closing += g.inClose
			}
			if closing > 0 {
				o.notes["quiescent-with-input-close-in-progress"]++
			}
			if pending {
				allEnded, allDelivered, anyErr := true, true, false
				for i, g := range ins {
					if !g.ended {
						allEnded = false
					}
					if delivered[i] < len(g.returned) {
						allDelivered = false
					}
					if g.erred != 0 {
						anyErr = true
					}
				}
				if anyErr {
					if closing == 0 {
						o.fail("c08-merge-error-not-surfaced", params(), "input error E%d occurred, a Next call of the merged stream is still blocked at quiescence", firstErr)
					}
				} else if allEnded && allDelivered {
					if closing == 0 {
						o.fail("smerge-no-end", params(), "all %d inputs have ended and everything was delivered, but Next of the merged stream does not return", k)
					}
				} else if !allDelivered {
					o.fail("smerge-item-not-offered", params(), "an input yielded an item that is not delivered although a Next call is waiting")
				}
			}
			gauge, incl, nexts, closes := "", "", []string{}, []string{}
			blocked := 0
			for _, g := range ins {
				if g.inNext > 0 {
					gauge += "1"
					blocked++
				} else {
					gauge += "0"
				}
				if g.inClose > 0 {
					incl += "1"
				} else {
					incl += "0"
				}
				nexts = append(nexts, fmt.Sprint(g.nexts))
				// the LTS's closeInput step is the return of in[i].Close()
				closes = append(closes, fmt.Sprint(g.closed))
			}
			cr := "-"
			if closeStarted {
				cr = "0"
				if closeReturned {
					cr = "1"
				}
			}
			if closeStarted && !closeReturned && closing == 0 {
				o.fail("smerge-close-blocked", map[string]interface{}{"inputs": k, "blocked_in_next": blocked},
					"Close of the merged stream has not returned at quiescence (%d goroutines still inside in[i].Next, no Close of an input in progress)", blocked)
			}
			if closeSnapshot != "" {
				o.fail("c09-merge-input-close-count", map[string]interface{}{"inputs": k, "closes": closeSnapshotN},
					"at the moment Close of the merged stream returned, %s", closeSnapshot)
			}
			if closeReturned {
				if blocked > 0 {
					o.fail("smerge-goroutines-remain-after-close", map[string]interface{}{"inputs": k, "blocked_in_next": blocked},
						"after Close returned, %d goroutine(s) are still blocked in in[i].Next waiting for further input", blocked)
				}
				for i, g := range ins {
					if g.closed != 1 {
						o.fail("c09-merge-input-close-count", map[string]interface{}{"inputs": k, "closes": g.closed},
							"Close of the merged stream has returned; input %d: Close begun %d times, returned %d times", i, g.closes, g.closed)
					}
				}
			}
			for i, g := range ins {
				if g.closes > 1 {
					o.fail("c09-merge-input-close-count", map[string]interface{}{"inputs": k, "closes": g.closes}, "input %d was closed %d times", i, g.closes)
				}
				if g.nextAfter {
					o.fail("c09-merge-next-after-close", params(), "input %d saw Next after Close", i)
				}
				if g.overlap {
					o.fail("c09-merge-next-close-concurrent", params(), "input %d saw Next concurrently with Close or another Next", i)
				}
			}
			pd := "0"
			if pending {
				pd = "1"
			}
			o.lines = append(o.lines, fmt.Sprintf("%s ; res=%s pend=%s closeret=%s gauge=%s nexts=%s closes=%s inclose=%s",
				act, strings.Join(news, ","), pd, cr, gauge, strings.Join(nexts, ","), strings.Join(closes, ","), incl))
		}
		cancelPending := func() {}
		callNext := func(live bool) {
			ctx, cancel := context.WithCancel(context.Background())
			if !live {
				cancel()
			}
			cancelPending = cancel
			mu.Lock()
			pending, pendingLive = true, live
			mu.Unlock()
			go func() {
				defer cancel()
				var r cres
				func() {
					defer func() {
						if p := recover(); p != nil {
							r = cres{kind: "other", s: fmt.Sprint("panic: ", p)}
						}
					}()
					v, err := merged.Next(ctx)
					var ie *injErr
					switch {
					case err == nil:
						if iv, ok := v.(int); ok {
							r = cres{kind: "item", v: iv}
						} else {
							r = cres{kind: "other", s: "non-int item"}
						}
					case err == stream.End:
						r = cres{kind: "End"}
					case errors.As(err, &ie):
						r = cres{kind: "err", e: ie.id}
					case err == context.Canceled && ctx.Err() == nil:
						// this call's context is live: not its error — an input's own context.Canceled
						r = cres{kind: "err", e: errBareCanceled}
					case err == context.DeadlineExceeded:
						// no context of the harness has a deadline
						r = cres{kind: "err", e: errBareDeadline}
					case errors.Is(err, context.Canceled) || errors.Is(err, context.DeadlineExceeded):
						r = cres{kind: "ctx"}
					default:
						r = cres{kind: "other", s: err.Error()}
					}
				}()
				mu.Lock()
				results = append(results, r)
				pending = false
				mu.Unlock()
			}()
		}
		callClose := func() {
			mu.Lock()
			closeStarted, closed = true, true
			mu.Unlock()
			go func() {
				func() {
					defer func() { recover() }()
					merged.Close()
				}()
				// judged here, in the consumer's goroutine, at the very instant Close returns: every input's
				// Close must have been called once and must have returned
				mu.Lock()
				closeReturned = true
				for i, g := range ins {
					if (g.closes != 1 || g.closed != 1) && closeSnapshot == "" {
						closeSnapshotN = g.closed
						switch {
						case g.closes == 0:
							closeSnapshot = fmt.Sprintf("Close of input %d had not been called", i)
						case g.inClose > 0:
							closeSnapshot = fmt.Sprintf("Close of input %d was still in progress (begun %d, returned %d)", i, g.closes, g.closed)
						default:
							closeSnapshot = fmt.Sprintf("input %d had been closed %d times", i, g.closes)
						}
					}
				}
				mu.Unlock()
			}()
		}
		isPending := func() bool {
			mu.Lock()
			defer mu.Unlock()
			return pending
		}
		check(fmt.Sprintf("init %d %s", k, strings.Join(specs, " ")))
		for _, st := range sc.Steps {
			switch st.Op {
			case "item", "end", "err":
				if st.I < 0 || st.I >= k || !ins[st.I].honours || terminated[st.I] {
					continue
				}
				switch st.Op {
				case "item":
					if st.V/1000 != st.I || st.V < 0 {
						continue
					}
					ins[st.I].cmds <- gcmd{kind: "item", v: st.V}
					o.effSteps++
					check(fmt.Sprintf("push %d item %d", st.I, st.V))
				case "end":
					terminated[st.I] = true
					ins[st.I].cmds <- gcmd{kind: "end"}
					o.effSteps++
					check(fmt.Sprintf("push %d end", st.I))
				case "err":
					if st.E <= 0 {
						continue
					}
					terminated[st.I] = true
					ins[st.I].cmds <- gcmd{kind: "err", e: st.E}
					o.effSteps++
					check(fmt.Sprintf("push %d err %d", st.I, st.E))
				}
			case "cnext":
				if closed || isPending() {
					continue
				}
				callNext(st.Live)
				o.effSteps++
				check("cnext " + map[bool]string{true: "live", false: "expired"}[st.Live])
			case "ccancel":
				// the context of the pending Next is cancelled while the call is in progress
				mu.Lock()
				ok := pending && pendingLive
				if ok {
					pendingLive = false
				}
				mu.Unlock()
				if !ok {
					continue
				}
				cancelPending()
				o.effSteps++
				o.notes["ccancel-while-pending"]++
				check("ccancel")
			case "close":
				if closed || isPending() {
					continue
				}
				callClose()
				o.effSteps++
				check("close")
			case "crel":
				if st.I < 0 || st.I >= k || ins[st.I].closeGate == nil || closeReleased[st.I] {
					continue
				}
				closeReleased[st.I] = true
				close(ins[st.I].closeGate)
				o.effSteps++
				check(fmt.Sprintf("crel %d", st.I))
			case "sleep":
				d, err := time.ParseDuration(st.D)
				if err != nil || d <= 0 {
					continue
				}
				// the script's goroutine is the only one that is not durably blocked (quiescent point), so the
				// fake clock jumps: first to any timer the library has armed within d (the harness has none) —
				// its effects run to quiescence —, finally to now+d
				time.Sleep(d)
				o.effSteps++
				o.notes["sleep"]++
				if d >= time.Hour {
					o.notes["sleep>=1h"]++
				}
				if isPending() {
					o.notes["sleep-with-next-pending"]++
				}
				idle = d
				check("sleep " + d.String())
				idle = 0
			}
		}
		// cleanup (not part of the checked trace): make every goroutine end
		close(kill)
		synctest.Wait()
		if !closed {
			if isPending() {
				for k2 := 0; k2 < 50 && isPending(); k2++ {
					synctest.Wait()
				}
			}
			if isPending() {
				cancelPending()
				synctest.Wait()
			}
			if !isPending() {
				callClose()
			}
		}
		synctest.Wait()
	})
	return o
}

// ---------------------------------------------------------------------------------------------
// running one scenario: implementation, monitors, model conformance

type models struct {
	merge, repl, smerge *vlib.Model
	missing             string
}

func (m *models) forFam(fam string) *vlib.Model {
	switch fam {
	case "merge":
		return m.merge
	case "repl":
		return m.repl
	}
	return m.smerge
}

func exec(t *testing.T, sc Scn) *runOut {
	switch sc.Fam {
	case "merge":
		return execMerge(t, sc)
	case "repl":
		return execRepl(t, sc)
	case "smerge":
		return execSmerge(t, sc)
	case "smerge-lib":
		return execSmergeLib(t, sc)
	}
	return &runOut{notes: map[string]int{}}
}

// conformable: the state-set engine is exact but grows with the number of concurrently exiting
// goroutines; stream.Merge traces with more than 3 inputs are checked by the monitors only.
func conformable(sc Scn) bool {
	if sc.Fam == "smerge" {
		return sc.N <= 3
	}
	if sc.Fam == "smerge-lib" { // monitor only (lib_inputs_test.go)
		return false
	}
	return true
}

func conform(ms *models, sc Scn, o *runOut) (bad string) {
	m := ms.forFam(sc.Fam)
	if m == nil || !conformable(sc) {
		return ""
	}
	outs, err := m.Run(o.lines)
	if err != nil {
		ms.missing = err.Error()
		return ""
	}
	for i, l := range outs {
		if !strings.HasPrefix(l, "ok") {
			return fmt.Sprintf("line %d `%s`: model says %s", i, o.lines[i], l)
		}
	}
	return ""
}

// lim: at most 2 shrunk reports per kind and 12 per kind-prefix class (own kinds / c08- / c09- /
// correspondence): failures of one class never use up the room, or the time, of another.
var lim = vlib.NewClassLimiter(2, 12)

func runScn(t *testing.T, ms *models, res *vlib.Result, sc Scn, shrink bool) (monitorFailed bool) {
	o := exec(t, sc)
	res.Count("fam." + sc.Fam)
	res.Count(fmt.Sprintf("%s.arity.%d", sc.Fam, sc.N))
	for _, st := range sc.Steps {
		res.Count(sc.Fam + ".op." + st.Op)
	}
	if sc.Fam == "merge" {
		res.Count("merge.path." + pathName(sc.N))
	}
	if o.leak != "" {
		res.Count("goroutines-left-in-bubble")
	}
	for n, c := range o.notes {
		res.CountN("smerge."+n, c)
	}
	nontrivial := sc.N >= 2 && o.effSteps >= 3
	res.Case(sc.key(), nontrivial, nil)
	for _, f := range o.finds {
		monitorFailed = true
		if !lim.Admit("monitor", f.kind) {
			continue
		}
		small := sc
		if shrink {
			small.Steps = vlib.Shrink(sc.Steps, func(steps []Step) bool {
				c := sc
				c.Steps = steps
				return exec(t, c).has(f.kind)
			})
			// re-run to get the message of the shrunk case
			for _, g := range exec(t, small).finds {
				if g.kind == f.kind {
					f = g
				}
			}
		}
		res.Fail(vlib.Failure{Source: "monitor", Kind: f.kind, Params: f.params, What: f.what, Case: small})
	}
	if bad := conform(ms, sc, o); bad != "" && lim.Admit("correspondence", sc.Fam+"-trace-not-in-model") {
		small := sc
		if shrink {
			small.Steps = vlib.Shrink(sc.Steps, func(steps []Step) bool {
				c := sc
				c.Steps = steps
				return conform(ms, c, exec(t, c)) != ""
			})
			if b2 := conform(ms, small, exec(t, small)); b2 != "" {
				bad = b2
			}
		}
		res.Fail(vlib.Failure{Source: "correspondence", Kind: sc.Fam + "-trace-not-in-model",
			Params: map[string]interface{}{"inputs": sc.N}, What: bad, Case: small})
	} else if bad == "" && conformable(sc) && ms.forFam(sc.Fam) != nil {
		res.Traces++
	}
	if o.leak != "" && len(o.finds) == 0 {
		// a goroutine stayed blocked although no clause fired: report it as a harness-level finding
		res.Fail(vlib.Failure{Source: "monitor", Kind: sc.Fam + "-goroutine-left-blocked",
			Params: map[string]interface{}{"inputs": sc.N}, What: "a goroutine was still blocked when the scenario was over: " + o.leak, Case: sc})
		monitorFailed = true
	}
	return monitorFailed
}

// ---------------------------------------------------------------------------------------------
// generators

func genMerge(r *vlib.Rand, n int) Scn {
	sc := Scn{Fam: "merge", N: n, Buf: []int{0, 8}[r.Intn(2)]}
	nilIn := -1
	if n > 0 && r.Chance(1, 3) {
		nilIn = r.Intn(n)
	}
	seq := make([]int, n)
	closed := make([]bool, n)
	steps := r.Range(0, 16)
	for s := 0; s < steps; s++ {
		switch r.Pick(5, 2, 4) {
		case 0:
			if n == 0 {
				continue
			}
			i := r.Intn(n)
			if closed[i] {
				continue
			}
			if i == nilIn && r.Chance(1, 2) {
				sc.Steps = append(sc.Steps, Step{Op: "send", I: i, V: -1})
			} else {
				sc.Steps = append(sc.Steps, Step{Op: "send", I: i, V: i*1000 + seq[i]})
				seq[i]++
			}
		case 1:
			if n == 0 {
				continue
			}
			i := r.Intn(n)
			if closed[i] {
				continue
			}
			closed[i] = true
			sc.Steps = append(sc.Steps, Step{Op: "close", I: i})
		case 2:
			sc.Steps = append(sc.Steps, Step{Op: "take"})
		}
	}
	// malformed-ish endings: sometimes leave inputs open / values undelivered
	if r.Chance(4, 5) {
		for i := 0; i < n; i++ {
			if !closed[i] {
				sc.Steps = append(sc.Steps, Step{Op: "close", I: i})
			}
		}
	}
	if r.Chance(9, 10) {
		sc.Steps = append(sc.Steps, Step{Op: "drain"})
	}
	return sc
}

func genRepl(r *vlib.Rand, m int) Scn {
	sc := Scn{Fam: "repl", N: m, Buf: []int{0, 8}[r.Intn(2)]}
	steps := r.Range(0, 14)
	seq := 0
	closed := false
	for s := 0; s < steps; s++ {
		switch r.Pick(4, 1, 5) {
		case 0:
			if closed {
				continue
			}
			v := seq
			if r.Chance(1, 6) {
				v = -1
			}
			seq++
			sc.Steps = append(sc.Steps, Step{Op: "send", V: v})
		case 1:
			if !closed && r.Chance(1, 2) {
				closed = true
				sc.Steps = append(sc.Steps, Step{Op: "close"})
			}
		case 2:
			if m > 0 {
				sc.Steps = append(sc.Steps, Step{Op: "take", I: r.Intn(m)})
			}
		}
	}
	if !closed && r.Chance(4, 5) {
		sc.Steps = append(sc.Steps, Step{Op: "close"})
	}
	if r.Chance(9, 10) {
		sc.Steps = append(sc.Steps, Step{Op: "drain"})
	}
	return sc
}

func genSmerge(r *vlib.Rand, k int) Scn {
	sc := Scn{Fam: "smerge", N: k}
	seq := make([]int, k)
	term := make([]bool, k)
	for i := 0; i < k; i++ {
		if r.Chance(1, 5) {
			var toks []string
			for j, n := 0, r.Intn(3); j < n; j++ {
				toks = append(toks, fmt.Sprint(i*1000+seq[i]))
				seq[i]++
			}
			if r.Chance(1, 5) {
				toks = append(toks, fmt.Sprintf("e%d", errID(r, r.Range(1, 9))))
			} else {
				toks = append(toks, "end")
			}
			sc.Kinds = append(sc.Kinds, "i:"+strings.Join(toks, ","))
			term[i] = true
		} else {
			sc.Kinds = append(sc.Kinds, "g")
		}
	}
	// inputs whose Close takes time (two scenarios in five): the script decides when it returns
	if k > 0 && r.Chance(2, 5) {
		for i := 0; i < k; i++ {
			if r.Chance(1, 2) {
				sc.Slow = append(sc.Slow, i)
			}
		}
		if len(sc.Slow) == 0 {
			sc.Slow = []int{r.Intn(k)}
		}
	}
	released := map[int]bool{}
	crel := func() {
		if len(sc.Slow) > 0 {
			i := sc.Slow[r.Intn(len(sc.Slow))]
			if !released[i] {
				released[i] = true
				sc.Steps = append(sc.Steps, Step{Op: "crel", I: i})
			}
		}
	}
	steps := r.Range(0, 14)
	closed := false
	errs := 0
	// one scenario in three lets (virtual) time pass between the actions: inputs idle for seconds, hours,
	// weeks while a Next is pending or not — the merged stream must neither fail nor end on its own
	sleepy := r.Chance(1, 3)
	for s := 0; s < steps; s++ {
		if len(sc.Slow) > 0 && r.Chance(1, 7) {
			crel()
			continue
		}
		if sleepy && r.Chance(1, 4) {
			sc.Steps = append(sc.Steps, Step{Op: "sleep", D: idleDurations[r.Intn(len(idleDurations))]})
			continue
		}
		switch r.Pick(6, 2, 1, 7, 1) {
		case 0, 1, 2:
			if k == 0 {
				continue
			}
			i := r.Intn(k)
			if term[i] {
				continue
			}
			switch r.Pick(6, 2, 1) {
			case 0:
				sc.Steps = append(sc.Steps, Step{Op: "item", I: i, V: i*1000 + seq[i]})
				seq[i]++
			case 1:
				term[i] = true
				sc.Steps = append(sc.Steps, Step{Op: "end", I: i})
			case 2:
				term[i] = true
				errs++
				sc.Steps = append(sc.Steps, Step{Op: "err", I: i, E: errID(r, errs)})
			}
		case 3:
			if !closed {
				sc.Steps = append(sc.Steps, Step{Op: "cnext", Live: !r.Chance(1, 6)})
				if r.Chance(1, 8) {
					// the consumer gives up while waiting (skipped when that Next has already returned)
					sc.Steps = append(sc.Steps, Step{Op: "ccancel"})
				}
			}
		case 4:
			if !closed && r.Chance(1, 2) {
				closed = true
				sc.Steps = append(sc.Steps, Step{Op: "close"})
			}
		}
	}
	if !closed {
		// finish: often let every input end and read to the end, then close; sometimes close with
		// inputs that will block forever
		if sleepy && r.Chance(1, 2) {
			sc.Steps = append(sc.Steps, Step{Op: "sleep", D: idleDurations[r.Intn(len(idleDurations))]})
		}
		if r.Chance(3, 5) {
			for i := 0; i < k; i++ {
				if !term[i] {
					sc.Steps = append(sc.Steps, Step{Op: "end", I: i})
				}
			}
			for j, n := 0, r.Range(0, 8); j < n; j++ {
				sc.Steps = append(sc.Steps, Step{Op: "cnext", Live: true})
			}
		} else if r.Chance(1, 2) {
			sc.Steps = append(sc.Steps, Step{Op: "cnext", Live: true})
		}
		sc.Steps = append(sc.Steps, Step{Op: "close"})
	}
	// the slow Closes return one by one (what the consumer sees in between is judged), then the
	// consumer may look again
	for _, i := range sc.Slow {
		if !released[i] && r.Chance(9, 10) {
			released[i] = true
			sc.Steps = append(sc.Steps, Step{Op: "crel", I: i})
			if r.Chance(1, 3) {
				sc.Steps = append(sc.Steps, Step{Op: "cnext", Live: true})
			}
		}
	}
	return sc
}

// directedSlowClose: inputs whose Close takes time, crossed with (a) an error of one input while its
// siblings are parked in Next honouring the context Merge hands them — the error reported must be
// that input's, not the cancellation Merge itself caused —, (b) the normal end, (c) Close of the
// merged stream with inputs parked / ended / failed: every input's Close must have *returned* by
// the time Close returns. Run in every tier.
func directedSlowClose() []Scn {
	var out []Scn
	next := Step{Op: "cnext", Live: true}
	for k := 1; k <= 3; k++ {
		for f := 0; f < k; f++ { // the failing input
			for _, slow := range [][]int{{f}, allInputs(k)} {
				for _, e := range []int{1, errBareCanceled, 12} {
					for variant := 0; variant < 4; variant++ {
						sc := Scn{Fam: "smerge", N: k, Slow: slow}
						errStep := Step{Op: "err", I: f, E: e}
						switch variant {
						case 0: // a Next is waiting when the input fails
							sc.Steps = []Step{next, errStep, next}
						case 1: // the input fails first, the consumer asks afterwards
							sc.Steps = []Step{errStep, next, next}
						case 2: // an item of the failing input first
							sc.Steps = []Step{{Op: "item", I: f, V: f * 1000}, next, next, errStep, next}
						case 3: // a sibling's item is waiting to be sent when the input fails
							g := (f + 1) % k
							sc.Steps = []Step{{Op: "item", I: g, V: g * 1000}, errStep, next, next}
						}
						// the Closes return, failing input first or last; the consumer looks again
						order := append([]int{}, slow...)
						if variant%2 == 1 {
							for a, b := 0, len(order)-1; a < b; a, b = a+1, b-1 {
								order[a], order[b] = order[b], order[a]
							}
						}
						for _, i := range order {
							sc.Steps = append(sc.Steps, Step{Op: "crel", I: i}, next)
						}
						sc.Steps = append(sc.Steps, Step{Op: "close"})
						out = append(out, sc)
					}
				}
			}
		}
		// (b) normal end with slow Closes, (c) Close while Closes of the inputs are outstanding
		for _, slow := range [][]int{{k - 1}, allInputs(k)} {
			end := Scn{Fam: "smerge", N: k, Slow: slow}
			for i := 0; i < k; i++ {
				end.Steps = append(end.Steps, Step{Op: "item", I: i, V: i * 1000}, next, Step{Op: "end", I: i})
			}
			end.Steps = append(end.Steps, next, next)
			for _, i := range slow {
				end.Steps = append(end.Steps, Step{Op: "crel", I: i}, next)
			}
			end.Steps = append(end.Steps, Step{Op: "close"})
			out = append(out, end)
			for variant := 0; variant < 3; variant++ {
				cl := Scn{Fam: "smerge", N: k, Slow: slow}
				switch variant {
				case 1: // abandoned after one item
					cl.Steps = []Step{{Op: "item", I: 0, V: 0}, next}
				case 2: // one input already ended (its Close is outstanding), the others parked
					cl.Steps = []Step{{Op: "end", I: k - 1}}
				}
				cl.Steps = append(cl.Steps, Step{Op: "close"})
				for _, i := range slow {
					cl.Steps = append(cl.Steps, Step{Op: "crel", I: i})
				}
				out = append(out, cl)
			}
		}
	}
	return out
}

// idleDurations: how long the inputs stay silent in the random scenarios.
var idleDurations = []string{"1ms", "1s", "59s", "61s", "10m", "1h", "2h", "25h", "1000h"}

// directedIdle: (virtual) time passes — just under / just over a minute, an hour, more than a day — while
// every input is parked in a Next that honours the context Merge gave it, (i) with a Next of the consumer
// pending, (ii) with no Next pending, (iii) after items were delivered and (k > 1) one input has ended; then
// an input delivers an item / every input ends / an input fails, and the consumer reads on: the merged
// stream must not have failed or ended in the meantime, nothing may be lost, and what is reported is the
// input's item / the normal end / the input's own error. Run in every tier.
func directedIdle() []Scn {
	var out []Scn
	next := Step{Op: "cnext", Live: true}
	for k := 1; k <= 3; k++ {
		for _, d := range []string{"59s", "61s", "1h", "25h"} {
			sleep := Step{Op: "sleep", D: d}
			for place := 0; place < 3; place++ {
				for follow := 0; follow < 3; follow++ {
					sc := Scn{Fam: "smerge", N: k}
					seq := make([]int, k)
					item := func(i int) Step {
						seq[i]++
						return Step{Op: "item", I: i, V: i*1000 + seq[i] - 1}
					}
					ended := -1
					switch place {
					case 0: // a Next is waiting, every input is parked
						sc.Steps = []Step{next, sleep}
					case 1: // nobody is waiting
						sc.Steps = []Step{sleep, next}
					case 2: // after an item of every input, the last input has ended (k > 1), a Next is waiting
						for i := 0; i < k; i++ {
							sc.Steps = append(sc.Steps, item(i), next)
						}
						if k > 1 {
							ended = k - 1
							sc.Steps = append(sc.Steps, Step{Op: "end", I: ended})
						}
						sc.Steps = append(sc.Steps, next, sleep)
					}
					switch follow {
					case 0: // an input delivers; a second idle period with the next Next pending — the consumer gives
						// up, asks again —; it delivers again
						sc.Steps = append(sc.Steps, item(0), next, sleep, Step{Op: "ccancel"}, next, item(0), next)
					case 1: // every input ends
					case 2: // an input fails with its own error (plain, or context.DeadlineExceeded itself)
						sc.Steps = append(sc.Steps, Step{Op: "err", I: 0, E: []int{1, errBareDeadline, 21}[k-1]}, next, next)
					}
					if follow != 2 {
						for i := 0; i < k; i++ {
							if i != ended {
								sc.Steps = append(sc.Steps, Step{Op: "end", I: i})
							}
						}
						sc.Steps = append(sc.Steps, next, next)
					}
					sc.Steps = append(sc.Steps, sleep, Step{Op: "close"})
					out = append(out, sc)
				}
			}
		}
	}
	return out
}

func allInputs(k int) []int {
	out := make([]int, k)
	for i := range out {
		out[i] = i
	}
	return out
}

func genAny(r *vlib.Rand) Scn {
	switch r.Pick(4, 2, 5) {
	case 0:
		return genMerge(r, r.Pick(1, 2, 3, 3, 3, 2)) // arities 0..5
	case 1:
		return genRepl(r, r.Intn(4))
	}
	return genSmerge(r, r.Pick(1, 2, 4, 4, 1, 1))
}

// enumerate runs every script of bounded length; false when the time ran out first.
func enumerate(t *testing.T, ms *models, res *vlib.Result, until time.Time) bool {
	type space struct {
		fam   string
		n     int
		depth int
	}
	spaces := []space{{"merge", 0, 2}, {"merge", 1, 6}, {"merge", 2, 5}, {"merge", 3, 4}, {"merge", 4, 3}, {"merge", 5, 2},
		{"repl", 0, 3}, {"repl", 1, 5}, {"repl", 2, 5}, {"repl", 3, 4},
		{"smerge", 0, 3}, {"smerge", 1, 5}, {"smerge", 2, 4}, {"smerge", 3, 3},
		// inputs whose Close takes time (input 0 / every input), `crel i` in the alphabet
		{"smerge-slow0", 1, 4}, {"smerge-slow0", 2, 4}, {"smerge-slowall", 2, 3},
		// time passes: `sleep 2h` in the alphabet
		{"smerge-idle", 1, 4}, {"smerge-idle", 2, 3}}
	for _, sp := range spaces {
		var alpha []Step
		var tail []Step
		var slow []int
		switch sp.fam {
		case "merge":
			for i := 0; i < sp.n; i++ {
				alpha = append(alpha, Step{Op: "send", I: i}, Step{Op: "close", I: i})
				tail = append(tail, Step{Op: "close", I: i})
			}
			alpha = append(alpha, Step{Op: "take"})
			tail = append(tail, Step{Op: "drain"})
		case "repl":
			alpha = append(alpha, Step{Op: "send"}, Step{Op: "close"})
			for j := 0; j < sp.n; j++ {
				alpha = append(alpha, Step{Op: "take", I: j})
			}
			tail = append(tail, Step{Op: "close"}, Step{Op: "drain"})
		case "smerge", "smerge-slow0", "smerge-slowall", "smerge-idle":
			// input 0 fails with a plain error, input 1 with context.Canceled itself, input 2 with an
			// error wrapping it; a single input with either of the first two
			for i := 0; i < sp.n; i++ {
				alpha = append(alpha, Step{Op: "item", I: i}, Step{Op: "end", I: i}, Step{Op: "err", I: i, E: []int{1, errBareCanceled, 13}[i%3]})
			}
			if sp.n == 1 {
				alpha = append(alpha, Step{Op: "err", I: 0, E: errBareCanceled})
			}
			alpha = append(alpha, Step{Op: "cnext", Live: true}, Step{Op: "cnext", Live: false}, Step{Op: "close"})
			switch sp.fam {
			case "smerge-slow0":
				slow = []int{0}
			case "smerge-slowall":
				slow = allInputs(sp.n)
			}
			for _, i := range slow {
				alpha = append(alpha, Step{Op: "crel", I: i})
				tail = append(tail, Step{Op: "crel", I: i})
			}
			if sp.fam == "smerge-idle" {
				alpha = append(alpha, Step{Op: "sleep", D: "2h"}, Step{Op: "ccancel"})
			}
			tail = append(tail, Step{Op: "cnext", Live: true}, Step{Op: "close"})
		}
		fam := sp.fam
		if strings.HasPrefix(fam, "smerge") {
			fam = "smerge"
		}
		idx := make([]int, sp.depth)
		for length := 0; length <= sp.depth; length++ {
			for i := range idx {
				idx[i] = 0
			}
			for {
				if time.Now().After(until) {
					return false
				}
				sc := Scn{Fam: fam, N: sp.n, Buf: 8, Slow: slow}
				seq := make([]int, sp.n+1)
				for p := 0; p < length; p++ {
					st := alpha[idx[p]]
					if st.Op == "send" || st.Op == "item" {
						if fam == "repl" {
							st.V = seq[0]
							seq[0]++
						} else {
							st.V = st.I*1000 + seq[st.I]
							seq[st.I]++
						}
					}
					sc.Steps = append(sc.Steps, st)
				}
				sc.Steps = append(sc.Steps, tail...)
				res.Count("exhaustive." + sp.fam)
				runScn(t, ms, res, sc, true)
				// next index vector
				p := length - 1
				for ; p >= 0; p-- {
					idx[p]++
					if idx[p] < len(alpha) {
						break
					}
					idx[p] = 0
				}
				if p < 0 {
					break
				}
			}
		}
	}
	return true
}

// ---------------------------------------------------------------------------------------------

func loadScn(path string) (Scn, error) {
	var sc Scn
	b, err := os.ReadFile(path)
	if err != nil {
		return sc, err
	}
	err = json.Unmarshal(b, &sc)
	return sc, err
}

func TestVerif(t *testing.T) {
	env := vlib.GetEnv()
	res := vlib.NewResult("C12", "scenario with >= 2 inputs/destinations and >= 3 effective environment actions; distinct by script")
	ms := &models{}
	var err error
	if ms.merge, err = vlib.StartModel(env.Driver, "merge"); err != nil {
		ms.missing = err.Error()
	}
	if ms.repl, err = vlib.StartModel(env.Driver, "replicate"); err != nil {
		ms.missing = err.Error()
	}
	if ms.smerge, err = vlib.StartModel(env.Driver, "smerge"); err != nil {
		ms.missing = err.Error()
	}
	defer func() {
		ms.merge.Close()
		ms.repl.Close()
		ms.smerge.Close()
	}()

	if env.Replay != "" {
		var sc Scn
		if err := vlib.ReplayCase(env.Replay, &sc); err != nil {
			t.Fatalf("cannot read replay: %v", err)
		}
		if sc.Fam == "smerge-stress" && sc.Stress != nil {
			if !replayStressCase(*sc.Stress) {
				t.Fail()
			}
			return
		}
		o := exec(t, sc)
		for _, l := range o.lines {
			fmt.Println("  ", l)
		}
		if bad := conform(ms, sc, o); bad != "" {
			fmt.Println("model: ", bad)
		}
		for _, f := range o.finds {
			fmt.Printf("FAILS %s: %s\n", f.kind, f.what)
		}
		if o.leak != "" {
			fmt.Println("goroutines left:", o.leak)
		}
		if len(o.finds) > 0 || o.leak != "" {
			t.Fail()
		} else {
			fmt.Println("replay: no clause violated")
		}
		return
	}

	for _, f := range vlib.CorpusFiles(env.Corpus, ".scn") {
		sc, err := loadScn(f)
		if err != nil {
			t.Fatalf("corpus file %s: %v", f, err)
		}
		res.Count("corpus")
		runScn(t, ms, res, sc, true) // a failing corpus case is shrunk like any other (on a green tree this costs nothing)
	}

	// real threads: one input fails while its siblings are parked on contexts derived from Merge's (stress_test.go)
	stressPhase(res, env)
	res.Write(env.Out)

	// inputs whose Close takes time x {error while siblings are parked, normal end, Close}: every run
	for _, sc := range directedSlowClose() {
		res.Count("directed-slow-close")
		runScn(t, ms, res, sc, true)
	}
	// the library's own streams as inputs (stream.Empty, FromIterator), every mix of up to four: every run
	for _, sc := range directedLibInputs() {
		res.Count("directed-lib-inputs")
		runScn(t, ms, res, sc, false)
	}
	// inputs idle for a minute / an hour / a day x {Next pending, not pending, after items} x {item, end, error}
	for _, sc := range directedIdle() {
		res.Count("directed-idle")
		runScn(t, ms, res, sc, true)
	}

	r := vlib.NewRand(env.Seed)
	deadline := env.Deadline()
	if env.Thorough() {
		// exhaustive small scope: every script up to a length over the full action alphabet, each
		// followed by the standard ending (close everything, drain / read to the end, Close)
		complete := enumerate(t, ms, res, time.Now().Add(time.Duration(env.BudgetMs/3)*time.Millisecond))
		res.Exhaustive = complete
		if complete {
			res.Count("exhaustive-small-scope-complete")
		}
	}
	maxCases := 14000
	if env.Thorough() || env.Deep {
		maxCases = 60000
	}
	// every arity of every family first, then the mix
	for n := 0; n <= 5; n++ {
		runScn(t, ms, res, genMerge(r.Fork(), n), true)
		runScn(t, ms, res, genSmerge(r.Fork(), n), true)
		if n <= 3 {
			runScn(t, ms, res, genRepl(r.Fork(), n), true)
		}
	}
	// no early stop on failures: a pile of failures of one kind-prefix class must not keep the
	// scenarios that violate another class from being generated (the limiter bounds the shrinking)
	for c := 0; c < maxCases && time.Now().Before(deadline); c++ {
		runScn(t, ms, res, genAny(r.Fork()), true)
	}
	if ms.missing != "" {
		res.ModelMissing = ms.missing
	}
	res.Write(env.Out)
}
