// stream.Merge over the library's own streams (family `smerge-lib`, monitor only).
//
// The gated inputs of family `smerge` are all of one harness type. The text quantifies over "inputs that
// end immediately" and "any number of inputs": here the inputs are the streams a caller would actually pass —
// the literal stream.Empty (kind "e") and stream.FromIterator over a slice of n items (kind "v:<n>", n >= 0) —
// in every mix of up to four. None of them ever blocks or fails, so at the first quiescent point the
// consumer must have received every item (each input's in its order) and the normal end.
package c12

import (
	"context"
	"fmt"
	"strconv"
	"strings"
	"testing"
	"testing/synctest"

	"github.com/bradenaw/juniper/iterator"
	"github.com/bradenaw/juniper/stream"
)

func libInput(i int, kind string) (stream.Stream[int], int) {
	if strings.HasPrefix(kind, "v:") {
		n, _ := strconv.Atoi(kind[2:])
		a := make([]int, n)
		for j := range a {
			a[j] = i*1000 + j
		}
		return stream.FromIterator(iterator.Slice(a)), n
	}
	return stream.Empty[int](), 0
}

func execSmergeLib(t *testing.T, sc Scn) *runOut {
	o := &runOut{notes: map[string]int{}}
	k := sc.N
	params := map[string]interface{}{"inputs": k, "inputs_of": "library"}
	o.leak = runBubble(t, func() {
		in := make([]stream.Stream[int], k)
		want := make([]int, k)
		total := 0
		for i := range in {
			kind := "e"
			if i < len(sc.Kinds) {
				kind = sc.Kinds[i]
			}
			in[i], want[i] = libInput(i, kind)
			total += want[i]
		}
		o.effSteps = total + k
		merged := stream.Merge(in...)
		ctx, cancel := context.WithCancel(context.Background())
		defer cancel()
		var got []int
		var endErr error
		done := make(chan struct{})
		go func() {
			defer close(done)
			for {
				v, err := merged.Next(ctx)
				if err != nil {
					endErr = err
					return
				}
				got = append(got, v)
			}
		}()
		synctest.Wait()
		finished := false
		select {
		case <-done:
			finished = true
		default:
		}
		if !finished {
			cancel()
			<-done
		}
		// got is ours now
		delivered := make([]int, k)
		orderOK := true
		for _, v := range got {
			src := v / 1000
			if v < 0 || src >= k || delivered[src] >= want[src] || v != src*1000+delivered[src] {
				o.fail("smerge-order", params, "inputs %v: the merged stream yielded %d, which is not the next undelivered item of its input (received so far: %v)", sc.Kinds, v, got)
				orderOK = false
				break
			}
			delivered[src]++
		}
		missing := 0
		for i := range want {
			missing += want[i] - delivered[i]
		}
		switch {
		case !orderOK:
		case !finished && missing == 0:
			o.fail("smerge-no-end", params, "inputs %v (e = stream.Empty, v:n = FromIterator over n items): all %d inputs have ended and all %d items were delivered, but Next of the merged stream does not return", sc.Kinds, k, total)
		case !finished:
			o.fail("smerge-item-not-offered", params, "inputs %v: no input ever blocks, %d of %d items were delivered and a Next call is waiting at quiescence", sc.Kinds, total-missing, total)
		case endErr == stream.End && missing > 0:
			o.fail("smerge-early-end", params, "inputs %v (e = stream.Empty, v:n = FromIterator over n items): the merged stream ended after %d of the %d items its inputs hold (received %v)", sc.Kinds, total-missing, total, got)
		case endErr != stream.End:
			o.fail("smerge-first-error", params, "inputs %v: the merged stream reported %v although no input had failed", sc.Kinds, endErr)
		}
		merged.Close()
		synctest.Wait()
	})
	return o
}

// directedLibInputs: every mix of up to four inputs out of {Empty, 0 items, 1 item, 3 items}, smallest first.
func directedLibInputs() []Scn {
	alphabet := []string{"e", "v:0", "v:1", "v:3"}
	var out []Scn
	var rec func(cur []string, n int)
	rec = func(cur []string, n int) {
		if len(cur) == n {
			out = append(out, Scn{Fam: "smerge-lib", N: n, Kinds: append([]string{}, cur...), Steps: []Step{}})
			return
		}
		for _, a := range alphabet {
			rec(append(cur, a), n)
		}
	}
	for n := 0; n <= 4; n++ {
		rec(nil, n)
	}
	return out
}

var _ = fmt.Sprint
