package c20

// Concurrent SleepContext calls (fix9b).
//
// Every clause of the property's SleepContext sentence is about one call ("returns nil only after at least
// d has elapsed", "returns the context's error if the context ends first", ...); nothing in it is restricted
// to a process that makes one call at a time. The single-call cases of c20_test.go run one call per bubble,
// so whatever SleepContext keeps between calls (a cache, a pool, a package-level timer) was never shared by
// two calls that overlap in time. A "sleeps" case makes several calls in ONE bubble: call i is made at the
// virtual instant At by its own goroutine, with its own context. Each call is judged by monitorSleep
// exactly as a single call is (virtual time makes "elapsed" exact, whatever the order in which goroutines
// that wake at the same instant run), and each gives the model the same `sleep d dl ca res elapsed` line -
// the Lean model is a model of one call, and that is all that is compared.
//
// flushPools: a sync.Pool of the library outlives the bubble in which its contents were made, and the
// runtime kills the process when a timer or channel made in one bubble is used from another ("select on
// synctest channel from outside bubble" - not recoverable). Two garbage collections empty every sync.Pool
// (primary -> victim -> dropped), so each sleep bubble starts with empty pools, like a fresh process; what a
// call leaves behind is met by the later calls of the same bubble - which is what a "sleeps" case is for.

import (
	"context"
	"fmt"
	"runtime"
	"sync"
	"testing"
	"testing/synctest"
	"time"

	"github.com/bradenaw/juniper/xtime"
	"verifharness/vlib"
)

// MSleep is one call of a concurrent scenario: the SleepCase (all instants relative to the call) made at
// the virtual instant At after the start of the bubble.
type MSleep struct {
	At int64 `json:"at"`
	SleepCase
}

func flushPools() {
	runtime.GC()
	runtime.GC()
}

// effective: a call that nothing would ever end except its own timer gets a context that is cancelled
// one nanosecond after the last instant at which anything of the scenario is due (every call's At + the
// largest of its d, its deadline, its cancellation). For a SleepContext that keeps its promise this changes
// nothing - every such call has returned nil by then; a call that is still asleep is ended by it instead of
// leaving the bubble deadlocked (which kills the process), and is then judged like any other call whose
// context ended after d had elapsed. The cancellation is part of the case the monitor and the model see.
func effective(ms []MSleep) []MSleep {
	var h int64
	for _, c := range ms {
		e := c.D
		if dl, ok := c.deadline(); ok && dl > e {
			e = dl
		}
		if c.CancelAt > e {
			e = c.CancelAt
		}
		if e < 0 {
			e = 0
		}
		if c.At+e > h {
			h = c.At + e
		}
	}
	out := append([]MSleep{}, ms...)
	for i := range out {
		if out[i].CancelAt < 0 && out[i].D > 0 {
			out[i].CancelAt = h + 1 - out[i].At
		}
	}
	return out
}

func runSleeps(t *testing.T, ms []MSleep) []sleepObs {
	ms = effective(ms)
	obs := make([]sleepObs, len(ms))
	flushPools()
	synctest.Test(t, func(t *testing.T) {
		var wg sync.WaitGroup
		for i := range ms {
			i := i
			wg.Add(1)
			go func() {
				defer wg.Done()
				if ms[i].At > 0 {
					time.Sleep(time.Duration(ms[i].At))
				}
				obs[i] = sleepOnce(ms[i].SleepCase)
			}()
		}
		wg.Wait()
		synctest.Wait()
	})
	return obs
}

// monitorSleeps: the clauses of a single call, for every call of the scenario.
func monitorSleeps(ms []MSleep, obs []sleepObs) *fail {
	ms = effective(ms)
	for i := range ms {
		f := monitorSleep(ms[i].SleepCase, obs[i])
		if f == nil {
			continue
		}
		over := 0
		for j := range ms {
			if j != i && ms[j].At <= ms[i].At+obs[i].elapsed && ms[i].At <= ms[j].At+obs[j].elapsed {
				over++
			}
		}
		f.params["calls"] = len(ms)
		f.params["concurrent"] = over > 0
		f.what = fmt.Sprintf("call %d of %d, made at %s (%d other call(s) in progress during it; a call with no cancellation of its own is cancelled 1ns after everything in the scenario is due): %s", i, len(ms), dur(ms[i].At), over, f.what)
		return f
	}
	return nil
}

func sleepsLines(ms []MSleep, obs []sleepObs) []string {
	ms = effective(ms)
	out := make([]string, len(ms))
	for i := range ms {
		out[i] = sleepLine(ms[i].SleepCase, obs[i])
	}
	return out
}

func plain(at, d int64) MSleep {
	return MSleep{At: at, SleepCase: SleepCase{D: d, Deadline: -1, CancelAt: -1}}
}

func ended(at, d, cancelAt int64) MSleep {
	return MSleep{At: at, SleepCase: SleepCase{D: d, Deadline: -1, CancelAt: cancelAt}}
}

// directedSleeps: calls that overlap in time after 0..4 earlier calls that were ended by their context /
// ran to completion / failed with DeadlineTooSoonError: every way a call can end, followed by every
// overlap pattern of two or three calls (nested, staggered, same instant), at three scales.
func directedSleeps() [][]MSleep {
	var out [][]MSleep
	for _, u := range []int64{1, 1000, ms} {
		preludes := [][]MSleep{
			{},
			{ended(0, 10*u, 0)},
			{ended(0, 10*u, 3*u)},
			{ended(0, 10*u, 0), ended(u, 10*u, 0)},
			{ended(0, 10*u, 2*u), ended(0, 10*u, 3*u)},
			{ended(0, 10*u, 0), ended(u, 10*u, u), ended(3*u, 10*u, 0), ended(4*u, 5*u, u)},
			{plain(0, 2*u), plain(3*u, u)},
			{{At: 0, SleepCase: SleepCase{D: 10 * u, Deadline: 12 * u, CancelAt: 2 * u}}, {At: 3 * u, SleepCase: SleepCase{D: 10 * u, Deadline: 5 * u, CancelAt: -1}}},
			{{At: 0, SleepCase: SleepCase{D: 10 * u, Deadline: -1, CancelAt: 2 * u, Cause: "cancel"}}, {At: 3 * u, SleepCase: SleepCase{D: 10 * u, Deadline: -1, CancelAt: 0, Cause: "parent"}}},
		}
		t0 := 6 * u // every prelude call has returned by then
		overlaps := [][]MSleep{
			{plain(t0, 100*u), plain(t0+5*u, u)},                              // a short call starts and ends inside a long one
			{plain(t0, 100*u), plain(t0+5*u, u), plain(t0+20*u, 2*u)},         // two short ones, one after the other
			{plain(t0, 50*u), plain(t0+10*u, 50*u)},                           // staggered
			{plain(t0, 30*u), plain(t0, 10*u), plain(t0, 20*u)},               // same instant
			{plain(t0, 100*u), ended(t0+5*u, 50*u, 2*u), plain(t0+10*u, 3*u)}, // one of the inner calls is ended by its context
			{ended(t0, 100*u, 40*u), plain(t0+5*u, u), plain(t0+5*u, 60*u)},   // the outer call is ended by its context later
			{plain(t0, 100*u), {At: t0 + 5*u, SleepCase: SleepCase{D: 10 * u, Deadline: 3 * u, CancelAt: -1}}, plain(t0+7*u, 0), plain(t0+8*u, 2*u)},
		}
		for _, p := range preludes {
			for _, o := range overlaps {
				sc := append(append([]MSleep{}, p...), o...)
				out = append(out, sc)
			}
		}
	}
	return out
}

// genSleeps: 2..7 calls; start instants and durations from a small grid so that calls start, end and are
// cancelled at the same instants as other calls as well as strictly inside them.
func genSleeps(r *vlib.Rand) []MSleep {
	u := []int64{1, 1, 1000, ms}[r.Intn(4)]
	n := 2 + r.Intn(6)
	var out []MSleep
	at := int64(0)
	for i := 0; i < n; i++ {
		if i > 0 && !r.Chance(1, 4) {
			at += []int64{1, 1, 2, 3, 5, 10}[r.Intn(6)] * u
		}
		d := []int64{1, 2, 3, 5, 10, 20, 50, 100}[r.Intn(8)] * u
		c := MSleep{At: at, SleepCase: SleepCase{D: d, Deadline: -1, CancelAt: -1}}
		switch r.Pick(8, 4, 3, 1, 1, 1) {
		case 1: // ended mid-sleep
			c.CancelAt = 1 + int64(r.Intn(int(d)))
			if c.CancelAt >= d {
				c.CancelAt = d - 1
			}
		case 2: // already ended
			c.CancelAt = 0
		case 3: // a deadline that does not matter / that ends the call
			c.Deadline = d + []int64{0, 1, 10 * u}[r.Intn(3)]
		case 4: // a deadline closer than d
			c.Deadline = int64(r.Intn(int(d)))
		case 5:
			c.D = []int64{0, -1}[r.Intn(2)]
		}
		if r.Chance(1, 6) && (c.CancelAt >= 0 || c.Deadline >= 0) {
			c.Cause = []string{"cancel", "parent"}[r.Intn(2)]
		}
		out = append(out, c)
	}
	return out
}

// shrinkSleeps: drop calls, then simplify what is left (no cause, start instants pulled together).
func (x *runner) shrinkSleeps(c Case, kind string) Case {
	fails := func(m []MSleep) bool {
		if len(m) == 0 {
			return false
		}
		cc := c
		cc.Multi = m
		return x.stillFails(cc, kind, 6)
	}
	c.Multi = vlib.Shrink(c.Multi, fails)
	try := func(mod func(m []MSleep)) {
		m := append([]MSleep{}, c.Multi...)
		mod(m)
		if fmt.Sprint(m) != fmt.Sprint(c.Multi) && fails(m) {
			c.Multi = m
		}
	}
	for i := range c.Multi {
		i := i
		try(func(m []MSleep) { m[i].Cause = "" })
		try(func(m []MSleep) {
			if m[i].CancelAt > 0 {
				m[i].CancelAt = 0
			}
		})
	}
	// start the scenario at 0
	try(func(m []MSleep) {
		min := m[0].At
		for _, s := range m {
			if s.At < min {
				min = s.At
			}
		}
		for i := range m {
			m[i].At -= min
		}
	})
	return c
}

// runSleepsReal: the same on the real clock, outside synctest (real timers may be shared between
// goroutines without the runtime objecting). One round: `enders` calls that their context ends, then a
// long call A, then - while A sleeps - a short call B. Verdict, a true positive under any load because a
// timer never fires early and time.Now is monotone: a call returned nil although less than its d has
// elapsed since it was made. Nothing is concluded from a call not returning: both contexts are cancelled
// once B has returned (or 100ms have passed), and a call that was cancelled must then report its
// context's error or - had d elapsed - nil.
func runSleepsReal(rounds int) *fail {
	const dA, dB = 2 * time.Second, 300 * time.Microsecond
	for round := 0; round < rounds; round++ {
		enders := round % 4
		for e := 0; e < enders; e++ {
			ctx, cf := context.WithCancel(context.Background())
			if e%2 == 0 {
				cf()
			} else {
				time.AfterFunc(100*time.Microsecond, cf)
			}
			_, _ = vlib.Try(func() { _ = xtime.SleepContext(ctx, time.Hour) })
			cf()
		}
		type ret struct {
			err     error
			elapsed time.Duration
			pan     bool
		}
		call := func(ctx context.Context, d time.Duration) chan ret {
			ch := make(chan ret, 1)
			go func() {
				var r ret
				t0 := time.Now()
				r.pan, _ = vlib.Try(func() { r.err = xtime.SleepContext(ctx, d) })
				r.elapsed = time.Since(t0)
				ch <- r
			}()
			return ch
		}
		ctxA, cfA := context.WithCancel(context.Background())
		ctxB, cfB := context.WithCancel(context.Background())
		chA := call(ctxA, dA)
		time.Sleep(200 * time.Microsecond)
		chB := call(ctxB, dB)
		var rA, rB ret
		gotA, gotB := false, false
		limit := time.After(100 * time.Millisecond)
		for !(gotA && gotB) {
			select {
			case rA = <-chA:
				gotA = true
				cfB()
			case rB = <-chB:
				gotB = true
				cfA()
			case <-limit:
				cfA()
				cfB()
				limit = nil
			}
		}
		cfA()
		cfB()
		for _, c := range []struct {
			name string
			r    ret
			d    time.Duration
		}{{"A", rA, dA}, {"B", rB, dB}} {
			if c.r.pan {
				return &fail{"sleep-panic", map[string]interface{}{"concurrent": true}, fmt.Sprintf("real clock, round %d: concurrent SleepContext call %s panicked", round, c.name)}
			}
			if c.r.err == nil && c.r.elapsed < c.d {
				return &fail{"sleep-nil-before-d-real-time", map[string]interface{}{"concurrent": true, "earlier_calls_ended_by_context": enders},
					fmt.Sprintf("real clock, round %d: after %d call(s) that their context ended, A = SleepContext(live context, %s) was started, 200µs later B = SleepContext(live context, %s); %s returned nil after %s (A: %v after %s, B: %v after %s)",
						round, enders, dA, dB, c.name, c.r.elapsed, rA.err, rA.elapsed, rB.err, rB.elapsed)}
			}
		}
	}
	return nil
}
