// C20, real-threads phase (harness entry "c20race"): Stop / Reset racing the firing timer of a
// JitterTicker on the real clock, with real goroutines on several Ps - outside any synctest bubble.
//
// Why: the LTS makes the timer callback, Stop and Reset one atomic label each, because each holds t.m
// from its first to its last statement (tie 1: the regenerated statement skeletons, `cb_skeleton`,
// `stop_skeleton`, `reset_skeleton`). Under synctest the goroutines are serialised at every Wait(), so no
// virtual-time scenario ever interleaves INSIDE a callback. This phase does: per iteration a ticker with a
// tiny period is created, the worker spins until about the instant its timer fires (the offset is
// randomised around the observed timer latency, so that Stop lands before, inside and after the callback)
// and calls Stop (or Reset).
//
// The verdicts are true positives under any scheduling, machine load, GC pause or timer lateness - each is
// a statement that holds for EVERY execution of a correct JitterTicker (see notes/C20.md for the argument):
//
//	(A) late tick: after Stop() has returned the worker drains t.C without blocking (a tick that was sent
//	    before Stop returned may legitimately sit in the one-slot buffer). From then on the channel is empty,
//	    and a correct ticker never sends again; so ANY tick received from that channel later (polled some
//	    hundred microseconds later, and once more at the end of the phase) was sent after Stop returned.
//	(B) timestamp: a tick carries the time.Now() its callback took immediately before sending it. If that
//	    reading is later than a reading the worker took AFTER Stop() had returned, the send happened after
//	    Stop returned - also for the tick found by the drain. (Monotonic clock readings; never "early".)
//	(C) Reset: a first tick v1 is received, then Reset(D2, 0) with D2 much longer than the old period is
//	    called at the instant the second timer fires. A tick stamped after Reset returned was sent under the
//	    new parameters and must be at least D2 after its predecessor; one stamped before Reset was called at
//	    least the old d - jitter; in between the smaller of the two. Lateness and dropped ticks only widen
//	    gaps.
//
// Nothing is ever concluded from elapsed wall time, from a tick NOT arriving, or from how fast a goroutine
// ran. The clock bounds the length of the phase; all loops are bounded; panics are recovered.
package c20

import (
	"fmt"
	"math/rand"
	"os"
	"runtime"
	"sync"
	"sync/atomic"
	"testing"
	"time"

	"github.com/bradenaw/juniper/xtime"
	"verifharness/vlib"
)

// RaceCase is one configuration of the stress run (also what a replay re-runs: real-thread failures are
// not deterministic, the replay repeats the same configuration for Millis).
type RaceCase struct {
	Seed    uint64    `json:"seed"`
	Millis  int64     `json:"millis"`
	Workers int       `json:"workers"`
	Procs   int       `json:"procs"`
	DMin    int64     `json:"d_min"` // period range, ns
	DMax    int64     `json:"d_max"`
	Seen    *RaceSeen `json:"seen,omitempty"`
}

// RaceSeen: the evidence of a failure. Instants are ns since the ticker of that iteration was created.
type RaceSeen struct {
	Worker    int    `json:"worker"`
	Iteration int    `json:"iteration"`
	Scenario  string `json:"scenario"` // stop | reset
	How       string `json:"how"`      // late-tick | stamped-after-stop-returned | final-poll | too-close-after-reset
	D         int64  `json:"d"`
	Jitter    int64  `json:"jitter"`
	Offset    int64  `json:"offset"` // the worker aimed at (guessed firing instant) + offset
	Called    int64  `json:"called"` // Stop / Reset called
	Returned  int64  `json:"returned"`
	TickStamp int64  `json:"tick_stamp"`           // time.Now() carried by the offending tick
	PrevStamp int64  `json:"prev_stamp,omitempty"` // reset scenario: the preceding tick
	SeenAt    int64  `json:"seen_at"`              // when the worker received it
}

type raceStats struct {
	iters, stops, resets, calib int
	drained, before, noTick     int // Stop found a tick in the buffer / landed before the firing / first tick never came
	near                        int // Stop was called within 2µs of the instant the drained tick was stamped
	panics                      int
	latePolls, finalPolls, late int
}

func (a *raceStats) add(b raceStats) {
	a.iters += b.iters
	a.stops += b.stops
	a.resets += b.resets
	a.calib += b.calib
	a.drained += b.drained
	a.before += b.before
	a.noTick += b.noTick
	a.near += b.near
	a.panics += b.panics
	a.latePolls += b.latePolls
	a.finalPolls += b.finalPolls
}

type stoppedTicker struct {
	tk               *xtime.JitterTicker
	t0               time.Time
	called, returned time.Time
	d, j, off        int64
	it               int
	wait             time.Duration
}

type raceWorker struct {
	id    int
	rc    RaceCase
	rng   *rand.Rand
	st    raceStats
	pend  []stoppedTicker
	lat   []int64 // recently observed (tick stamp - guessed firing instant), ns
	fail  *fail
	seen  *RaceSeen
	guard *time.Timer
}

func spinUntil(t time.Time) {
	for time.Now().Before(t) {
	}
}

func (w *raceWorker) report(kind string, how string, s stoppedTicker, scenario string, stamp, prev, seenAt time.Time, what string) {
	if w.fail != nil {
		return
	}
	seen := &RaceSeen{Worker: w.id, Iteration: s.it, Scenario: scenario, How: how, D: s.d, Jitter: s.j, Offset: s.off,
		Called: int64(s.called.Sub(s.t0)), Returned: int64(s.returned.Sub(s.t0)), TickStamp: int64(stamp.Sub(s.t0)), SeenAt: int64(seenAt.Sub(s.t0))}
	if !prev.IsZero() {
		seen.PrevStamp = int64(prev.Sub(s.t0))
	}
	w.seen = seen
	w.fail = &fail{kind, map[string]interface{}{"jitter_zero": s.j == 0, "phase": "real-threads", "how": how},
		fmt.Sprintf("real clock, real goroutines (GOMAXPROCS %d), JitterTicker(%s, %s), worker %d iteration %d: %s", runtime.GOMAXPROCS(-1), time.Duration(s.d), time.Duration(s.j), w.id, s.it, what)}
}

// offset: where, relative to the guessed firing instant, the call is aimed: mostly around a
// recently observed timer latency (+-3µs; the pool is fed by calibration iterations and by drained ticks), otherwise anywhere from a little
// before the firing to 60µs after.
func (w *raceWorker) offset() int64 {
	if len(w.lat) > 0 && w.rng.Intn(10) < 7 {
		return w.lat[w.rng.Intn(len(w.lat))] + w.rng.Int63n(6001) - 3000
	}
	return w.rng.Int63n(62001) - 2000
}

func (w *raceWorker) noteLatency(l int64) {
	if l < -1000 || l > 500000 {
		return
	}
	if len(w.lat) < 32 {
		w.lat = append(w.lat, l)
	} else {
		w.lat[w.rng.Intn(len(w.lat))] = l
	}
}

// pollPending looks (without blocking) at the tickers that were stopped and drained at least `wait` ago -
// all of them when final. Verdict (A).
func (w *raceWorker) pollPending(final bool) {
	now := time.Now()
	k := 0
	for k < len(w.pend) && (final || now.Sub(w.pend[k].returned) > w.pend[k].wait) {
		s := w.pend[k]
		k++
		how := "late-tick"
		if final {
			how = "final-poll"
			w.st.finalPolls++
		} else {
			w.st.latePolls++
		}
		select {
		case v := <-s.tk.C:
			at := time.Now()
			w.report("ticker-tick-after-stop", how, s, "stop", v, time.Time{}, at,
				fmt.Sprintf("Stop was called +%s after the ticker was created and returned at +%s; the channel was then drained; +%s after the creation a tick stamped +%s was received from it: it was sent after Stop had returned",
					s.called.Sub(s.t0), s.returned.Sub(s.t0), at.Sub(s.t0), v.Sub(s.t0)))
			if !final {
				// a ticker that still ticks: turn it off (best effort; its mutex is free) so that it does not load the machine
				vlib.Try(func() { s.tk.Stop() })
			}
		default:
		}
	}
	w.pend = w.pend[k:]
}

// stopAndJudge: Stop, drain, verdict (B), and queue the ticker for verdict (A).
func (w *raceWorker) stopAndJudge(tk *xtime.JitterTicker, t0 time.Time, d, j, off int64, it int, guess time.Time) {
	called := time.Now()
	if p, pv := vlib.Try(func() { tk.Stop() }); p {
		w.st.panics++
		if w.fail == nil {
			w.fail = &fail{"ticker-panic-stop", map[string]interface{}{"phase": "real-threads"}, fmt.Sprintf("real clock: Stop of JitterTicker(%s, %s) panicked: %v", time.Duration(d), time.Duration(j), pv)}
		}
		return
	}
	returned := time.Now()
	s := stoppedTicker{tk: tk, t0: t0, called: called, returned: returned, d: d, j: j, off: off, it: it,
		wait: 2*time.Duration(d+j) + 300*time.Microsecond}
	select {
	case v := <-tk.C: // normally: sent before Stop returned
		w.st.drained++
		if dd := v.Sub(called); dd > -2*time.Microsecond && dd < 2*time.Microsecond {
			w.st.near++
		}
		if !guess.IsZero() {
			w.noteLatency(int64(v.Sub(guess)))
		}
		if v.After(returned) {
			w.report("ticker-tick-after-stop", "stamped-after-stop-returned", s, "stop", v, time.Time{}, time.Now(),
				fmt.Sprintf("Stop returned at +%s (clock read after the return); the tick found in the channel right after carries the later timestamp +%s: its callback read the clock, and then sent it, after Stop had returned",
					returned.Sub(t0), v.Sub(t0)))
		}
	default:
		w.st.before++
	}
	w.pend = append(w.pend, s)
}

func (w *raceWorker) iterStop(it int, d, j int64) {
	w.st.stops++
	// the interval the ticker will draw is uniform in [d-j, d+j]; guess one the same way
	fire := d - j
	if j > 0 {
		fire += w.rng.Int63n(2*j + 1)
	}
	off := w.offset()
	t0 := time.Now()
	var tk *xtime.JitterTicker
	if p, pv := vlib.Try(func() { tk = xtime.NewJitterTicker(time.Duration(d), time.Duration(j)) }); p {
		w.st.panics++
		if w.fail == nil {
			w.fail = &fail{"ticker-panic-new", map[string]interface{}{"jitter_zero": j == 0, "phase": "real-threads"}, fmt.Sprintf("real clock: NewJitterTicker(%s, %s) panicked: %v", time.Duration(d), time.Duration(j), pv)}
		}
		return
	}
	guess := time.Time{}
	if j == 0 {
		guess = t0.Add(time.Duration(fire))
	}
	spinUntil(t0.Add(time.Duration(fire + off)))
	w.stopAndJudge(tk, t0, d, j, off, it, guess)
}

// iterCalibrate: how late does a timer callback stamp its tick on this machine right now? A jitter-free
// ticker is left alone until its first tick arrives; (stamp - creation - d) goes into the pool the offsets
// are drawn from. Then an ordinary (non-racing) Stop, judged like every other.
func (w *raceWorker) iterCalibrate(it int, d int64) {
	t0 := time.Now()
	var tk *xtime.JitterTicker
	if p, _ := vlib.Try(func() { tk = xtime.NewJitterTicker(time.Duration(d), 0) }); p {
		w.st.panics++
		return
	}
	w.guard.Reset(200*time.Duration(d) + 2*time.Second)
	select {
	case v := <-tk.C:
		w.noteLatency(int64(v.Sub(t0)) - d)
	case <-w.guard.C:
		w.st.noTick++
	}
	w.stopAndJudge(tk, t0, d, 0, 0, it, time.Time{})
}

func (w *raceWorker) iterReset(it int, d int64) {
	w.st.resets++
	t0 := time.Now()
	var tk *xtime.JitterTicker
	if p, _ := vlib.Try(func() { tk = xtime.NewJitterTicker(time.Duration(d), 0) }); p {
		w.st.panics++
		return
	}
	w.guard.Reset(200*time.Duration(d) + 2*time.Second)
	var v1 time.Time
	select {
	case v1 = <-tk.C:
	case <-w.guard.C: // a dead ticker is not a verdict of this phase
		w.st.noTick++
		vlib.Try(func() { tk.Stop() })
		return
	}
	off := w.offset()
	spinUntil(v1.Add(time.Duration(d + off))) // the second timer was armed right after v1 was stamped
	d2 := 20 * d
	called := time.Now()
	if p, pv := vlib.Try(func() { tk.Reset(time.Duration(d2), 0) }); p {
		w.st.panics++
		if w.fail == nil {
			w.fail = &fail{"ticker-panic-reset", map[string]interface{}{"jitter_zero": true, "phase": "real-threads"}, fmt.Sprintf("real clock: Reset(%s, 0) panicked: %v", time.Duration(d2), pv)}
		}
		return
	}
	returned := time.Now()
	s := stoppedTicker{tk: tk, t0: t0, called: called, returned: returned, d: d, j: 0, off: off, it: it}
	// watch (bounded: about two old periods) for ticks; verdict (C)
	prev := v1
	watchUntil := returned.Add(2*time.Duration(d) + 100*time.Microsecond)
	for n := 0; n < 1<<22 && time.Now().Before(watchUntil); n++ {
		select {
		case v := <-tk.C:
			bound := time.Duration(d) // sent under the old parameters, or undecided: the smaller bound
			which := "the old period (or undecided)"
			if v.After(returned) {
				bound, which = time.Duration(d2), "the new period: it was stamped after Reset had returned"
			}
			if v.Sub(prev) < bound {
				w.report("ticker-spacing", "too-close-after-reset", s, "reset", v, prev, time.Now(),
					fmt.Sprintf("Reset(%s, 0) was called at +%s and returned at +%s; consecutive ticks stamped +%s and +%s are %s apart, less than d - jitter = %s of %s",
						time.Duration(d2), called.Sub(t0), returned.Sub(t0), prev.Sub(t0), v.Sub(t0), v.Sub(prev), bound, which))
			}
			prev = v
		default:
		}
	}
	// and a Stop that races nothing, judged like every other
	w.stopAndJudge(tk, t0, d2, 0, 0, it, time.Time{})
}

func (w *raceWorker) run(until time.Time, halt *atomic.Bool) {
	w.guard = time.NewTimer(time.Hour)
	defer w.guard.Stop()
	for it := 0; it < 1<<30 && !halt.Load() && w.fail == nil && time.Now().Before(until); it++ {
		w.st.iters++
		d := w.rc.DMin + w.rng.Int63n(w.rc.DMax-w.rc.DMin+1)
		if it < 24 || w.rng.Intn(16) == 0 {
			w.st.calib++
			w.iterCalibrate(it, d)
		} else if w.rng.Intn(5) == 0 {
			w.iterReset(it, d)
		} else {
			var j int64
			switch w.rng.Intn(3) {
			case 1:
				j = w.rng.Int63n(d)
			case 2:
				j = w.rng.Int63n(d/8 + 1)
			}
			w.iterStop(it, d, j)
		}
		w.pollPending(false)
	}
	if w.fail != nil {
		halt.Store(true)
	}
}

// runRace runs the configuration; returns the first failure (with its evidence) and the statistics.
func runRace(rc RaceCase) (*fail, *RaceSeen, raceStats) {
	if rc.Procs > 0 {
		old := runtime.GOMAXPROCS(rc.Procs)
		defer runtime.GOMAXPROCS(old)
	}
	until := time.Now().Add(time.Duration(rc.Millis) * time.Millisecond)
	var halt atomic.Bool
	ws := make([]*raceWorker, rc.Workers)
	var wg sync.WaitGroup
	for i := range ws {
		ws[i] = &raceWorker{id: i, rc: rc, rng: rand.New(rand.NewSource(int64(rc.Seed>>1) + int64(i)*7919))}
		wg.Add(1)
		go func(w *raceWorker) {
			defer wg.Done()
			if p, pv := vlib.Try(func() { w.run(until, &halt) }); p && w.fail == nil {
				w.fail = &fail{"harness-panic", map[string]interface{}{}, fmt.Sprint(pv)}
			}
		}(ws[i])
	}
	wg.Wait()
	// every stopped ticker once more, well after the last Stop
	time.Sleep(3 * time.Millisecond)
	var st raceStats
	var f *fail
	var seen *RaceSeen
	for _, w := range ws {
		if w.fail == nil {
			vlib.Try(func() { w.pollPending(true) })
		}
		st.add(w.st)
		if w.fail != nil && f == nil {
			f, seen = w.fail, w.seen
		}
	}
	return f, seen, st
}

func raceConfig(env vlib.Env) RaceCase {
	procs := runtime.NumCPU()
	if procs > 8 {
		procs = 8
	}
	if procs < 4 {
		procs = 4
	}
	return RaceCase{Seed: env.Seed, Millis: int64(env.BudgetMs), Workers: procs / 2, Procs: procs, DMin: 20000, DMax: 120000}
}

func TestStopRace(t *testing.T) {
	env := vlib.GetEnv()
	if env.Replay != "" {
		var c Case
		if err := vlib.ReplayCase(env.Replay, &c); err != nil || c.Race == nil {
			t.Fatalf("cannot load replay: %v", err)
		}
		rc := *c.Race
		rc.Seen = nil
		if rc.Millis < 10000 {
			rc.Millis = 10000
		}
		fmt.Printf("replay %s\n  (real goroutines on the real clock: the same stress configuration is run again for %d ms)\n", c, rc.Millis)
		if f, seen, st := runRace(rc); f != nil {
			fmt.Printf("  FAILS %s after %d iterations: %s\n  evidence: %+v\n", f.kind, st.iters, f.what, *seen)
			os.Exit(1)
		} else {
			fmt.Printf("  no clause violated in %d iterations of this run\n", st.iters)
		}
		return
	}
	res := vlib.NewResult("C20", "real-threads phase: Stop was called within 2µs of the instant the timer callback stamped its tick (the call and the callback overlapped or nearly did)")
	defer res.Write(env.Out)
	rc := raceConfig(env)
	f, seen, st := runRace(rc)
	res.CountN("race-iterations", st.iters)
	res.CountN("race-stop-scenarios", st.stops)
	res.CountN("race-reset-scenarios", st.resets)
	res.CountN("race-calibrations", st.calib)
	res.CountN("race-stop-after-the-send", st.drained)
	res.CountN("race-stop-before-the-firing", st.before)
	res.CountN("race-stop-within-2us-of-the-send", st.near)
	res.CountN("race-late-polls", st.latePolls)
	res.CountN("race-final-polls", st.finalPolls)
	res.CountN("race-no-first-tick", st.noTick)
	res.CountN("race-panics", st.panics)
	// every iteration is one case (its own period, jitter, offset and scheduling)
	res.Evaluations, res.Nontrivial = st.iters, st.near
	if f != nil {
		res.Count("monitor-failure." + f.kind)
		src := "monitor"
		if f.kind == "harness-panic" {
			src = "correspondence"
		}
		rc.Seen = seen
		res.Fail(vlib.Failure{Source: src, Kind: f.kind, Params: f.params, What: f.what, Case: Case{Kind: "race-real", Race: &rc, NoModel: true}})
	}
}
