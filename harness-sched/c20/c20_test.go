// C20: xtime.SleepContext honours d and the deadline; JitterTicker keeps its spacing; no tick after
// Stop.
//
// Nearly everything runs inside testing/synctest bubbles: time is virtual, so elapsed times and tick
// timestamps are exact and every assertion is made with zero slack. One phase runs on the real clock
// (see "real-time phase"): what depends on a timer callback being late cannot happen under virtual time;
// its verdicts compare the timestamps carried by ticks and can only be true positives.
//
// Two independent judges look at every case:
//   - monitors (source "monitor"): the clauses of the property text, checked on the real code against
//     plain arithmetic on the scripted instants;
//   - correspondence (source "correspondence"): the observed quiescent trace is fed to the Lean LTS
//     (`driver xtime`, a state-set engine: the set of model states compatible with the observations
//     so far must never become empty).
//
//go:debug randseednop=0
package c20

import (
	"context"
	"encoding/json"
	"errors"
	"fmt"
	"math"
	"math/rand"
	"os"
	"runtime"
	"strings"
	"sync"
	"testing"
	"testing/synctest"
	"time"

	"github.com/bradenaw/juniper/xtime"
	"verifharness/vlib"
)

// ---------------------------------------------------------------------------------------------
// cases

// SleepCase is one SleepContext call made at virtual instant 0. Negative Deadline / CancelAt mean
// "none"; CancelAt == 0 is a context that is already cancelled when the call is made; DeadlineAgo > 0
// is a context whose deadline passed that long before the call (Deadline is ignored then).
//
// DeadlineZero: the deadline is the zero time.Time (`context.WithDeadline(ctx, time.Time{})`, the customary
// "already expired" context): it lies further back than a Duration can express, time.Until saturates at
// MinInt64. LagDone: the context reports its deadline but its Done channel lags behind - it stays open
// (Err() == nil) until CancelAt, for good if there is none. (A real deadline context closes Done a timer
// latency after the deadline; a wrapper that keeps the deadline but detaches cancellation never does.)
type SleepCase struct {
	D            int64 `json:"d"`
	Deadline     int64 `json:"deadline"`
	CancelAt     int64 `json:"cancel_at"`
	DeadlineAgo  int64 `json:"deadline_ago,omitempty"`
	DeadlineZero bool  `json:"deadline_zero,omitempty"`
	LagDone      bool  `json:"lag_done,omitempty"`
	// Cause (fix8b): the context is built with the cause-carrying constructors of package context, so
	// that context.Cause(ctx) differs from ctx.Err() once it has ended. "" = WithDeadline / WithCancel as
	// before; "cancel" = the deadline by WithDeadlineCause(errDeadlineCause), the cancellation by
	// WithCancelCause, cancelled with errCause; "parent" = a WithCancelCause *ancestor* is cancelled with
	// errCause, the deadline (plain WithDeadline) and a plain WithCancel child hang below it. Instants,
	// Deadline() and Err() are exactly those of the plain shapes: the model line is the same.
	Cause string `json:"cause,omitempty"`
}

// The causes handed to the cause-carrying constructors: neither is, wraps or is wrapped by
// context.Canceled / context.DeadlineExceeded.
var (
	errCause         = errors.New("worker pool is shutting down")
	errDeadlineCause = errors.New("request budget used up")
)

// deadline returns the context's deadline relative to the instant of the call (what time.Until
// reports then).
func (c SleepCase) deadline() (int64, bool) {
	if c.DeadlineZero {
		return math.MinInt64, true
	}
	if c.DeadlineAgo > 0 {
		return -c.DeadlineAgo, true
	}
	return c.Deadline, c.Deadline >= 0
}

// lagCtx reports a deadline without ever closing Done of its own accord.
type lagCtx struct {
	context.Context
	dl time.Time
}

func (l lagCtx) Deadline() (time.Time, bool) { return l.dl, true }

// TStep is one step of a ticker script.
//
//	new d j | sleep dt | wait | poll | collect | reset d j | stop
//
// "sleep" lets the virtual clock run for dt in the scripting goroutine WITHOUT waiting for the other
// goroutines to settle: the next step races with whatever became runnable at that instant. "wait" is
// synctest.Wait(). "collect" receives (blocking, in a helper goroutine) every tick that arrives until the
// bubble is quiescent - unlike "wait; poll" it also sees several ticks sent at one virtual instant (the
// channel holds one tick; a tick that finds it full is dropped); for the model it is a sequence of
// "poll tick T" followed by "settle". "stop" is Stop() followed at once by a non-blocking drain of the channel (a tick
// found there was sent before Stop returned).
type TStep struct {
	Op string `json:"op"`
	A  int64  `json:"a,omitempty"`
	B  int64  `json:"b,omitempty"`
}

type Case struct {
	Kind  string     `json:"kind"` // sleep | sleeps | ticker | ticker-real | stop-real | sleep-real | sleeps-real | race-real
	Sleep *SleepCase `json:"sleep,omitempty"`
	Multi []MSleep   `json:"sleeps,omitempty"` // concurrent_test.go: several SleepContext calls in one bubble
	Real  *RealCase  `json:"real,omitempty"`
	Race  *RaceCase  `json:"race,omitempty"` // race_test.go
	Steps []TStep    `json:"steps,omitempty"`
	Seed  int64      `json:"seed"` // math/rand seed used for this case
	// NoModel: durations too large for the model's enumeration of rand values (monitors only)
	NoModel bool `json:"no_model,omitempty"`
	// PanicModel (with NoModel): the panic outcome of the script's NewJitterTicker / first Reset is still
	// compared with the model (`newp` / `resetp` of the driver: no state set, no enumeration)
	PanicModel bool `json:"panic_model,omitempty"`
}

func (c Case) String() string {
	b, _ := json.Marshal(c)
	return string(b)
}

type fail struct {
	kind   string
	params map[string]interface{}
	what   string
}

// ---------------------------------------------------------------------------------------------
// SleepContext

type sleepObs struct {
	res     string // nil | toosoon | ctxerr | other | panic
	elapsed int64
	ctxAt   int64  // instant at which the context's Done closes, -1 = never
	isCtx   bool   // the returned error is exactly ctx.Err()
	errText string // res == "other": the error returned, ctx.Err() and context.Cause(ctx) at that moment
}

func runSleep(t *testing.T, c SleepCase) sleepObs {
	var o sleepObs
	flushPools()
	synctest.Test(t, func(t *testing.T) {
		o = sleepOnce(c)
		synctest.Wait()
	})
	return o
}

// sleepOnce makes the SleepContext call of c at the current (virtual) instant and returns what it
// observed once the call has returned. It must run inside a synctest bubble; several may run at once
// (concurrent_test.go).
func sleepOnce(c SleepCase) sleepObs {
	var o sleepObs
	{
		start := time.Now()
		ctx := context.Background()
		var cancels []context.CancelFunc
		o.ctxAt = -1
		quit := make(chan struct{})
		addDeadline := func() {
			dl, ok := c.deadline()
			if !ok {
				return
			}
			at := start.Add(time.Duration(dl))
			if c.DeadlineZero {
				at = time.Time{}
			}
			if c.LagDone {
				ctx = lagCtx{ctx, at} // Done stays open
				return
			}
			var cf context.CancelFunc
			if c.Cause == "cancel" {
				ctx, cf = context.WithDeadlineCause(ctx, at, errDeadlineCause)
			} else {
				ctx, cf = context.WithDeadline(ctx, at)
			}
			cancels = append(cancels, cf)
			if o.ctxAt < 0 || dl < o.ctxAt {
				o.ctxAt = dl
			}
			if dl < 0 {
				o.ctxAt = 0 // Done is closed when the call is made
			}
		}
		addCancel := func() {
			if c.CancelAt < 0 {
				return
			}
			var cf context.CancelFunc
			if c.Cause != "" {
				var ccf context.CancelCauseFunc
				ctx, ccf = context.WithCancelCause(ctx)
				cf = func() { ccf(errCause) }
			} else {
				ctx, cf = context.WithCancel(ctx)
			}
			cancels = append(cancels, cf)
			if c.CancelAt == 0 {
				cf()
			} else {
				go func() {
					tm := time.NewTimer(time.Duration(c.CancelAt))
					defer tm.Stop()
					select {
					case <-tm.C:
						cf()
					case <-quit:
					}
				}()
			}
			if o.ctxAt < 0 || c.CancelAt < o.ctxAt {
				o.ctxAt = c.CancelAt
			}
		}
		if c.Cause == "parent" {
			// the cause-cancelled context is an ancestor; SleepContext is handed a plain grandchild
			addCancel()
			addDeadline()
			var cf context.CancelFunc
			ctx, cf = context.WithCancel(ctx)
			cancels = append(cancels, cf)
		} else {
			addDeadline()
			addCancel()
		}
		done := make(chan struct{})
		go func() {
			defer close(done)
			var err error
			p, _ := vlib.Try(func() { err = xtime.SleepContext(ctx, time.Duration(c.D)) })
			o.elapsed = int64(time.Since(start))
			var ts xtime.DeadlineTooSoonError
			switch {
			case p:
				o.res = "panic"
			case err == nil:
				o.res = "nil"
			case errors.As(err, &ts):
				o.res = "toosoon"
			case ctx.Err() != nil && errors.Is(err, ctx.Err()):
				o.res = "ctxerr"
				o.isCtx = true
			default:
				o.res = "other"
				o.errText = fmt.Sprintf("the error returned is %q, ctx.Err() is %v, context.Cause(ctx) is %v", err.Error(), ctx.Err(), context.Cause(ctx))
			}
		}()
		<-done
		close(quit)
		for _, cf := range cancels {
			cf()
		}
	}
	return o
}

// monitorSleep encodes the clauses of the property text.
func monitorSleep(c SleepCase, o sleepObs) *fail {
	dl, hasDl := c.deadline()
	rel := "none"
	switch {
	case hasDl && dl < 0:
		rel = "passed"
	case hasDl && dl < c.D:
		rel = "closer-than-d"
	case hasDl:
		rel = "not-closer-than-d"
	}
	p := map[string]interface{}{"deadline": rel, "cancelled": c.CancelAt >= 0, "d_positive": c.D > 0, "d_zero": c.D == 0}
	if c.LagDone {
		p["done_lags"] = true
	}
	if c.Cause != "" {
		p["ctx_cause"] = c.Cause
	}
	mk := func(kind, what string) *fail {
		if o.errText != "" {
			what += " (" + o.errText + ")"
		}
		if c.Cause != "" {
			what += " [context built with the cause-carrying constructors, shape " + c.Cause + ": context.Cause(ctx) differs from ctx.Err()]"
		}
		lag := ""
		if c.LagDone {
			lag = ", Done not closed by the deadline"
		}
		return &fail{kind, p, fmt.Sprintf("SleepContext(d=%s, deadline=%s%s, cancel at %s) returned %s after %s: %s",
			dur(c.D), c.deadlineText(), lag, durOrNone(c.CancelAt), o.res, dur(o.elapsed), what)}
	}
	if o.res == "panic" {
		return mk("sleep-panic", "panicked")
	}
	if c.D <= 0 {
		// "returns nil ... at once when d <= 0": whatever the context looks like (none, live, deadline
		// passed, already cancelled) - the text makes no exception
		if o.res != "nil" {
			return mk("sleep-nonpositive-not-nil", "d <= 0 must return nil")
		}
		if o.elapsed != 0 {
			return mk("sleep-nonpositive-not-immediate", "d <= 0 must return at once")
		}
		return nil
	}
	tooSoon := hasDl && dl < c.D
	// A call that has to wait for a d so large that start + d is beyond what the runtime's clock can
	// express (the virtual clock starts in the year 2000, the clock ends in 2262) cannot be observed: the
	// timer is clamped. Such calls are not generated; this guard keeps the shrinker from walking into them.
	if !tooSoon && c.D > maxDur/2 && !(o.ctxAt >= 0 && o.ctxAt < c.D) {
		return nil
	}
	// "returns nil only after at least d has elapsed"
	if o.res == "nil" && o.elapsed < c.D && !tooSoon {
		return mk("sleep-nil-before-d", "nil although less than d elapsed")
	}
	// "returns DeadlineTooSoonError immediately exactly when the context's deadline is closer than d"
	if o.res == "toosoon" && !tooSoon {
		return mk("sleep-toosoon-but-deadline-not-closer", "DeadlineTooSoonError although the deadline is not closer than d")
	}
	if tooSoon {
		// "exactly when the context's deadline is closer than d" - the text makes no exception for a
		// context that has already ended (its deadline passed, or it was cancelled as well): the answer is
		// DeadlineTooSoonError, at once. (`sleep_deadline_too_soon_iff` proves exactly that. An earlier
		// version accepted the context's error from an ended context; see notes/strengthening.md, fix4.)
		if o.res != "toosoon" {
			return mk("sleep-toosoon-missing", "the deadline is closer than d: expected DeadlineTooSoonError at once")
		}
		if o.elapsed != 0 {
			return mk("sleep-toosoon-not-immediate", "the deadline is closer than d: must fail immediately")
		}
		return nil
	}
	// "returns the context's error if the context ends first": the error of a context.Context is what its
	// Err method reports (and the doc comment of SleepContext says "in which case it returns ctx.Err()").
	// For contexts built with WithCancelCause / WithDeadlineCause that is not context.Cause(ctx): the
	// classification "ctxerr" in runSleep compares with ctx.Err() (errors.Is), so a cause comes out as
	// "other" here.
	if o.ctxAt >= 0 && o.ctxAt < c.D {
		if o.res != "ctxerr" {
			return mk("sleep-ctx-first-wrong-result", "the context ended first: expected its error")
		}
		return nil
	}
	if o.ctxAt < 0 || o.ctxAt > c.D {
		if o.res != "nil" {
			return mk("sleep-d-first-wrong-result", "d elapsed before the context ended: expected nil")
		}
	}
	return nil
}

func (c SleepCase) deadlineText() string {
	dl, ok := c.deadline()
	switch {
	case !ok:
		return "none"
	case c.DeadlineZero:
		return "time.Time{} (time.Until saturates at MinInt64)"
	case dl < 0:
		return dur(-dl) + " ago"
	}
	return dur(dl)
}

func sleepLine(c SleepCase, o sleepObs) string {
	dl, ca := "-", "-"
	if d, ok := c.deadline(); ok {
		dl = fmt.Sprint(d)
	}
	if o.ctxAt >= 0 {
		ca = fmt.Sprint(o.ctxAt)
	}
	return fmt.Sprintf("sleep %d %s %s %s %d", c.D, dl, ca, o.res, o.elapsed)
}

// ---------------------------------------------------------------------------------------------
// JitterTicker

type tickerRun struct {
	lines []string // model protocol
	fail  *fail    // first monitor failure
	ticks int
	raced bool
}

type paramSet struct {
	at   int64
	d, j int64
}

func validParams(d, j int64) bool { return d > 0 && j >= 0 && j < d }

// sumOverflows: d + jitter does not fit into a Duration (for documented arguments: jitter > MaxInt64 - d).
// That is the input class of D21: the largest interval the ticker may draw, d + jitter, is not
// representable, and for jitter >= 2^62 neither is 2*jitter + 1.
func sumOverflows(d, j int64) bool { return d > 0 && j >= 0 && j > math.MaxInt64-d }

// tickerParams: the (small, stable) parameters of a ticker failure.
func tickerParams(d, j int64) map[string]interface{} {
	p := map[string]interface{}{"jitter_zero": j == 0}
	if sumOverflows(d, j) {
		p["d_plus_jitter_overflows"] = true
	}
	return p
}

func runTicker(t *testing.T, steps []TStep, seed int64) tickerRun {
	var r tickerRun
	synctest.Test(t, func(t *testing.T) {
		rand.Seed(seed)
		start := time.Now()
		now := func() int64 { return int64(time.Since(start)) }
		var tk *xtime.JitterTicker
		var hist []paramSet
		alive := false   // created, not panicked
		stopped := false // Stop returned (and the channel was drained), no Reset since
		var lastTick int64 = -1
		settled := true
		setFail := func(kind string, p map[string]interface{}, what string) {
			if r.fail == nil {
				r.fail = &fail{kind, p, what}
			}
		}
		var poll func(drainAfterStop bool)
		var got *time.Time // a tick handed over by "collect"
		// collect: a helper goroutine receives until the bubble is quiescent
		collect := func() {
			var mu sync.Mutex
			var ticks []time.Time
			quit, done := make(chan struct{}), make(chan struct{})
			go func() {
				defer close(done)
				for {
					select {
					case v := <-tk.C:
						mu.Lock()
						ticks = append(ticks, v)
						mu.Unlock()
					case <-quit:
						return
					}
				}
			}()
			synctest.Wait()
			close(quit)
			<-done
			for i := range ticks {
				if i >= 8 {
					break
				}
				got = &ticks[i]
				poll(false)
			}
			got = nil
			r.lines = append(r.lines, "settle")
			settled = true
		}
		poll = func(drainAfterStop bool) {
			var in <-chan time.Time = tk.C
			if got != nil {
				c := make(chan time.Time, 1)
				c <- *got
				in = c
			}
			select {
			case v := <-in:
				ts := int64(v.Sub(start))
				r.lines = append(r.lines, fmt.Sprintf("poll tick %d", ts))
				r.ticks++
				if stopped && !drainAfterStop {
					setFail("ticker-tick-after-stop", map[string]interface{}{"jitter_zero": hist[len(hist)-1].j == 0},
						fmt.Sprintf("a tick (timestamp %s) arrived after Stop had returned and the channel had been drained", dur(ts)))
				}
				if lastTick >= 0 {
					// the parameters that can have been in force when this tick was sent
					var minGap int64 = -1
					var pd, pj int64
					ovf := false
					for i, h := range hist {
						if h.at <= ts && (i == len(hist)-1 || hist[i+1].at >= ts) {
							if g := h.d - h.j; minGap < 0 || g < minGap {
								minGap, pd, pj = g, h.d, h.j
							}
							ovf = ovf || sumOverflows(h.d, h.j)
						}
					}
					if minGap >= 0 && ts-lastTick < minGap {
						fp := tickerParams(pd, pj)
						if ovf { // one of the parameter sets that can have been in force is of the D21 class
							fp["d_plus_jitter_overflows"] = true
						}
						setFail("ticker-spacing", fp,
							fmt.Sprintf("consecutive ticks at %s and %s are %s apart, less than d - jitter = %s - %s",
								dur(lastTick), dur(ts), dur(ts-lastTick), dur(pd), dur(pj)))
					}
				}
				lastTick = ts
			default:
				r.lines = append(r.lines, "poll empty")
			}
		}
		for _, st := range steps {
			switch st.Op {
			case "new":
				if tk != nil {
					continue
				}
				var nt *xtime.JitterTicker
				p, pv := vlib.Try(func() { nt = xtime.NewJitterTicker(time.Duration(st.A), time.Duration(st.B)) })
				if p {
					r.lines = append(r.lines, fmt.Sprintf("new %d %d panic", st.A, st.B))
					if validParams(st.A, st.B) {
						setFail("ticker-panic-new", tickerParams(st.A, st.B),
							fmt.Sprintf("NewJitterTicker(%s, %s) panicked: %v", dur(st.A), dur(st.B), pv))
					}
				} else {
					r.lines = append(r.lines, fmt.Sprintf("new %d %d ok", st.A, st.B))
					if !validParams(st.A, st.B) && (st.A <= 0 || st.B >= st.A) {
						setFail("ticker-missing-documented-panic-new", map[string]interface{}{"d_positive": st.A > 0},
							fmt.Sprintf("NewJitterTicker(%s, %s) did not panic although documented to", dur(st.A), dur(st.B)))
					}
					tk, alive = nt, true
					hist = append(hist, paramSet{now(), st.A, st.B})
				}
			case "sleep":
				if st.A > 0 {
					time.Sleep(time.Duration(st.A))
					r.lines = append(r.lines, fmt.Sprintf("adv %d", st.A))
					settled = false
				}
			case "wait":
				synctest.Wait()
				r.lines = append(r.lines, "settle")
				settled = true
			case "poll":
				if alive {
					poll(false)
				}
			case "collect":
				if alive {
					collect()
				}
			case "reset":
				if !alive {
					continue
				}
				if !settled {
					r.raced = true
				}
				p, pv := vlib.Try(func() { tk.Reset(time.Duration(st.A), time.Duration(st.B)) })
				if p {
					r.lines = append(r.lines, fmt.Sprintf("reset %d %d panic", st.A, st.B))
					if validParams(st.A, st.B) {
						setFail("ticker-panic-reset", tickerParams(st.A, st.B),
							fmt.Sprintf("Reset(%s, %s) panicked: %v", dur(st.A), dur(st.B), pv))
						alive = false // the mutex may be held forever
					}
				} else {
					r.lines = append(r.lines, fmt.Sprintf("reset %d %d ok", st.A, st.B))
					if !validParams(st.A, st.B) && (st.A <= 0 || st.B >= st.A) {
						setFail("ticker-missing-documented-panic-reset", map[string]interface{}{"d_positive": st.A > 0},
							fmt.Sprintf("Reset(%s, %s) did not panic although documented to", dur(st.A), dur(st.B)))
					}
					hist = append(hist, paramSet{now(), st.A, st.B})
					stopped = false
				}
			case "stop":
				if !alive || stopped {
					continue // Stop on a stopped ticker is outside the documented protocol (notes/C20.md)
				}
				if !settled {
					r.raced = true
				}
				p, pv := vlib.Try(func() { tk.Stop() })
				if p {
					r.lines = append(r.lines, "stop panic")
					setFail("ticker-panic-stop", map[string]interface{}{}, fmt.Sprintf("Stop panicked: %v", pv))
					alive = false
				} else {
					r.lines = append(r.lines, "stop ok")
					poll(true)
					stopped = true
				}
			}
		}
		if alive && !stopped {
			vlib.Try(func() { tk.Stop() })
		}
		synctest.Wait()
	})
	return r
}

// ---------------------------------------------------------------------------------------------
// real-time phase (outside synctest bubbles)
//
// Under virtual time a timer callback is never late, so behaviour that depends on lateness ("catching up"
// after a late tick) cannot show in any bubble. The phase below runs a JitterTicker on the real clock and
// provokes lateness on purpose: GOMAXPROCS(1), and after receiving a tick the receiving goroutine spins
// for several periods without yielding, so the only P cannot run the timer callback that falls due
// meanwhile. The verdict can only be a true positive: a tick carries the time.Now() of its send
// (`case t.c <- time.Now()`), the next timer is armed after that with `next >= d - jitter`, timers never
// fire early and time.Now is monotone - so on a correct implementation the timestamps carried by two
// consecutive ticks are never less than d - jitter apart, however loaded or starved the machine is
// (lateness and dropped ticks - the channel holds one tick, a send that finds it full is skipped - only
// widen the gaps). The clock bounds the number of rounds, never a verdict.

// RealCase is one real-time configuration. Seen is filled in when the configuration failed.
type RealCase struct {
	D      int64     `json:"d"`               // period, ns
	Jitter int64     `json:"jitter"`          // ns
	Spin   int64     `json:"spin,omitempty"`  // busy-spin after the first tick of a round, ns
	Ticks  int       `json:"ticks,omitempty"` // ticks received after the spin, per round
	Gmp    int       `json:"gmp,omitempty"`   // GOMAXPROCS during the run (0 = leave alone)
	Rounds int       `json:"rounds"`          // rounds of a replay
	Seen   *RealSeen `json:"seen,omitempty"`
}

// RealSeen: the evidence. T1 / T2 are the timestamps carried by the two ticks, in ns since the
// configuration's ticker was created.
type RealSeen struct {
	Round int   `json:"round"`
	T1    int64 `json:"t1"`
	T2    int64 `json:"t2"`
	Gap   int64 `json:"gap"`
}

type realStats struct {
	rounds, ticks, lateRounds, noTick int
}

// spin busy-waits without yielding (no channel operation, no sleep, no function that parks).
func spin(d time.Duration) {
	t0 := time.Now()
	for time.Since(t0) < d {
	}
}

// runTickerReal: rounds of "receive a tick, spin, receive Ticks more"; every pair of consecutive ticks
// is judged by the timestamps they carry.
func runTickerReal(rc RealCase, maxRounds int, until time.Time) (*fail, *RealSeen, realStats) {
	var st realStats
	var badSeen *RealSeen
	if rc.Gmp > 0 {
		old := runtime.GOMAXPROCS(rc.Gmp)
		defer runtime.GOMAXPROCS(old)
	}
	d, j := time.Duration(rc.D), time.Duration(rc.Jitter)
	var tk *xtime.JitterTicker
	if p, pv := vlib.Try(func() { tk = xtime.NewJitterTicker(d, j) }); p {
		return &fail{"ticker-panic-new", map[string]interface{}{"jitter_zero": rc.Jitter == 0, "phase": "real-time"},
			fmt.Sprintf("NewJitterTicker(%s, %s) panicked: %v", d, j, pv)}, nil, st
	}
	defer vlib.Try(func() { tk.Stop() })
	start := time.Now()
	guard := time.NewTimer(time.Hour)
	defer guard.Stop()
	var last time.Time
	have := false
	var bad *fail
	// recv returns false when no tick arrives for 200 periods + 2s: the ticker is dead (not a verdict of
	// this phase - the virtual-time scenarios judge that), the phase ends
	recv := func(round int) bool {
		guard.Reset(200*d + 2*time.Second)
		select {
		case v := <-tk.C:
			st.ticks++
			if have {
				gap := v.Sub(last)
				if gap < d-j && bad == nil {
					seen := &RealSeen{Round: round, T1: int64(last.Sub(start)), T2: int64(v.Sub(start)), Gap: int64(gap)}
					bad = &fail{"ticker-spacing-real-time", map[string]interface{}{"jitter_zero": rc.Jitter == 0},
						fmt.Sprintf("real clock, JitterTicker(%s, %s), GOMAXPROCS %d, receiver busy for %s after a tick: in round %d two consecutive ticks carry the timestamps +%s and +%s (since the ticker was created), %s apart - less than d - jitter = %s",
							d, j, runtime.GOMAXPROCS(-1), time.Duration(rc.Spin), round, time.Duration(seen.T1), time.Duration(seen.T2), gap, d-j)}
					badSeen = seen
				}
				if gap >= 2*(d+j) {
					st.lateRounds++ // a callback ran at least a full period late
				}
			}
			last, have = v, true
			return true
		case <-guard.C:
			st.noTick++
			return false
		}
	}
	for round := 0; round < maxRounds && bad == nil && (round < 2 || time.Now().Before(until)); round++ {
		st.rounds++
		if !recv(round) {
			break
		}
		if rc.Spin > 0 {
			spin(time.Duration(rc.Spin))
		}
		for i := 0; i < rc.Ticks && bad == nil; i++ {
			if !recv(round) {
				return bad, badSeen, st
			}
		}
	}
	return bad, badSeen, st
}

// runStopReal: "no tick is sent after Stop returns" on the real clock with real threads: Stop is called
// about when the timer falls due (spinning up to the due instant of a jitter-free ticker), the channel is
// drained at once - a tick found there was sent before Stop returned -, and whatever arrives in the
// following periods was sent after Stop had returned: a true positive whatever the scheduling.
func runStopReal(rc RealCase, maxRounds int, until time.Time) (*fail, realStats) {
	var st realStats
	d, j := time.Duration(rc.D), time.Duration(rc.Jitter)
	guard := time.NewTimer(time.Hour)
	defer guard.Stop()
	for round := 0; round < maxRounds && (round < 2 || time.Now().Before(until)); round++ {
		st.rounds++
		var tk *xtime.JitterTicker
		if p, _ := vlib.Try(func() { tk = xtime.NewJitterTicker(d, j) }); p {
			return nil, st
		}
		guard.Reset(200*d + 2*time.Second)
		var v time.Time
		select {
		case v = <-tk.C:
			st.ticks++
		case <-guard.C:
			st.noTick++
			vlib.Try(func() { tk.Stop() })
			return nil, st
		}
		// aim at the instant the next timer falls due, a little earlier or later from round to round
		aim := v.Add(d - j + time.Duration(round%7-3)*d/40)
		for time.Now().Before(aim) {
		}
		if p, pv := vlib.Try(func() { tk.Stop() }); p {
			return &fail{"ticker-panic-stop", map[string]interface{}{"phase": "real-time"}, fmt.Sprintf("Stop panicked: %v", pv)}, st
		}
		select {
		case <-tk.C: // sent before Stop returned
		default:
		}
		time.Sleep(3 * (d + j))
		select {
		case late := <-tk.C:
			return &fail{"ticker-tick-after-stop-real-time", map[string]interface{}{"jitter_zero": rc.Jitter == 0},
				fmt.Sprintf("real clock, JitterTicker(%s, %s): in round %d a tick (timestamp %s after the previous one) arrived after Stop had returned and the channel had been drained",
					d, j, round, late.Sub(v))}, st
		default:
		}
	}
	return nil, st
}

// runSleepReal: the clauses of SleepContext that hold on the real clock whatever the load: nil only after
// at least d (the timer never fires early), DeadlineTooSoonError for a deadline that is certainly closer
// than d (already passed, the zero time, or an hour away against d = MaxInt64).
func runSleepReal() *fail {
	mk := func(kind, what string) *fail {
		return &fail{kind, map[string]interface{}{}, "real clock: " + what}
	}
	for _, d := range []time.Duration{50 * time.Microsecond, time.Millisecond, 3 * time.Millisecond} {
		t0 := time.Now()
		var err error
		if p, pv := vlib.Try(func() { err = xtime.SleepContext(context.Background(), d) }); p {
			return mk("sleep-panic", fmt.Sprintf("SleepContext(background, %s) panicked: %v", d, pv))
		}
		if el := time.Since(t0); err == nil && el < d {
			return mk("sleep-nil-before-d-real-time", fmt.Sprintf("SleepContext(background, %s) returned nil after %s", d, el))
		}
	}
	type shape struct {
		name string
		at   func() time.Time
		d    time.Duration
	}
	for _, sh := range []shape{
		{"a deadline one minute ago, d = 1s", func() time.Time { return time.Now().Add(-time.Minute) }, time.Second},
		{"a deadline one minute ago, d = MaxInt64", func() time.Time { return time.Now().Add(-time.Minute) }, math.MaxInt64},
		{"the deadline time.Time{}, d = 1ns", func() time.Time { return time.Time{} }, 1},
		{"the deadline time.Time{}, d = 1h", func() time.Time { return time.Time{} }, time.Hour},
		{"a deadline in one hour, d = MaxInt64", func() time.Time { return time.Now().Add(time.Hour) }, math.MaxInt64},
		{"a deadline in one hour, d = 2h", func() time.Time { return time.Now().Add(time.Hour) }, 2 * time.Hour},
	} {
		ctx, cf := context.WithDeadline(context.Background(), sh.at())
		var err error
		p, pv := vlib.Try(func() { err = xtime.SleepContext(ctx, sh.d) })
		cf()
		if p {
			return mk("sleep-panic", fmt.Sprintf("SleepContext with %s panicked: %v", sh.name, pv))
		}
		var ts xtime.DeadlineTooSoonError
		if !errors.As(err, &ts) {
			return mk("sleep-toosoon-missing-real-time", fmt.Sprintf("SleepContext with %s returned %v: the deadline is closer than d, expected DeadlineTooSoonError", sh.name, err))
		}
	}
	return nil
}

// realConfigs: (d, jitter, spin): the spin covers two to four periods and stays below the 10ms after
// which the runtime preempts a running goroutine.
func realConfigs() []RealCase {
	return []RealCase{
		{D: 3 * ms, Jitter: 1 * ms, Spin: 9 * ms, Ticks: 3, Gmp: 1, Rounds: 200},
		{D: 2 * ms, Jitter: 0, Spin: 7 * ms, Ticks: 2, Gmp: 1, Rounds: 200},
		{D: 4 * ms, Jitter: 3 * ms, Spin: 9 * ms, Ticks: 3, Gmp: 1, Rounds: 200},
		{D: 1 * ms, Jitter: ms / 2, Spin: 5 * ms, Ticks: 4, Gmp: 1, Rounds: 200},
	}
}

// realPhase runs the real-time scenarios for about `budget` of wall time.
func (x *runner) realPhase(budget time.Duration) {
	res := x.res
	if f := runSleepReal(); f != nil {
		res.Count("monitor-failure." + f.kind)
		res.Fail(vlib.Failure{Source: "monitor", Kind: f.kind, Params: f.params, What: f.what, Case: Case{Kind: "sleep-real"}})
	}
	res.Count("case.sleep-real")
	if f := runSleepsReal(24); f != nil {
		res.Count("monitor-failure." + f.kind)
		res.Fail(vlib.Failure{Source: "monitor", Kind: f.kind, Params: f.params, What: f.what, Case: Case{Kind: "sleeps-real"}})
	}
	res.Case("sleeps-real", true, nil)
	res.Count("case.sleeps-real")
	cfgs := realConfigs()
	slice := budget * 3 / 4 / time.Duration(len(cfgs))
	for _, rc := range cfgs {
		f, seen, st := runTickerReal(rc, 1<<30, time.Now().Add(slice))
		res.CountN("real-ticker-rounds", st.rounds)
		res.CountN("real-ticker-ticks", st.ticks)
		res.CountN("real-ticker-callbacks-a-period-late", st.lateRounds)
		res.CountN("real-ticker-no-tick", st.noTick)
		c := Case{Kind: "ticker-real", Real: &rc, NoModel: true}
		res.Case(fmt.Sprintf("ticker-real %d %d %d", rc.D, rc.Jitter, rc.Spin), st.lateRounds > 0, nil)
		if f == nil {
			continue
		}
		res.Count("monitor-failure." + f.kind)
		// shrink: the same configuration reading a single tick after the spin
		small := rc
		small.Ticks = 1
		if f2, seen2, _ := runTickerReal(small, 60, time.Now().Add(2*time.Second)); f2 != nil && f2.kind == f.kind {
			rc, f, seen = small, f2, seen2
		}
		rc.Seen = seen
		c.Real = &rc
		res.Fail(vlib.Failure{Source: "monitor", Kind: f.kind, Params: f.params, What: f.what, Case: c})
		break
	}
	rc := RealCase{D: ms / 2, Jitter: 0, Rounds: 2000}
	f, st := runStopReal(rc, 1<<30, time.Now().Add(budget/4))
	res.CountN("real-stop-rounds", st.rounds)
	res.Case("stop-real", st.rounds > 0, nil)
	if f != nil {
		res.Count("monitor-failure." + f.kind)
		res.Fail(vlib.Failure{Source: "monitor", Kind: f.kind, Params: f.params, What: f.what, Case: Case{Kind: "stop-real", Real: &rc, NoModel: true}})
	}
}

// replayReal re-runs a real-time case.
func replayReal(c Case) *fail {
	switch c.Kind {
	case "sleep-real":
		return runSleepReal()
	case "sleeps-real":
		return runSleepsReal(400)
	case "stop-real":
		f, _ := runStopReal(*c.Real, c.Real.Rounds, time.Now().Add(20*time.Second))
		return f
	}
	rc := *c.Real
	rc.Seen = nil
	f, _, _ := runTickerReal(rc, c.Real.Rounds, time.Now().Add(20*time.Second))
	return f
}

// ---------------------------------------------------------------------------------------------
// generators

const (
	ms   = int64(time.Millisecond)
	sec  = int64(time.Second)
	hour = int64(time.Hour)
)

func genSleep(r *vlib.Rand) SleepCase {
	ds := []int64{math.MinInt64, -hour, -7, -1, 0, 0, 1, 2, 3, 5, 10, 1000, ms, 20 * ms, sec, hour}
	d := ds[r.Intn(len(ds))]
	c := SleepCase{D: d, Deadline: -1, CancelAt: -1}
	if r.Chance(1, 6) {
		return genSleepExtreme(r)
	}
	base := d
	if base <= 0 {
		base = 5
	}
	near := func() int64 {
		switch r.Intn(9) {
		case 0:
			return 0
		case 1:
			return 1
		case 2:
			return base / 2
		case 3:
			return base - 1
		case 4:
			return base
		case 5:
			return base + 1
		case 6:
			return base * 10
		case 7:
			return hour + base
		}
		return int64(r.Intn(int(min64(2*base, 1<<30)) + 1))
	}
	ago := func() int64 { return []int64{1, 2, base, sec, hour}[r.Intn(5)] }
	switch r.Intn(7) {
	case 0: // no context events
	case 1:
		c.Deadline = near()
	case 2:
		c.CancelAt = near()
	case 3:
		c.Deadline, c.CancelAt = near(), near()
	case 4:
		c.CancelAt = 0
		if r.Bool() {
			c.Deadline = near()
		}
	case 5: // the deadline has already passed
		c.DeadlineAgo = ago()
	case 6: // ... and the context was cancelled as well (before or, pointlessly, later)
		c.DeadlineAgo = ago()
		c.CancelAt = []int64{0, 0, 1, base}[r.Intn(4)]
	}
	// one case in three: the same shape built with the cause-carrying constructors
	if r.Chance(1, 3) {
		c.Cause = []string{"cancel", "parent"}[r.Intn(2)]
	}
	return c
}

// extreme magnitudes. A call that really sleeps for d close to MaxInt64 cannot be judged (start + d is
// beyond what the runtime's clock can express), so the huge d are combined only with contexts under which
// SleepContext has to return at once or when the context ends: a deadline closer than d (passed by 1ns ..
// MaxInt64, the zero time, now, live in an hour), or a cancellation.
const maxDur = int64(math.MaxInt64)

var extremeD = []int64{1, 2, 1000, hour, maxDur / 2, maxDur - 1, maxDur}

func extremeShapes(d int64) []namedSleep {
	out := []namedSleep{}
	add := func(name string, c SleepCase) {
		c.D = d
		out = append(out, namedSleep{name, c})
	}
	for _, ago := range []int64{1, 60 * sec, maxDur / 2, maxDur - 1, maxDur} {
		n := "deadline-passed-" + dur(ago)
		add(n, SleepCase{Deadline: -1, CancelAt: -1, DeadlineAgo: ago})
		add(n+"-cancelled", SleepCase{Deadline: -1, CancelAt: 0, DeadlineAgo: ago})
		add(n+"-done-lags", SleepCase{Deadline: -1, CancelAt: -1, DeadlineAgo: ago, LagDone: true})
	}
	add("deadline-zero-time", SleepCase{Deadline: -1, CancelAt: -1, DeadlineZero: true})
	add("deadline-zero-time-cancelled", SleepCase{Deadline: -1, CancelAt: 0, DeadlineZero: true})
	add("deadline-zero-time-done-lags", SleepCase{Deadline: -1, CancelAt: -1, DeadlineZero: true, LagDone: true})
	add("deadline-now", SleepCase{Deadline: 0, CancelAt: -1})
	add("deadline-now-done-lags", SleepCase{Deadline: 0, CancelAt: -1, LagDone: true})
	add("cancelled", SleepCase{Deadline: -1, CancelAt: 0})
	add("cancelled-later", SleepCase{Deadline: -1, CancelAt: 5})
	if d > hour {
		add("live-deadline-1h", SleepCase{Deadline: hour, CancelAt: -1})
		add("live-deadline-1h-cancelled", SleepCase{Deadline: hour, CancelAt: 0})
		add("live-deadline-1h-done-lags", SleepCase{Deadline: hour, CancelAt: -1, LagDone: true})
		add("live-deadline-just-inside", SleepCase{Deadline: d - 1, CancelAt: -1, LagDone: true})
	} else {
		// a deadline as far away as a Duration can say: never closer than d
		add("live-deadline-far-future", SleepCase{Deadline: maxDur, CancelAt: -1})
		add("live-deadline-far-future-cancelled-later", SleepCase{Deadline: maxDur, CancelAt: d / 2})
		add("done-lags-deadline-not-closer", SleepCase{Deadline: d, CancelAt: -1, LagDone: true})
	}
	return out
}

func genSleepExtreme(r *vlib.Rand) SleepCase {
	d := extremeD[r.Intn(len(extremeD))]
	if r.Chance(1, 4) {
		d = maxDur - int64(r.Intn(1000))
	}
	sh := extremeShapes(d)
	c := sh[r.Intn(len(sh))].c
	if c.DeadlineAgo > 1000 && r.Chance(1, 3) {
		c.DeadlineAgo -= int64(r.Intn(1000))
	}
	return c
}

// nonPositiveShapes: the context shapes crossed with d <= 0 (D is filled in by the caller).
type namedSleep struct {
	name string
	c    SleepCase
}

func nonPositiveShapes() []namedSleep {
	return []namedSleep{
		{"deadline-zero-time", SleepCase{Deadline: -1, CancelAt: -1, DeadlineZero: true}},
		{"deadline-passed-max", SleepCase{Deadline: -1, CancelAt: -1, DeadlineAgo: math.MaxInt64}},
		{"deadline-passed-done-lags", SleepCase{Deadline: -1, CancelAt: -1, DeadlineAgo: 1, LagDone: true}},
		{"live-far-future-deadline", SleepCase{Deadline: math.MaxInt64, CancelAt: -1}},
		{"none", SleepCase{Deadline: -1, CancelAt: -1}},
		{"live-far-deadline", SleepCase{Deadline: hour, CancelAt: -1}},
		{"live-near-deadline", SleepCase{Deadline: 1, CancelAt: -1}},
		{"live-cancelled-later", SleepCase{Deadline: -1, CancelAt: 5}},
		{"deadline-now", SleepCase{Deadline: 0, CancelAt: -1}},
		{"deadline-passed-1ns", SleepCase{Deadline: -1, CancelAt: -1, DeadlineAgo: 1}},
		{"deadline-passed-1s", SleepCase{Deadline: -1, CancelAt: -1, DeadlineAgo: sec}},
		{"cancelled", SleepCase{Deadline: -1, CancelAt: 0}},
		{"cancelled-far-deadline", SleepCase{Deadline: hour, CancelAt: 0}},
		{"cancelled-deadline-passed", SleepCase{Deadline: -1, CancelAt: 0, DeadlineAgo: sec}},
	}
}

func min64(a, b int64) int64 {
	if a < b {
		return a
	}
	return b
}

func genParams(r *vlib.Rand, maxD int) (int64, int64) {
	d := int64(r.Range(1, maxD))
	var j int64
	switch r.Intn(4) {
	case 0:
		j = 0
	case 1:
		j = d - 1
	default:
		j = int64(r.Intn(int(d)))
	}
	return d, j
}

// genTicker makes a small-duration script (the model enumerates every rand value).
func genTicker(r *vlib.Rand) []TStep {
	d, j := genParams(r, 6)
	steps := []TStep{{Op: "new", A: d, B: j}}
	n := r.Range(3, 12)
	for i := 0; i < n; i++ {
		switch r.Pick(5, 3, 2, 2, 2) {
		case 0: // let time pass to a quiescent point and look
			steps = append(steps, TStep{Op: "sleep", A: int64(r.Range(1, int(d+j)+1))}, TStep{Op: "wait"}, TStep{Op: "poll"})
		case 1: // let time pass and act at once: races with a timer firing at that instant
			steps = append(steps, TStep{Op: "sleep", A: int64(r.Range(int(d-j), int(d+j)))})
			switch r.Intn(3) {
			case 0:
				steps = append(steps, TStep{Op: "stop"})
			case 1:
				nd, nj := genParams(r, 6)
				steps = append(steps, TStep{Op: "reset", A: nd, B: nj})
			case 2:
				steps = append(steps, TStep{Op: "poll"})
			}
			steps = append(steps, TStep{Op: "wait"}, TStep{Op: "poll"})
		case 2:
			nd, nj := genParams(r, 6)
			d, j = nd, nj
			steps = append(steps, TStep{Op: "reset", A: nd, B: nj})
		case 3:
			steps = append(steps, TStep{Op: "stop"}, TStep{Op: "sleep", A: int64(r.Range(1, int(3*d)))}, TStep{Op: "wait"}, TStep{Op: "poll"})
		case 4:
			steps = append(steps, TStep{Op: "poll"})
		}
	}
	steps = append(steps, TStep{Op: "stop"}, TStep{Op: "sleep", A: 2*d + 2*j + 1}, TStep{Op: "wait"}, TStep{Op: "poll"})
	return steps
}

// gridTicker: one (d, jitter) configuration, ticks collected at quiescent points, then Stop or Reset
// exactly `at` after a quiescent point (for jitter = 0 and at = d that is the firing instant).
func gridTicker(d, j int64, at int64, op string) []TStep {
	steps := []TStep{{Op: "new", A: d, B: j}}
	for i := 0; i < 4; i++ {
		steps = append(steps, TStep{Op: "sleep", A: d + j}, TStep{Op: "wait"}, TStep{Op: "poll"})
	}
	steps = append(steps, TStep{Op: "sleep", A: at})
	switch op {
	case "stop":
		steps = append(steps, TStep{Op: "stop"})
	case "reset":
		steps = append(steps, TStep{Op: "reset", A: d, B: j})
	}
	steps = append(steps, TStep{Op: "wait"}, TStep{Op: "poll"}, TStep{Op: "sleep", A: 2 * (d + j)}, TStep{Op: "wait"}, TStep{Op: "poll"},
		TStep{Op: "stop"}, TStep{Op: "sleep", A: 2 * (d + j)}, TStep{Op: "wait"}, TStep{Op: "poll"})
	return steps
}

// bigTicker: realistic durations (monitors only).
func bigTicker(r *vlib.Rand) []TStep {
	ds := []int64{1000, ms, 5 * ms, sec, hour}
	d := ds[r.Intn(len(ds))]
	js := []int64{0, 1, d / 2, d - 1, d / 10}
	j := js[r.Intn(len(js))]
	steps := []TStep{{Op: "new", A: d, B: j}}
	for i := 0; i < r.Range(2, 8); i++ {
		steps = append(steps, TStep{Op: "sleep", A: d - j + int64(r.Intn(int(min64(2*j+1, 1<<30))))}, TStep{Op: "poll"}, TStep{Op: "wait"}, TStep{Op: "poll"})
		if r.Chance(1, 5) {
			nd := ds[r.Intn(len(ds))]
			njs := []int64{0, 1, nd / 2, nd - 1}
			d, j = nd, njs[r.Intn(len(njs))]
			steps = append(steps, TStep{Op: "reset", A: d, B: j})
		}
	}
	steps = append(steps, TStep{Op: "stop"}, TStep{Op: "sleep", A: 3 * d}, TStep{Op: "wait"}, TStep{Op: "poll"})
	return steps
}

// extremePairs: documented arguments (d > 0, 0 <= jitter < d) at the int64 boundaries: 2*jitter + 1 and
// d + jitter at, just below and beyond MaxInt64 (D21).
func extremePairs() [][2]int64 {
	const p62 = int64(1) << 62
	return [][2]int64{
		{maxDur, maxDur - 1}, {p62 + 1, p62}, {p62, p62 - 1}, {maxDur, p62 >> 1}, {maxDur, 0}, {maxDur - 1, 1},
		{p62 + 5, p62 - 3}, {maxDur, 1}, {maxDur, p62 - 1}, {maxDur, p62}, {p62 + 10, p62}, {maxDur - 1, p62 + 7},
		{maxDur - 2, 2}, {maxDur, 2}, {p62 + p62>>1, p62 - 1}, {p62 + p62>>1, p62>>1 + 1},
	}
}

// extremeTicker: a ticker created with (or Reset to) a pair of extremePairs, then observed WITHOUT letting
// the clock run (a correct ticker's first tick is at least d - jitter away, which for these pairs is up to
// 292 years; the virtual clock, which starts in the year 2000, cannot go that far). What can be seen at
// once: a panic, and ticks that arrive although no time has passed ("collect" receives them one after the
// other) - each of them less than d - jitter after its predecessor.
func extremeTicker(d, j int64, viaReset bool, tail int64) []TStep {
	var steps []TStep
	if viaReset {
		steps = append(steps, TStep{Op: "new", A: 1000, B: 1}, TStep{Op: "collect"}, TStep{Op: "reset", A: d, B: j})
	} else {
		steps = append(steps, TStep{Op: "new", A: d, B: j})
	}
	steps = append(steps, TStep{Op: "collect"}, TStep{Op: "wait"}, TStep{Op: "poll"})
	if tail > 0 { // d - jitter is small: let a few periods pass as well
		for i := 0; i < 3; i++ {
			steps = append(steps, TStep{Op: "sleep", A: tail}, TStep{Op: "wait"}, TStep{Op: "poll"})
		}
	}
	return append(steps, TStep{Op: "stop"}, TStep{Op: "wait"}, TStep{Op: "poll"})
}

// malformedTicker: arguments outside the documented domain (documented panics only).
func malformedTicker(r *vlib.Rand) []TStep {
	bad := func() (int64, int64) {
		switch r.Intn(4) {
		case 0:
			return 0, 0
		case 1:
			return -int64(r.Range(1, 5)), 0
		case 2:
			d := int64(r.Range(1, 6))
			return d, d
		}
		d := int64(r.Range(1, 6))
		return d, d + int64(r.Range(1, 4))
	}
	if r.Bool() {
		d, j := bad()
		return []TStep{{Op: "new", A: d, B: j}}
	}
	d, j := genParams(r, 6)
	bd, bj := bad()
	return []TStep{{Op: "new", A: d, B: j}, {Op: "sleep", A: d}, {Op: "wait"}, {Op: "reset", A: bd, B: bj}, {Op: "sleep", A: 2 * d}, {Op: "wait"}, {Op: "poll"}}
}

// ---------------------------------------------------------------------------------------------
// driving

func dur(n int64) string {
	if n > -1000 && n < 1000 {
		return fmt.Sprintf("%dns", n)
	}
	return time.Duration(n).String()
}

func durOrNone(n int64) string {
	if n < 0 {
		return "none"
	}
	return dur(n)
}

// watchdog: a case that does not finish within 20 s of real time (under virtual time every case takes
// milliseconds) means the code under test livelocks or deadlocks inside the bubble. The process cannot
// recover from that; the result so far plus the hanging case (as a broken tie, with the case) is
// written and the process exits.
type watchdog struct {
	mu    sync.Mutex
	cur   *Case
	since time.Time
}

func (w *watchdog) enter(c Case) {
	w.mu.Lock()
	w.cur, w.since = &c, time.Now()
	w.mu.Unlock()
}

func (w *watchdog) leave() {
	w.mu.Lock()
	w.cur = nil
	w.mu.Unlock()
}

func (w *watchdog) watch(res *vlib.Result, out string) {
	for {
		time.Sleep(500 * time.Millisecond)
		w.mu.Lock()
		c, since := w.cur, w.since
		w.mu.Unlock()
		if c != nil && time.Since(since) > 120*time.Second {
			res.Fail(vlib.Failure{Source: "correspondence", Kind: "case-hangs", Params: map[string]interface{}{},
				What: "the case did not finish: the code under test livelocks or deadlocks under virtual time (the model terminates on it)", Case: *c})
			res.Write(out)
			fmt.Println("watchdog: case hangs:", c.String())
			os.Exit(0)
		}
	}
}

type runner struct {
	wd    *watchdog
	t     *testing.T
	env   vlib.Env
	res   *vlib.Result
	model *vlib.Model
	// pending model work: cases and their protocol lines
	mCases []Case
	mLines [][]string
	probe  map[[2]int64]bool
}

// evalCase runs the case once on the real code; returns the monitor failure (if any) and the
// model lines.
func (x *runner) evalCase(c Case) (*fail, []string, bool) {
	if x.wd != nil {
		x.wd.enter(c)
		defer x.wd.leave()
	}
	switch c.Kind {
	case "sleep":
		o := runSleep(x.t, *c.Sleep)
		return monitorSleep(*c.Sleep, o), []string{sleepLine(*c.Sleep, o)}, c.Sleep.D > 0
	case "sleeps":
		obs := runSleeps(x.t, c.Multi)
		return monitorSleeps(c.Multi, obs), sleepsLines(c.Multi, obs), len(c.Multi) >= 2
	case "ticker":
		tr := runTicker(x.t, c.Steps, c.Seed)
		return tr.fail, tr.lines, tr.ticks >= 2 || tr.raced
	}
	return nil, nil, false
}

// resetPanics probes, in a settled state with no goroutine in flight, whether Reset(d, j) panics.
// A Reset that panics inside schedule() leaves the ticker's mutex locked; if that happened while a
// timer goroutine was in flight the bubble could never settle. Scripts whose Reset would panic are
// therefore cut down to the settled form (which records the failure).
func (x *runner) resetPanics(d, j int64) bool {
	k := [2]int64{d, j}
	if v, ok := x.probe[k]; ok {
		return v
	}
	tr := runTicker(x.t, []TStep{{Op: "new", A: 1 << 20, B: 1}, {Op: "wait"}, {Op: "reset", A: d, B: j}}, 1)
	v := tr.fail != nil || len(tr.lines) < 3 || !strings.HasSuffix(tr.lines[2], " ok")
	if x.probe == nil {
		x.probe = map[[2]int64]bool{}
	}
	x.probe[k] = v
	return v
}

func (x *runner) safe(c Case) Case {
	if c.Kind != "ticker" {
		return c
	}
	for i, st := range c.Steps {
		if st.Op == "reset" && validParams(st.A, st.B) && x.resetPanics(st.A, st.B) {
			c.Steps = []TStep{c.Steps[0], {Op: "wait"}, c.Steps[i]}
			return c
		}
	}
	return c
}

func (x *runner) do(c Case, tag string) {
	c = x.safe(c)
	f, lines, nontrivial := x.evalCase(c)
	x.res.Count("case." + tag)
	key := c.String()
	if c.Kind == "ticker" || c.Kind == "sleeps" {
		key += strings.Join(lines, ";")
	}
	x.res.Case(key, nontrivial, map[string]interface{}{"case": c, "trace": lines})
	if f != nil {
		x.res.Count("monitor-failure." + f.kind)
		c0 := c
		c = x.shrink(c, f.kind)
		f2 := f
		if c.String() != c0.String() {
			f2 = nil
			for i := 0; i < 12 && f2 == nil; i++ {
				if g, _, _ := x.evalCase(c); g != nil && g.kind == f.kind {
					f2 = g
				}
			}
			if f2 == nil { // did not reproduce: report the case as it was found
				c, f2 = c0, f
			}
		}
		x.res.Fail(vlib.Failure{Source: "monitor", Kind: f2.kind, Params: f2.params, What: f2.what, Case: c})
	}
	if c.NoModel && c.PanicModel && x.model != nil {
		if pl := panicLines(c, lines); len(pl) > 0 {
			x.mCases = append(x.mCases, c)
			x.mLines = append(x.mLines, pl)
		}
	}
	if !c.NoModel && x.model != nil {
		x.mCases = append(x.mCases, c)
		x.mLines = append(x.mLines, lines)
		if len(x.mCases) >= 200 {
			x.flushModel()
		}
	}
}

// panicLines: what a PanicModel script asks the model: the outcome of `new d j` when it is the first step,
// and of the first `reset d j` when the ticker was created as (1000, 1) (the state `resetp` starts from).
func panicLines(c Case, lines []string) []string {
	var out []string
	if len(c.Steps) == 0 || c.Steps[0].Op != "new" {
		return nil
	}
	fresh := c.Steps[0].A == 1000 && c.Steps[0].B == 1
	for _, l := range lines {
		f := strings.Fields(l)
		if len(f) == 4 && f[0] == "new" && !fresh {
			out = append(out, "newp "+strings.Join(f[1:], " "))
		}
		if len(f) == 4 && f[0] == "reset" && fresh {
			out = append(out, "resetp "+strings.Join(f[1:], " "))
			break
		}
	}
	return out
}

// stillFails: the case shows the failure kind in one of a few runs (which ready select arm wins, and
// the ticker's rand values, vary between runs).
func (x *runner) stillFails(c Case, kind string, tries int) bool {
	for i := 0; i < tries; i++ {
		if f, _, _ := x.evalCase(c); f != nil && f.kind == kind {
			return true
		}
	}
	return false
}

// shrinkSleep simplifies the context of a failing SleepContext call: no cancellation, no deadline, a
// deadline 1ns ago instead of longer ago, d nearer to zero.
func (x *runner) shrinkSleep(c Case, kind string) Case {
	try := func(mod func(s *SleepCase)) {
		s := *c.Sleep
		mod(&s)
		if s == *c.Sleep {
			return
		}
		cc := c
		cc.Sleep = &s
		if x.stillFails(cc, kind, 12) {
			c = cc
		}
	}
	try(func(s *SleepCase) { s.Cause = "" })
	try(func(s *SleepCase) {
		if s.Cause == "parent" {
			s.Cause = "cancel"
		}
	})
	try(func(s *SleepCase) { s.CancelAt = -1 })
	try(func(s *SleepCase) { s.Deadline, s.DeadlineAgo, s.DeadlineZero, s.LagDone = -1, 0, false, false })
	try(func(s *SleepCase) { s.LagDone = false })
	try(func(s *SleepCase) {
		if s.DeadlineZero {
			s.DeadlineZero, s.DeadlineAgo = false, 1
		}
	})
	try(func(s *SleepCase) {
		if s.CancelAt > 0 {
			s.CancelAt = 0
		}
	})
	try(func(s *SleepCase) {
		if s.DeadlineAgo > 1 {
			s.DeadlineAgo = 1
		}
	})
	try(func(s *SleepCase) {
		if s.Deadline > 0 {
			s.Deadline = 0
		}
	})
	for _, d := range []int64{0, -1, 1, 2, 3, 1000, ms, sec, hour} {
		d := d
		if (c.Sleep.D < 0 && d >= c.Sleep.D && d <= 0) || (c.Sleep.D > 0 && d > 0 && d < c.Sleep.D) {
			before := c.Sleep.D
			try(func(s *SleepCase) { s.D = d })
			if c.Sleep.D != before {
				break
			}
		}
	}
	return c
}

// shrink minimises a failing case: ticker scripts by ddmin over the steps, sleep calls by simplifying
// the context.
func (x *runner) shrink(c Case, kind string) Case {
	if c.Kind == "sleep" && c.Sleep != nil {
		return x.shrinkSleep(c, kind)
	}
	if c.Kind == "sleeps" {
		return x.shrinkSleeps(c, kind)
	}
	if c.Kind != "ticker" || len(c.Steps) < 2 {
		return c
	}
	rest := vlib.Shrink(c.Steps[1:], func(s []TStep) bool {
		cc := c
		cc.Steps = append([]TStep{c.Steps[0]}, s...)
		for i := 0; i < 3; i++ {
			if f, _, _ := x.evalCase(cc); f != nil && f.kind == kind {
				return true
			}
		}
		return false
	})
	c.Steps = append([]TStep{c.Steps[0]}, rest...)
	return c
}

func (x *runner) flushModel() {
	if x.model == nil || len(x.mCases) == 0 {
		return
	}
	outs, err := x.model.RunMany(x.mLines)
	if err != nil {
		x.res.ModelMissing = err.Error()
		x.model = nil
		return
	}
	for i, out := range outs {
		x.res.Traces++
		for k, o := range out {
			if strings.HasPrefix(o, "ok") {
				continue
			}
			x.res.Count("correspondence-failure")
			x.res.Fail(vlib.Failure{Source: "correspondence", Kind: "model-rejects-" + x.mCases[i].Kind,
				Params: map[string]interface{}{"line": x.mLines[i][k]},
				What:   fmt.Sprintf("the Lean model does not allow observation %d %q of the real code: %s (trace %v)", k, x.mLines[i][k], o, x.mLines[i]),
				Case:   x.mCases[i]})
			break
		}
	}
	x.mCases, x.mLines = nil, nil
}

func loadCorpus(dir string) []Case {
	var out []Case
	for _, f := range vlib.CorpusFiles(dir, ".scn") {
		for _, l := range vlib.ReadLines(f) {
			var c Case
			if err := json.Unmarshal([]byte(l), &c); err == nil && c.Kind != "" {
				out = append(out, c)
			}
		}
	}
	return out
}

func TestVerif(t *testing.T) {
	env := vlib.GetEnv()
	if env.Replay != "" {
		var c Case
		if err := vlib.ReplayCase(env.Replay, &c); err != nil {
			t.Fatalf("cannot load replay: %v", err)
		}
		x := &runner{t: t, env: env, res: vlib.NewResult("C20", "")}
		if c.Real != nil || c.Kind == "sleep-real" || c.Kind == "sleeps-real" {
			fmt.Printf("replay %s (real clock)\n", c)
			if f := replayReal(c); f != nil {
				fmt.Printf("  FAILS %s: %s\n", f.kind, f.what)
				os.Exit(1)
			}
			fmt.Println("  no clause violated")
			return
		}
		bad := false
		for i := 0; i < 20 && !bad; i++ {
			f, lines, _ := x.evalCase(c)
			fmt.Printf("replay %s\n  trace: %v\n", c, lines)
			if f != nil {
				fmt.Printf("  FAILS %s: %s\n", f.kind, f.what)
				bad = true
			}
		}
		if !bad {
			fmt.Println("  no clause violated")
			return
		}
		os.Exit(1)
	}
	res := vlib.NewResult("C20", "sleep: d > 0 (the call can block and the context matters); ticker: at least two ticks were observed or a Reset/Stop raced with a firing timer; "+
		"real-time configurations (real clock, GOMAXPROCS 1, receiver busy-spinning for several periods after a tick): a timer callback ran at least a full period late")
	x := &runner{t: t, env: env, res: res, wd: &watchdog{}}
	go x.wd.watch(res, env.Out)
	defer func() {
		x.flushModel()
		if x.model != nil {
			x.model.Close()
		}
		res.Write(env.Out)
	}()
	m, err := vlib.StartModel(env.Driver, "xtime")
	if err != nil {
		res.ModelMissing = err.Error()
	} else {
		x.model = m
	}
	rnd := vlib.NewRand(env.Seed)
	seed := func() int64 { return int64(rnd.Uint64() >> 1) }

	// corpus first
	for _, c := range loadCorpus(env.Corpus) {
		for i := 0; i < 3; i++ {
			x.do(c, "corpus")
		}
	}
	// several calls in one bubble, overlapping in time, after calls that ended in every way a call can end
	// (concurrent_test.go); twice: which of the goroutines that wake at one instant runs first varies
	for rep := 0; rep < 2; rep++ {
		for _, sc := range directedSleeps() {
			x.do(Case{Kind: "sleeps", Multi: sc}, "sleeps-directed")
		}
	}
	// the context shapes named by the property, at three scales
	for _, d := range []int64{3, ms, hour} {
		for _, c := range []SleepCase{
			{D: d, Deadline: -1, CancelAt: -1}, {D: d, Deadline: 1000 * d, CancelAt: -1}, {D: d, Deadline: hour + d, CancelAt: -1},
			{D: d, Deadline: d / 2, CancelAt: -1}, {D: d, Deadline: d - 1, CancelAt: -1}, {D: d, Deadline: d, CancelAt: -1}, {D: d, Deadline: d + 1, CancelAt: -1},
			{D: d, Deadline: -1, CancelAt: 0}, {D: d, Deadline: -1, CancelAt: d / 2}, {D: d, Deadline: -1, CancelAt: d - 1}, {D: d, Deadline: -1, CancelAt: d},
			{D: d, Deadline: -1, CancelAt: d + 1}, {D: d, Deadline: 10 * d, CancelAt: d / 2}, {D: d, Deadline: d / 3, CancelAt: 0},
			// deadline exactly now / already passed (alone, and on a cancelled context)
			{D: d, Deadline: 0, CancelAt: -1}, {D: d, Deadline: -1, CancelAt: -1, DeadlineAgo: 1}, {D: d, Deadline: -1, CancelAt: -1, DeadlineAgo: d},
			{D: d, Deadline: -1, CancelAt: 0, DeadlineAgo: hour}, {D: d, Deadline: 10 * d, CancelAt: 0},
		} {
			cc := c
			x.do(Case{Kind: "sleep", Sleep: &cc}, "sleep-shapes")
			// the same shape with a context whose Cause differs from its Err (WithCancelCause /
			// WithDeadlineCause; a cause-cancelled ancestor)
			for _, cause := range []string{"cancel", "parent"} {
				cz := c
				cz.Cause = cause
				x.do(Case{Kind: "sleep", Sleep: &cz}, "sleep-shapes-cause")
			}
		}
	}
	// "at once when d <= 0": d == 0 and d < 0 crossed with every context shape. With an ended context
	// the outcome of a wrong implementation can depend on which ready arm a select picks, so every
	// combination is run several times.
	for rep := 0; rep < 6; rep++ {
		for _, d := range []int64{0, -1, -sec, math.MinInt64} {
			for _, sh := range nonPositiveShapes() {
				cc := sh.c
				cc.D = d
				x.do(Case{Kind: "sleep", Sleep: &cc}, "sleep-nonpositive")
				dn := "neg"
				if d == 0 {
					dn = "zero"
				}
				res.Count("sleep-d-" + dn + "-ctx-" + sh.name)
			}
		}
	}
	// extreme magnitudes: d up to MaxInt64 x deadlines passed by up to MaxInt64 / the zero time (time.Until
	// saturates) / as far in the future as a Duration can say, with and without cancellation, with a Done
	// channel that lags behind the deadline (durations are int64: the comparisons must not wrap around)
	for rep := 0; rep < 3; rep++ {
		for _, d := range extremeD {
			for _, sh := range extremeShapes(d) {
				cc := sh.c
				x.do(Case{Kind: "sleep", Sleep: &cc}, "sleep-extreme")
				if rep == 0 {
					res.Count("sleep-extreme-ctx-" + sh.name)
				}
			}
		}
	}
	// (d, jitter) grid incl. jitter = 0 and jitter = d-1, Stop / Reset at every offset after a
	// quiescent point (thorough: every offset; quick: a sample)
	maxD := int64(4)
	if env.Thorough() {
		maxD = 6
	}
	for d := maxD; d >= 1; d-- { // larger periods first: a livelock at d - jitter = 1 should not hide the rest
		for j := int64(0); j < d; j++ {
			for at := int64(1); at <= d+j; at++ {
				for _, op := range []string{"stop", "reset", "none"} {
					if !env.Thorough() && rnd.Intn(3) != 0 {
						continue
					}
					x.do(Case{Kind: "ticker", Steps: gridTicker(d, j, at, op), Seed: seed()}, "ticker-grid")
				}
			}
		}
	}
	// documented arguments at the int64 boundaries (D21): NewJitterTicker and Reset with each pair, under
	// several seeds of math/rand (whether d + r - jitter leaves the int64 range depends on the draw r)
	reps := 8
	if env.Thorough() || env.Deep {
		reps = 40
	}
	for _, p := range extremePairs() {
		var tail int64
		if p[0]-p[1] <= 1000 {
			tail = p[0] - p[1]
		}
		for _, viaReset := range []bool{false, true} {
			for i := 0; i < reps; i++ {
				// monitors only, except for the panic outcome (the state-set engine enumerates the draws)
				x.do(Case{Kind: "ticker", Steps: extremeTicker(p[0], p[1], viaReset, tail), Seed: seed(), NoModel: true, PanicModel: true}, "ticker-extreme")
			}
		}
	}
	if env.Thorough() {
		res.Exhaustive = true
		res.Extra["exhaustive_scope"] = "ticker grid: every (d, jitter) with 1 <= d <= 6, 0 <= jitter < d; Stop / Reset / nothing at every offset 1..d+jitter after a quiescent point (the rand values are sampled, not enumerated, on the implementation side; the model side enumerates them)"
	}
	// real-time phase (real clock, provoked lateness): about a fifth of the budget, 1.2s in quick
	x.flushModel()
	realBudget := time.Duration(env.BudgetMs) * time.Millisecond / 5
	if realBudget > 8*time.Second {
		realBudget = 8 * time.Second
	}
	if x.wd != nil {
		x.wd.leave()
	}
	x.realPhase(realBudget)
	deadline := env.Deadline()
	n := 0
	for time.Now().Before(deadline) {
		n++
		switch rnd.Pick(4, 6, 2, 1, 2) {
		case 4:
			x.do(Case{Kind: "sleeps", Multi: genSleeps(rnd.Fork())}, "sleeps-random")
		case 0:
			c := genSleep(rnd)
			x.do(Case{Kind: "sleep", Sleep: &c}, "sleep-random")
		case 1:
			x.do(Case{Kind: "ticker", Steps: genTicker(rnd.Fork()), Seed: seed()}, "ticker-random")
		case 2:
			x.do(Case{Kind: "ticker", Steps: bigTicker(rnd.Fork()), Seed: seed(), NoModel: true}, "ticker-big")
		case 3:
			x.do(Case{Kind: "ticker", Steps: malformedTicker(rnd.Fork()), Seed: seed()}, "ticker-malformed")
		}
		limit := 4000
		if env.Thorough() || env.Deep {
			limit = 60000
		}
		if n >= limit {
			break
		}
	}
}
