#!/usr/bin/env python3
"""Hand mutations of container/xlist/xlist.go for C06 (see notes/C06.md for the table it produced).

For every statement of `remove`, `Remove`, `MoveBefore`, `MoveAfter` (and a few of the inserts):
drop it, or swap it with its successor; plus a few hand-written ones (operator flips, wrong field).
Each mutant is applied to a scratch worktree, `bin/check C06 quick` runs against it, and the script
records the exit status, which ties broke, and what the replay says.

usage: VERIF_REPO=/work/<me>/repo python3 notes/C06_mutants.py /work/<me>/mut  [filter]
Afterwards run `bin/check C06 quick` once against the real tree (it regenerates the facts).
"""
import json, os, re, subprocess, sys

VERIF = os.path.dirname(os.path.dirname(os.path.abspath(__file__)))
REPO = os.environ.get("VERIF_REPO", "/repo")
MUT = sys.argv[1]
FILTER = sys.argv[2] if len(sys.argv) > 2 else ""
REL = "container/xlist/xlist.go"


def sh(cmd, **kw):
    return subprocess.run(cmd, stdout=subprocess.PIPE, stderr=subprocess.STDOUT, text=True, **kw)


def func_body(src, name):
    """(start, end) offsets of the body lines of `func (l *List[T]) name(`; statements split at top level"""
    m = re.search(r"^func \(l \*List\[T\]\) %s\(.*\{\n" % re.escape(name), src, re.M)
    start = m.end()
    depth, i = 1, start
    while depth:
        c = src[i]
        depth += (c == "{") - (c == "}")
        i += 1
    end = i - 1  # position of the closing brace
    return start, end


def statements(body):
    """top-level statements of a gofmt-ed body (tab-indented by one level)"""
    out, cur, depth = [], [], 0
    for line in body.split("\n"):
        if not line.strip() and not cur:
            continue
        cur.append(line)
        depth += line.count("{") - line.count("}")
        if depth == 0:
            out.append("\n".join(cur))
            cur = []
    return out


def mutants(src):
    ms = []
    for fn in ["remove", "Remove", "MoveBefore", "MoveAfter", "InsertBefore", "PushFront"]:
        s, e = func_body(src, fn)
        sts = statements(src[s:e])
        def rebuild(new):
            return src[:s] + "\n".join(new) + "\n" + src[e:]
        for i, st in enumerate(sts):
            first = st.strip().split("\n")[0]
            if first.startswith("return node") or first.startswith("node := "):
                continue
            ms.append(("%s: drop `%s`" % (fn, first), rebuild(sts[:i] + sts[i + 1:])))
            # drop the statements inside an if / else
            if st.strip().startswith("if "):
                lines = st.split("\n")
                for j, ln in enumerate(lines):
                    t = ln.strip()
                    if t and not t.startswith("if ") and t not in ("}", "} else {") and t != "return":
                        ms.append(("%s: drop inner `%s` of `%s`" % (fn, t, first),
                                   rebuild(sts[:i] + ["\n".join(lines[:j] + lines[j + 1:])] + sts[i + 1:])))
        if fn in ("remove", "Remove", "MoveBefore", "MoveAfter"):
            for i in range(len(sts) - 1):
                a, b = sts[i].strip().split("\n")[0], sts[i + 1].strip().split("\n")[0]
                if b.startswith("return node"):
                    continue
                ms.append(("%s: swap `%s` <-> `%s`" % (fn, a, b), rebuild(sts[:i] + [sts[i + 1], sts[i]] + sts[i + 2:])))
    def sub(name, old, new, count=1):
        assert old in src, old
        ms.append((name, src.replace(old, new, count)))
    sub("MoveBefore: `l.front == mark` -> `l.front != mark`", "\tif l.front == mark {\n\t\tl.front = node\n\t}\n}\n\n// MoveAfter",
        "\tif l.front != mark {\n\t\tl.front = node\n\t}\n}\n\n// MoveAfter")
    sub("MoveAfter: `node.prev = mark` -> `node.prev = mark.prev`", "\tnode.prev = mark\n", "\tnode.prev = mark.prev\n")
    sub("remove: `node.prev.next = node.next` -> `node.prev.next = node`", "node.prev.next = node.next", "node.prev.next = node")
    sub("remove: `l.back = l.back.prev` -> `l.back = l.back.next`", "l.back = l.back.prev", "l.back = l.back.next")
    sub("MoveToFront: MoveBefore -> MoveAfter", "l.MoveBefore(node, l.Front())", "l.MoveAfter(node, l.Front())")
    sub("MoveToBack: l.Back() -> l.Front()", "l.MoveAfter(node, l.Back())", "l.MoveAfter(node, l.Front())")
    sub("Remove: additionally `node.Value = *new(T)`", "\tnode.next = nil\n\tl.size--", "\tnode.next = nil\n\tnode.Value = *new(T)\n\tl.size--")
    sub("Clear: forgets `l.size = 0`", "l.front = nil; l.back = nil; l.size = 0", "l.front = nil; l.back = nil")
    sub("Len: returns l.size + 0*... (harmless refactor: `return l.size` -> `return (l.size)`)", "{ return l.size }", "{ return (l.size) }")
    sub("Prev: returns n.next", "func (n *Node[T]) Prev() *Node[T] {\n\treturn n.prev", "func (n *Node[T]) Prev() *Node[T] {\n\treturn n.next")
    return ms


def main():
    sh(["git", "-C", REPO, "worktree", "remove", "--force", MUT])
    r = sh(["git", "-C", REPO, "worktree", "add", "--detach", MUT, "HEAD"])
    if r.returncode:
        print(r.stdout)
        sys.exit(2)
    path = os.path.join(MUT, REL)
    src = open(path).read()
    rows = []
    env = dict(os.environ, VERIF_REPO=MUT, VERIF_SEED="1")
    for name, text in mutants(src):
        if FILTER and FILTER not in name:
            continue
        open(path, "w").write(text)
        b = sh(["go", "build", "./container/xlist/"], cwd=MUT, env=dict(env, GOFLAGS="-mod=mod", GOPROXY="off", GOSUMDB="off", GOTOOLCHAIN="local"))
        if b.returncode:
            rows.append((name, "does not compile", "", ""))
            continue
        for f in os.listdir(os.path.join(VERIF, "replays")) if os.path.isdir(os.path.join(VERIF, "replays")) else []:
            if f.startswith("C06-"):
                os.remove(os.path.join(VERIF, "replays", f))
        r = sh([os.path.join(VERIF, "bin", "check"), "C06", "quick"], env=env)
        out = r.stdout.strip().split("\n")
        ties, kinds, sources = set(), set(), set()
        nofail = any("no-failing-input-found" in l for l in out)
        for l in out:
            m = re.search(r"replay=(\S+)", l)
            if m and os.path.exists(m.group(1)):
                j = json.load(open(m.group(1)))
                for t in j.get("broken_ties", []):
                    what = t.get("what", "")
                    mm = re.search(r"in (theorem \S+|def \S+|example \S*)", what)
                    ties.add(t.get("tie", "?") + ((":" + mm.group(1).split()[-1]) if mm else ""))
                if j.get("source"):
                    sources.add(j["source"])
                    kinds.add(j.get("kind", ""))
        verdict = "exit %d" % r.returncode + (" no-failing-input-found" if nofail else "")
        rows.append((name, verdict, ", ".join(sorted(sources)) + (": " + ", ".join(sorted(kinds)[:4]) if kinds else ""), ", ".join(sorted(ties)[:6])))
        print("| %s | %s | %s | %s |" % rows[-1], flush=True)
    open(path, "w").write(src)
    sh(["git", "-C", REPO, "worktree", "remove", "--force", MUT])


if __name__ == "__main__":
    main()
