module verifharness

go 1.18

require github.com/bradenaw/juniper v0.0.0

replace github.com/bradenaw/juniper => /repo
