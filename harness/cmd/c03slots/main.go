// C03, clause "no retained garbage", at slot level: keys and values that were deleted or moved
// elsewhere are no longer referenced from the live structure.
//
// Implementation under test: tree.Map[*int,*int] (NewMapCmp / NewMap), so that a cleared slot is a
// nil pointer. After every Put / Delete the read-only hook dumps ALL raw slots of every reachable
// node (15 key, 15 value, 16 child slots).
//
// Tie 2a (source "correspondence", kinds slots-*): the same ops run on the Lean model `treeslots`;
// size, gen, pre-order structure, node identities (a per-case bijection node object <-> model id)
// and the raw slots of every node the model wrote are compared after every op, plus completeness of
// the model's dirty set, plus every node at the end of the case.
//
// Tie 2b (source "monitor", kinds c03-*): on the hook dump alone, every key / value slot at index
// >= n is nil, every child slot at index > n is nil, a leaf has no child slot set.
package main

import (
	"crypto/sha256"
	"fmt"
	"os"
	"path/filepath"
	"sort"
	"strings"
	"time"

	"verifharness/vlib"
)

const rule = "hook dump of all raw slots after every op of random put/del histories on tree.Map[*int,*int] (variants cmp/less) in 4 modes: " +
	"small (1-2 levels), fill-drain (130-1300 keys in, all out), target-internal (>= 3 levels, then internal nodes chosen from the hook dump " +
	"are driven below minKVs so that rotateLeft / rotateRight / mergeTwo run on internal nodes), malformed (duplicate puts, absent deletes, " +
	"deletes on the empty tree); plus the corpus. A case is non-trivial if it has >= 20 ops and its tree reached >= 2 levels; distinct = different line list"

var evNames = []string{"split-leaf", "split-int", "newroot", "rotl-leaf", "rotl-int", "rotr-leaf", "rotr-int", "merge-leaf", "merge-int", "collapse"}

type pending struct {
	f       finding
	variant string
	ops     []op
}

type checker struct {
	res *vlib.Result
	m   *vlib.Model
	mon map[string]*pending
	cor map[string]*pending
}

func (c *checker) runModel(ops []op) []string {
	if c.m == nil {
		return nil
	}
	out, err := c.m.Run(modelLines(ops))
	if err != nil {
		c.res.ModelMissing = err.Error()
		c.m = nil
		return nil
	}
	return out
}

func truncated(ops []op, at int) []op {
	if at+1 < len(ops) {
		return ops[:at+1]
	}
	return ops
}

// check runs one case through the monitor and the correspondence and remembers, per failure kind
// and params, the shortest failing case (shrunk and reported by flush).
func (c *checker) check(variant string, ops []op) *report {
	rep := execCase(variant, ops, execOpts{model: c.runModel(ops)})
	if rep.compared {
		c.res.Traces++
	}
	keep := func(tab map[string]*pending, f finding) {
		k := f.key() + "|" + f.opName
		t := truncated(ops, f.at)
		if old, ok := tab[k]; !ok || len(t) < len(old.ops) {
			tab[k] = &pending{f: f, variant: variant, ops: append([]op{}, t...)}
		}
	}
	for _, f := range rep.mon {
		keep(c.mon, f)
	}
	if rep.cor != nil {
		keep(c.cor, *rep.cor)
	}
	return rep
}

const (
	shrinkEvals = 300
	shrinkTime  = 5 * time.Second
)

func (c *checker) shrinkMon(p *pending) (ops []op, f finding) {
	evals, start := 0, time.Now()
	same := func(cand []op) *finding {
		rep := execCase(p.variant, cand, execOpts{light: true, stopMon: p.f.key()})
		if g := rep.monFind(p.f.key()); g != nil && g.opName == p.f.opName {
			return g
		}
		return nil
	}
	small := vlib.Shrink(p.ops, func(cand []op) bool {
		if evals >= shrinkEvals || time.Since(start) > shrinkTime {
			return false
		}
		evals++
		return same(cand) != nil
	})
	if g := same(small); g != nil {
		return truncated(small, g.at), *g
	}
	return p.ops, p.f
}

func (c *checker) shrinkCor(p *pending) (ops []op, f finding) {
	evals, start := 0, time.Now()
	same := func(cand []op) *finding {
		mo := c.runModel(cand)
		if mo == nil {
			return nil
		}
		rep := execCase(p.variant, cand, execOpts{model: mo})
		if rep.cor != nil && rep.cor.kind == p.f.kind && rep.cor.opName == p.f.opName {
			return rep.cor
		}
		return nil
	}
	small := vlib.Shrink(p.ops, func(cand []op) bool {
		if evals >= shrinkEvals || time.Since(start) > shrinkTime {
			return false
		}
		evals++
		return same(cand) != nil
	})
	if g := same(small); g != nil {
		return truncated(small, g.at), *g
	}
	return p.ops, p.f
}

// flush shrinks and reports what check collected.
func (c *checker) flush() {
	for _, k := range sortedKeys(c.mon) {
		p := c.mon[k]
		ops, f := c.shrinkMon(p)
		c.res.Fail(vlib.Failure{Source: "monitor", Kind: f.kind, Params: f.params(), What: f.what, Case: caseLines(p.variant, ops)})
	}
	for _, k := range sortedKeys(c.cor) {
		p := c.cor[k]
		ops, f := c.shrinkCor(p)
		c.res.Fail(vlib.Failure{Source: "correspondence", Kind: f.kind, Params: map[string]interface{}{"op": f.opName},
			What: f.what, Case: caseLines(p.variant, ops)})
	}
	c.mon, c.cor = map[string]*pending{}, map[string]*pending{}
}

func sortedKeys(m map[string]*pending) []string {
	out := make([]string, 0, len(m))
	for k := range m {
		out = append(out, k)
	}
	sort.Strings(out)
	return out
}

func caseKey(lines []string) string {
	s := strings.Join(lines, ";")
	if len(s) > 2048 {
		return fmt.Sprintf("sha256:%x/%d", sha256.Sum256([]byte(s)), len(lines))
	}
	return s
}

// account fills the distribution from one executed case.
func account(res *vlib.Result, lines []string, rep *report) {
	res.CountN("ops", rep.nops)
	res.CountN("op-put", rep.puts)
	res.CountN("op-del", rep.dels)
	res.Count("variant-" + rep.variant)
	if rep.levels >= 1 {
		l := rep.levels
		if l > 4 {
			l = 4
		}
		res.Count(fmt.Sprintf("levels-%d", l))
	}
	for e, n := range rep.ev {
		res.CountN("ev-"+e, n)
	}
	for e, n := range rep.impl {
		res.CountN("impl-"+e, n)
	}
	if rep.crashedAt >= 0 {
		res.Count("cases-with-crash")
	}
	var sample interface{}
	if len(lines) <= 60 {
		sample = lines
	}
	res.Case(caseKey(lines), rep.nops >= 20 && rep.levels >= 2, sample)
}

func corpusFiles(env vlib.Env) []string {
	var out []string
	seen := map[string]bool{}
	dirs := []string{env.Corpus}
	if env.Corpus != "" {
		dirs = append(dirs, filepath.Join(filepath.Dir(filepath.Clean(env.Corpus)), "C03S"))
	}
	for _, d := range dirs {
		if d == "" {
			continue
		}
		for _, f := range vlib.CorpusFiles(d, ".slots") {
			p := filepath.Clean(f)
			if a, err := filepath.Abs(p); err == nil {
				p = a
			}
			if !seen[p] {
				seen[p] = true
				out = append(out, f)
			}
		}
	}
	return out
}

func replay(env vlib.Env, c *checker) int {
	var ls []string
	if err := vlib.ReplayCase(env.Replay, &ls); err != nil {
		fmt.Println("cannot read replay:", err)
		return 2
	}
	variant, ops := parseCase(ls)
	mo := c.runModel(ops)
	rep := execCase(variant, ops, execOpts{model: mo})
	fmt.Printf("replay of %d ops on tree.Map[*int,*int] (variant %s), %d levels reached\n", len(ops), variant, rep.levels)
	fmt.Printf("structural events: model %v; internal repairs seen in the hook dumps %v\n", rep.ev, rep.impl)
	if rep.crashedAt >= 0 {
		fmt.Printf("implementation panicked in op %d (%s)\n", rep.crashedAt, ops[rep.crashedAt].line())
	}
	if len(rep.mon) == 0 {
		fmt.Println("monitor: no retained key / value / child pointer in any reachable node after any op")
	}
	for i, f := range rep.mon {
		if i == 0 {
			fmt.Printf("monitor: VIOLATION %s %v: %s\n", f.kind, f.params(), f.what)
		} else {
			fmt.Printf("monitor: also %s %v: %s\n", f.kind, f.params(), f.what)
		}
	}
	switch {
	case mo == nil:
		fmt.Println("correspondence: model unavailable:", c.res.ModelMissing)
	case rep.cor != nil:
		fmt.Printf("correspondence: %s: %s\n", rep.cor.kind, rep.cor.what)
	default:
		fmt.Println("correspondence: model and implementation agree on every raw slot after every op")
	}
	if len(rep.mon) > 0 {
		return 1
	}
	return 0
}

var modes = []string{"small", "fill-drain", "target-internal", "malformed"}

func genCase(r *vlib.Rand, i int, big bool, deadline time.Time) (string, *builder) {
	b := newBuilder(r, deadline)
	mode := r.Pick(45, 15, 25, 15)
	if i < 3 {
		mode = 2
	}
	switch mode {
	case 0:
		b.genSmall()
	case 1:
		b.genFillDrain(big)
	case 2:
		force := -1
		if i < 3 {
			force = []int{wantRotR, wantRotL, wantMerge}[i]
		}
		b.genTargetInternal(force, false)
	case 3:
		b.genMalformed()
	}
	return modes[mode], b
}

func main() {
	env := vlib.GetEnv()
	res := vlib.NewResult("C03", rule)
	m, err := vlib.StartModel(env.Driver, "treeslots")
	if err != nil {
		res.ModelMissing = err.Error()
		m = nil
	}
	c := &checker{res: res, m: m, mon: map[string]*pending{}, cor: map[string]*pending{}}
	defer func() {
		if c.m != nil {
			c.m.Close()
		}
	}()

	if dir := os.Getenv("C03SLOTS_WRITE_CORPUS"); dir != "" {
		writeCorpus(dir, env.Seed)
		return
	}
	if env.Replay != "" {
		code := replay(env, c)
		if c.m != nil {
			c.m.Close()
			c.m = nil
		}
		os.Exit(code)
	}

	for _, e := range evNames {
		res.CountN("ev-"+e, 0)
	}
	for _, e := range repairEvent {
		res.CountN("impl-"+e, 0)
	}
	if p, v := vlib.Try(func() {
		for _, f := range corpusFiles(env) {
			ls := vlib.ReadLines(f)
			variant, ops := parseCase(ls)
			res.Count("corpus")
			account(res, caseLines(variant, ops), c.check(variant, ops))
		}
		r := vlib.NewRand(env.Seed)
		deadline := env.Deadline()
		maxCases := 400
		big := env.Thorough() || env.Deep
		if big {
			maxCases = 4000
		}
		for i := 0; i < maxCases && time.Now().Before(deadline); i++ {
			mode, b := genCase(r.Fork(), i, big, deadline)
			res.Count("mode-" + mode)
			account(res, b.lines(), c.check(b.variant, b.ops))
		}
	}); p {
		res.Fail(vlib.Failure{Source: "correspondence", Kind: "slots-harness-panic", What: fmt.Sprint("the harness panicked: ", v), Case: []string{}})
	}
	c.flush()
	res.Write(env.Out)
}

// writeCorpus regenerates the two generated corpus files (C03SLOTS_WRITE_CORPUS=<dir>).
func writeCorpus(dir string, seed uint64) {
	far := time.Now().Add(time.Hour)
	r := vlib.NewRand(seed)
	for try := 0; try < 200; try++ {
		b := newBuilder(r.Fork(), far)
		b.genTargetInternal(-1, true)
		if b.seen["rotr-int"] >= 2 && b.seen["rotl-int"] >= 2 && b.seen["merge-int"] >= 2 && len(b.ops) < 2400 {
			head := fmt.Sprintf("# generated by the target-internal generator (C03SLOTS_WRITE_CORPUS, seed %d, try %d): a 3-level tree whose internal\n"+
				"# nodes are driven below minKVs; contains rotateRight (%d), rotateLeft (%d) and mergeTwo (%d) on internal nodes\n",
				seed, try, b.seen["rotr-int"], b.seen["rotl-int"], b.seen["merge-int"])
			os.WriteFile(filepath.Join(dir, "target-internal-rotr-rotl-merge.slots"), []byte(head+strings.Join(b.lines(), "\n")+"\n"), 0o644)
			fmt.Printf("target-internal: %d lines, seen %v\n", len(b.ops)+1, b.seen)
			break
		}
	}
	b := newBuilder(r.Fork(), far)
	for k := 1; k <= 270; k++ {
		b.put(k * 10)
	}
	b.refresh()
	levels := b.cur.levels
	for _, k := range b.ordered(3) {
		b.del(k)
	}
	head := fmt.Sprintf("# 270 ascending keys (%d levels), then every key deleted middle-out: leaf and internal merges, root collapses down to the empty root\n", levels)
	os.WriteFile(filepath.Join(dir, "fill-3-levels-drain-middle-out.slots"), []byte(head+strings.Join(b.lines(), "\n")+"\n"), 0o644)
	fmt.Printf("fill-drain: %d lines, %d levels\n", len(b.ops)+1, levels)
}
