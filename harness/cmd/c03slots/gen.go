package main

// Generators. A case is generated while it executes on the implementation (the hook dump steers the
// `target-internal` mode); the resulting line list replays exactly from the lines alone.

import (
	"sort"
	"time"

	"verifharness/vlib"
)

const maxCaseOps = 4500

type builder struct {
	r        *vlib.Rand
	variant  string
	m        Map
	tr       *tracker
	ops      []op
	keys     []int       // live keys
	idx      map[int]int // key -> index in keys
	val      int
	deadline time.Time
	crashed  bool
	cur      *snapshot // hook dump after the last op (only kept up to date by delSnap / refresh)
	seen     map[string]int
}

func newBuilder(r *vlib.Rand, deadline time.Time) *builder {
	b := &builder{r: r, variant: "cmp", tr: newTracker(), idx: map[int]int{}, deadline: deadline, seen: map[string]int{}}
	if r.Bool() {
		b.variant = "less"
	}
	b.m = newImpl(b.variant)
	return b
}

func (b *builder) lines() []string { return caseLines(b.variant, b.ops) }

// stop: the case must not grow any further.
func (b *builder) stop() bool {
	return b.crashed || len(b.ops) >= maxCaseOps || (len(b.ops)%16 == 0 && time.Now().After(b.deadline))
}

func (b *builder) put(k int) {
	if b.crashed {
		return
	}
	b.val++
	o := op{k: k, v: b.val}
	b.ops = append(b.ops, o)
	if applyImpl(b.m, o) == "crash" {
		b.crashed = true
		return
	}
	if _, ok := b.idx[k]; !ok {
		b.idx[k] = len(b.keys)
		b.keys = append(b.keys, k)
	}
}

func (b *builder) del(k int) {
	if b.crashed {
		return
	}
	o := op{del: true, k: k}
	b.ops = append(b.ops, o)
	if applyImpl(b.m, o) == "crash" {
		b.crashed = true
		return
	}
	if i, ok := b.idx[k]; ok {
		last := b.keys[len(b.keys)-1]
		b.keys[i] = last
		b.idx[last] = i
		b.keys = b.keys[:len(b.keys)-1]
		delete(b.idx, k)
	}
}

func (b *builder) refresh() bool {
	sh, ok := hookDump(b.m)
	if !ok {
		b.crashed = true
		return false
	}
	b.cur = b.tr.snap(&sh)
	return true
}

func (b *builder) freshKey() int {
	for {
		k := b.r.Range(1, 1000000)
		if _, ok := b.idx[k]; !ok {
			return k
		}
	}
}

// insertFresh inserts n keys that are not in the tree: ascending (0), descending (1) or random (2).
func (b *builder) insertFresh(n, pattern int) {
	ks := make([]int, 0, n)
	have := map[int]bool{}
	for len(ks) < n {
		k := b.freshKey()
		if !have[k] {
			have[k] = true
			ks = append(ks, k)
		}
	}
	switch pattern {
	case 0:
		sort.Ints(ks)
	case 1:
		sort.Sort(sort.Reverse(sort.IntSlice(ks)))
	}
	for _, k := range ks {
		if b.stop() {
			return
		}
		b.put(k)
	}
}

func (b *builder) shuffled(ks []int) []int {
	out := append([]int{}, ks...)
	for i := len(out) - 1; i > 0; i-- {
		j := b.r.Intn(i + 1)
		out[i], out[j] = out[j], out[i]
	}
	return out
}

// ordered returns the live keys ascending (0), descending (1), random (2) or middle-out (3).
func (b *builder) ordered(order int) []int {
	ks := append([]int{}, b.keys...)
	sort.Ints(ks)
	switch order {
	case 1:
		sort.Sort(sort.Reverse(sort.IntSlice(ks)))
	case 2:
		ks = b.shuffled(ks)
	case 3:
		out := make([]int, 0, len(ks))
		lo, hi := len(ks)/2-1, len(ks)/2
		for lo >= 0 || hi < len(ks) {
			if hi < len(ks) {
				out = append(out, ks[hi])
				hi++
			}
			if lo >= 0 {
				out = append(out, ks[lo])
				lo--
			}
		}
		ks = out
	}
	return ks
}

// ---------------------------------------------------------------------------------------------

func (b *builder) genSmall() {
	n := b.r.Range(20, 120)
	space := b.r.Range(40, 200)
	for i := 0; i < n && !b.stop(); i++ {
		k := b.r.Range(1, space)
		if b.r.Chance(3, 5) {
			b.put(k)
		} else {
			b.del(k)
		}
	}
}

func (b *builder) genFillDrain(big bool) {
	n := b.r.Range(130, 700)
	if big && b.r.Chance(1, 4) {
		n = b.r.Range(1100, 1300)
	}
	if n > maxCaseOps/2-2 {
		n = maxCaseOps/2 - 2
	}
	b.insertFresh(n, b.r.Intn(3))
	for _, k := range b.ordered(b.r.Intn(4)) {
		if b.stop() {
			return
		}
		b.del(k)
	}
}

func (b *builder) genMalformed() {
	r := b.r
	for i := 0; i < r.Range(1, 4); i++ {
		b.del(r.Range(1, 50)) // delete on the empty tree
	}
	n := r.Range(20, 60)
	for i := 0; i < n && !b.stop(); i++ {
		k := r.Range(1, 80)
		b.put(k)
		if r.Chance(1, 3) {
			b.put(k) // duplicate put
		}
		if r.Chance(1, 4) {
			b.del(r.Range(81, 120)) // absent key
		}
		if r.Chance(1, 6) && len(b.keys) > 0 {
			b.put(b.keys[r.Intn(len(b.keys))]) // overwrite of an older key
		}
	}
	all := b.ordered(r.Intn(4))
	for _, k := range all {
		b.del(k)
	}
	for _, k := range b.shuffled(all) { // delete everything a second time
		b.del(k)
	}
	b.del(r.Range(1, 200))
	m := r.Range(20, 80)
	for i := 0; i < m && !b.stop(); i++ { // re-insert after emptying
		k := r.Range(1, 100)
		b.put(k)
		if r.Chance(1, 5) {
			b.del(k)
			b.del(k)
		}
	}
}

// ---------------------------------------------------------------------------------------------
// target-internal

const (
	wantRotL  = 0 // (a) X has a right sibling with n > minKVs        -> rotateLeft on internal nodes
	wantRotR  = 1 // (b) not (a), X has a left sibling with n > minKVs -> rotateRight on internal nodes
	wantMerge = 2 // (c) otherwise                                    -> mergeTwo on internal nodes
)

var repairEvent = [3]string{"rotl-int", "rotr-int", "merge-int"}

// expectedRepair says which repair `steal` / `merge` will pick when the internal non-root node at
// position p drops below minKVs (deletes below X never touch X's siblings before that moment).
func expectedRepair(s *snapshot, p int) (kind int, ok bool) {
	x := &s.nodes[p]
	if x.depth < 1 || x.leaf() || x.n < 0 || x.n > maxKVs {
		return 0, false
	}
	par := s.byLid(x.parent)
	if par == nil || par.n < 0 || par.n > maxKVs {
		return 0, false
	}
	slot := -1
	for j := 0; j <= par.n; j++ {
		if par.kids[j] == x.lid {
			slot = j
			break
		}
	}
	if slot < 0 {
		return 0, false
	}
	if slot < par.n {
		if rs := s.byLid(par.kids[slot+1]); rs != nil && rs.n > minKVs {
			return wantRotL, true
		}
	}
	if slot > 0 {
		if ls := s.byLid(par.kids[slot-1]); ls != nil && ls.n > minKVs {
			return wantRotR, true
		}
	}
	return wantMerge, true
}

// keysUnder collects the live keys of the leaves below the node at position p.
func keysUnder(s *snapshot, p int, out []int, depth int) []int {
	if depth > 12 || p < 0 || p >= len(s.nodes) {
		return out
	}
	x := &s.nodes[p]
	n := x.n
	if n < 0 || n > maxKVs {
		return out
	}
	if x.leaf() {
		for j := 0; j < n; j++ {
			if x.keyNil&(1<<uint(j)) == 0 {
				out = append(out, x.keys[j])
			}
		}
		return out
	}
	for j := 0; j <= n; j++ {
		if x.kidPos[j] >= 0 {
			out = keysUnder(s, x.kidPos[j], out, depth+1)
		}
	}
	return out
}

// chooseTarget picks an internal non-root node, preferring one whose expected repair is `want`,
// then the other kinds in rotation.
func (b *builder) chooseTarget(want int) (pos, kind int, ok bool) {
	var cands [3][]int
	for p := range b.cur.nodes {
		if k, ok := expectedRepair(b.cur, p); ok {
			cands[k] = append(cands[k], p)
		}
	}
	if want == wantMerge && len(cands[wantMerge]) == 0 {
		// no node whose siblings are all at minKVs: take the one whose siblings are closest to it
		best, bestExcess := -1, 0
		for k := 0; k < 2; k++ {
			for _, p := range cands[k] {
				par, slot := slotOf(b.cur, p)
				if par == nil {
					continue
				}
				ex := 0
				for _, sl := range []int{slot - 1, slot + 1} {
					if sl >= 0 && sl <= par.n {
						if sb := b.cur.byLid(par.kids[sl]); sb != nil && sb.n > minKVs {
							ex += sb.n - minKVs
						}
					}
				}
				if best < 0 || ex < bestExcess {
					best, bestExcess = p, ex
				}
			}
		}
		if best >= 0 {
			k, _ := expectedRepair(b.cur, best)
			return best, k, true
		}
	}
	for d := 0; d < 3; d++ {
		k := (want + d) % 3
		if len(cands[k]) == 0 {
			continue
		}
		c := cands[k]
		p := c[b.r.Intn(len(c))]
		if b.r.Bool() { // half of the time the emptiest candidate: fewer deletes until it underflows
			for _, q := range c {
				if b.cur.nodes[q].n < b.cur.nodes[p].n {
					p = q
				}
			}
		}
		return p, k, true
	}
	return 0, 0, false
}

// genTargetInternal builds a tree of >= 3 levels and then drives chosen internal nodes below
// minKVs. force >= 0: keep steering to that repair until it has been seen (first cases of a run).
// compact: stop as soon as all three internal repairs were seen twice (corpus generation).
func (b *builder) genTargetInternal(force int, compact bool) {
	r := b.r
	n := r.Range(300, 900)
	if compact {
		n = r.Range(280, 360)
	}
	b.insertFresh(n, r.Intn(3))
	if !compact && r.Bool() {
		pct := r.Range(0, 40)
		for _, k := range b.shuffled(b.keys)[:len(b.keys)*pct/100] {
			if b.stop() {
				break
			}
			b.del(k)
		}
	}
	rounds := 12
	if force >= 0 || compact {
		rounds = 40
	}
	rot := r.Intn(3)
	for round := 0; round < rounds && !b.stop(); round++ {
		if !b.refresh() {
			return
		}
		if b.cur.levels < 3 {
			b.insertFresh(r.Range(200, 400), r.Intn(3))
			continue
		}
		if compact && b.seen["rotl-int"] >= 2 && b.seen["rotr-int"] >= 2 && b.seen["merge-int"] >= 2 {
			return
		}
		if force >= 0 && b.seen[repairEvent[force]] > 0 && round >= 5 {
			return
		}
		want := rot % 3
		rot++
		if force >= 0 && b.seen[repairEvent[force]] == 0 {
			want = force
		} else if compact {
			for d := 0; d < 3; d++ { // the first repair not seen yet
				if b.seen[repairEvent[(want+d)%3]] < 2 {
					want = (want + d) % 3
					break
				}
			}
		}
		p, got, ok := b.chooseTarget(want)
		if ok && got != want && (force >= 0 || compact || r.Bool()) && b.prepare(want) {
			p, _, ok = b.chooseTarget(want)
		}
		if !ok {
			b.insertFresh(r.Range(200, 400), r.Intn(3))
			continue
		}
		b.drive(b.cur.nodes[p].lid)
	}
}

// slotOf returns the parent of the node at position p and p's child slot in it.
func slotOf(s *snapshot, p int) (par *snode, slot int) {
	x := &s.nodes[p]
	par = s.byLid(x.parent)
	if par == nil || par.n < 0 || par.n > maxKVs {
		return nil, -1
	}
	for j := 0; j <= par.n; j++ {
		if par.kids[j] == x.lid {
			return par, j
		}
	}
	return nil, -1
}

// prepare makes the repair `want` available when the tree has no internal node for which it is the
// expected one (e.g. after descending inserts every right sibling sits at exactly minKVs):
// for rotl-int / rotr-int it grows a right / left internal sibling above minKVs by inserting fresh
// keys inside the key range of one of its leaves (leaf splits below it); for merge-int nothing is
// inserted: chooseTarget then keeps driving the node whose siblings are closest to minKVs, each steal
// bringing them one entry nearer.
func (b *builder) prepare(want int) bool {
	if want == wantMerge {
		return false
	}
	s := b.cur
	var cands []int // positions of the sibling to grow
	for p := range s.nodes {
		x := &s.nodes[p]
		if x.depth < 1 || x.leaf() {
			continue
		}
		par, slot := slotOf(s, p)
		if par == nil {
			continue
		}
		switch want {
		case wantRotL: // x is the right sibling of the future target
			if slot >= 1 {
				cands = append(cands, p)
			}
		case wantRotR: // x is the left sibling of the future target, whose right sibling must not offer a steal
			if slot+1 <= par.n {
				if slot+2 > par.n {
					cands = append(cands, p)
				} else if rs := s.byLid(par.kids[slot+2]); rs != nil && rs.n <= minKVs {
					cands = append(cands, p)
				}
			}
		}
	}
	if len(cands) == 0 {
		return false
	}
	lid := s.nodes[cands[b.r.Intn(len(cands))]].lid
	for step := 0; step < 150 && !b.stop(); step++ {
		p, ok := b.cur.pos[lid]
		if !ok {
			return false
		}
		x := &b.cur.nodes[p]
		if x.leaf() || x.depth < 1 {
			return false
		}
		if x.n > minKVs {
			return true
		}
		// a fresh key inside the range of one leaf below x
		k := 0
		for try := 0; try < 40 && k == 0; try++ {
			q := p
			for d := 0; d < 12 && !b.cur.nodes[q].leaf(); d++ {
				y := &b.cur.nodes[q]
				if y.n < 0 || y.n > maxKVs {
					return false
				}
				c := y.kidPos[b.r.Intn(y.n+1)]
				if c < 0 {
					return false
				}
				q = c
			}
			lf := &b.cur.nodes[q]
			if !lf.leaf() || lf.n < 2 || lf.n > maxKVs {
				continue
			}
			lo, hi := lf.keys[0], lf.keys[lf.n-1]
			if hi-lo < 2 {
				continue
			}
			c := b.r.Range(lo+1, hi-1)
			if _, live := b.idx[c]; !live {
				k = c
			}
		}
		if k == 0 {
			return false
		}
		b.put(k)
		if !b.refresh() {
			return false
		}
	}
	return false
}

// drive deletes keys below the internal node X (local id xl), one at a time, until X was repaired
// (an internal rotation or merge among the children of X's parent), disappeared, or the tree lost
// its third level.
func (b *builder) drive(xl int) {
	var buf []int
	for step := 0; step < 700 && !b.stop(); step++ {
		s := b.cur
		p, ok := s.pos[xl]
		if !ok || s.levels < 3 {
			return
		}
		x := &s.nodes[p]
		if x.leaf() || x.depth < 1 {
			return
		}
		var k int
		own := -1
		if x.n >= 1 && x.n <= maxKVs && b.r.Chance(1, 12) {
			if j := b.r.Intn(x.n); x.keyNil&(1<<uint(j)) == 0 {
				own = j
			}
		}
		if own >= 0 { // occasionally a key of X itself (replaced by its predecessor from below X)
			k = x.keys[own]
		} else {
			buf = keysUnder(s, p, buf[:0], 0)
			if len(buf) == 0 {
				return
			}
			k = buf[b.r.Intn(len(buf))]
		}
		b.del(k)
		if !b.refresh() {
			return
		}
		done := false
		for _, e := range implEvents(s, b.cur) {
			b.seen[e.kind]++
			if e.parent == x.parent {
				done = true
			}
		}
		if done {
			return
		}
	}
}
