package main

// Execution of one case on the real tree.Map[*int,*int]: hook dump after every op, the retention
// monitor (tie 2b, hook dump only), the slot-level correspondence with the Lean model `treeslots`
// (tie 2a) and the model-independent classifier of internal rotations / merges.

import (
	"fmt"
	"strconv"
	"strings"

	"github.com/bradenaw/juniper/container/tree"
	"verifharness/vlib"
)

const (
	maxKVs = tree.VerifMaxKVs
	minKVs = tree.VerifMinKVs
	fanout = tree.VerifBranchFactor
)

type Map = tree.Map[*int, *int]
type Shape = tree.VerifShape[*int, *int]

// ---------------------------------------------------------------------------------------------
// cases

type op struct {
	del  bool
	k, v int
}

func (o op) name() string {
	if o.del {
		return "del"
	}
	return "put"
}

func (o op) line() string {
	if o.del {
		return "del " + strconv.Itoa(o.k)
	}
	return "put " + strconv.Itoa(o.k) + " " + strconv.Itoa(o.v)
}

// parseCase splits a case into its variant (`new cmp|less`, default cmp) and its ops; lines that
// are neither are ignored.
func parseCase(lines []string) (variant string, ops []op) {
	variant = "cmp"
	for _, l := range lines {
		f := strings.Fields(l)
		switch {
		case len(f) == 2 && f[0] == "new":
			if f[1] == "less" {
				variant = "less"
			} else {
				variant = "cmp"
			}
		case len(f) == 3 && f[0] == "put":
			k, e1 := strconv.Atoi(f[1])
			v, e2 := strconv.Atoi(f[2])
			if e1 == nil && e2 == nil {
				ops = append(ops, op{k: k, v: v})
			}
		case len(f) == 2 && f[0] == "del":
			if k, e := strconv.Atoi(f[1]); e == nil {
				ops = append(ops, op{del: true, k: k})
			}
		}
	}
	return
}

func caseLines(variant string, ops []op) []string {
	out := make([]string, 0, len(ops)+1)
	out = append(out, "new "+variant)
	for _, o := range ops {
		out = append(out, o.line())
	}
	return out
}

// modelLines is what the model is asked: every op followed by `dump`, `full` at the end.
func modelLines(ops []op) []string {
	out := make([]string, 0, 2*len(ops)+1)
	for _, o := range ops {
		out = append(out, o.line(), "dump")
	}
	return append(out, "full")
}

func newImpl(variant string) Map {
	if variant == "less" {
		return tree.NewMap[*int, *int](func(a, b *int) bool { return *a < *b })
	}
	return tree.NewMapCmp[*int, *int](func(a, b *int) int {
		if *a < *b {
			return -1
		}
		if *a > *b {
			return 1
		}
		return 0
	})
}

func box(v int) *int { return &v }

// applyImpl runs one op on the implementation; a panic (e.g. the comparator dereferencing a nil key)
// is the outcome `crash`.
func applyImpl(m Map, o op) string {
	p, _ := vlib.Try(func() {
		if o.del {
			m.Delete(box(o.k))
		} else {
			m.Put(box(o.k), box(o.v))
		}
	})
	if p {
		return "crash"
	}
	return "ok"
}

func hookDump(m Map) (sh Shape, ok bool) {
	p, _ := vlib.Try(func() { sh = m.VerifShape() })
	return sh, !p
}

// ---------------------------------------------------------------------------------------------
// tie 2b: the retention monitor (hook dump only, independent of the model)

type finding struct {
	kind   string
	level  string // monitor: level of the offending node
	opName string
	what   string
	at     int // index of the op after which it was seen (len(ops) = the final `full`)
}

func (f finding) key() string { return f.kind + "|" + f.level }

func (f finding) params() map[string]interface{} {
	p := map[string]interface{}{"op": f.opName}
	if f.level != "" {
		p["level"] = f.level
	}
	return p
}

// monitorShape checks the clause "no retained garbage" slot by slot on one hook dump: in every node
// reachable from the root, key / value slots at index >= n are nil, child slots at index > n are nil,
// a leaf has no child at all, and an internal node has its n+1 children. report is called for every
// offending slot (callers keep the first per kind and level).
func monitorShape(sh *Shape, report func(kind, level, what string)) {
	for pos := range sh.Nodes {
		nd := &sh.Nodes[pos]
		level := "internal"
		if len(nd.Children) == 0 || nd.Children[0] == -1 {
			level = "leaf"
		}
		n := nd.N
		if n < 0 || n > maxKVs {
			report("c03-occupancy", level, fmt.Sprintf("node at pre-order position %d has n=%d outside [0,%d]", pos, n, maxKVs))
			if n < 0 {
				n = 0
			} else {
				n = maxKVs
			}
		}
		for j := n; j < len(nd.Keys); j++ {
			if nd.Keys[j] != nil {
				report("c03-retained-key", level, fmt.Sprintf("node at pre-order position %d (n=%d, %s): key slot %d still holds a pointer (to %d)", pos, nd.N, level, j, *nd.Keys[j]))
				break
			}
		}
		for j := n; j < len(nd.Values); j++ {
			if nd.Values[j] != nil {
				report("c03-retained-value", level, fmt.Sprintf("node at pre-order position %d (n=%d, %s): value slot %d still holds a pointer (to %d)", pos, nd.N, level, j, *nd.Values[j]))
				break
			}
		}
		if level == "leaf" {
			for j, c := range nd.Children {
				if c != -1 {
					report("c03-retained-child", level, fmt.Sprintf("node at pre-order position %d (n=%d, leaf: child slot 0 is nil): child slot %d is not nil", pos, nd.N, j))
					break
				}
			}
			continue
		}
		for j, c := range nd.Children {
			if j <= n && (c == -1 || c == -2) {
				why := "nil"
				if c == -2 {
					why = "a node that is also reachable through an earlier slot"
				}
				report("c03-children", level, fmt.Sprintf("node at pre-order position %d (n=%d, internal): child slot %d is %s", pos, nd.N, j, why))
				break
			}
		}
		for j := n + 1; j < len(nd.Children); j++ {
			if nd.Children[j] != -1 {
				report("c03-retained-child", level, fmt.Sprintf("node at pre-order position %d (n=%d, internal): child slot %d still holds a pointer", pos, nd.N, j))
				break
			}
		}
	}
}

// ---------------------------------------------------------------------------------------------
// snapshots: a hook dump with node identities made stable across dumps (Ref -> local id)

// canon is everything that the model's node text shows, with identities as local ids; two dumps of
// the same node object render equally iff their canon values are equal.
type canon struct {
	n      int
	parent int // local id; -1 nil; -2 an object outside the walk
	keys   [maxKVs]int
	vals   [maxKVs]int
	keyNil uint32 // bit j: key slot j is nil
	valNil uint32
	kids   [fanout]int // local id; -1 nil; -2 a node already visited
}

type snode struct {
	canon
	lid    int
	depth  int
	kidPos [fanout]int // pre-order position in this dump; -1; -2
}

func (x *snode) leaf() bool { return x.kids[0] == -1 }

type snapshot struct {
	nodes     []snode
	pos       map[int]int // local id -> pre-order position
	size, gen int
	levels    int
	truncated bool
	malformed bool
}

type tracker struct{ ids map[interface{}]int }

func newTracker() *tracker { return &tracker{ids: map[interface{}]int{}} }

func (t *tracker) lid(ref interface{}) int {
	if id, ok := t.ids[ref]; ok {
		return id
	}
	id := len(t.ids)
	t.ids[ref] = id
	return id
}

func (t *tracker) snap(sh *Shape) *snapshot {
	s := &snapshot{nodes: make([]snode, len(sh.Nodes)), pos: make(map[int]int, len(sh.Nodes)),
		size: sh.Size, gen: sh.Gen, truncated: sh.Truncated}
	for i := range sh.Nodes {
		s.nodes[i].lid = t.lid(sh.Nodes[i].Ref)
		s.pos[s.nodes[i].lid] = i
	}
	ref := func(p int) int {
		if p >= 0 && p < len(s.nodes) {
			return s.nodes[p].lid
		}
		if p == -1 {
			return -1
		}
		return -2
	}
	for i := range sh.Nodes {
		h := &sh.Nodes[i]
		d := &s.nodes[i]
		d.n, d.depth = h.N, h.Depth
		if h.Depth+1 > s.levels {
			s.levels = h.Depth + 1
		}
		d.parent = ref(h.Parent)
		for j := range d.kids {
			d.kids[j], d.kidPos[j] = -1, -1
		}
		if len(h.Keys) != maxKVs || len(h.Values) != maxKVs || len(h.Children) != fanout {
			s.malformed = true
			continue
		}
		for j, k := range h.Keys {
			if k == nil {
				d.keyNil |= 1 << uint(j)
			} else {
				d.keys[j] = *k
			}
		}
		for j, v := range h.Values {
			if v == nil {
				d.valNil |= 1 << uint(j)
			} else {
				d.vals[j] = *v
			}
		}
		for j, c := range h.Children {
			d.kids[j], d.kidPos[j] = ref(c), c
			if c < -1 || c >= len(s.nodes) {
				d.kidPos[j] = -2
			}
		}
	}
	return s
}

func (s *snapshot) byLid(lid int) *snode {
	if p, ok := s.pos[lid]; ok {
		return &s.nodes[p]
	}
	return nil
}

// ---------------------------------------------------------------------------------------------
// internal rotations / merges seen in two consecutive hook dumps (no model involved)

type implEvent struct {
	kind   string // rotr-int | rotl-int | merge-int
	parent int    // local id of the parent of the nodes involved (before the op)
}

// implEvents classifies what a `del` did to the internal nodes. A rotation between two adjacent
// internal siblings S (the one stolen from) and X: S keeps its identity and loses exactly one entry,
// and the child at S's near end before the op is the child at X's near end after it (X itself had
// dropped to minKVs-1 by a merge among its children and is back at minKVs, so its n shows no net
// change). S left of X = rotateRight (`rotr-int`), S right of X = rotateLeft (`rotl-int`). An internal
// non-root node that is no longer reachable was merged into its left neighbour (`merge-int`).
func implEvents(prev, cur *snapshot) []implEvent {
	var out []implEvent
	for i := range prev.nodes {
		s := &prev.nodes[i]
		if s.depth < 1 || s.leaf() {
			continue
		}
		sc := cur.byLid(s.lid)
		if sc == nil {
			out = append(out, implEvent{"merge-int", s.parent})
			continue
		}
		if sc.leaf() || sc.n != s.n-1 || s.n < 1 || s.n > maxKVs || sc.parent != s.parent {
			continue
		}
		p := prev.byLid(s.parent)
		if p == nil || p.n < 0 || p.n > maxKVs {
			continue
		}
		slot := -1
		for j := 0; j <= p.n; j++ {
			if p.kids[j] == s.lid {
				slot = j
				break
			}
		}
		if slot < 0 {
			continue
		}
		if slot+1 <= p.n { // S is the left neighbour of X
			if x, xc := prev.byLid(p.kids[slot+1]), cur.byLid(p.kids[slot+1]); x != nil && xc != nil && !x.leaf() && !xc.leaf() &&
				xc.parent == s.parent && s.kids[s.n] >= 0 && xc.kids[0] == s.kids[s.n] {
				out = append(out, implEvent{"rotr-int", s.parent})
				continue
			}
		}
		if slot >= 1 { // S is the right neighbour of X
			if x, xc := prev.byLid(p.kids[slot-1]), cur.byLid(p.kids[slot-1]); x != nil && xc != nil && !x.leaf() && !xc.leaf() &&
				xc.parent == s.parent && xc.n >= 0 && xc.n <= maxKVs && s.kids[0] >= 0 && xc.kids[xc.n] == s.kids[0] {
				out = append(out, implEvent{"rotl-int", s.parent})
			}
		}
	}
	return out
}

// ---------------------------------------------------------------------------------------------
// tie 2a: correspondence with the model's dumps

type mdump struct {
	size, gen, root int
	pre             []int
	ev              []string
	nodes           []string
}

func parseDump(s string) (d mdump, err error) {
	parts := strings.Split(s, " | ")
	seen := 0
	for _, f := range strings.Fields(parts[0]) {
		i := strings.IndexByte(f, '=')
		if i < 0 {
			return d, fmt.Errorf("bad head field %q", f)
		}
		k, v := f[:i], f[i+1:]
		switch k {
		case "size":
			d.size, err = strconv.Atoi(v)
		case "gen":
			d.gen, err = strconv.Atoi(v)
		case "root":
			d.root, err = strconv.Atoi(v)
		case "pre":
			if v != "" {
				for _, x := range strings.Split(v, ",") {
					id, e := strconv.Atoi(x)
					if e != nil {
						return d, e
					}
					d.pre = append(d.pre, id)
				}
			}
		case "ev":
			if v != "-" && v != "" {
				d.ev = strings.Split(v, ",")
			}
		default:
			continue
		}
		if err != nil {
			return d, err
		}
		seen++
	}
	if seen != 5 {
		return d, fmt.Errorf("head %q has %d of 5 fields", parts[0], seen)
	}
	d.nodes = parts[1:]
	return d, nil
}

// bij is the per-case bijection between node objects (local ids) and model ids.
type bij struct {
	l2m map[int]int
	m2l map[int]int
}

func (b *bij) show(lid int) string {
	switch lid {
	case -1:
		return "_"
	case -2:
		return "dup"
	}
	if id, ok := b.l2m[lid]; ok {
		return strconv.Itoa(id)
	}
	return "?obj" + strconv.Itoa(lid)
}

// render prints an implementation node in the model's node text format.
func (b *bij) render(x *snode) string {
	var sb strings.Builder
	sb.Grow(160)
	sb.WriteString(b.show(x.lid))
	sb.WriteString(" n=")
	sb.WriteString(strconv.Itoa(x.n))
	sb.WriteString(" p=")
	if x.parent == -2 {
		sb.WriteString("out")
	} else {
		sb.WriteString(b.show(x.parent))
	}
	sb.WriteString(" k=")
	for j := 0; j < maxKVs; j++ {
		if j > 0 {
			sb.WriteByte(',')
		}
		if x.keyNil&(1<<uint(j)) != 0 {
			sb.WriteByte('_')
		} else {
			sb.WriteString(strconv.Itoa(x.keys[j]))
		}
	}
	sb.WriteString(" v=")
	for j := 0; j < maxKVs; j++ {
		if j > 0 {
			sb.WriteByte(',')
		}
		if x.valNil&(1<<uint(j)) != 0 {
			sb.WriteByte('_')
		} else {
			sb.WriteString(strconv.Itoa(x.vals[j]))
		}
	}
	sb.WriteString(" c=")
	for j := 0; j < fanout; j++ {
		if j > 0 {
			sb.WriteByte(',')
		}
		sb.WriteString(b.show(x.kids[j]))
	}
	return sb.String()
}

// compare checks one model dump against the implementation's state after the same op. prev is the
// implementation's previous state (nil for `full`, where the dirty-set completeness is not checked
// because every node is printed). It returns the first difference.
func (b *bij) compare(at int, opText string, prev, cur *snapshot, dumpLine string, evCount map[string]int) (kind, what string) {
	d, err := parseDump(dumpLine)
	if err != nil {
		return "slots-shape-differs", fmt.Sprintf("op %d (%s): model answered %q (%v)", at, opText, clip(dumpLine), err)
	}
	for _, e := range d.ev {
		evCount[e]++
	}
	if cur.truncated || cur.malformed {
		return "slots-shape-differs", fmt.Sprintf("op %d (%s): hook dump truncated or of unexpected slot counts", at, opText)
	}
	if d.size != cur.size || d.gen != cur.gen || len(d.pre) != len(cur.nodes) {
		return "slots-shape-differs", fmt.Sprintf("op %d (%s): impl size=%d gen=%d nodes=%d, model size=%d gen=%d nodes=%d",
			at, opText, cur.size, cur.gen, len(cur.nodes), d.size, d.gen, len(d.pre))
	}
	if len(d.pre) > 0 && d.pre[0] != d.root {
		return "slots-shape-differs", fmt.Sprintf("op %d (%s): model root=%d is not the first node of pre=%v", at, opText, d.root, d.pre)
	}
	// node identities, by pre-order position
	posOf := make(map[int]int, len(d.pre))
	for i, mid := range d.pre {
		lid := cur.nodes[i].lid
		if _, dup := posOf[mid]; dup {
			return "slots-node-identity-differs", fmt.Sprintf("op %d (%s): model lists node %d twice in pre", at, opText, mid)
		}
		posOf[mid] = i
		if m, ok := b.l2m[lid]; ok && m != mid {
			return "slots-node-identity-differs", fmt.Sprintf("op %d (%s): the node object at pre-order position %d was model node %d before, the model now has node %d there", at, opText, i, m, mid)
		}
		if l, ok := b.m2l[mid]; ok && l != lid {
			return "slots-node-identity-differs", fmt.Sprintf("op %d (%s): model node %d at pre-order position %d denoted another node object before", at, opText, mid, i)
		}
		b.l2m[lid] = mid
		b.m2l[mid] = lid
	}
	// raw slots of every node the model printed
	printed := make(map[int]bool, len(d.nodes))
	for _, ns := range d.nodes {
		sp := strings.IndexByte(ns, ' ')
		if sp < 0 {
			return "slots-raw-slots-differ", fmt.Sprintf("op %d (%s): unreadable model node %q", at, opText, clip(ns))
		}
		mid, err := strconv.Atoi(ns[:sp])
		p, ok := posOf[mid]
		if err != nil || !ok {
			return "slots-raw-slots-differ", fmt.Sprintf("op %d (%s): model printed node %q which is not in its pre list", at, opText, clip(ns))
		}
		printed[mid] = true
		if got := b.render(&cur.nodes[p]); got != ns {
			return "slots-raw-slots-differ", fmt.Sprintf("op %d (%s): node %d (pre-order position %d): impl %q, model %q", at, opText, mid, p, got, ns)
		}
	}
	// completeness of the model's dirty set
	if prev != nil {
		for i := range cur.nodes {
			x := &cur.nodes[i]
			old := prev.byLid(x.lid)
			if old != nil && old.canon == x.canon {
				continue
			}
			if printed[b.l2m[x.lid]] {
				continue
			}
			before := "<not in the tree>"
			if old != nil {
				before = b.render(old)
			}
			return "slots-unreported-change", fmt.Sprintf("op %d (%s): node %d (pre-order position %d) changed in the implementation but the model did not write it: before %q, after %q",
				at, opText, b.l2m[x.lid], i, before, b.render(x))
		}
	}
	return "", ""
}

func clip(s string) string {
	if len(s) > 300 {
		return s[:300] + "…"
	}
	return s
}

// ---------------------------------------------------------------------------------------------
// one case, start to end

type report struct {
	variant    string
	nops       int
	puts, dels int
	levels     int // max levels reached
	crashedAt  int // -1: no crash
	mon        []finding
	cor        *finding
	compared   bool
	ev         map[string]int // model's structural events
	impl       map[string]int // hook-derived internal events
}

func (r *report) monFind(key string) *finding {
	for i := range r.mon {
		if r.mon[i].key() == key {
			return &r.mon[i]
		}
	}
	return nil
}

type execOpts struct {
	model   []string // model answers to modelLines(ops); nil = monitor only
	stopMon string   // stop as soon as this monitor finding (kind|level) was made
	light   bool     // monitor only, no snapshots / events
}

func execCase(variant string, ops []op, o execOpts) *report {
	rep := &report{variant: variant, nops: len(ops), crashedAt: -1, ev: map[string]int{}, impl: map[string]int{}}
	m := newImpl(variant)
	tr := newTracker()
	b := &bij{l2m: map[int]int{}, m2l: map[int]int{}}
	doCor := o.model != nil && len(o.model) == 2*len(ops)+1 && !o.light
	rep.compared = doCor
	var prev *snapshot
	if !o.light {
		if sh, ok := hookDump(m); ok {
			prev = tr.snap(&sh)
		}
	}
	corFail := func(kind, what string, at int, name string) {
		if rep.cor == nil {
			rep.cor = &finding{kind: kind, what: what, at: at, opName: name}
		}
	}
	lastName := "put"
	for i, x := range ops {
		lastName = x.name()
		if x.del {
			rep.dels++
		} else {
			rep.puts++
		}
		out := "crash"
		if rep.crashedAt < 0 {
			out = applyImpl(m, x)
			if out == "crash" {
				rep.crashedAt = i
			}
		}
		if doCor && rep.cor == nil && o.model[2*i] != out {
			corFail("slots-outcome-differs", fmt.Sprintf("op %d (%s): impl %s, model %s", i, x.line(), out, clip(o.model[2*i])), i, x.name())
		}
		if rep.crashedAt >= 0 {
			continue
		}
		sh, ok := hookDump(m)
		if !ok {
			rep.crashedAt = i
			continue
		}
		monitorShape(&sh, func(kind, level, what string) {
			f := finding{kind: kind, level: level, opName: x.name(), at: i,
				what: fmt.Sprintf("after op %d (%s): %s", i, x.line(), what)}
			if rep.monFind(f.key()) == nil {
				rep.mon = append(rep.mon, f)
			}
		})
		if o.stopMon != "" && rep.monFind(o.stopMon) != nil {
			return rep
		}
		if o.light {
			continue
		}
		cur := tr.snap(&sh)
		if cur.levels > rep.levels {
			rep.levels = cur.levels
		}
		if x.del && prev != nil {
			for _, e := range implEvents(prev, cur) {
				rep.impl[e.kind]++
			}
		}
		if doCor && rep.cor == nil {
			if kind, what := b.compare(i, x.line(), prev, cur, o.model[2*i+1], rep.ev); kind != "" {
				corFail(kind, what, i, x.name())
			}
		}
		prev = cur
	}
	if doCor && rep.cor == nil && rep.crashedAt < 0 && prev != nil {
		if kind, what := b.compare(len(ops), "full", nil, prev, o.model[2*len(ops)], rep.ev); kind != "" {
			corFail(kind, what, len(ops), lastName)
		}
	}
	return rep
}
