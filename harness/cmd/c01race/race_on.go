//go:build race

package main

const raceEnabled = true
