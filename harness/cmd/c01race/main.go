// C01, last sentence: "Puts from several goroutines to distinct keys that are already present,
// concurrent with reads of other keys, are free of data races and all take effect."
//
// Supporting evidence only (the Lean side proves the footprint of a Put of a present key; that
// disjoint plain accesses are race-free is the Go memory model). Built with -race by the runner.
// Parent/child: the parent re-executes this binary with VERIF_RACE_CHILD=1 and judges the child by
// its exit code and stderr (the race detector exits 66 after printing "WARNING: DATA RACE"; the
// child exits 3 on a logical failure: a Put that did not take effect, a reader that saw a foreign
// value, a changed Len).
package main

import (
	"bytes"
	"encoding/json"
	"fmt"
	"os"
	"os/exec"
	"strconv"
	"strings"
	"sync"
	"sync/atomic"
	"time"

	"github.com/bradenaw/juniper/container/tree"
	"verifharness/vlib"
)

const (
	writers = 8
	readers = 4
	classes = 16 // key k belongs to class k % 16: classes 0..7 are written (one writer each), 8..15 only read
)

type params struct {
	Seed   uint64 `json:"seed"`
	N      int    `json:"n"`
	Rounds int    `json:"rounds"`
	Cmp    bool   `json:"cmp"`
}

func initial(k int) int { return 7*k + 1 }

// child runs one stress round and exits 0 / 3.
func child(p params) {
	var m tree.Map[int, int]
	if p.Cmp {
		m = tree.NewMapCmp[int, int](func(a, b int) int { return a - b })
	} else {
		m = tree.NewMap[int, int](func(a, b int) bool { return a < b })
	}
	r := vlib.NewRand(p.Seed).Fork()
	order := make([]int, p.N)
	for i := range order {
		order[i] = i + 1
	}
	for i := p.N - 1; i > 0; i-- { // random insertion order: a tree of varied shape
		j := r.Intn(i + 1)
		order[i], order[j] = order[j], order[i]
	}
	for _, k := range order {
		m.Put(k, initial(k))
	}
	final := make([]int, p.N+1) // final[k] is written only by the owner of k's class
	var stop int32
	var bad int64
	var firstBad atomic.Value
	fail := func(format string, a ...interface{}) {
		if atomic.AddInt64(&bad, 1) == 1 {
			firstBad.Store(fmt.Sprintf(format, a...))
		}
	}
	var wg, rg sync.WaitGroup
	var reads int64
	for g := 0; g < writers; g++ {
		wg.Add(1)
		mine := m // every goroutine works through its own copy of the Map value
		rr := r.Fork()
		go func(g int) {
			defer wg.Done()
			var keys []int
			for k := 1; k <= p.N; k++ {
				if k%classes == g {
					keys = append(keys, k)
				}
			}
			for round := 1; round <= p.Rounds; round++ {
				for i := len(keys) - 1; i > 0; i-- {
					j := rr.Intn(i + 1)
					keys[i], keys[j] = keys[j], keys[i]
				}
				for _, k := range keys {
					v := round*1000003 + k
					mine.Put(k, v)
					final[k] = v
				}
			}
		}(g)
	}
	for g := 0; g < readers; g++ {
		rg.Add(1)
		mine := m
		rr := r.Fork()
		go func() {
			defer rg.Done()
			n := int64(0)
			for atomic.LoadInt32(&stop) == 0 {
				k := 1 + rr.Intn(p.N)
				if k%classes < writers {
					continue
				}
				if v := mine.Get(k); v != initial(k) {
					fail("reader: Get(%d) = %d, want its constant value %d", k, v, initial(k))
				}
				if !mine.Contains(k) {
					fail("reader: Contains(%d) = false", k)
				}
				n += 2
			}
			atomic.AddInt64(&reads, n)
		}()
	}
	wg.Wait()
	atomic.StoreInt32(&stop, 1)
	rg.Wait()
	if m.Len() != p.N {
		fail("Len() = %d after the stress, want %d", m.Len(), p.N)
	}
	for k := 1; k <= p.N; k++ {
		want := initial(k)
		if k%classes < writers {
			want = final[k]
		}
		if v := m.Get(k); v != want {
			fail("after join: Get(%d) = %d, the last value put by its writer is %d", k, v, want)
		}
	}
	fmt.Printf("{\"reads\":%d,\"puts\":%d}\n", reads, p.Rounds*(p.N/2))
	if bad > 0 {
		fmt.Fprintf(os.Stderr, "LOGICAL FAILURE (%d): %v\n", bad, firstBad.Load())
		os.Exit(3)
	}
}

// runChild executes one child and classifies the outcome ("" = fine).
func runChild(p params) (kind, what string) {
	b, _ := json.Marshal(p)
	cmd := exec.Command(os.Args[0])
	cmd.Env = append(os.Environ(), "VERIF_RACE_CHILD=1", "VERIF_RACE_PARAMS="+string(b))
	var stderr, stdout bytes.Buffer
	cmd.Stderr, cmd.Stdout = &stderr, &stdout
	done := make(chan error, 1)
	if err := cmd.Start(); err != nil {
		return "harness", "cannot start the child: " + err.Error()
	}
	go func() { done <- cmd.Wait() }()
	var err error
	select {
	case err = <-done:
	case <-time.After(5 * time.Minute):
		cmd.Process.Kill()
		<-done
		return "harness", "child did not finish within 5 minutes"
	}
	code := 0
	if err != nil {
		code = -1
		if ee, ok := err.(*exec.ExitError); ok {
			code = ee.ExitCode()
		}
	}
	tail := stderr.String()
	if len(tail) > 1500 {
		tail = tail[:1500] + "..."
	}
	switch {
	case strings.Contains(stderr.String(), "WARNING: DATA RACE"):
		return "c01-data-race", tail
	case code == 3:
		return "c01-concurrent-put-lost", tail
	case code != 0:
		return "harness", fmt.Sprintf("child exited with code %d: %s", code, tail)
	}
	return "", ""
}

func main() {
	if os.Getenv("VERIF_RACE_CHILD") == "1" {
		var p params
		if err := json.Unmarshal([]byte(os.Getenv("VERIF_RACE_PARAMS")), &p); err != nil || p.N < classes {
			fmt.Fprintln(os.Stderr, "bad VERIF_RACE_PARAMS")
			os.Exit(2)
		}
		child(p)
		return
	}
	env := vlib.GetEnv()
	if env.Replay != "" {
		var p params
		if err := vlib.ReplayCase(env.Replay, &p); err != nil {
			fmt.Println("cannot read replay:", err)
			os.Exit(2)
		}
		kind, what := runChild(p)
		fmt.Printf("replay %+v (race detector: %v)\n%s %s\n", p, raceEnabled, kind, what)
		if kind != "" {
			os.Exit(1)
		}
		return
	}
	res := vlib.NewResult("C01", "stress rounds: a tree.Map[int,int] (less- or cmp-constructed) with 2000-20000 present keys, 8 writer goroutines each "+
		"Put-ting many rounds of values to the keys of its own residue class (mod 16), 4 reader goroutines doing Get/Contains on keys of classes nobody writes, "+
		"each goroutine through its own copy of the Map value; afterwards every written key must hold its writer's last value, Len is unchanged, readers saw "+
		"constant values; run under the Go race detector. Every round is non-trivial; distinct = different (seed, n, rounds, constructor)")
	res.Extra["race_detector"] = raceEnabled
	budget := time.Duration(env.BudgetMs/3) * time.Millisecond
	if budget > 40*time.Second {
		budget = 40 * time.Second
	}
	deadline := time.Now().Add(budget)
	r := vlib.NewRand(env.Seed).Fork()
	for i := 0; i < 200 && (i < 2 || time.Now().Before(deadline)); i++ {
		p := params{Seed: r.Uint64() >> 1, N: r.Range(2000, 20000), Rounds: r.Range(10, 40), Cmp: i%2 == 1}
		kind, what := runChild(p)
		res.Case(fmt.Sprintf("%+v", p), true, p)
		res.Evaluations += p.Rounds - 1 // Case counted one; Evaluations = writer rounds
		res.Count("children")
		res.Count("ctor-" + map[bool]string{true: "cmp", false: "less"}[p.Cmp])
		res.CountN("puts", p.Rounds*(p.N/2))
		res.Count("keys-" + strconv.Itoa(p.N/5000*5000) + "+")
		switch kind {
		case "":
		case "harness":
			res.Fail(vlib.Failure{Source: "correspondence", Kind: "tree-race-child-broken", What: what, Case: p})
		default:
			res.Fail(vlib.Failure{Source: "monitor", Kind: kind, Params: map[string]interface{}{"cmp": p.Cmp}, What: what, Case: p})
		}
	}
	res.Write(env.Out)
}
