// C01, last sentence: "Puts from several goroutines to distinct keys that are already present,
// concurrent with reads of other keys, are free of data races and all take effect."
//
// Supporting evidence and the search engine for the concurrent theorems of Props/C01Race (all
// interleavings of the access-level model; the Go memory model is trusted). Readers: Get/Contains,
// Range, RangeReverse and Iterate over key sets disjoint from the written keys, with the range
// bounds adjacent to written keys. Built with -race by the runner.
// Parent/child: the parent re-executes this binary with VERIF_RACE_CHILD=1 and judges the child by
// its exit code and stderr (the race detector exits 66 after printing "WARNING: DATA RACE"; the
// child exits 3 on a logical failure: a Put that did not take effect, a reader that saw a foreign
// value, a changed Len).
package main

import (
	"bytes"
	"encoding/json"
	"fmt"
	"os"
	"os/exec"
	"strconv"
	"strings"
	"sync"
	"sync/atomic"
	"time"

	"github.com/bradenaw/juniper/container/tree"
	"verifharness/vlib"
)

const (
	writers = 8
	readers = 4
	classes = 16 // key k belongs to class (k+7) % 16: classes 0..7 are written (one writer each), 8..15 only read
)

// class of a key. Keys 1..8 are read-only (classes 8..15), 9..16 written (classes 0..7), 17..24
// read-only, ...: the read-only keys form runs 16q+1 .. 16q+8 whose two neighbours 16q and 16q+9
// are written keys.
func class(k int) int { return (k + 7) % classes }

// reader kinds (Params.Readers is a bit set; 0 = all)
const (
	rdGet = 1 << iota
	rdRange
	rdRangeReverse
	rdIterate
	rdAll = rdGet | rdRange | rdRangeReverse | rdIterate
)

var readerNames = map[int]string{rdGet: "get", rdRange: "range", rdRangeReverse: "rangereverse", rdIterate: "iterate"}

type params struct {
	Seed   uint64 `json:"seed"`
	N      int    `json:"n"`
	Rounds int    `json:"rounds"`
	Cmp    bool   `json:"cmp"`
	// bit set of reader kinds (rdGet | rdRange | rdRangeReverse | rdIterate); 0 = all
	Readers int `json:"readers,omitempty"`
}

func initial(k int) int { return 7*k + 1 }

// child runs one stress round and exits 0 / 3.
func child(p params) {
	var m tree.Map[int, int]
	if p.Cmp {
		m = tree.NewMapCmp[int, int](func(a, b int) int { return a - b })
	} else {
		m = tree.NewMap[int, int](func(a, b int) bool { return a < b })
	}
	r := vlib.NewRand(p.Seed).Fork()
	order := make([]int, p.N)
	for i := range order {
		order[i] = i + 1
	}
	for i := p.N - 1; i > 0; i-- { // random insertion order: a tree of varied shape
		j := r.Intn(i + 1)
		order[i], order[j] = order[j], order[i]
	}
	for _, k := range order {
		m.Put(k, initial(k))
	}
	final := make([]int, p.N+1) // final[k] is written only by the owner of k's class
	var stop int32
	var bad int64
	var firstBad atomic.Value
	fail := func(format string, a ...interface{}) {
		if atomic.AddInt64(&bad, 1) == 1 {
			firstBad.Store(fmt.Sprintf(format, a...))
		}
	}
	var wg, rg sync.WaitGroup
	var reads int64
	for g := 0; g < writers; g++ {
		wg.Add(1)
		mine := m // every goroutine works through its own copy of the Map value
		rr := r.Fork()
		go func(g int) {
			defer wg.Done()
			var keys []int
			for k := 1; k <= p.N; k++ {
				if class(k) == g {
					keys = append(keys, k)
				}
			}
			for round := 1; round <= p.Rounds; round++ {
				for i := len(keys) - 1; i > 0; i-- {
					j := rr.Intn(i + 1)
					keys[i], keys[j] = keys[j], keys[i]
				}
				for _, k := range keys {
					v := round*1000003 + k
					mine.Put(k, v)
					final[k] = v
				}
			}
		}(g)
	}
	kinds := p.Readers
	if kinds == 0 {
		kinds = rdAll
	}
	var kindList []int
	for _, kd := range []int{rdGet, rdRange, rdRangeReverse, rdIterate} {
		if kinds&kd != 0 {
			kindList = append(kindList, kd)
		}
	}
	runs := (p.N - 8) / classes // complete read-only runs 16q+1 .. 16q+8 with both neighbours present
	// checkRun: an iterator over exactly the read-only run q must yield its 8 keys in order with
	// their constant values and then end.
	checkRun := func(what string, q int, rev bool, next func() (tree.KVPair[int, int], bool)) int64 {
		for j := 0; j < 8; j++ {
			want := 16*q + 1 + j
			if rev {
				want = 16*q + 8 - j
			}
			pair, ok := next()
			if !ok || pair.Key != want || pair.Value != initial(want) {
				fail("reader: %s over run %d: item %d = (%d, %d, %v), want (%d, %d, true)", what, q, j, pair.Key, pair.Value, ok, want, initial(want))
				return int64(j)
			}
		}
		if pair, ok := next(); ok {
			fail("reader: %s over run %d yields (%d, %d) beyond its bound", what, q, pair.Key, pair.Value)
		}
		return 9
	}
	for g := 0; g < readers; g++ {
		rg.Add(1)
		mine := m
		rr := r.Fork()
		kind := kindList[g%len(kindList)]
		go func() {
			defer rg.Done()
			n := int64(0)
			for atomic.LoadInt32(&stop) == 0 {
				switch kind {
				case rdGet:
					k := 1 + rr.Intn(p.N)
					if class(k) < writers {
						continue
					}
					if v := mine.Get(k); v != initial(k) {
						fail("reader: Get(%d) = %d, want its constant value %d", k, v, initial(k))
					}
					if !mine.Contains(k) {
						fail("reader: Contains(%d) = false", k)
					}
					n += 2
				case rdRange, rdRangeReverse:
					// bounds adjacent to written keys: the inclusive ends are the first / last
					// read-only key of the run, the exclusive ends are the written neighbours
					// themselves (a bound key is only ever compared, never looked up).
					q := rr.Intn(runs)
					lo, hi := tree.Included(16*q+1), tree.Included(16*q+8)
					if rr.Intn(2) == 0 {
						lo = tree.Excluded(16 * q)
					}
					if rr.Intn(2) == 0 {
						hi = tree.Excluded(16*q + 9)
					}
					if kind == rdRange {
						n += checkRun("Range", q, false, mine.Range(lo, hi).Next)
					} else {
						n += checkRun("RangeReverse", q, true, mine.RangeReverse(lo, hi).Next)
					}
				case rdIterate:
					// Iterate, abandoned after the first 8 items (keys 1..8, read-only; the
					// cursor is then parked on the written key 9 whose value is never asked for);
					// and the unbounded-below / unbounded-above ranges that end next to a written key.
					it := mine.Iterate()
					for j := 1; j <= 8; j++ {
						pair, ok := it.Next()
						if !ok || pair.Key != j || pair.Value != initial(j) {
							fail("reader: Iterate item %d = (%d, %d, %v), want (%d, %d, true)", j, pair.Key, pair.Value, ok, j, initial(j))
							break
						}
					}
					n += 8 + checkRun("Range(unbounded, 8]", 0, false, mine.Range(tree.Unbounded[int](), tree.Included(8)).Next)
				}
			}
			atomic.AddInt64(&reads, n)
		}()
	}
	wg.Wait()
	atomic.StoreInt32(&stop, 1)
	rg.Wait()
	if m.Len() != p.N {
		fail("Len() = %d after the stress, want %d", m.Len(), p.N)
	}
	for k := 1; k <= p.N; k++ {
		want := initial(k)
		if class(k) < writers {
			want = final[k]
		}
		if v := m.Get(k); v != want {
			fail("after join: Get(%d) = %d, the last value put by its writer is %d", k, v, want)
		}
	}
	fmt.Printf("{\"reads\":%d,\"puts\":%d}\n", reads, p.Rounds*(p.N/2))
	if bad > 0 {
		fmt.Fprintf(os.Stderr, "LOGICAL FAILURE (%d): %v\n", bad, firstBad.Load())
		os.Exit(3)
	}
}

// runChild executes one child and classifies the outcome ("" = fine).
func runChild(p params) (kind, what string) {
	b, _ := json.Marshal(p)
	cmd := exec.Command(os.Args[0])
	cmd.Env = append(os.Environ(), "VERIF_RACE_CHILD=1", "VERIF_RACE_PARAMS="+string(b))
	var stderr, stdout bytes.Buffer
	cmd.Stderr, cmd.Stdout = &stderr, &stdout
	done := make(chan error, 1)
	if err := cmd.Start(); err != nil {
		return "harness", "cannot start the child: " + err.Error()
	}
	go func() { done <- cmd.Wait() }()
	var err error
	select {
	case err = <-done:
	case <-time.After(5 * time.Minute):
		cmd.Process.Kill()
		<-done
		return "harness", "child did not finish within 5 minutes"
	}
	code := 0
	if err != nil {
		code = -1
		if ee, ok := err.(*exec.ExitError); ok {
			code = ee.ExitCode()
		}
	}
	tail := stderr.String()
	if len(tail) > 1500 {
		tail = tail[:1500] + "..."
	}
	switch {
	case strings.Contains(stderr.String(), "WARNING: DATA RACE"):
		return "c01-data-race", tail
	case code == 3:
		return "c01-concurrent-put-lost", tail
	case code != 0:
		return "harness", fmt.Sprintf("child exited with code %d: %s", code, tail)
	}
	return "", ""
}

func main() {
	if os.Getenv("VERIF_RACE_CHILD") == "1" {
		var p params
		if err := json.Unmarshal([]byte(os.Getenv("VERIF_RACE_PARAMS")), &p); err != nil || p.N < classes {
			fmt.Fprintln(os.Stderr, "bad VERIF_RACE_PARAMS")
			os.Exit(2)
		}
		child(p)
		return
	}
	env := vlib.GetEnv()
	if env.Replay != "" {
		var p params
		if err := vlib.ReplayCase(env.Replay, &p); err != nil {
			fmt.Println("cannot read replay:", err)
			os.Exit(2)
		}
		kind, what := runChild(p)
		fmt.Printf("replay %+v (race detector: %v)\n%s %s\n", p, raceEnabled, kind, what)
		if kind != "" {
			os.Exit(1)
		}
		return
	}
	res := vlib.NewResult("C01", "stress rounds: a tree.Map[int,int] (less- or cmp-constructed) with 2000-20000 present keys (quick: 400-3000), 8 writer goroutines each "+
		"Put-ting many rounds of values to the keys of its own residue class ((k+7) mod 16 in 0..7), 4 reader goroutines of the kinds Get/Contains, Range, RangeReverse, "+
		"Iterate (abandoned before the first written key) on keys of classes nobody writes - the ranges cover exactly one run of 8 read-only keys, both bounds adjacent "+
		"to a written key (inclusive read-only end or exclusive written neighbour) - each goroutine through its own copy of the Map value; afterwards every written key "+
		"must hold its writer's last value, Len is unchanged, readers saw constant values and exactly their runs; run under the Go race detector. Every round is "+
		"non-trivial; distinct = different (seed, n, rounds, constructor)")
	res.Extra["race_detector"] = raceEnabled
	budget := time.Duration(env.BudgetMs/3) * time.Millisecond
	if budget > 40*time.Second {
		budget = 40 * time.Second
	}
	quick := env.Tier != "thorough" && !env.Deep
	deadline := time.Now().Add(budget)
	r := vlib.NewRand(env.Seed).Fork()
	// the corpus first: one JSON object of parameters per *.race file
	var corpus []params
	for _, f := range vlib.CorpusFiles(env.Corpus, ".race") {
		var p params
		if json.Unmarshal([]byte(strings.Join(vlib.ReadLines(f), " ")), &p) == nil && p.N >= classes {
			corpus = append(corpus, p)
		}
	}
	for i := 0; i < 200+len(corpus) && (i < 2+len(corpus) || time.Now().Before(deadline)); i++ {
		var p params
		if i < len(corpus) {
			p = corpus[i]
			res.Count("corpus")
		} else {
			p = params{Seed: r.Uint64() >> 1, N: r.Range(2000, 20000), Rounds: r.Range(10, 40), Cmp: i%2 == 1}
			if quick {
				p.N, p.Rounds = r.Range(400, 3000), r.Range(4, 12)
			}
		}
		kind, what := runChild(p)
		res.Case(fmt.Sprintf("%+v", p), true, p)
		res.Evaluations += p.Rounds - 1 // Case counted one; Evaluations = writer rounds
		res.Count("children")
		res.Count("ctor-" + map[bool]string{true: "cmp", false: "less"}[p.Cmp])
		res.CountN("puts", p.Rounds*(p.N/2))
		res.Count("keys-" + strconv.Itoa(p.N/5000*5000) + "+")
		for _, kd := range []int{rdGet, rdRange, rdRangeReverse, rdIterate} {
			res.Count("api:reader-" + readerNames[kd])
		}
		switch kind {
		case "":
		case "harness":
			res.Fail(vlib.Failure{Source: "correspondence", Kind: "tree-race-child-broken", What: what, Case: p})
		default:
			// shrink: which single reader kind reproduces it, on how small a map
			readers := "all"
			for _, kd := range []int{rdGet, rdRange, rdRangeReverse, rdIterate} {
				q := p
				q.Readers = kd
				if k2, w2 := runChild(q); k2 == kind {
					p, what, readers = q, w2, readerNames[kd]
					break
				}
			}
			for _, n := range []int{64, 200, 1000} {
				q := p
				q.N, q.Rounds = n, 4
				if q.N >= p.N {
					break
				}
				if k2, w2 := runChild(q); k2 == kind {
					p, what = q, w2
					break
				}
			}
			res.Fail(vlib.Failure{Source: "monitor", Kind: kind, Params: map[string]interface{}{"cmp": p.Cmp, "readers": readers}, What: what, Case: p})
		}
	}
	res.Write(env.Out)
}
