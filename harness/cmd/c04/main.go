// C04: deque.Deque equals an ideal double-ended sequence for every history.
//
// Correspondence: the same op lines run on the real Deque[*int] (through its exported API plus the
// read-only verif hook) and on the Lean model (`driver deque`); outputs incl. the raw ring state are
// compared line by line. Monitor: the property's clauses checked on the implementation against a
// plain slice.
package main

import (
	"fmt"
	"math"
	"os"
	"strconv"
	"strings"
	"time"

	"github.com/bradenaw/juniper/container/deque"
	"verifharness/vlib"
)

type Op struct {
	Name string `json:"op"`
	A    int    `json:"a,omitempty"`
	B    int    `json:"b,omitempty"`
}

func (o Op) Line() string {
	switch o.Name {
	case "pushfront", "pushback", "item", "grow", "shrink":
		return fmt.Sprintf("%s %d", o.Name, o.A)
	case "set":
		return fmt.Sprintf("set %d %d", o.A, o.B)
	}
	return o.Name
}

func lines(ops []Op) []string {
	var out []string
	for _, o := range ops {
		out = append(out, o.Line(), "state")
	}
	return out
}

func showPtr(p *int) string {
	if p == nil {
		return "nil"
	}
	return strconv.Itoa(*p)
}

func showState(d *deque.Deque[*int]) string {
	isNil, c, f, b, g := d.VerifState()
	sl := d.VerifSlots()
	parts := make([]string, len(sl))
	for i, p := range sl {
		if p == nil {
			parts[i] = "_"
		} else {
			parts[i] = strconv.Itoa(*p)
		}
	}
	n := 0
	if isNil {
		n = 1
	}
	return fmt.Sprintf("state nil=%d cap=%d front=%d back=%d gen=%d slots=%s", n, c, f, b, g, strings.Join(parts, ","))
}

func box(v int) *int { return &v }

// applyImpl executes one op on the real deque and returns the protocol output.
func applyImpl(d *deque.Deque[*int], o Op) string {
	var out string
	p, _ := vlib.Try(func() {
		switch o.Name {
		case "pushfront":
			d.PushFront(box(o.A))
			out = "ok"
		case "pushback":
			d.PushBack(box(o.A))
			out = "ok"
		case "popfront":
			out = showPtr(d.PopFront())
		case "popback":
			out = showPtr(d.PopBack())
		case "front":
			out = showPtr(d.Front())
		case "back":
			out = showPtr(d.Back())
		case "item":
			out = showPtr(d.Item(o.A))
		case "set":
			d.Set(o.A, box(o.B))
			out = "ok"
		case "grow":
			d.Grow(o.A)
			out = "ok"
		case "shrink":
			d.Shrink(o.A)
			out = "ok"
		case "len":
			out = strconv.Itoa(d.Len())
		default:
			out = "bad-op"
		}
	})
	if p {
		return "panic"
	}
	return out
}

func runImpl(ops []Op) []string {
	var d deque.Deque[*int]
	var out []string
	for _, o := range ops {
		out = append(out, applyImpl(&d, o), showState(&d))
	}
	return out
}

// monitor checks the property's clauses against a plain slice. It returns "" or a description of
// the first violated clause, with its kind.
func monitor(ops []Op) (kind, what string, at int) {
	var d deque.Deque[*int]
	var ref []int
	contents := func() ([]int, bool) {
		n := d.Len()
		out := make([]int, 0, n)
		for i := 0; i < n; i++ {
			var p *int
			if pn, _ := vlib.Try(func() { p = d.Item(i) }); pn || p == nil {
				return nil, false
			}
			out = append(out, *p)
		}
		return out, true
	}
	same := func(a, b []int) bool {
		if len(a) != len(b) {
			return false
		}
		for i := range a {
			if a[i] != b[i] {
				return false
			}
		}
		return true
	}
	for idx, o := range ops {
		got := applyImpl(&d, o)
		want := "ok"
		switch o.Name {
		case "pushfront":
			ref = append([]int{o.A}, ref...)
		case "pushback":
			ref = append(ref, o.A)
		case "popfront":
			if len(ref) == 0 {
				want = "panic"
			} else {
				want = strconv.Itoa(ref[0])
				ref = ref[1:]
			}
		case "popback":
			if len(ref) == 0 {
				want = "panic"
			} else {
				want = strconv.Itoa(ref[len(ref)-1])
				ref = ref[:len(ref)-1]
			}
		case "front":
			if len(ref) == 0 {
				want = "panic"
			} else {
				want = strconv.Itoa(ref[0])
			}
		case "back":
			if len(ref) == 0 {
				want = "panic"
			} else {
				want = strconv.Itoa(ref[len(ref)-1])
			}
		case "item":
			if o.A < 0 || o.A >= len(ref) {
				want = "panic"
			} else {
				want = strconv.Itoa(ref[o.A])
			}
		case "set":
			if o.A < 0 || o.A >= len(ref) {
				want = "panic"
			} else {
				ref = append([]int{}, ref...)
				ref[o.A] = o.B
			}
		case "grow":
			// no documented panic; contents unchanged. (A negative argument is outside the
			// documented domain and is not generated.)
		case "shrink":
			if o.A < 0 {
				want = "panic"
			}
		case "len":
			want = strconv.Itoa(len(ref))
		}
		if got != want {
			k := "wrong-result"
			if want == "panic" {
				k = "missing-panic"
			} else if got == "panic" {
				k = "unexpected-panic"
			}
			return k + "-" + o.Name, fmt.Sprintf("op %d %q returned %s, ideal sequence gives %s", idx, o.Line(), got, want), idx
		}
		c, ok := contents()
		if !ok || !same(c, ref) || d.Len() != len(ref) {
			k := "contents-changed-" + o.Name
			return k, fmt.Sprintf("after op %d %q contents are %v (Len %d), ideal sequence holds %v", idx, o.Line(), c, d.Len(), ref), idx
		}
		// retention: no slot outside the live window keeps a pointer
		live := 0
		for _, p := range d.VerifSlots() {
			if p != nil {
				live++
			}
		}
		if live != len(ref) {
			return "retained-" + o.Name, fmt.Sprintf("after op %d %q the buffer holds %d non-nil slots for %d elements", idx, o.Line(), live, len(ref)), idx
		}
		// Iterate on the unchanged deque yields the contents front to back
		if idx%7 == 0 || idx == len(ops)-1 {
			it := d.Iterate()
			var got []int
			bad := false
			if pn, _ := vlib.Try(func() {
				for {
					p, ok := it.Next()
					if !ok {
						break
					}
					if p == nil {
						bad = true
						break
					}
					got = append(got, *p)
					if len(got) > len(ref)+2 {
						break
					}
				}
			}); pn || bad || !same(got, ref) {
				return "iterate-unchanged", fmt.Sprintf("after op %d Iterate yields %v, contents are %v", idx, got, ref), idx
			}
		}
	}
	return "", "", -1
}

// ---------------------------------------------------------------------------------------------
// generators

// hugeShrink: Shrink arguments at the top of the int range, around the points where `Len()+n` and
// `cap+n` stop being representable. Shrink(n) says "at most n extra items": every non-negative n is inside
// the documented domain, and for these the ideal sequence (and the model, whose integers are unbounded:
// `cap - len > n` is false) answers "nothing happens". An implementation that computes a target size from
// n in machine integers wraps around exactly here.
func hugeShrink(r *vlib.Rand, size int) int {
	c := []int{math.MaxInt, math.MaxInt - 1, math.MaxInt - size, math.MaxInt - size + 1, math.MaxInt - size - 1,
		math.MaxInt - 16, math.MaxInt - 2*size, math.MaxInt/2 + 1, math.MaxInt / 2, math.MaxInt - r.Intn(64), math.MaxInt32, 1 << 62}
	return c[r.Intn(len(c))]
}

func genCase(r *vlib.Rand, res *vlib.Result) []Op {
	mode := r.Intn(6)
	res.Count(fmt.Sprintf("mode-%d", mode))
	n := r.Range(5, 120)
	if mode == 5 {
		n = r.Range(40, 400)
	}
	var ops []Op
	size := 0
	val := 0
	push := func(front bool) {
		val++
		if front {
			ops = append(ops, Op{Name: "pushfront", A: val})
		} else {
			ops = append(ops, Op{Name: "pushback", A: val})
		}
		size++
	}
	// prefix: bring the deque to an interesting capacity boundary
	switch mode {
	case 1: // fill to a boundary from the back, then wrap
		k := []int{15, 16, 17, 31, 32, 33}[r.Intn(6)]
		for i := 0; i < k; i++ {
			push(false)
		}
	case 2: // front-heavy: wrapped ring
		k := r.Range(1, 20)
		for i := 0; i < k; i++ {
			push(true)
		}
	case 3: // exact fit after shrink, then push to the front
		k := r.Range(0, 5)
		for i := 0; i < k; i++ {
			push(r.Bool())
		}
		ops = append(ops, Op{Name: "shrink", A: r.Intn(3)})
	case 4: // rotate through the ring so that front is anywhere
		k := r.Range(1, 16)
		for i := 0; i < k; i++ {
			push(false)
		}
		for i := 0; i < r.Range(1, 40); i++ {
			push(false)
			ops = append(ops, Op{Name: "popfront"})
			size--
		}
	}
	for len(ops) < n {
		malformed := r.Chance(1, 25)
		switch r.Pick(20, 20, 14, 14, 5, 5, 8, 8, 3, 5, 5) {
		case 0:
			push(true)
		case 1:
			push(false)
		case 2:
			if size > 0 || malformed {
				ops = append(ops, Op{Name: "popfront"})
				if size > 0 {
					size--
				}
			}
		case 3:
			if size > 0 || malformed {
				ops = append(ops, Op{Name: "popback"})
				if size > 0 {
					size--
				}
			}
		case 4:
			if size > 0 || malformed {
				ops = append(ops, Op{Name: "front"})
			}
		case 5:
			if size > 0 || malformed {
				ops = append(ops, Op{Name: "back"})
			}
		case 6:
			i := r.Intn(size + 1)
			if malformed {
				i = []int{-1, size, size + 1, -5}[r.Intn(4)]
			} else if size == 0 {
				continue
			} else {
				i = r.Intn(size)
			}
			ops = append(ops, Op{Name: "item", A: i})
		case 7:
			i := 0
			if malformed {
				i = []int{-1, size, size + 1}[r.Intn(3)]
			} else if size == 0 {
				continue
			} else {
				i = r.Intn(size)
			}
			val++
			ops = append(ops, Op{Name: "set", A: i, B: val})
		case 8:
			ops = append(ops, Op{Name: "len"})
		case 9:
			ops = append(ops, Op{Name: "grow", A: []int{0, 1, 2, size, 16, 17, r.Intn(40)}[r.Intn(7)]})
		case 10:
			a := []int{0, 0, 1, 2, r.Intn(20)}[r.Intn(5)]
			if malformed {
				a = []int{-1 - r.Intn(3), math.MinInt, math.MinInt + 1 + r.Intn(3)}[r.Pick(6, 1, 1)]
			} else if r.Chance(1, 5) {
				a = hugeShrink(r, size)
				res.Count("shrink-huge")
			}
			ops = append(ops, Op{Name: "shrink", A: a})
		}
	}
	return ops
}

// largeCase: the size tier, one history per run in every tier (quick too). The deque is grown to
// 100..300 elements by pushes at both ends (so every doubling 16 -> 32 -> ... -> 512 happens, most of them on
// a wrapped ring), rotated through the ring at that size, exercised with every operation (Item / Set at
// any index, Grow that reallocates a wrapped ring, Shrink), and popped down again (Shrink to the exact fit,
// then pushes to the front). The random modes rarely hold more than ~50 elements, so a change of the code
// guarded by `d.Len() > 64` is invisible to them.
func largeCase(r *vlib.Rand) []Op {
	target := r.Range(100, 300)
	var ops []Op
	size, val := 0, 0
	push := func(front bool) {
		val++
		if front {
			ops = append(ops, Op{Name: "pushfront", A: val})
		} else {
			ops = append(ops, Op{Name: "pushback", A: val})
		}
		size++
	}
	pop := func(front bool) {
		if front {
			ops = append(ops, Op{Name: "popfront"})
		} else {
			ops = append(ops, Op{Name: "popback"})
		}
		size--
	}
	for size < target {
		push(r.Chance(1, 3))
	}
	// rotate: the window moves through the ring, front ends up anywhere
	dir := r.Bool()
	for i := r.Range(20, 150); i > 0; i-- {
		push(dir)
		pop(!dir)
	}
	for i := 0; i < target/2; i++ {
		switch r.Pick(10, 10, 8, 8, 2, 2, 6, 6, 1, 3, 3) {
		case 0:
			push(true)
		case 1:
			push(false)
		case 2:
			pop(true)
		case 3:
			pop(false)
		case 4:
			ops = append(ops, Op{Name: "front"})
		case 5:
			ops = append(ops, Op{Name: "back"})
		case 6:
			ops = append(ops, Op{Name: "item", A: r.Intn(size)})
		case 7:
			val++
			ops = append(ops, Op{Name: "set", A: r.Intn(size), B: val})
		case 8:
			ops = append(ops, Op{Name: "len"})
		case 9:
			ops = append(ops, Op{Name: "grow", A: []int{0, 1, size, 2 * size, r.Intn(600)}[r.Intn(5)]})
		case 10:
			ops = append(ops, Op{Name: "shrink", A: []int{0, 1, r.Intn(40), size, hugeShrink(r, size)}[r.Intn(5)]})
		}
	}
	// back down: pops from both ends, an exact fit now and then, pushes to the front of an exact fit
	for size > 8 {
		pop(r.Bool())
		if r.Chance(1, 40) {
			ops = append(ops, Op{Name: "shrink", A: r.Intn(2)})
			push(true)
		}
	}
	return ops
}

// shape classifies the ring state reached (for the distribution and the non-triviality rule).
func shapeStats(ops []Op, res *vlib.Result) (nontrivial bool) {
	var d deque.Deque[*int]
	reallocs, wrapped, full, panics := 0, 0, 0, 0
	lastCap := 0
	for _, o := range ops {
		if applyImpl(&d, o) == "panic" {
			panics++
		}
		isNil, c, f, b, _ := d.VerifState()
		if c != lastCap {
			reallocs++
			lastCap = c
		}
		if !isNil && b != -1 && f > b {
			wrapped++
		}
		if c > 0 && d.Len() == c {
			full++
		}
	}
	if reallocs > 1 {
		res.Count("cases-with-realloc>1")
	}
	if wrapped > 0 {
		res.Count("cases-with-wrapped-state")
	}
	if full > 0 {
		res.Count("cases-with-full-state")
	}
	if panics > 0 {
		res.Count("cases-with-panic")
	}
	return len(ops) >= 5 && (reallocs > 1 || wrapped > 0)
}

func key(ops []Op) string {
	var b strings.Builder
	for _, o := range ops {
		b.WriteString(o.Line())
		b.WriteByte(';')
	}
	return b.String()
}

func opLines(ops []Op) []string {
	out := make([]string, len(ops))
	for i, o := range ops {
		out[i] = o.Line()
	}
	return out
}

func parseOps(ls []string) []Op {
	var ops []Op
	for _, l := range ls {
		f := strings.Fields(l)
		if len(f) == 0 || f[0] == "state" {
			continue
		}
		o := Op{Name: f[0]}
		if len(f) > 1 {
			o.A, _ = strconv.Atoi(f[1])
		}
		if len(f) > 2 {
			o.B, _ = strconv.Atoi(f[2])
		}
		ops = append(ops, o)
	}
	return ops
}

// check runs one case through monitor and correspondence, shrinking failures.
func check(ops []Op, m *vlib.Model, res *vlib.Result) {
	if k, what, _ := monitor(ops); k != "" {
		small := vlib.Shrink(ops, func(c []Op) bool { kk, _, _ := monitor(c); return kk == k })
		_, what2, _ := monitor(small)
		if what2 != "" {
			what = what2
		}
		res.Fail(vlib.Failure{Source: "monitor", Kind: k, What: what, Case: opLines(small)})
	}
	if m == nil {
		return
	}
	impl := runImpl(ops)
	mod, err := m.Run(lines(ops))
	if err != nil {
		res.ModelMissing = err.Error()
		return
	}
	res.Traces++
	if i := vlib.FirstDiff(impl, mod); i >= 0 {
		differs := func(c []Op) bool {
			mo, err := m.Run(lines(c))
			return err == nil && vlib.FirstDiff(runImpl(c), mo) >= 0
		}
		small := vlib.Shrink(ops, differs)
		im := runImpl(small)
		mo, _ := m.Run(lines(small))
		j := vlib.FirstDiff(im, mo)
		what := fmt.Sprintf("line %d: impl %q, model %q", j, at(im, j), at(mo, j))
		res.Fail(vlib.Failure{Source: "correspondence", Kind: "deque-model-differs", What: what, Case: opLines(small)})
	}
}

func at(a []string, i int) string {
	if i >= 0 && i < len(a) {
		return a[i]
	}
	return "<none>"
}

// bfs enumerates every reachable ring shape (nil?, cap, front, len) with cap <= maxCap and applies
// every op class with every argument class in each of them.
func bfs(m *vlib.Model, res *vlib.Result, maxCap int, deadline time.Time) bool {
	type node struct{ ops []Op }
	shapeOf := func(ops []Op) (string, int) {
		var d deque.Deque[*int]
		for _, o := range ops {
			applyImpl(&d, o)
		}
		isNil, c, f, _, _ := d.VerifState()
		return fmt.Sprintf("%v/%d/%d/%d", isNil, c, f, d.Len()), c
	}
	seen := map[string]bool{"true/0/0/0": true}
	queue := []node{{nil}}
	complete := true
	for len(queue) > 0 {
		if time.Now().After(deadline) {
			complete = false
			break
		}
		cur := queue[0]
		queue = queue[1:]
		var d deque.Deque[*int]
		for _, o := range cur.ops {
			applyImpl(&d, o)
		}
		size := d.Len()
		_, c0, _, _, _ := d.VerifState()
		cands := []Op{{Name: "pushfront", A: 1}, {Name: "pushback", A: 2}, {Name: "popfront"}, {Name: "popback"},
			{Name: "front"}, {Name: "back"}, {Name: "len"},
			{Name: "item", A: -1}, {Name: "item", A: 0}, {Name: "item", A: size - 1}, {Name: "item", A: size},
			{Name: "set", A: -1, B: 9}, {Name: "set", A: 0, B: 9}, {Name: "set", A: size - 1, B: 9}, {Name: "set", A: size, B: 9},
			{Name: "grow", A: 0}, {Name: "grow", A: 1}, {Name: "grow", A: size + 1},
			{Name: "shrink", A: -1}, {Name: "shrink", A: 0}, {Name: "shrink", A: 1}, {Name: "shrink", A: 2},
			{Name: "shrink", A: math.MinInt}, {Name: "shrink", A: math.MaxInt}, {Name: "shrink", A: math.MaxInt - size},
			{Name: "shrink", A: math.MaxInt - size + 1}, {Name: "shrink", A: math.MaxInt - c0 + 1}}
		for _, o := range cands {
			next := append(append([]Op{}, cur.ops...), o)
			check(next, m, res)
			res.Evaluations++
			sh, c := shapeOf(next)
			if c <= maxCap && !seen[sh] {
				seen[sh] = true
				res.Nontrivial++
				queue = append(queue, node{next})
			}
		}
	}
	res.Dist["bfs-shapes"] = len(seen)
	return complete
}

func main() {
	env := vlib.GetEnv()
	res := vlib.NewResult("C04", "random histories in 6 modes (capacity boundaries, wrapped rings, exact fit after Shrink, malformed calls) "+
		"plus the corpus; a case is non-trivial if it has >= 5 ops and reaches a wrapped ring state or reallocates more than once; "+
		"every run (quick included) has one history that holds 100..300 elements (all doublings on wrapped rings, rotation, every op at that size, back down through exact fits) under the full monitor and the raw-state correspondence; distinct = different op sequence. thorough adds a BFS over every reachable (nil, cap, front, len) shape with cap <= 20 x 27 op/argument classes "+
		"(each new shape counts as one distinct non-trivial case)")
	m, err := vlib.StartModel(env.Driver, "deque")
	if err != nil {
		res.ModelMissing = err.Error()
		m = nil
	}
	defer m.Close()

	if env.Replay != "" {
		var ls []string
		if err := vlib.ReplayCase(env.Replay, &ls); err != nil {
			fmt.Println("cannot read replay:", err)
			os.Exit(2)
		}
		ops := parseOps(ls)
		k, what, _ := monitor(ops)
		fmt.Printf("replay of %d ops\nmonitor: %s %s\n", len(ops), k, what)
		im := runImpl(ops)
		if m != nil {
			mo, _ := m.Run(lines(ops))
			if i := vlib.FirstDiff(im, mo); i >= 0 {
				fmt.Printf("correspondence: line %d impl %q model %q\n", i, at(im, i), at(mo, i))
			} else {
				fmt.Println("correspondence: model and implementation agree")
			}
		}
		if k != "" {
			os.Exit(1)
		}
		return
	}

	for _, f := range vlib.CorpusFiles(env.Corpus, ".ops") {
		ops := parseOps(vlib.ReadLines(f))
		res.Count("corpus")
		res.Case(key(ops), shapeStats(ops, res), nil)
		check(ops, m, res)
	}
	r := vlib.NewRand(env.Seed)
	deadline := env.Deadline()
	{
		// the size tier (every run): full monitor and raw-state correspondence on > 64 elements
		var ops []Op
		if p, v := vlib.Try(func() {
			ops = largeCase(r.Fork())
			res.Count("large")
			res.CountN("large-ops", len(ops))
			res.Case(key(ops), shapeStats(ops, res), nil)
			check(ops, m, res)
		}); p {
			res.Fail(vlib.Failure{Source: "correspondence", Kind: "deque-harness-panic", What: fmt.Sprintf("harness panic in the large case: %v", v), Case: opLines(ops)})
		}
	}
	maxCases := 3000
	if env.Thorough() || env.Deep {
		maxCases = 60000
	}
	for i := 0; i < maxCases && time.Now().Before(deadline); i++ {
		ops := genCase(r.Fork(), res)
		res.CountN("ops", len(ops))
		res.Case(key(ops), shapeStats(ops, res), opLines(ops))
		check(ops, m, res)
	}
	if env.Thorough() {
		res.Exhaustive = bfs(m, res, 20, time.Now().Add(time.Duration(env.BudgetMs)*time.Millisecond))
	}
	res.Write(env.Out)
}
