// C01, C02, C03: tree.Map / tree.Set (B-tree, container/tree).
//
// One binary serves the three properties (the runner filters failure kinds by prefix c01-/c02-/c03-;
// tree-* kinds are correspondence failures and go to all three).
//
// Correspondence: the same protocol lines run on the real Map/Set (24 variants: Map/Set x less/cmp x
// natural/reversed/coarse comparator x int/*int representation), through the exported API plus the
// read-only hook VerifShape, and on the Lean model (`driver tree`). API outputs are compared as
// strings, hook dumps structurally (occupancy, keys, values, child links, size, gen) including a
// per-case persistent bijection between node objects and model node ids.
//
// Monitors: the clauses of the three property texts, checked on the implementation against a
// sorted slice (see monitors.go). The three properties are judged independently (Exec keeps the first
// failure of each), every failure is shrunk on its own; every 16th op and at the end of every case
// the C01 monitor compares the complete Iterate / Range / RangeReverse results, Len, First and Last
// with the reference.
//
// Cases are independent (each has its own forked PRNG), so they are generated and checked by a few
// workers, each with its own model process; outcomes are merged in case order.
package main

import (
	"crypto/sha1"
	"fmt"
	"os"
	"runtime"
	"runtime/debug"
	"sort"
	"strconv"
	"strings"
	"sync"
	"time"

	"verifharness/vlib"
)

func opOf(line string) string {
	if f := strings.Fields(line); len(f) > 0 {
		return f[0]
	}
	return "empty"
}

func caseKey(lines []string) string {
	h := sha1.New()
	for _, l := range lines {
		h.Write([]byte(l))
		h.Write([]byte{'\n'})
	}
	return string(h.Sum(nil))
}

// shrinkLines runs ddmin over the lines after line 0 (`new ...` is kept).
func shrinkLines(lines []string, fails func([]string) bool) []string {
	if len(lines) < 2 {
		return lines
	}
	head := lines[:1]
	with := func(c []string) []string { return append(append([]string{}, head...), c...) }
	rest := lines[1:]
	var noShape []string
	for _, l := range rest {
		if l != "shape" {
			noShape = append(noShape, l)
		}
	}
	if len(noShape) > 0 && len(noShape) < len(rest) && fails(with(noShape)) {
		rest = noShape
	}
	small := vlib.Shrink(rest, func(c []string) bool { return fails(with(c)) })
	if len(small) == 1 && fails(head) { // ddmin never returns the empty list
		return head
	}
	return with(small)
}

func clip(s string) string {
	if len(s) > 400 {
		return s[:400] + "..."
	}
	return s
}

func at(a []string, i int) string {
	if i >= 0 && i < len(a) {
		return a[i]
	}
	return "<none>"
}

type diff struct {
	idx               int // -1: none
	kind, what, impl  string
	variant, modelOut string
}

// correspond re-executes the lines on the implementation (monitors off) and compares every output
// with the model's, as it is produced.
func correspond(lines, mod []string) diff {
	e := newExec(false)
	bij := newBijection()
	for i, l := range lines {
		if strings.HasPrefix(l, "new ") { // a fresh collection: the model numbers its nodes from scratch
			bij = newBijection()
		}
		out, sh := e.Step(l)
		d := diff{idx: i, variant: e.v.Name(), modelOut: at(mod, i)}
		switch {
		case i >= len(mod):
			d.kind, d.what, d.impl = "tree-model-differs-"+opOf(l), "the model gave no output", out
		case sh != nil:
			if d.kind, d.what = compareShape(sh, mod[i], bij); d.kind != "" {
				d.impl = sh.Text()
			}
		case out != mod[i]:
			d.kind, d.what, d.impl = "tree-model-differs-"+opOf(l), fmt.Sprintf("impl %q, model %q", out, mod[i]), out
		}
		if d.kind != "" {
			return d
		}
	}
	return diff{idx: -1}
}

type verdict struct {
	fails    []vlib.Failure
	traces   int
	modelErr string
}

// check evaluates one executed case: monitor verdict (shrunk), then correspondence (shrunk).
func check(lines []string, ex *Exec, m *vlib.Model) (v verdict) {
	for _, f0 := range ex.fails { // at most one per property (c01 / c02 / c03), each shrunk on its own
		k, f := f0.kind, f0
		small := shrinkLines(lines, func(c []string) bool { return runOnly(c, prop(k)).hasKind(k) != nil })
		if g := runLines(small, true).hasKind(k); g != nil {
			f = g
		} else {
			small = lines
		}
		v.fails = append(v.fails, vlib.Failure{Source: "monitor", Kind: f.kind, Params: f.params, What: f.what, Case: small})
	}
	if m == nil {
		return
	}
	mod, err := m.Run(lines)
	if err != nil {
		v.modelErr = err.Error()
		return
	}
	v.traces = 1
	d := correspond(lines, mod)
	if d.idx < 0 {
		return
	}
	small := shrinkLines(lines, func(c []string) bool {
		mo, err := m.Run(c)
		return err == nil && correspond(c, mo).kind == d.kind
	})
	if mo, err := m.Run(small); err == nil {
		if d2 := correspond(small, mo); d2.idx >= 0 {
			d = d2
		} else {
			small = lines
		}
	} else {
		small = lines
	}
	what := fmt.Sprintf("line %d %q: %s; impl line: %s; model line: %s", d.idx, small[d.idx], d.what, clip(d.impl), clip(d.modelOut))
	v.fails = append(v.fails, vlib.Failure{Source: "correspondence", Kind: d.kind,
		Params: map[string]interface{}{"op": opOf(small[d.idx]), "variant": d.variant}, What: what, Case: small})
	return
}

// ---------------------------------------------------------------------------------------------
// accounting

type acct struct {
	mode, variant, key string
	nops               int
	st                 stats
	sample             interface{}
	sweeps, sweepsBig  int
	bigFills           []string // fill patterns beyond bigFillKeys keys that were followed by a full sweep
	bigFillsNoSweep    []string
}

func summarize(ex *Exec, mode string, lines []string, bigFills map[string]int) acct {
	a := acct{mode: mode, variant: ex.v.Name(), key: caseKey(lines), nops: ex.nops, st: ex.st, sweeps: ex.sweeps, sweepsBig: ex.sweepsBig}
	for _, p := range patternName {
		if at, ok := bigFills[p]; ok {
			if ex.lastSweepOp >= at {
				a.bigFills = append(a.bigFills, p)
			} else {
				a.bigFillsNoSweep = append(a.bigFillsNoSweep, p)
			}
		}
	}
	if len(lines) <= 60 {
		a.sample = lines
	}
	return a
}

func (a *acct) apply(res *vlib.Result) {
	st := &a.st
	res.Count("mode-" + a.mode)
	res.Count("variant-" + a.variant)
	res.CountN("ops", a.nops)
	for op, c := range st.ops {
		res.CountN("op-"+op, c)
	}
	for k, c := range st.bk {
		res.CountN("bk-"+k, c)
	}
	res.CountN("ev-split", st.split)
	res.CountN("ev-new-root", st.newRoot)
	res.CountN("ev-merge-left", st.mergeL)
	res.CountN("ev-merge-right", st.mergeR)
	res.CountN("ev-steal-left", st.stealL)
	res.CountN("ev-steal-right", st.stealR)
	res.CountN("ev-cascade2", st.casc2)
	res.CountN("ev-cascade3", st.casc3)
	res.CountN("ev-root-collapse", st.rootCollapse)
	res.CountN("c02-mutation-at-parked-node", st.parkedNodeMut)
	res.CountN("c01-full-sweeps", a.sweeps)
	res.CountN("c01-full-sweeps->136-keys", a.sweepsBig)
	for _, p := range a.bigFills {
		res.Count("c01-fill->136-" + p + "-then-full-iteration")
	}
	for _, p := range a.bigFillsNoSweep {
		res.Count("c01-fill->136-" + p + "-without-full-iteration")
	}
	res.Count(fmt.Sprintf("levels-%d", st.levelsMax))
	res.Count(fmt.Sprintf("iters-live-max-%d", st.itersLiveMax))
	bucket := ">2048"
	for _, b := range []int{16, 128, 256, 600, 2048} {
		if st.keysMax <= b {
			bucket = fmt.Sprintf("<=%d", b)
			break
		}
	}
	res.Count("keys-max-" + bucket)
	if st.panics > 0 {
		res.Count("cases-with-panic")
	}
	if st.iterSawMut {
		res.Count("cases-iterator-saw-mutation")
	}
	res.Case(a.key, a.nops >= 10 && (st.levelsMax >= 2 || st.iterSawMut), a.sample)
}

// ---------------------------------------------------------------------------------------------
// worker pool

// a job builds and executes one case (monitors on); *slot is set as soon as the Gen exists so that
// a panic of the harness can still report the lines generated so far.
type job struct {
	idx  int
	make func(slot **Gen)
}

type outcome struct {
	idx      int
	acct     *acct
	v        verdict
	mismatch bool
}

func worker(driver string, selfcheck bool, jobs <-chan job, out chan<- outcome) {
	m, merr := vlib.StartModel(driver, "tree")
	if merr != nil {
		m = nil
	}
	defer m.Close()
	for j := range jobs {
		o := outcome{idx: j.idx}
		if merr != nil {
			o.v.modelErr = merr.Error()
		}
		var g *Gen
		if p, val := vlib.Try(func() {
			j.make(&g)
			a := summarize(g.ex, g.mode, g.lines, g.bigFills)
			o.acct = &a
			v := check(g.lines, g.ex, m)
			if v.modelErr == "" {
				v.modelErr = o.v.modelErr
			}
			o.v = v
			if selfcheck {
				e2 := runLines(g.lines, true)
				o.mismatch = e2.sum != g.ex.sum || len(e2.fails) != len(g.ex.fails)
			}
		}); p {
			var ls []string
			if g != nil {
				ls = g.lines
			}
			// a crash of the harness itself is a broken tie, not a crash of the check
			o.v.fails = append(o.v.fails, vlib.Failure{Source: "correspondence", Kind: "tree-harness-panic",
				What: fmt.Sprintf("harness panic in case %d: %v", j.idx, val), Case: ls})
		}
		out <- o
	}
}

type pool struct {
	jobs chan job
	out  chan outcome
	wg   sync.WaitGroup
	all  []outcome
	done chan struct{}
}

func startPool(driver string, workers int, selfcheck bool) *pool {
	p := &pool{jobs: make(chan job), out: make(chan outcome, 64), done: make(chan struct{})}
	for w := 0; w < workers; w++ {
		p.wg.Add(1)
		go func() {
			defer p.wg.Done()
			worker(driver, selfcheck, p.jobs, p.out)
		}()
	}
	go func() {
		for o := range p.out {
			p.all = append(p.all, o)
		}
		close(p.done)
	}()
	return p
}

// finish waits for the workers and merges the outcomes into the result, in case order.
func (p *pool) finish(res *vlib.Result) {
	close(p.jobs)
	p.wg.Wait()
	close(p.out)
	<-p.done
	sort.Slice(p.all, func(i, j int) bool { return p.all[i].idx < p.all[j].idx })
	for i := range p.all {
		o := &p.all[i]
		if o.acct != nil {
			o.acct.apply(res)
		}
		res.Traces += o.v.traces
		if o.v.modelErr != "" && res.ModelMissing == "" {
			res.ModelMissing = o.v.modelErr
		}
		for _, f := range o.v.fails {
			res.Fail(f)
		}
		if o.mismatch {
			res.Count("selfcheck-replay-mismatch")
		}
	}
}

func corpusGen(ls []string) *Gen {
	g := &Gen{ex: newExec(true), mode: "corpus", lines: ls}
	for _, l := range ls {
		g.ex.Step(l)
	}
	g.ex.Finish()
	return g
}

// exhaustiveJobs (thorough): on a fixed 3-level tree of 200 keys, every mutation of a small menu x
// every sampled parking position (first / middle / last key of every node, hence all separators)
// x both directions, followed by 3 further Next calls.
func exhaustiveJobs(res *vlib.Result, first int) []job {
	v := Variant{Cmp: true, Ord: "nat", D: 1}
	const keys = 200
	base := newGen(vlib.NewRand(1), v, "exhaustive", true)
	base.fill(keys, 0, 0)
	s := base.shape()
	seen := map[int]bool{}
	var parks []int
	for i := range s.Nodes {
		n := &s.Nodes[i]
		for _, j := range []int{0, n.live() / 2, n.live() - 1} {
			if j >= 0 && j < n.live() && !seen[n.Keys[j]] {
				seen[n.Keys[j]] = true
				parks = append(parks, n.Keys[j])
			}
		}
	}
	res.Dist["exhaustive-parking-positions"] = len(parks)
	var jobs []job
	for _, rev := range []bool{false, true} {
		for _, p := range parks {
			for mut := 0; mut < 6; mut++ {
				rev, p, mut := rev, p, mut
				jobs = append(jobs, job{idx: first + len(jobs), make: func(slot **Gen) {
					g := newGen(vlib.NewRand(1), v, "exhaustive", true)
					*slot = g
					g.fill(keys, 0, 0)
					sg, behind := 1, p-10
					if rev {
						sg, behind = -1, p+10
					}
					switch {
					case behind < 10 || behind > 10*keys:
						g.do(fmt.Sprintf("iter 0 %s u u", pick(rev, "rev", "fwd")))
					case rev:
						g.do(fmt.Sprintf("iter 0 rev u i%d", behind))
						g.do("next 0")
					default:
						g.do(fmt.Sprintf("iter 0 fwd i%d u", behind))
						g.do("next 0")
					}
					switch mut {
					case 0: // delete the parked key
						g.del(p)
					case 1: // delete its neighbour further on
						g.del(p + sg*10)
					case 2: // insert just behind it
						g.put(p - sg*5)
					case 3: // insert just after it
						g.put(p + sg*5)
					case 4: // 16 adjacent inserts: split its node
						for d := 1; d <= 8; d++ {
							g.put(p - d)
							g.put(p + d)
						}
					case 5: // delete all other keys of its node: rotate / merge it
						sh := g.shape()
						if h := sh.holder(p, v.rank); h >= 0 {
							nd := &sh.Nodes[h]
							for _, k := range append([]int{}, nd.Keys[:nd.live()]...) {
								if k != p {
									g.del(k)
								}
							}
						}
					}
					for i := 0; i < 3; i++ {
						g.do("next 0")
					}
					g.finish()
				}})
			}
		}
	}
	return jobs
}

func replay(env vlib.Env) {
	var ls []string
	if err := vlib.ReplayCase(env.Replay, &ls); err != nil {
		fmt.Println("cannot read replay:", err)
		os.Exit(2)
	}
	var ex *Exec
	if p, val := vlib.Try(func() { ex = runLines(ls, true) }); p {
		fmt.Println("replay: harness panic:", val)
		os.Exit(2)
	}
	fmt.Printf("replay of %d lines\n", len(ls))
	for _, f := range ex.fails {
		fmt.Printf("monitor: %s %s\n", f.kind, f.what)
	}
	if len(ex.fails) == 0 {
		fmt.Println("monitor: no clause violated")
	}
	if m, err := vlib.StartModel(env.Driver, "tree"); err == nil {
		defer m.Close()
		if mo, err := m.Run(ls); err != nil {
			fmt.Println("correspondence: model unavailable:", err)
		} else if d := correspond(ls, mo); d.idx >= 0 {
			fmt.Printf("correspondence: %s at line %d %q: %s\n impl:  %s\n model: %s\n", d.kind, d.idx, ls[d.idx], d.what, clip(d.impl), clip(d.modelOut))
		} else {
			fmt.Println("correspondence: model and implementation agree")
		}
	}
	if len(ex.fails) > 0 {
		os.Exit(1)
	}
}

func main() {
	env := vlib.GetEnv()
	debug.SetGCPercent(400)
	if env.Replay != "" {
		replay(env)
		return
	}
	res := vlib.NewResult("C01", "protocol histories on tree.Map/tree.Set in 24 variants (Map/Set x less/cmp x natural/reversed/coarse comparator x int/*int); "+
		"modes: boundary fills (15,16,127,128,255,256,2047,2048 +-1; ascending/descending/sawtooth/random; every fill beyond 136 keys is followed by Range and RangeReverse over everything), random op mixes around a target size, "+
		"targeted drains steered by the hook dump (steal-left/right, merge-left/right, separators, cascades, root collapse), C02 scripts (up to 4 live "+
		"iterators, mutations aimed at the parked key and its node), malformed calls, plus the corpus; every 16th op and at the end of a case the complete Iterate/Range/RangeReverse results, Len, First and Last are compared with the reference. A case is non-trivial if it has >= 10 ops and "+
		"(reaches >= 2 tree levels or has a live iterator that saw a mutation between two Next calls); distinct = different line list. "+
		"thorough adds an exhaustive C02 part: fixed 200-key 3-level tree x every sampled parking position x 2 directions x 6 mutations x 3 further Next")
	if _, err := os.Stat(env.Driver); env.Driver == "" || err != nil {
		res.ModelMissing = "no driver"
	}
	workers := 4
	if s, err := strconv.Atoi(os.Getenv("VERIF_WORKERS")); err == nil && s > 0 {
		workers = s
	}
	if n := runtime.NumCPU(); workers > n {
		workers = n
	}
	res.Extra["workers"] = workers
	thorough := env.Thorough() || env.Deep
	p := startPool(env.Driver, workers, os.Getenv("VERIF_SELFCHECK") == "1")
	idx := 0
	for _, f := range vlib.CorpusFiles(env.Corpus, ".ops") {
		ls := vlib.ReadLines(f)
		p.jobs <- job{idx: idx, make: func(slot **Gen) { *slot = &Gen{lines: ls, mode: "corpus"}; *slot = corpusGen(ls) }}
		idx++
	}
	r := vlib.NewRand(env.Seed).Fork() // Fork: consecutive seeds of splitmix64 would give shifted copies of one stream
	deadline := env.Deadline()
	maxCases := 6000
	if thorough {
		maxCases = 400000
	}
	for i := 0; i < maxCases && (i < steerCases || time.Now().Before(deadline)); i++ { // the steering cases always run
		fr, i := r.Fork(), i
		p.jobs <- job{idx: idx, make: func(slot **Gen) { genCase(fr, i, thorough, slot) }}
		idx++
	}
	complete := false
	if env.Thorough() {
		complete = true
		stop := time.Now().Add(time.Duration(env.BudgetMs/2) * time.Millisecond)
		for _, j := range exhaustiveJobs(res, idx) {
			if time.Now().After(stop) {
				complete = false
				break
			}
			p.jobs <- j
		}
	}
	p.finish(res)
	res.Exhaustive = complete
	res.Write(env.Out)
}
