package main

// The implementation side: the 24 variants of tree.Map / tree.Set behind one int-level interface.

import (
	"fmt"
	"strconv"
	"strings"

	"github.com/bradenaw/juniper/container/tree"
	"github.com/bradenaw/juniper/iterator"
)

// revBase turns keys into ranks for the reversed comparator (rank = revBase - k).
const revBase = 1 << 22

// Variant is line 0 of a case: `new <map|set> <less|cmp> <nat|rev|coarse> <d> <int|ptr>`.
type Variant struct {
	Set bool
	Cmp bool
	Ord string // nat | rev | coarse
	D   int    // coarse divisor (1 when unused)
	Ptr bool
}

func (v Variant) Line() string {
	return fmt.Sprintf("new %s %s %s %d %s", pick(v.Set, "set", "map"), pick(v.Cmp, "cmp", "less"), v.Ord, v.D, pick(v.Ptr, "ptr", "int"))
}

func (v Variant) Name() string {
	return fmt.Sprintf("%s-%s-%s-%s", pick(v.Set, "set", "map"), pick(v.Cmp, "cmp", "less"), v.Ord, pick(v.Ptr, "ptr", "int"))
}

func pick(c bool, a, b string) string {
	if c {
		return a
	}
	return b
}

func parseVariant(f []string) (Variant, bool) {
	if len(f) != 6 || f[0] != "new" {
		return Variant{}, false
	}
	d, err := strconv.Atoi(f[4])
	if err != nil || d < 1 {
		return Variant{}, false
	}
	v := Variant{Set: f[1] == "set", Cmp: f[2] == "cmp", Ord: f[3], D: d, Ptr: f[5] == "ptr"}
	ok := (f[1] == "set" || f[1] == "map") && (f[2] == "cmp" || f[2] == "less") &&
		(f[3] == "nat" || f[3] == "rev" || f[3] == "coarse") && (f[5] == "ptr" || f[5] == "int")
	return v, ok
}

// rank is the harness' own notion of the order (independent of the counted comparators handed to
// the tree): a and b are equivalent iff rank(a) == rank(b); a sorts before b iff rank(a) < rank(b).
func (v Variant) rank(k int) int {
	switch v.Ord {
	case "rev":
		return revBase - k
	case "coarse":
		return k / v.D
	}
	return k
}

func (v Variant) lessInt(a, b int) bool {
	switch v.Ord {
	case "rev":
		return a > b
	case "coarse":
		return a/v.D < b/v.D
	}
	return a < b
}

// cmpInt returns ints of arbitrary magnitude; only the sign is meaningful.
func (v Variant) cmpInt(a, b int) int {
	switch v.Ord {
	case "rev":
		return 5 * (b - a)
	case "coarse":
		return 3 * (a/v.D - b/v.D)
	}
	return a - b
}

// counter counts the key comparisons of one API call and trips the spin guard. For cmp-constructed
// trees a key comparison is one call of the user function. For less-constructed trees
// xsort.LessCompare turns one three-way comparison into less(a,b) and, only if that is false, its
// twin less(b,a); with foldLessPairs the twin is not counted again, so n is the number of three-way
// key comparisons for both constructor kinds (raw counts every call of the user function).
type counter struct {
	n, raw int
	twin   bool // the next less call is the second half of the current comparison
}

const foldLessPairs = true

func (c *counter) reset() { *c = counter{} }

func (c *counter) tickLess(res bool) {
	if foldLessPairs && c.twin {
		c.twin = false
		c.raw++
		return
	}
	c.twin = !res
	c.tick()
}

type spinT struct{ s string }

var spinSentinel = &spinT{"spin: more than 200000 comparator calls in one API call"}

const spinLimit = 200000

func (c *counter) tick() {
	c.n++
	c.raw++
	if c.raw > spinLimit {
		panic(spinSentinel)
	}
}

// Bnd is a range bound: 'u' unbounded, 'i' included, 'e' excluded, 'z' the zero tree.Bound.
type Bnd struct {
	Kind byte
	K    int
}

func parseBnd(s string) (Bnd, bool) {
	if s == "u" || s == "z" {
		return Bnd{Kind: s[0]}, true
	}
	if len(s) >= 2 && (s[0] == 'i' || s[0] == 'e') {
		if k, err := strconv.Atoi(s[1:]); err == nil {
			return Bnd{s[0], k}, true
		}
	}
	return Bnd{}, false
}

func (b Bnd) String() string {
	if b.Kind == 'u' || b.Kind == 'z' {
		return string(b.Kind)
	}
	return string(b.Kind) + strconv.Itoa(b.K)
}

func (v Variant) inLo(lo Bnd, r int) bool {
	switch lo.Kind {
	case 'i':
		return r >= v.rank(lo.K)
	case 'e':
		return r > v.rank(lo.K)
	}
	return true
}

func (v Variant) inHi(hi Bnd, r int) bool {
	switch hi.Kind {
	case 'i':
		return r <= v.rank(hi.K)
	case 'e':
		return r < v.rank(hi.K)
	}
	return true
}

// nextFn is one Next call of a tree iterator, decoded to ints (zero value -> 0).
type nextFn func() (k, v int, ok bool)

// Coll is what the op interpreter needs from a collection.
type Coll interface {
	Put(k, v int)
	Del(k int)
	Get(k int) int
	Has(k int) bool
	Len() int
	First() (int, int)
	Last() (int, int)
	Range(rev bool, lo, hi Bnd) nextFn
	Iterate() nextFn
	Shape() *Shape
	Alias()
}

// repr is the key/value representation: int, or *int with a fresh box per argument.
type repr[K any] struct {
	box   func(int) K
	unbox func(K) int // zero value -> 0
	deref func(K) int // what a user comparator does (panics on nil)
	zero  func(K) bool
}

var intRepr = repr[int]{
	box:   func(i int) int { return i },
	unbox: func(i int) int { return i },
	deref: func(i int) int { return i },
	zero:  func(i int) bool { return i == 0 },
}

var ptrRepr = repr[*int]{
	box: func(i int) *int { p := new(int); *p = i; return p },
	unbox: func(p *int) int {
		if p == nil {
			return 0
		}
		return *p
	},
	deref: func(p *int) int { return *p },
	zero:  func(p *int) bool { return p == nil },
}

func mkBound[K any](r repr[K], b Bnd) tree.Bound[K] {
	switch b.Kind {
	case 'u':
		return tree.Unbounded[K]()
	case 'i':
		return tree.Included(r.box(b.K))
	case 'e':
		return tree.Excluded(r.box(b.K))
	}
	return tree.Bound[K]{}
}

type mapColl[K any] struct {
	m   [2]tree.Map[K, K] // two copies of the Map value
	cur int
	r   repr[K]
}

func newMapColl[K any](v Variant, r repr[K], c *counter) Coll {
	var m tree.Map[K, K]
	if v.Cmp {
		m = tree.NewMapCmp[K, K](func(a, b K) int { c.tick(); return v.cmpInt(r.deref(a), r.deref(b)) })
	} else {
		m = tree.NewMap[K, K](func(a, b K) bool { res := v.lessInt(r.deref(a), r.deref(b)); c.tickLess(res); return res })
	}
	a, b := m, m
	return &mapColl[K]{m: [2]tree.Map[K, K]{a, b}, r: r}
}

func (c *mapColl[K]) Put(k, v int)   { c.m[c.cur].Put(c.r.box(k), c.r.box(v)) }
func (c *mapColl[K]) Del(k int)      { c.m[c.cur].Delete(c.r.box(k)) }
func (c *mapColl[K]) Get(k int) int  { return c.r.unbox(c.m[c.cur].Get(c.r.box(k))) }
func (c *mapColl[K]) Has(k int) bool { return c.m[c.cur].Contains(c.r.box(k)) }
func (c *mapColl[K]) Len() int       { return c.m[c.cur].Len() }
func (c *mapColl[K]) Alias()         { c.cur = 1 - c.cur }
func (c *mapColl[K]) First() (int, int) {
	k, v := c.m[c.cur].First()
	return c.r.unbox(k), c.r.unbox(v)
}
func (c *mapColl[K]) Last() (int, int) {
	k, v := c.m[c.cur].Last()
	return c.r.unbox(k), c.r.unbox(v)
}
func (c *mapColl[K]) wrap(it iterator.Iterator[tree.KVPair[K, K]]) nextFn {
	return func() (int, int, bool) {
		p, ok := it.Next()
		if !ok {
			return 0, 0, false
		}
		return c.r.unbox(p.Key), c.r.unbox(p.Value), true
	}
}
func (c *mapColl[K]) Range(rev bool, lo, hi Bnd) nextFn {
	l, h := mkBound(c.r, lo), mkBound(c.r, hi)
	if rev {
		return c.wrap(c.m[c.cur].RangeReverse(l, h))
	}
	return c.wrap(c.m[c.cur].Range(l, h))
}
func (c *mapColl[K]) Iterate() nextFn { return c.wrap(c.m[c.cur].Iterate()) }
func (c *mapColl[K]) Shape() *Shape {
	return convShape(c.m[c.cur].VerifShape(), c.r.unbox, c.r.zero, c.r.unbox, c.r.zero)
}

type setColl[K any] struct {
	s   [2]tree.Set[K]
	cur int
	r   repr[K]
}

func newSetColl[K any](v Variant, r repr[K], c *counter) Coll {
	var s tree.Set[K]
	if v.Cmp {
		s = tree.NewSetCmp[K](func(a, b K) int { c.tick(); return v.cmpInt(r.deref(a), r.deref(b)) })
	} else {
		s = tree.NewSet[K](func(a, b K) bool { res := v.lessInt(r.deref(a), r.deref(b)); c.tickLess(res); return res })
	}
	a, b := s, s
	return &setColl[K]{s: [2]tree.Set[K]{a, b}, r: r}
}

func (c *setColl[K]) Put(k, v int)      { c.s[c.cur].Add(c.r.box(k)) }
func (c *setColl[K]) Del(k int)         { c.s[c.cur].Remove(c.r.box(k)) }
func (c *setColl[K]) Get(k int) int     { return 0 }
func (c *setColl[K]) Has(k int) bool    { return c.s[c.cur].Contains(c.r.box(k)) }
func (c *setColl[K]) Len() int          { return c.s[c.cur].Len() }
func (c *setColl[K]) Alias()            { c.cur = 1 - c.cur }
func (c *setColl[K]) First() (int, int) { return c.r.unbox(c.s[c.cur].First()), 0 }
func (c *setColl[K]) Last() (int, int)  { return c.r.unbox(c.s[c.cur].Last()), 0 }
func (c *setColl[K]) wrap(it iterator.Iterator[K]) nextFn {
	return func() (int, int, bool) {
		k, ok := it.Next()
		if !ok {
			return 0, 0, false
		}
		return c.r.unbox(k), 0, true
	}
}
func (c *setColl[K]) Range(rev bool, lo, hi Bnd) nextFn {
	l, h := mkBound(c.r, lo), mkBound(c.r, hi)
	if rev {
		return c.wrap(c.s[c.cur].RangeReverse(l, h))
	}
	return c.wrap(c.s[c.cur].Range(l, h))
}
func (c *setColl[K]) Iterate() nextFn { return c.wrap(c.s[c.cur].Iterate()) }
func (c *setColl[K]) Shape() *Shape {
	return convShape(c.s[c.cur].VerifShape(), c.r.unbox, c.r.zero,
		func(struct{}) int { return 0 }, func(struct{}) bool { return true })
}

func newColl(v Variant, c *counter) Coll {
	switch {
	case v.Set && v.Ptr:
		return newSetColl(v, ptrRepr, c)
	case v.Set:
		return newSetColl(v, intRepr, c)
	case v.Ptr:
		return newMapColl(v, ptrRepr, c)
	}
	return newMapColl(v, intRepr, c)
}

func joinKV(ks, vs []int, set bool) string {
	if len(ks) == 0 {
		return "-"
	}
	var b strings.Builder
	for i := range ks {
		if i > 0 {
			b.WriteByte(',')
		}
		b.WriteString(strconv.Itoa(ks[i]))
		if !set {
			b.WriteByte(':')
			b.WriteString(strconv.Itoa(vs[i]))
		}
	}
	return b.String()
}

// makeColl is a variable so that a throw-away test can wrap the collection with injected faults.
var makeColl = newColl
