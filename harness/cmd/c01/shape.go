package main

// Hook dumps: neutral form, text form, comparison with the model's `shape` line (structure +
// node identity), and the structural-event classifier used for the distribution counters.

import (
	"fmt"
	"strconv"
	"strings"

	"github.com/bradenaw/juniper/container/tree"
)

const (
	maxKVs = tree.VerifMaxKVs
	minKVs = tree.VerifMinKVs
	fanout = tree.VerifBranchFactor
)

type Node struct {
	Ref        interface{}
	N          int
	Keys, Vals [maxKVs]int  // all raw slots, decoded (zero value -> 0)
	KeyZ, ValZ [maxKVs]bool // raw slot holds the zero value
	Ch         [fanout]int  // all raw child slots: id, -1 nil, -2 already visited
	Parent     int
	Depth      int
}

type Shape struct {
	Nodes     []Node
	Size, Gen int
	Truncated bool
	Malformed bool // the hook reported slot arrays of unexpected length
	idx       map[interface{}]int
}

func convShape[K any, V any](s tree.VerifShape[K, V], uk func(K) int, zk func(K) bool, uv func(V) int, zv func(V) bool) *Shape {
	out := &Shape{Size: s.Size, Gen: s.Gen, Truncated: s.Truncated, Nodes: make([]Node, len(s.Nodes))}
	for i := range s.Nodes {
		n := &s.Nodes[i]
		d := &out.Nodes[i]
		d.Ref, d.N, d.Parent, d.Depth = n.Ref, n.N, n.Parent, n.Depth
		if len(n.Keys) != maxKVs || len(n.Values) != maxKVs || len(n.Children) != fanout {
			out.Malformed = true
			for j := range d.Ch {
				d.Ch[j] = -1
			}
			continue
		}
		for j, k := range n.Keys {
			d.Keys[j], d.KeyZ[j] = uk(k), zk(k)
		}
		for j, v := range n.Values {
			d.Vals[j], d.ValZ[j] = uv(v), zv(v)
		}
		copy(d.Ch[:], n.Children)
	}
	return out
}

// live returns the occupancy clamped to the slot range.
func (n *Node) live() int {
	if n.N < 0 {
		return 0
	}
	if n.N > len(n.Keys) {
		return len(n.Keys)
	}
	return n.N
}

func (n *Node) leaf() bool {
	for _, c := range n.Ch {
		if c != -1 {
			return false
		}
	}
	return true
}

// levels = depth of the deepest node + 1; 0 for the empty tree.
func (s *Shape) levels() int {
	if s == nil || len(s.Nodes) == 0 || (len(s.Nodes) == 1 && s.Nodes[0].N == 0) {
		return 0
	}
	d := 0
	for i := range s.Nodes {
		if s.Nodes[i].Depth > d {
			d = s.Nodes[i].Depth
		}
	}
	return d + 1
}

// Text renders the dump in the protocol's format with pre-order positions as ids.
func (s *Shape) Text() string {
	var b strings.Builder
	fmt.Fprintf(&b, "size=%d gen=%d", s.Size, s.Gen)
	for i := range s.Nodes {
		n := &s.Nodes[i]
		b.WriteByte(' ')
		b.WriteString(strconv.Itoa(i))
		b.WriteByte('[')
		for j := 0; j < n.live(); j++ {
			if j > 0 {
				b.WriteByte(',')
			}
			b.WriteString(strconv.Itoa(n.Keys[j]))
			b.WriteByte(':')
			b.WriteString(strconv.Itoa(n.Vals[j]))
		}
		b.WriteString("](")
		if !n.leaf() {
			for j := 0; j <= n.live() && j < len(n.Ch); j++ {
				if j > 0 {
					b.WriteByte(',')
				}
				b.WriteString(strconv.Itoa(n.Ch[j]))
			}
		}
		b.WriteByte(')')
	}
	return b.String()
}

// ---------------------------------------------------------------------------------------------
// the model's shape line: `size=<int> gen=<int> <id>[k:v,...](cid,...) ...`

// bijection is the per-case persistent pairing node object <-> model node id (plus scratch space
// of the line scanner).
type bijection struct {
	r2id map[interface{}]int
	id2r map[int]interface{}
	ids  []int       // model id per pre-order position
	kids []int       // all child ids of the line, flattened
	kidx []int       // kids[kidx[i]:kidx[i+1]] are the children of node i
	pos  map[int]int // model id -> pre-order position
}

func newBijection() *bijection {
	return &bijection{r2id: map[interface{}]int{}, id2r: map[int]interface{}{}, pos: map[int]int{}}
}

// scanInt reads a decimal int at s[p:].
func scanInt(s string, p int) (v, q int, ok bool) {
	q = p
	neg := false
	if q < len(s) && s[q] == '-' {
		neg = true
		q++
	}
	start := q
	for q < len(s) && s[q] >= '0' && s[q] <= '9' {
		v = v*10 + int(s[q]-'0')
		q++
	}
	if neg {
		v = -v
	}
	return v, q, q > start
}

func expect(s string, p int, lit string) (int, bool) {
	if strings.HasPrefix(s[p:], lit) {
		return p + len(lit), true
	}
	return p, false
}

// compareShape checks the hook dump against the model's line. kind is "" when they agree,
// "tree-shape-differs" or "tree-node-identity-differs" otherwise.
func compareShape(s *Shape, line string, bij *bijection) (kind, what string) {
	const sd, idd = "tree-shape-differs", "tree-node-identity-differs"
	bad := func(p int) (string, string) {
		return sd, fmt.Sprintf("model line unreadable at byte %d", p)
	}
	p, ok := expect(line, 0, "size=")
	size, p, ok2 := scanInt(line, p)
	if !ok || !ok2 {
		return bad(p)
	}
	p, ok = expect(line, p, " gen=")
	gen, p, ok2 := scanInt(line, p)
	if !ok || !ok2 {
		return bad(p)
	}
	if size != s.Size {
		return sd, fmt.Sprintf("size: impl %d, model %d", s.Size, size)
	}
	if gen != s.Gen {
		return sd, fmt.Sprintf("gen: impl %d, model %d", s.Gen, gen)
	}
	if c := strings.Count(line, "["); c != len(s.Nodes) {
		return sd, fmt.Sprintf("node count: impl %d, model %d", len(s.Nodes), c)
	}
	bij.ids, bij.kids, bij.kidx = bij.ids[:0], bij.kids[:0], bij.kidx[:0]
	for k := range bij.pos {
		delete(bij.pos, k)
	}
	for i := range s.Nodes {
		n := &s.Nodes[i]
		var id int
		if p, ok = expect(line, p, " "); !ok {
			return bad(p)
		}
		if id, p, ok = scanInt(line, p); !ok {
			return bad(p)
		}
		if p, ok = expect(line, p, "["); !ok {
			return bad(p)
		}
		if _, dup := bij.pos[id]; dup {
			return sd, fmt.Sprintf("model id %d occurs twice", id)
		}
		bij.pos[id] = i
		bij.ids = append(bij.ids, id)
		cnt := 0
		for p < len(line) && line[p] != ']' {
			var k, v int
			if cnt > 0 {
				if p, ok = expect(line, p, ","); !ok {
					return bad(p)
				}
			}
			if k, p, ok = scanInt(line, p); !ok {
				return bad(p)
			}
			if p, ok = expect(line, p, ":"); !ok {
				return bad(p)
			}
			if v, p, ok = scanInt(line, p); !ok {
				return bad(p)
			}
			if cnt < n.live() && cnt < n.N && (n.Keys[cnt] != k || n.Vals[cnt] != v) {
				return sd, fmt.Sprintf("node at pre-order position %d slot %d: impl %d:%d, model %d:%d", i, cnt, n.Keys[cnt], n.Vals[cnt], k, v)
			}
			cnt++
		}
		if cnt != n.N {
			return sd, fmt.Sprintf("node at pre-order position %d: impl n=%d, model n=%d", i, n.N, cnt)
		}
		if p, ok = expect(line, p, "]("); !ok {
			return bad(p)
		}
		bij.kidx = append(bij.kidx, len(bij.kids))
		for c := 0; p < len(line) && line[p] != ')'; c++ {
			var cid int
			if c > 0 {
				if p, ok = expect(line, p, ","); !ok {
					return bad(p)
				}
			}
			if cid, p, ok = scanInt(line, p); !ok {
				return bad(p)
			}
			bij.kids = append(bij.kids, cid)
		}
		if p, ok = expect(line, p, ")"); !ok {
			return bad(p)
		}
	}
	if p != len(line) {
		return bad(p)
	}
	bij.kidx = append(bij.kidx, len(bij.kids))
	for i := range s.Nodes {
		n := &s.Nodes[i]
		kids := bij.kids[bij.kidx[i]:bij.kidx[i+1]]
		if n.Ch[0] == -1 {
			if len(kids) != 0 {
				return sd, fmt.Sprintf("node at position %d: impl is a leaf, model has %d children", i, len(kids))
			}
			continue
		}
		if len(kids) != n.N+1 {
			return sd, fmt.Sprintf("node at position %d: impl has %d children, model %d", i, n.N+1, len(kids))
		}
		for j, cid := range kids {
			if q, ok := bij.pos[cid]; !ok || q != n.Ch[j] {
				return sd, fmt.Sprintf("node at position %d child %d: impl points to position %d, model to id %d", i, j, n.Ch[j], cid)
			}
		}
	}
	for i := range s.Nodes {
		ref, id := s.Nodes[i].Ref, bij.ids[i]
		if old, ok := bij.r2id[ref]; ok {
			if old != id {
				return idd, fmt.Sprintf("node object at position %d carried model id %d before, now %d", i, old, id)
			}
			continue
		}
		if _, ok := bij.id2r[id]; ok {
			return idd, fmt.Sprintf("new node object at position %d comes with model id %d, which denoted another object before", i, id)
		}
		bij.r2id[ref], bij.id2r[id] = id, ref
	}
	return "", ""
}

// ---------------------------------------------------------------------------------------------
// structural events of one mutating op (for the distribution only)

type events struct {
	split, mergeL, mergeR, stealL, stealR int
	newRoot, rootCollapse                 bool
}

func (s *Shape) index() map[interface{}]int {
	if s.idx == nil {
		s.idx = make(map[interface{}]int, len(s.Nodes))
		for i := range s.Nodes {
			s.idx[s.Nodes[i].Ref] = i
		}
	}
	return s.idx
}

// searchPath returns the pre-order positions the deletion of rank r touches: the search path to
// the key and, if the key sits in an inner node, on to the rightmost leaf of its left subtree.
func (s *Shape) searchPath(r int, rank func(int) int) (path []int, found bool) {
	i := 0
	for step := 0; step < 64 && i >= 0 && i < len(s.Nodes); step++ {
		n := &s.Nodes[i]
		path = append(path, i)
		j := 0
		for j < n.live() && rank(n.Keys[j]) < r {
			j++
		}
		hit := j < n.live() && rank(n.Keys[j]) == r
		if n.Ch[0] < 0 {
			return path, hit
		}
		if hit {
			i = n.Ch[j]
			for step2 := 0; step2 < 64 && i >= 0 && i < len(s.Nodes); step2++ {
				path = append(path, i)
				c := &s.Nodes[i]
				if c.Ch[0] < 0 {
					break
				}
				i = c.Ch[c.live()]
			}
			return path, true
		}
		i = n.Ch[j]
	}
	return path, false
}

// holder returns the position of the node holding a key of rank r, or -1.
func (s *Shape) holder(r int, rank func(int) int) int {
	i := 0
	for step := 0; step < 64 && i >= 0 && i < len(s.Nodes); step++ {
		n := &s.Nodes[i]
		j := 0
		for j < n.live() && rank(n.Keys[j]) < r {
			j++
		}
		if j < n.live() && rank(n.Keys[j]) == r {
			return i
		}
		if n.Ch[0] < 0 {
			return -1
		}
		i = n.Ch[j]
	}
	return -1
}

func diffShapes(b, a *Shape, del bool, r int, rank func(int) int) (ev events) {
	if len(b.Nodes) == 0 || len(a.Nodes) == 0 {
		return
	}
	bi, ai := b.index(), a.index()
	if !del {
		fresh := 0
		for ref := range ai {
			if _, ok := bi[ref]; !ok {
				fresh++
			}
		}
		if _, ok := bi[a.Nodes[0].Ref]; !ok {
			ev.newRoot = true
			fresh--
		}
		ev.split = fresh
		return
	}
	path, found := b.searchPath(r, rank)
	if !found {
		return
	}
	onPath := map[int]bool{}
	for _, p := range path {
		onPath[p] = true
	}
	if _, ok := ai[b.Nodes[0].Ref]; !ok {
		ev.rootCollapse = true
	}
	for i := 1; i < len(b.Nodes); i++ {
		if _, ok := ai[b.Nodes[i].Ref]; !ok {
			if onPath[i] {
				ev.mergeL++
			} else {
				ev.mergeR++
			}
		}
	}
	for _, x := range path {
		p := b.Nodes[x].Parent
		if p < 0 || p >= len(b.Nodes) {
			continue
		}
		pn := &b.Nodes[p]
		for j := 0; j <= pn.live(); j++ {
			if pn.Ch[j] != x {
				continue
			}
			lost1 := func(sib int) bool {
				if sib < 0 || sib >= len(b.Nodes) {
					return false
				}
				k, ok := ai[b.Nodes[sib].Ref]
				return ok && a.Nodes[k].N == b.Nodes[sib].N-1
			}
			if j+1 <= pn.live() && lost1(pn.Ch[j+1]) {
				ev.stealR++
			}
			if j > 0 && lost1(pn.Ch[j-1]) {
				ev.stealL++
			}
		}
	}
	return
}
