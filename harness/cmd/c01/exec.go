package main

// Exec interprets protocol lines on the real collection. The generators drive it line by line
// (so generation and replay are the same code path); with mon set it also maintains the
// independent reference (sorted slice) and evaluates the C01/C02/C03 monitors after every op.

import (
	"fmt"
	"sort"
	"strconv"
	"strings"

	"verifharness/vlib"
)

type entry struct{ k, v int }

type failure struct {
	kind, what string
	params     map[string]interface{}
	at         int
}

type stats struct {
	ops, bk                                        map[string]int
	split, newRoot, mergeL, mergeR, stealL, stealR int
	casc2, casc3, rootCollapse, parkedNodeMut      int
	levelsMax, keysMax, itersLiveMax, panics       int
	iterSawMut                                     bool
}

type liveIter struct {
	next     nextFn
	rev      bool
	lo, hi   Bnd
	hasPrev  bool
	prev     int // rank of the last yield
	ended    bool
	S        map[int]bool // ranks that must not be skipped (true: clause 5, false: clause 6)
	pend     map[int]bool // ranks inserted since the last Next (clause 6)
	mutSince bool
	nexts    int
}

func (it *liveIter) dir(r int) int {
	if it.rev {
		return -r
	}
	return r
}

type Exec struct {
	mon   bool
	v     Variant
	c     Coll
	ctr   counter
	ref   []entry              // sorted by rank, one entry per equivalence class
	reps  map[int]map[int]bool // rank -> the keys put under it since the class was last absent
	its   [8]*liveIter
	fails []*failure // the first failure of each property (kind prefix c01 / c02 / c03), in order of occurrence
	nline int        // lines executed so far
	nops  int        // of these, ops (everything but `new` and `shape`)
	sum   uint64     // running digest of all outputs (replay self-check)
	last  *Shape     // hook dump after the previous op
	fresh bool       // last is up to date
	st    stats
	// full sweeps (Iterate + Range(u,u) + RangeReverse(u,u) + Len/First/Last against the reference)
	sweeps, sweepsBig int // sweepsBig: of these, on more than bigFillKeys keys
	// only: judge just this property (used while shrinking one failure: the hook dump after every
	// op, which only the C03 monitor needs, dominates the cost of a re-execution)
	only        string
	lastSweepOp int // nops at the last one (-1: none)
}

// bigFillKeys: an interior node first splits with its overflowing child among its first 8 children
// after a descending fill of 136 keys; fills beyond that are counted separately.
const bigFillKeys = 136

func newExec(mon bool) *Exec {
	return &Exec{mon: mon, lastSweepOp: -1, reps: map[int]map[int]bool{}, st: stats{ops: map[string]int{}, bk: map[string]int{}}}
}

// runOnly re-executes the lines with the monitors of one property.
func runOnly(lines []string, only string) *Exec {
	e := newExec(true)
	e.only = only
	for _, l := range lines {
		e.Step(l)
	}
	e.Finish()
	return e
}

func runLines(lines []string, mon bool) *Exec {
	e := newExec(mon)
	for _, l := range lines {
		e.Step(l)
	}
	e.Finish()
	return e
}

// prop is the property a failure kind belongs to: the kind's prefix (c01, c02, c03).
func prop(kind string) string {
	if i := strings.IndexByte(kind, '-'); i > 0 {
		return kind[:i]
	}
	return kind
}

// failOf returns the recorded failure of one property. The three properties are judged
// independently: a C03 (shape) failure must not silence the C01 / C02 monitors on the same case,
// otherwise a check that filters on its own kinds sees no failing input at all.
func (e *Exec) failOf(pr string) *failure {
	for _, f := range e.fails {
		if prop(f.kind) == pr {
			return f
		}
	}
	return nil
}

func (e *Exec) hasKind(kind string) *failure {
	for _, f := range e.fails {
		if f.kind == kind {
			return f
		}
	}
	return nil
}

func (e *Exec) checking(pr string) bool {
	return e.mon && (e.only == "" || e.only == pr) && e.failOf(pr) == nil
}

// wantShape: the hook dump after every op serves the C03 monitor (and the event statistics).
func (e *Exec) wantShape() bool { return e.only == "" || e.only == "c03" }

func (e *Exec) params(op string, kv ...interface{}) map[string]interface{} {
	p := map[string]interface{}{"op": op, "variant": e.v.Name()}
	for i := 0; i+1 < len(kv); i += 2 {
		p[kv[i].(string)] = kv[i+1]
	}
	return p
}

func (e *Exec) failf(kind string, p map[string]interface{}, format string, a ...interface{}) {
	if !e.checking(prop(kind)) {
		return
	}
	at := e.nline
	e.fails = append(e.fails, &failure{kind: kind, params: p, at: at, what: fmt.Sprintf("line %d: ", at) + fmt.Sprintf(format, a...)})
}

// call runs one API call with a fresh comparator count.
func (e *Exec) call(f func()) (panicked, spun bool) {
	e.ctr.reset()
	p, val := vlib.Try(f)
	if p {
		e.st.panics++
		if s, ok := val.(*spinT); ok && s == spinSentinel {
			return true, true
		}
	}
	return p, false
}

func (e *Exec) find(r int) (int, bool) {
	i := sort.Search(len(e.ref), func(i int) bool { return e.v.rank(e.ref[i].k) >= r })
	return i, i < len(e.ref) && e.v.rank(e.ref[i].k) == r
}

// Step executes one line. For `shape` lines the hook dump is returned (out is "" then); nothing is
// retained.
func (e *Exec) Step(line string) (out string, sh *Shape) {
	out, sh = e.apply(strings.Fields(line))
	e.nline++
	h := e.sum
	for i := 0; i < len(out); i++ {
		h = (h ^ uint64(out[i])) * 1099511628211
	}
	if sh != nil {
		h = (h ^ uint64(sh.Size*31+sh.Gen*7+len(sh.Nodes))) * 1099511628211
	}
	e.sum = (h ^ 10) * 1099511628211
	return out, sh
}

func (e *Exec) apply(f []string) (string, *Shape) {
	if len(f) == 0 {
		return "bad-op", nil
	}
	if f[0] == "new" {
		v, ok := parseVariant(f)
		if !ok {
			return "bad-op", nil
		}
		e.v, e.ctr, e.ref, e.its, e.last, e.fresh = v, counter{}, nil, [8]*liveIter{}, nil, false
		e.reps = map[int]map[int]bool{}
		e.c = makeColl(v, &e.ctr)
		e.after(false, nil, 0, false, nil)
		return "ok", nil
	}
	if e.c == nil {
		return "bad-op", nil
	}
	e.st.ops[f[0]]++
	if f[0] != "shape" {
		e.nops++
	}
	arg := func(i int) (int, bool) {
		if i >= len(f) {
			return 0, false
		}
		x, err := strconv.Atoi(f[i])
		return x, err == nil
	}
	op := f[0]
	switch op {
	case "put", "del":
		k, ok := arg(1)
		v, ok2 := arg(2)
		if !ok || (op == "put" && !ok2) {
			return "bad-op", nil
		}
		if e.v.Set {
			v = 0
		}
		var before *Shape
		if e.fresh {
			before = e.last
		}
		parked := e.parkedHolders(before)
		var p, spun bool
		if op == "put" {
			p, spun = e.call(func() { e.c.Put(k, v) })
		} else {
			p, spun = e.call(func() { e.c.Del(k) })
		}
		out := "ok"
		if p {
			out = "panic"
			e.panicFail("c01", op, spun)
		}
		r := e.v.rank(k)
		i, found := e.find(r)
		switch {
		case op == "put" && found:
			e.ref[i].v = v
			e.reps[r][k] = true
		case op == "put":
			e.reps[r] = map[int]bool{k: true}
			e.ref = append(e.ref, entry{})
			copy(e.ref[i+1:], e.ref[i:])
			e.ref[i] = entry{k, v}
			for _, it := range e.its {
				if it != nil && !it.ended && e.v.inLo(it.lo, r) && e.v.inHi(it.hi, r) {
					it.pend[r] = true
				}
			}
		case found:
			e.ref = append(e.ref[:i], e.ref[i+1:]...)
			delete(e.reps, r)
			for _, it := range e.its {
				if it != nil {
					delete(it.S, r)
					delete(it.pend, r)
				}
			}
		}
		for _, it := range e.its {
			if it != nil {
				it.mutSince = true
			}
		}
		if len(e.ref) > e.st.keysMax {
			e.st.keysMax = len(e.ref)
		}
		e.after(true, before, r, op == "del", parked)
		return out, nil

	case "get", "costget", "has", "cost":
		k, ok := arg(1)
		if !ok || (e.v.Set && (op == "get" || op == "costget")) {
			return "bad-op", nil
		}
		isGet := op == "get" || op == "costget"
		var got int
		var has bool
		p, spun := e.call(func() {
			if isGet {
				got = e.c.Get(k)
			} else {
				has = e.c.Has(k)
			}
		})
		cost := e.ctr.n
		var out string
		switch {
		case p:
			out = "panic"
		case op == "cost" || op == "costget":
			out = strconv.Itoa(cost)
		case op == "has":
			out = strconv.FormatBool(has)
		case got == 0:
			out = "zero"
		default:
			out = strconv.Itoa(got)
		}
		if e.mon { // failf keeps the first failure per property
			i, found := e.find(e.v.rank(k))
			switch {
			case p:
				e.panicFail("c01", op, spun)
			case isGet && ((found && got != e.ref[i].v) || (!found && got != 0)):
				want := 0
				if found {
					want = e.ref[i].v
				}
				e.failf("c01-wrong-get", e.params(op), "Get(%d) returned %d, the ideal map holds %d (0 = zero value)", k, got, want)
			case !isGet && has != found:
				e.failf("c01-wrong-has", e.params(op), "Contains(%d) returned %v, the ideal collection says %v", k, has, found)
			}
			e.checkCost(op, k, cost)
		}
		e.after(false, nil, 0, false, nil)
		return out, nil

	case "len":
		var n int
		p, spun := e.call(func() { n = e.c.Len() })
		out := strconv.Itoa(n)
		if p {
			out = "panic"
		}
		e.judgeLen(n, p, spun)
		e.after(false, nil, 0, false, nil)
		return out, nil

	case "first", "last":
		var k, v int
		p, spun := e.call(func() {
			if op == "first" {
				k, v = e.c.First()
			} else {
				k, v = e.c.Last()
			}
		})
		var out string
		switch {
		case p:
			out = "panic"
		case k == 0 && v == 0:
			out = "zero"
		case e.v.Set:
			out = strconv.Itoa(k)
		default:
			out = fmt.Sprintf("%d %d", k, v)
		}
		e.judgeExtreme(op, k, v, p, spun)
		e.after(false, nil, 0, false, nil)
		return out, nil

	case "range", "rrange":
		if len(f) != 3 {
			return "bad-op", nil
		}
		lo, ok := parseBnd(f[1])
		hi, ok2 := parseBnd(f[2])
		if !ok || !ok2 {
			return "bad-op", nil
		}
		rev := op == "rrange"
		e.st.bk[string([]byte{lo.Kind, hi.Kind})]++
		ks, vs, p, spun := e.drain(func() nextFn { return e.c.Range(rev, lo, hi) })
		out := "panic"
		if !p {
			out = joinKV(ks, vs, e.v.Set)
		}
		if e.mon {
			e.checkRange(op, rev, lo, hi, ks, vs, p, spun)
		}
		e.after(false, nil, 0, false, nil)
		return out, nil

	case "iter":
		j, ok := arg(1)
		if !ok || j < 0 || j >= len(e.its) || len(f) != 5 || (f[2] != "fwd" && f[2] != "rev") {
			return "bad-op", nil
		}
		lo, ok1 := parseBnd(f[3])
		hi, ok2 := parseBnd(f[4])
		if !ok1 || !ok2 {
			return "bad-op", nil
		}
		rev := f[2] == "rev"
		e.st.bk[string([]byte{lo.Kind, hi.Kind})]++
		zb := lo.Kind == 'z' || hi.Kind == 'z'
		var nx nextFn
		p, spun := e.call(func() { nx = e.c.Range(rev, lo, hi) })
		pr := e.params(op, "bk", string([]byte{lo.Kind, hi.Kind}))
		if p {
			if !zb || spun {
				e.panicFail("c01", op, spun)
			}
			e.after(false, nil, 0, false, nil)
			return "panic", nil
		}
		if zb && strictZeroBound {
			e.failf("c01-missing-panic", pr, "%s with a zero Bound did not panic", pick(rev, "RangeReverse", "Range"))
		}
		it := &liveIter{next: nx, rev: rev, lo: lo, hi: hi, S: map[int]bool{}, pend: map[int]bool{}}
		for _, en := range e.ref {
			if r := e.v.rank(en.k); e.v.inLo(lo, r) && e.v.inHi(hi, r) {
				it.S[r] = true
			}
		}
		e.its[j] = it
		live := 0
		for _, x := range e.its {
			if x != nil && !x.ended {
				live++
			}
		}
		if live > e.st.itersLiveMax {
			e.st.itersLiveMax = live
		}
		e.after(false, nil, 0, false, nil)
		return "ok", nil

	case "next":
		j, ok := arg(1)
		if !ok || j < 0 || j >= len(e.its) || e.its[j] == nil {
			return "bad-op", nil
		}
		it := e.its[j]
		var k, v int
		var more bool
		p, spun := e.call(func() { k, v, more = it.next() })
		var out string
		switch {
		case p:
			out = "panic"
		case !more:
			out = "end"
		case e.v.Set:
			out = strconv.Itoa(k)
		default:
			out = fmt.Sprintf("%d:%d", k, v)
		}
		e.monNext(j, it, k, v, more, p, spun)
		e.after(false, nil, 0, false, nil)
		return out, nil

	case "alias":
		e.c.Alias()
		return "ok", nil

	case "shape":
		if !e.fresh {
			var s *Shape
			if p, _ := vlib.Try(func() { s = e.c.Shape() }); p || s == nil {
				return "panic", nil
			}
			e.last, e.fresh = s, true
		}
		return "", e.last
	}
	return "bad-op", nil
}

// strictZeroBound: a zero tree.Bound must panic (the code's "unknown bound"); the property text is
// silent about it, so the monitor leaves it open (false); the correspondence still compares it with the model.
const strictZeroBound = false

func (e *Exec) panicFail(prefix, op string, spun bool) {
	if spun {
		e.failf(prefix+"-spin", e.params(op), "%s made more than %d comparator calls", op, spinLimit)
	} else {
		e.failf(prefix+"-unexpected-panic", e.params(op), "%s panicked", op)
	}
}

// drain creates an iterator and pulls it dry (bounded by the reference size).
func (e *Exec) drain(mk func() nextFn) (ks, vs []int, panicked, spun bool) {
	var nx nextFn
	if p, s := e.call(func() { nx = mk() }); p {
		return nil, nil, true, s
	}
	limit := len(e.ref) + 8
	for i := 0; i < limit; i++ {
		var k, v int
		var ok bool
		if p, s := e.call(func() { k, v, ok = nx() }); p {
			return ks, vs, true, s
		}
		if !ok {
			return
		}
		ks, vs = append(ks, k), append(vs, v)
	}
	return
}

// expect returns the ideal answer of a range query.
func (e *Exec) expect(rev bool, lo, hi Bnd) []entry {
	var out []entry
	start := 0
	if lo.Kind == 'i' || lo.Kind == 'e' {
		start, _ = e.find(e.v.rank(lo.K))
	}
	for i := start; i < len(e.ref); i++ {
		r := e.v.rank(e.ref[i].k)
		if !e.v.inHi(hi, r) {
			break
		}
		if e.v.inLo(lo, r) {
			out = append(out, e.ref[i])
		}
	}
	if rev {
		for i, j := 0, len(out)-1; i < j; i, j = i+1, j-1 {
			out[i], out[j] = out[j], out[i]
		}
	}
	return out
}

// after runs once per executed op: C03 on a fresh hook dump, event classification, periodic
// full sweep (checkFull). For very large trees (> 2048 keys) the O(n) work is done every n/256-th op only.
func (e *Exec) after(mut bool, before *Shape, r int, del bool, parked []parkedAt) {
	if !e.mon {
		if mut {
			e.fresh = false
		}
		return
	}
	n := len(e.ref)
	if n > 2048 && e.nops%(n/256) != 0 {
		if mut {
			e.fresh = false
		}
		return
	}
	if !e.wantShape() {
		if mut {
			e.fresh = false
		}
	} else {
		var a *Shape
		if p, _ := vlib.Try(func() { a = e.c.Shape() }); p || a == nil {
			e.failf("c03-truncated-walk", e.params("shape"), "the hook walk panicked")
			e.fresh = false
			return
		}
		e.checkC03(a)
		if mut && before != nil {
			e.countEvents(before, a, r, del, parked)
		}
		e.last, e.fresh = a, true
		if lv := a.levels(); lv > e.st.levelsMax {
			e.st.levelsMax = lv
		}
	}
	every := 16
	if n > 2048 {
		every = 16 * (n / 256)
	}
	if e.nops > 0 && e.nops%every == 0 {
		e.checkFull()
	}
}

func (e *Exec) Finish() {
	if !e.mon || e.c == nil {
		return
	}
	if !e.fresh && e.wantShape() {
		var a *Shape
		if p, _ := vlib.Try(func() { a = e.c.Shape() }); !p && a != nil {
			e.checkC03(a)
			e.last, e.fresh = a, true
		}
	}
	e.checkFull()
}

func (e *Exec) countEvents(b, a *Shape, r int, del bool, parked []parkedAt) {
	ev := diffShapes(b, a, del, r, e.v.rank)
	e.st.split += ev.split
	e.st.mergeL += ev.mergeL
	e.st.mergeR += ev.mergeR
	e.st.stealL += ev.stealL
	e.st.stealR += ev.stealR
	if ev.newRoot {
		e.st.newRoot++
	}
	if ev.rootCollapse {
		e.st.rootCollapse++
	}
	if m := ev.mergeL + ev.mergeR; m >= 2 {
		e.st.casc2++
		if m >= 3 {
			e.st.casc3++
		}
	}
	if len(parked) > 0 {
		ai := a.index()
		for _, p := range parked {
			bn := &b.Nodes[p.pos]
			k, ok := ai[bn.Ref]
			if !ok || a.Nodes[k].N != bn.N || !sameInts(a.Nodes[k].Keys[:a.Nodes[k].live()], bn.Keys[:bn.live()]) {
				e.st.parkedNodeMut++
				break
			}
		}
	}
}

func sameInts(a, b []int) bool {
	if len(a) != len(b) {
		return false
	}
	for i := range a {
		if a[i] != b[i] {
			return false
		}
	}
	return true
}

type parkedAt struct{ pos int }

// parkedRank estimates the key a live iterator is parked on: the in-order neighbour, in the
// current reference, of its last yield (or its seek target before the first yield).
func (e *Exec) parkedRank(it *liveIter) (int, bool) {
	if it == nil || it.ended {
		return 0, false
	}
	if !it.rev {
		i := 0
		switch {
		case it.hasPrev:
			i, _ = e.find(it.prev + 1)
		case it.lo.Kind == 'i':
			i, _ = e.find(e.v.rank(it.lo.K))
		case it.lo.Kind == 'e':
			i, _ = e.find(e.v.rank(it.lo.K) + 1)
		}
		if i < len(e.ref) {
			return e.v.rank(e.ref[i].k), true
		}
		return 0, false
	}
	i := len(e.ref)
	switch {
	case it.hasPrev:
		i, _ = e.find(it.prev)
	case it.hi.Kind == 'i':
		i, _ = e.find(e.v.rank(it.hi.K) + 1)
	case it.hi.Kind == 'e':
		i, _ = e.find(e.v.rank(it.hi.K))
	}
	if i-1 >= 0 && i-1 < len(e.ref) {
		return e.v.rank(e.ref[i-1].k), true
	}
	return 0, false
}

// parkedHolders lists the nodes (in dump b) that hold the parked keys of the live iterators.
func (e *Exec) parkedHolders(b *Shape) []parkedAt {
	if !e.mon || b == nil {
		return nil
	}
	var out []parkedAt
	for _, it := range e.its {
		if r, ok := e.parkedRank(it); ok {
			if pos := b.holder(r, e.v.rank); pos >= 0 {
				out = append(out, parkedAt{pos})
			}
		}
	}
	return out
}
