package main

// Generators. A Gen drives an Exec line by line while it generates (so it can look at the hook
// dump and at the reference to steer); the case is the list of lines, and replaying the list
// re-executes exactly the same calls. Keys are produced from ranks t (tree order): keys present
// after fills sit on the grid 10,20,30,... so that there is room to insert between them.

import (
	"fmt"

	"verifharness/vlib"
)

type Gen struct {
	r        *vlib.Rand
	ex       *Exec
	v        Variant
	lines    []string
	mode     string
	val      int
	muts     int
	owe      bool // a `shape` line is owed at the end of the case
	thorough bool
	// fills beyond bigFillKeys keys by pattern (asc / desc / saw / rand) -> nops when the last one ended
	bigFills map[string]int
}

var patternName = []string{"asc", "desc", "saw", "rand"}

// bigFill notes a fill that left more than bigFillKeys keys and makes the full-range iteration part
// of the case itself: `range u u` and `rrange u u` are judged by the monitor and compared with the
// model (up to 2048 keys; the monitor's own periodic sweep, which also covers Iterate, runs for
// every size).
func (g *Gen) bigFill(pattern int) {
	if g.n() <= bigFillKeys {
		return
	}
	if g.n() <= 2048 {
		g.do("range u u")
		g.do("rrange u u")
	}
	if g.bigFills == nil {
		g.bigFills = map[string]int{}
	}
	g.bigFills[patternName[pattern&3]] = g.nops()
}

func randomVariant(r *vlib.Rand) Variant {
	v := Variant{Set: r.Bool(), Cmp: r.Bool(), Ord: []string{"nat", "rev", "coarse"}[r.Intn(3)], D: 1, Ptr: r.Bool()}
	if v.Ord == "coarse" {
		v.D = r.Range(2, 5)
	}
	return v
}

func newGen(r *vlib.Rand, v Variant, mode string, thorough bool) *Gen {
	g := &Gen{r: r, ex: newExec(true), v: v, mode: mode, thorough: thorough}
	g.do(v.Line())
	return g
}

func (g *Gen) do(line string) string {
	g.lines = append(g.lines, line)
	out, _ := g.ex.Step(line)
	return out
}

func (g *Gen) finish() {
	if g.owe {
		g.do("shape")
		g.owe = false
	}
	g.ex.Finish()
}

// key turns a rank into a key of that class (coarse: a random member of the class).
func (g *Gen) key(t int) int {
	if t < 1 {
		t = 1
	}
	switch g.v.Ord {
	case "rev":
		return revBase - t
	case "coarse":
		return t*g.v.D + g.r.Intn(g.v.D)
	}
	return t
}

func (g *Gen) n() int        { return len(g.ex.ref) }
func (g *Gen) tAt(i int) int { return g.v.rank(g.ex.ref[i].k) }
func (g *Gen) nops() int     { return g.ex.nops }
func (g *Gen) shape() *Shape { return g.ex.last }

// mutated emits the `shape` line owed after a mutating op: after every one up to 600 keys, after
// every 16th up to 4096 keys, after every 256th beyond (and at the end of the case).
func (g *Gen) mutated() {
	g.muts++
	if n := g.n(); n <= 600 || (n <= 4096 && g.muts%16 == 0) || g.muts%256 == 0 {
		g.do("shape")
		g.owe = false
	} else {
		g.owe = true
	}
}

func (g *Gen) put(t int) {
	g.val++
	v := g.val
	if g.v.Set {
		v = 0
	}
	g.do(fmt.Sprintf("put %d %d", g.key(t), v))
	g.mutated()
}

func (g *Gen) del(t int) {
	g.do(fmt.Sprintf("del %d", g.key(t)))
	g.mutated()
}

// someT picks a rank: mostly a present key, else between / below / above the present keys.
func (g *Gen) someT() int {
	n := g.n()
	if n == 0 {
		return g.r.Range(1, 60)
	}
	t := g.tAt(g.r.Intn(n))
	switch g.r.Pick(60, 20, 10, 10) {
	case 1:
		t += g.r.Range(-9, 9)
	case 2:
		t = g.tAt(0) - g.r.Range(1, 9)
	case 3:
		t = g.tAt(n-1) + g.r.Range(1, 30)
	}
	if t < 1 {
		t = 1
	}
	return t
}

func (g *Gen) bnd(kind byte, t int) Bnd {
	if kind == 'u' || kind == 'z' {
		return Bnd{Kind: kind}
	}
	return Bnd{kind, g.key(t)}
}

// window picks a pair of bounds: all 9 kind pairs, positions on / between / below / above keys,
// sometimes inverted. On big trees the window is kept short so that drains stay cheap.
func (g *Gen) window() (Bnd, Bnd) {
	kinds := []byte{'u', 'i', 'e'}
	lk, hk := kinds[g.r.Intn(3)], kinds[g.r.Intn(3)]
	n := g.n()
	t1 := g.someT()
	t2 := t1 + g.r.Pick(1, 1, 3, 3, 2)*g.r.Range(0, 60)
	if n > 150 {
		if lk == 'u' && hk == 'u' && !g.r.Chance(1, 6) {
			lk = 'i'
		}
		if lk == 'u' {
			t2 = g.tAt(g.r.Intn(30)) + g.r.Range(-5, 5)
		} else if hk == 'u' {
			t1 = g.tAt(n-1-g.r.Intn(30)) + g.r.Range(-5, 5)
		}
	}
	if g.r.Chance(1, 10) {
		t1, t2 = t2, t1
	}
	return g.bnd(lk, t1), g.bnd(hk, t2)
}

func (g *Gen) read() {
	switch g.r.Pick(14, 14, 6, 6, 6, 16, 16, 8, 6, 4) {
	case 0:
		if !g.v.Set {
			g.do(fmt.Sprintf("get %d", g.key(g.someT())))
			return
		}
		fallthrough
	case 1:
		g.do(fmt.Sprintf("has %d", g.key(g.someT())))
	case 2:
		g.do("len")
	case 3:
		g.do("first")
	case 4:
		g.do("last")
	case 5, 6:
		lo, hi := g.window()
		g.do(fmt.Sprintf("%s %s %s", pick(g.r.Bool(), "range", "rrange"), lo, hi))
	case 7:
		g.do(fmt.Sprintf("cost %d", g.key(g.someT())))
	case 8:
		if g.v.Set {
			g.do(fmt.Sprintf("cost %d", g.key(g.someT())))
		} else {
			g.do(fmt.Sprintf("costget %d", g.key(g.someT())))
		}
	case 9:
		g.do("alias")
	}
}

func (g *Gen) reads(n int) {
	for i := 0; i < n; i++ {
		g.read()
	}
}

// order lists the ranks 10..10*n in one of the fill patterns.
func (g *Gen) order(n, pattern int) []int {
	ts := make([]int, 0, n)
	switch pattern {
	case 0: // ascending
		for i := 1; i <= n; i++ {
			ts = append(ts, 10*i)
		}
	case 1: // descending
		for i := n; i >= 1; i-- {
			ts = append(ts, 10*i)
		}
	case 2: // sawtooth: ascending teeth taken alternately from the low and the high end
		w := g.r.Range(3, 20)
		lo, hi := 1, n
		for low := true; lo <= hi; low = !low {
			if low {
				for i := 0; i < w && lo <= hi; i++ {
					ts = append(ts, 10*lo)
					lo++
				}
			} else {
				s := hi - w + 1
				if s < lo {
					s = lo
				}
				for i := s; i <= hi; i++ {
					ts = append(ts, 10*i)
				}
				hi = s - 1
			}
		}
	default: // random
		for i := 1; i <= n; i++ {
			ts = append(ts, 10*i)
		}
		for i := n - 1; i > 0; i-- {
			j := g.r.Intn(i + 1)
			ts[i], ts[j] = ts[j], ts[i]
		}
	}
	return ts
}

func (g *Gen) fill(n, pattern, readEvery int) {
	for _, t := range g.order(n, pattern) {
		g.put(t)
		if readEvery > 0 && g.r.Chance(1, readEvery) {
			g.read()
		}
	}
	if n > bigFillKeys {
		g.bigFill(pattern)
	}
}

// drainAll deletes every present key (0 ascending, 1 descending, 2 random order).
func (g *Gen) drainAll(pattern, readEvery, limit int) {
	for i := 0; g.n() > 0 && i < limit; i++ {
		var t int
		switch pattern {
		case 0:
			t = g.tAt(0)
		case 1:
			t = g.tAt(g.n() - 1)
		default:
			t = g.tAt(g.r.Intn(g.n()))
		}
		g.del(t)
		if readEvery > 0 && g.r.Chance(1, readEvery) {
			g.read()
		}
	}
}

// ---------------------------------------------------------------------------------------------
// mode: fills to the capacity boundaries

func (g *Gen) modeFill() {
	sizes := []int{15, 15, 15, 16, 16, 16, 127, 127, 128, 128, 255, 256}
	base := sizes[g.r.Intn(len(sizes))]
	if g.thorough && g.r.Chance(1, 12) {
		base = []int{2047, 2048}[g.r.Intn(2)]
	}
	target := base + g.r.Range(-1, 1)
	g.fill(target, g.r.Intn(4), 16)
	g.reads(g.r.Range(4, 12))
	if target <= 256 && g.r.Chance(2, 3) {
		limit := target
		if g.r.Bool() {
			limit = target / 2
		}
		g.drainAll(g.r.Intn(3), 16, limit)
		g.reads(g.r.Range(2, 6))
	} else if target > 256 {
		g.drainAll(g.r.Intn(3), 64, g.r.Range(100, 1500))
	}
}

// modeHuge: one big tree (thorough): 4-5 levels.
func (g *Gen) modeHuge() {
	n := 5000 + g.r.Intn(g.r.Intn(35000)+1)
	g.fill(n, g.r.Intn(4), 200)
	g.reads(20)
	g.drainAll(g.r.Intn(3), 200, g.r.Range(n/4, n))
	g.reads(10)
}

// ---------------------------------------------------------------------------------------------
// mode: random mix over a universe sized for a target population

func (g *Gen) modeMix() {
	targets := []int{20, 20, 20, 100, 100, 300}
	if g.thorough {
		targets = append(targets, 300, 1000)
	}
	target := targets[g.r.Intn(len(targets))]
	u := target*60/35 + 1
	budget := g.r.Range(40, 250)
	if target >= 100 {
		for _, t := range g.order(u, 3)[:target] {
			g.put(t)
		}
		g.bigFill(3)
		budget = g.r.Range(60, 160)
		if g.thorough {
			budget *= 3
		}
	}
	for i := 0; i < budget; i++ {
		switch g.r.Pick(35, 25, 32, 8) {
		case 0:
			t := 10 * g.r.Range(1, u)
			if g.r.Chance(1, 10) {
				t += g.r.Range(1, 9)
			}
			g.put(t)
		case 1:
			if g.n() > 0 && g.r.Chance(2, 3) {
				g.del(g.tAt(g.r.Intn(g.n())))
			} else {
				g.del(10 * g.r.Range(1, u))
			}
		case 2:
			g.read()
		case 3:
			g.iterOp()
		}
	}
}

// iterOp creates an iterator or steps an existing one.
func (g *Gen) iterOp() {
	j := g.r.Intn(4)
	if g.ex.its[j] == nil || g.r.Chance(1, 8) {
		g.iterNew(j)
		return
	}
	g.do(fmt.Sprintf("next %d", j))
}

func (g *Gen) iterNew(j int) {
	kinds := []byte{'u', 'i', 'e'}
	lk, hk := kinds[g.r.Intn(3)], kinds[g.r.Intn(3)]
	if g.r.Chance(1, 3) {
		lk, hk = 'u', 'u'
	}
	n := g.n()
	t1, t2 := g.someT(), g.someT()
	if n >= 6 && !g.r.Chance(1, 8) { // wide window: lower third .. upper third
		t1 = g.tAt(g.r.Intn(n/3)) + g.r.Pick(2, 1, 1)*g.r.Range(-5, 5)
		t2 = g.tAt(n-1-g.r.Intn(n/3)) + g.r.Pick(2, 1, 1)*g.r.Range(-5, 5)
	}
	g.do(fmt.Sprintf("iter %d %s %s %s", j, pick(g.r.Bool(), "fwd", "rev"), g.bnd(lk, t1), g.bnd(hk, t2)))
}

// ---------------------------------------------------------------------------------------------
// mode: targeted drains (steal-left/right, merge-left/right, separators, cascades, collapse)

type leafInfo struct{ pos, n, left, right int } // left/right: occupancy of the sibling, -1 if none

func (g *Gen) leaves() []leafInfo {
	s := g.shape()
	var out []leafInfo
	if s == nil {
		return nil
	}
	for i := range s.Nodes {
		p := &s.Nodes[i]
		if p.Ch[0] < 0 || p.Ch[0] >= len(s.Nodes) || s.Nodes[p.Ch[0]].Ch[0] >= 0 {
			continue
		}
		for j := 0; j <= p.live(); j++ {
			li := leafInfo{pos: p.Ch[j], left: -1, right: -1}
			if li.pos < 0 || li.pos >= len(s.Nodes) {
				continue
			}
			li.n = s.Nodes[li.pos].N
			if j > 0 && p.Ch[j-1] >= 0 {
				li.left = s.Nodes[p.Ch[j-1]].N
			}
			if j < p.live() && p.Ch[j+1] >= 0 {
				li.right = s.Nodes[p.Ch[j+1]].N
			}
			out = append(out, li)
		}
	}
	return out
}

// target tries one delete that forces the given repair; reports whether a candidate leaf existed.
func (g *Gen) target(what int) bool {
	var cand []leafInfo
	ls := g.leaves()
	for _, l := range ls {
		ok := false
		switch what {
		case 0: // steal from right
			ok = l.n == minKVs && l.right > minKVs
		case 1: // steal from left
			ok = l.n == minKVs && l.right <= minKVs && l.left > minKVs
		case 2: // merge with left
			ok = l.n == minKVs && l.left != -1 && l.left <= minKVs && l.right <= minKVs
		case 3: // merge with right (leftmost child)
			ok = l.n == minKVs && l.left == -1 && l.right != -1 && l.right <= minKVs
		}
		if ok {
			cand = append(cand, l)
		}
	}
	s := g.shape()
	if len(cand) > 0 {
		nd := &s.Nodes[cand[g.r.Intn(len(cand))].pos]
		g.del(g.v.rank(nd.Keys[g.r.Intn(nd.live())]))
		return true
	}
	// preparation: thin out a leaf that is above the minimum (no repair fires)
	var fat []leafInfo
	for _, l := range ls {
		if l.n > minKVs {
			fat = append(fat, l)
		}
	}
	if len(fat) > 0 {
		nd := &s.Nodes[fat[g.r.Intn(len(fat))].pos]
		g.del(g.v.rank(nd.Keys[g.r.Intn(nd.live())]))
	} else if g.n() > 0 {
		g.del(g.tAt(g.r.Intn(g.n())))
	}
	return false
}

func (g *Gen) delSeparator() {
	s := g.shape()
	var inner []int
	for i := range s.Nodes {
		if s.Nodes[i].Ch[0] >= 0 && s.Nodes[i].live() > 0 {
			inner = append(inner, i)
		}
	}
	if len(inner) == 0 {
		if g.n() > 0 {
			g.del(g.tAt(g.r.Intn(g.n())))
		}
		return
	}
	nd := &s.Nodes[inner[g.r.Intn(len(inner))]]
	g.del(g.v.rank(nd.Keys[g.r.Intn(nd.live())]))
}

func (g *Gen) modeDrain(steer bool) {
	n := g.r.Range(200, 320)
	pattern := g.r.Intn(4)
	if steer {
		n, pattern = 300, 0
	}
	g.fill(n, pattern, 40)
	steps := g.r.Range(40, 120)
	if steer {
		steps = 260
	}
	for i := 0; i < steps && g.n() > 40; i++ {
		st := &g.ex.st
		if steer && st.stealR >= 2 && st.stealL >= 2 && st.mergeL >= 2 && st.mergeR >= 2 {
			break
		}
		what := g.r.Pick(4, 4, 4, 4, 2, 1, 1)
		if steer { // go for the repair seen least so far
			cnt := []int{st.stealR, st.stealL, st.mergeL, st.mergeR}
			what = 0
			for k := 1; k < 4; k++ {
				if cnt[k] < cnt[what] {
					what = k
				}
			}
		}
		switch what {
		case 4:
			g.delSeparator()
		case 5:
			g.del(g.tAt(0))
		case 6:
			g.del(g.tAt(g.n() - 1))
		default:
			g.target(what)
		}
		if g.r.Chance(1, 12) {
			g.read()
		}
	}
	for i := 0; i < 4; i++ {
		g.delSeparator()
	}
	if steer || g.r.Chance(1, 3) { // down to the empty tree: cascades and root collapses
		g.drainAll(g.r.Intn(3), 40, 1000)
		g.reads(4)
		g.fill(g.r.Range(5, 30), g.r.Intn(4), 8)
		g.reads(4)
	}
}

// ---------------------------------------------------------------------------------------------
// mode: C02 scripts: Next calls interleaved with mutations aimed at the parked key

func (g *Gen) near(i int) int { // rank of the reference entry at index i, clamped
	if i < 0 {
		i = 0
	}
	if i >= g.n() {
		i = g.n() - 1
	}
	return g.tAt(i)
}

func (g *Gen) mutateAt(j int) {
	it := g.ex.its[j]
	p, ok := g.ex.parkedRank(it)
	if !ok || g.n() == 0 {
		if g.r.Bool() || g.n() == 0 {
			g.put(10*g.r.Range(1, 400) + g.r.Range(0, 9))
		} else {
			g.del(g.tAt(g.r.Intn(g.n())))
		}
		return
	}
	sg := 1 // +1: further in the iterator's direction
	if it.rev {
		sg = -1
	}
	idx, _ := g.ex.find(p)
	s := g.shape()
	holder := -1
	if s != nil {
		holder = s.holder(p, g.v.rank)
	}
	switch g.r.Pick(14, 8, 8, 10, 10, 10, 6, 8, 8, 3, 2, 6) {
	case 0: // delete the parked key
		g.del(p)
	case 1: // delete the key just before it (the last yield, usually)
		g.del(g.near(idx - sg))
	case 2: // delete the key just after it
		g.del(g.near(idx + sg))
	case 3: // delete another key of the node holding it
		if holder >= 0 && s.Nodes[holder].live() > 0 {
			nd := &s.Nodes[holder]
			g.del(g.v.rank(nd.Keys[g.r.Intn(nd.live())]))
		} else {
			g.del(p)
		}
	case 4: // insert just behind the parked key
		g.put(p - sg*g.r.Range(1, 9))
	case 5: // insert just after it
		g.put(p + sg*g.r.Range(1, 9))
	case 6: // insert far after it
		g.put(p + sg*(10*g.r.Range(5, 60)+g.r.Range(0, 9)))
	case 7: // ~16 adjacent inserts: split the node holding it
		for d := 1; d <= 8; d++ {
			g.put(p - d)
			g.put(p + d)
		}
	case 8: // thin out the siblings (and the node itself): rotate / merge at the parked node
		if holder >= 0 {
			g.thinAround(s, holder)
		} else {
			g.del(p)
		}
	case 9: // delete everything, then put again
		if g.n() <= 220 {
			g.drainAll(g.r.Intn(3), 0, 400)
			for i, k := 0, g.r.Range(1, 25); i < k; i++ {
				g.put(10*g.r.Range(1, 60) + g.r.Range(0, 9))
			}
		} else {
			g.del(p)
		}
	case 10: // drain from one end until the tree loses a level
		lv := g.ex.last.levels()
		pat := g.r.Intn(2)
		for i := 0; i < 260 && g.n() > 0 && g.ex.last.levels() >= lv && lv > 1; i++ {
			if pat == 0 {
				g.del(g.tAt(0))
			} else {
				g.del(g.tAt(g.n() - 1))
			}
		}
	case 11: // overwrite the parked key's value (no structural change)
		g.put(p)
	}
}

// thinAround deletes keys of the siblings of node pos and of the node itself.
func (g *Gen) thinAround(s *Shape, pos int) {
	nd := &s.Nodes[pos]
	var victims []int
	if par := nd.Parent; par >= 0 && par < len(s.Nodes) {
		pn := &s.Nodes[par]
		for j := 0; j <= pn.live(); j++ {
			if pn.Ch[j] != pos {
				continue
			}
			for _, sj := range []int{j - 1, j + 1} {
				if sj >= 0 && sj <= pn.live() && pn.Ch[sj] >= 0 && pn.Ch[sj] < len(s.Nodes) {
					sib := &s.Nodes[pn.Ch[sj]]
					for k, cnt := 0, g.r.Range(1, 3); k < cnt && sib.live() > 0; k++ {
						victims = append(victims, sib.Keys[g.r.Intn(sib.live())])
					}
				}
			}
		}
	}
	for k, cnt := 0, g.r.Range(1, 3); k < cnt && nd.live() > 0; k++ {
		victims = append(victims, nd.Keys[g.r.Intn(nd.live())])
	}
	for _, k := range victims {
		g.del(g.v.rank(k))
	}
}

func (g *Gen) modeC02(steer bool) {
	n := g.r.Range(5, 40)
	if steer || g.r.Chance(2, 5) {
		n = g.r.Range(150, 400)
	}
	g.fill(n, g.r.Intn(4), 0)
	live := g.r.Range(1, 4)
	if steer {
		live = 4
	}
	for j := 0; j < live; j++ {
		g.iterNew(j)
		for k, c := 0, g.r.Intn(12); k < c; k++ { // move to different places
			g.do(fmt.Sprintf("next %d", j))
		}
	}
	steps := g.r.Range(30, 110)
	for i := 0; i < steps; i++ {
		j := g.r.Intn(live)
		switch g.r.Pick(45, 40, 5, 3, 7) {
		case 0:
			g.do(fmt.Sprintf("next %d", j))
		case 1:
			g.mutateAt(j)
			if g.r.Chance(2, 3) {
				g.do(fmt.Sprintf("next %d", j))
			}
		case 2:
			g.iterNew(j)
		case 3:
			g.do("alias")
		case 4:
			g.read()
		}
	}
	for j := 0; j < live; j++ { // run some of them dry and keep asking after the end
		if g.r.Bool() {
			continue
		}
		for k := 0; k < 60; k++ {
			if g.do(fmt.Sprintf("next %d", j)) == "end" {
				break
			}
		}
		for k, c := 0, g.r.Range(1, 3); k < c; k++ {
			if g.r.Bool() {
				g.put(10*g.r.Range(1, 400) + 5)
			}
			g.do(fmt.Sprintf("next %d", j))
		}
	}
}

// ---------------------------------------------------------------------------------------------
// mode: malformed / boundary calls

func (g *Gen) modeMalformed() {
	if g.r.Bool() { // reads on the empty collection
		g.reads(g.r.Range(3, 8))
		g.do("iter 0 fwd u u")
		g.do("next 0")
		g.do("next 0")
	}
	g.fill(g.r.Intn(31), g.r.Intn(4), 6)
	for i, c := 0, g.r.Range(10, 40); i < c; i++ {
		lo, hi := g.window()
		switch g.r.Pick(4, 3, 3, 3, 3, 2, 2, 3, 1) {
		case 0: // zero Bound in a drain
			if g.r.Bool() {
				lo = Bnd{Kind: 'z'}
			} else {
				hi = Bnd{Kind: 'z'}
			}
			if g.r.Chance(1, 5) {
				lo, hi = Bnd{Kind: 'z'}, Bnd{Kind: 'z'}
			}
			g.do(fmt.Sprintf("%s %s %s", pick(g.r.Bool(), "range", "rrange"), lo, hi))
		case 1: // zero Bound when (re)creating a live iterator
			if g.r.Bool() {
				lo = Bnd{Kind: 'z'}
			} else {
				hi = Bnd{Kind: 'z'}
			}
			j := g.r.Intn(3)
			g.do(fmt.Sprintf("iter %d %s %s %s", j, pick(g.r.Bool(), "fwd", "rev"), lo, hi))
			g.do(fmt.Sprintf("next %d", j))
		case 2: // inverted bounds
			t := g.someT() + 20
			kinds := []byte{'i', 'e'}
			lo, hi = g.bnd(kinds[g.r.Intn(2)], t), g.bnd(kinds[g.r.Intn(2)], t-g.r.Range(0, 30))
			g.do(fmt.Sprintf("%s %s %s", pick(g.r.Bool(), "range", "rrange"), lo, hi))
		case 3: // next after the end
			j := g.r.Intn(3)
			t := g.someT()
			g.do(fmt.Sprintf("iter %d %s %s %s", j, pick(g.r.Bool(), "fwd", "rev"), g.bnd('i', t), g.bnd('i', t+g.r.Range(0, 25))))
			for k := 0; k < 8; k++ {
				g.do(fmt.Sprintf("next %d", j))
			}
		case 4: // absent keys
			t := g.someT() + g.r.Range(1, 9)
			g.del(t)
			if !g.v.Set {
				g.do(fmt.Sprintf("get %d", g.key(t)))
			}
			g.do(fmt.Sprintf("has %d", g.key(t)))
		case 5: // iterator used through the other copy of the value
			j := g.r.Intn(3)
			g.do(fmt.Sprintf("iter %d %s u u", j, pick(g.r.Bool(), "fwd", "rev")))
			g.do("alias")
			g.put(g.someT())
			g.do(fmt.Sprintf("next %d", j))
		case 6:
			g.put(g.someT())
		case 7:
			g.read()
		case 8: // a slot that was never created
			g.do(fmt.Sprintf("next %d", 4+g.r.Intn(4)))
		}
	}
}

// ---------------------------------------------------------------------------------------------

// steerCases: the first cases of a run are steering cases that make every run reach 3 levels, all
// four leaf repairs, cascades, root collapse and interior splits in every fill order.
const steerCases = 4

// genCase produces case number i of a run.
func genCase(r *vlib.Rand, i int, thorough bool, slot **Gen) {
	start := func(v Variant, mode string) *Gen {
		g := newGen(r, v, mode, thorough)
		*slot = g
		return g
	}
	var g *Gen
	switch {
	case i == 0:
		g = start(Variant{Cmp: true, Ord: "nat", D: 1, Ptr: true}, "steer-drain")
		g.modeDrain(true)
	case i == 1:
		g = start(Variant{Set: true, Ord: "rev", D: 1}, "steer-drain")
		g.fill(260, 1, 0)
		g.drainAll(1, 30, 1000)
		g.fill(20, 3, 0)
	case i == 2:
		g = start(Variant{Ord: "coarse", D: 3, Ptr: true}, "steer-c02")
		g.modeC02(true)
	case i == 3:
		// every run: sawtooth and random-order fills through the first interior split and beyond
		// (descending: case 1), each followed by the full-range iterations, then the same again on
		// top of a half-drained tree
		g = start(Variant{Cmp: true, Ord: "nat", D: 1}, "steer-fill")
		g.fill(300, 2, 0)
		g.drainAll(2, 0, 150)
		g.fill(300, 3, 0)
		g.drainAll(0, 0, 1000)
		g.fill(200, 1, 0)
	case i == 4 && thorough:
		g = start(randomVariant(r), "huge")
		g.modeHuge()
	default:
		v := randomVariant(r)
		switch r.Pick(22, 36, 5, 25, 12) {
		case 0:
			g = start(v, "fill")
			g.modeFill()
		case 1:
			g = start(v, "mix")
			g.modeMix()
		case 2:
			g = start(v, "drain")
			g.modeDrain(false)
		case 3:
			g = start(v, "c02")
			g.modeC02(false)
		default:
			g = start(v, "malformed")
			g.modeMalformed()
		}
	}
	g.finish()
}
