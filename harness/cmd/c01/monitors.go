package main

// Monitors, written from the property texts of C01, C02 and C03 against the sorted-slice reference
// kept by Exec. Keys are compared up to the comparator's equivalence (rank), values exactly.

import (
	"fmt"
	"sort"
)

// ---------------------------------------------------------------------------------------------
// C01

func (e *Exec) checkRange(op string, rev bool, lo, hi Bnd, ks, vs []int, panicked, spun bool) {
	bk := string([]byte{lo.Kind, hi.Kind})
	pr := e.params(op, "bk", bk)
	if lo.Kind == 'z' || hi.Kind == 'z' {
		if spun {
			e.panicFail("c01", op, true)
		} else if !panicked && strictZeroBound {
			e.failf("c01-missing-panic", pr, "%s %s %s with a zero Bound did not panic", op, lo, hi)
		}
		return
	}
	if panicked {
		e.panicFail("c01", op, spun)
		return
	}
	want := e.expect(rev, lo, hi)
	if d, foreign := e.diffEntries(ks, vs, want); d != "" {
		e.failf(pick(foreign, "c01-foreign-key-", "c01-wrong-")+op, pr, "%s %s %s: %s (got %d items, ideal answer has %d)", op, lo, hi, d, len(ks), len(want))
	}
}

// diffEntries compares what an iteration yielded with the ideal answer: keys up to the comparator's
// equivalence, values exactly. Which of several equivalent key objects the collection keeps is left open
// (DESIGN 8a) - but the key of an entry is a key that was PUT: a yielded key that is equivalent to the
// entry's but is none of the keys put under that class since the class was last absent (the caller's
// bound, say) is not the key of any entry an ideal map with this history holds (foreign = true).
func (e *Exec) diffEntries(ks, vs []int, want []entry) (what string, foreign bool) {
	v := e.v
	for i := range ks {
		if i >= len(want) {
			return fmt.Sprintf("item %d is (%d,%d), the ideal answer ends before it", i, ks[i], vs[i]), false
		}
		if ks[i] == 0 || v.rank(ks[i]) != v.rank(want[i].k) || vs[i] != want[i].v {
			return fmt.Sprintf("item %d is (%d,%d), ideal answer has (%d,%d)", i, ks[i], vs[i], want[i].k, want[i].v), false
		}
		if !e.wasPut(ks[i]) {
			return fmt.Sprintf("item %d has key %d: equivalent to the entry's key, but the keys put under this class are %v - the collection never held this key object", i, ks[i], e.putKeys(ks[i])), true
		}
	}
	if len(ks) < len(want) {
		return fmt.Sprintf("ends after %d items, ideal answer continues with (%d,%d)", len(ks), want[len(ks)].k, want[len(ks)].v), false
	}
	return "", false
}

// wasPut: k is one of the keys put under its equivalence class since the class was last absent.
func (e *Exec) wasPut(k int) bool { return e.reps[e.v.rank(k)][k] }

func (e *Exec) putKeys(k int) []int {
	var out []int
	for x := range e.reps[e.v.rank(k)] {
		out = append(out, x)
	}
	sort.Ints(out)
	return out
}

// judgeLen / judgeExtreme: the Len, First and Last clauses (explicit ops and the periodic sweep).
func (e *Exec) judgeLen(n int, panicked, spun bool) {
	switch {
	case panicked:
		e.panicFail("c01", "len", spun)
	case n != len(e.ref):
		e.failf("c01-wrong-len", e.params("len"), "Len() = %d, the ideal collection holds %d distinct keys", n, len(e.ref))
	}
}

func (e *Exec) judgeExtreme(op string, k, v int, panicked, spun bool) {
	if !e.checking("c01") {
		return
	}
	switch {
	case panicked:
		e.panicFail("c01", op, spun)
	case len(e.ref) == 0:
		if k != 0 || v != 0 {
			e.failf("c01-wrong-"+op, e.params(op, "empty", true), "%s on the empty collection returned (%d,%d), want the zero values", op, k, v)
		}
	default:
		w := e.ref[0]
		if op == "last" {
			w = e.ref[len(e.ref)-1]
		}
		if k == 0 || e.v.rank(k) != e.v.rank(w.k) || v != w.v {
			e.failf("c01-wrong-"+op, e.params(op), "%s returned (%d,%d), the extreme entry of the ideal collection is (%d,%d)", op, k, v, w.k, w.v)
		} else if !e.wasPut(k) {
			e.failf("c01-foreign-key-"+op, e.params(op), "%s returned key %d: equivalent to the extreme entry's key, but the keys put under this class are %v", op, k, e.putKeys(k))
		}
	}
}

// checkFull is the periodic full sweep of the C01 monitor (every 16th op and at the end of every
// case): the complete results of Iterate(), Range(Unbounded, Unbounded) and
// RangeReverse(Unbounded, Unbounded) and the answers of Len / First / Last are compared with the
// reference. A cursor has to leave every node of the tree in both directions, so damage that the
// point lookups do not see (a node that is unreachable from its neighbours) shows here.
func (e *Exec) checkFull() {
	if !e.checking("c01") {
		return
	}
	e.sweeps++
	e.lastSweepOp = e.nops
	if len(e.ref) > bigFillKeys {
		e.sweepsBig++
	}
	ks, vs, p, spun := e.drain(func() nextFn { return e.c.Iterate() })
	if p {
		e.panicFail("c01", "iterate", spun)
	} else if d, foreign := e.diffEntries(ks, vs, e.ref); d != "" {
		e.failf(pick(foreign, "c01-foreign-key-", "c01-wrong-")+"iterate", e.params("iterate"), "Iterate(): %s (got %d items, the ideal collection holds %d)", d, len(ks), len(e.ref))
	}
	u := Bnd{Kind: 'u'}
	for _, rev := range []bool{false, true} {
		op := pick(rev, "rrange", "range")
		ks, vs, p, spun := e.drain(func() nextFn { return e.c.Range(rev, u, u) })
		e.checkRange(op, rev, u, u, ks, vs, p, spun)
	}
	var n int
	p, spun = e.call(func() { n = e.c.Len() })
	e.judgeLen(n, p, spun)
	for _, op := range []string{"first", "last"} {
		var k, v int
		p, spun := e.call(func() {
			if op == "first" {
				k, v = e.c.First()
			} else {
				k, v = e.c.Last()
			}
		})
		e.judgeExtreme(op, k, v, p, spun)
	}
}

// ---------------------------------------------------------------------------------------------
// C02: the six clauses, per live iterator, on each Next

func (e *Exec) monNext(j int, it *liveIter, k, v int, more, panicked, spun bool) {
	dirName := pick(it.rev, "rev", "fwd")
	pr := e.params("next", "dir", dirName, "bk", string([]byte{it.lo.Kind, it.hi.Kind}))
	if it.nexts > 0 && it.mutSince {
		e.st.iterSawMut = true
	}
	it.nexts++
	it.mutSince = false
	inB := func(r int) bool { return e.v.inLo(it.lo, r) && e.v.inHi(it.hi, r) }
	// clause 1
	if panicked {
		if spun {
			e.failf("c02-spin", pr, "Next of iterator %d made more than %d comparator calls", j, spinLimit)
		} else {
			e.failf("c02-panic", pr, "Next of iterator %d panicked", j)
		}
		return
	}
	if !more {
		// clause 5 at exhaustion: nothing that stayed may lie beyond the last yield
		if s, ok := it.minSkipped(inB, 0, false); ok {
			e.failf(skipKind(it.S[s]), pr, "iterator %d (%s %s %s) reported the end, but the key of rank %d %s and was never yielded", j, dirName, it.lo, it.hi, s, skipWhy(it.S[s]))
		}
		it.ended = true
		it.pend = map[int]bool{}
		return
	}
	r := e.v.rank(k)
	// clause 4
	if it.ended {
		e.failf("c02-exhaustion-not-sticky", pr, "iterator %d yielded %d after it had reported exhaustion", j, k)
	}
	// clause 2
	if it.hasPrev && it.dir(r) <= it.dir(it.prev) {
		e.failf("c02-not-monotone", pr, "iterator %d (%s) yielded %d after a key of rank %d", j, dirName, k, it.prev)
	}
	if k == 0 || !inB(r) {
		e.failf("c02-out-of-bounds", pr, "iterator %d (%s %s %s) yielded %d", j, dirName, it.lo, it.hi, k)
	}
	// clause 3
	if i, found := e.find(r); !found || k == 0 {
		e.failf("c02-not-present", pr, "iterator %d yielded %d, which is not in the collection at that moment", j, k)
	} else if e.ref[i].v != v {
		e.failf("c02-stale-value", pr, "iterator %d yielded %d with value %d, its current value is %d", j, k, v, e.ref[i].v)
	}
	// clause 5
	if s, ok := it.minSkipped(inB, r, true); ok {
		e.failf(skipKind(it.S[s]), pr, "iterator %d (%s %s %s) yielded %d and thereby skipped the key of rank %d, which %s", j, dirName, it.lo, it.hi, k, s, skipWhy(it.S[s]))
	}
	for s := range it.S {
		if it.dir(s) <= it.dir(r) {
			delete(it.S, s)
		}
	}
	// clause 6: keys inserted since the previous Next that lie beyond this yield become obligations
	for x := range it.pend {
		if it.dir(x) > it.dir(r) && inB(x) {
			it.S[x] = false
		}
	}
	it.pend = map[int]bool{}
	it.prev, it.hasPrev = r, true
}

// S maps a rank to true if the key has been there since the iterator was created (clause 5) and to
// false if it was inserted beyond a later yield (clause 6).
func skipKind(persistent bool) string {
	if persistent {
		return "c02-skipped-persistent"
	}
	return "c02-missed-inserted"
}

func skipWhy(persistent bool) string {
	if persistent {
		return "has been in the collection since the iterator was created"
	}
	return "was inserted beyond an earlier yield of this iterator and not removed"
}

// minSkipped finds the first (in the iterator's direction) in-bounds member of S strictly beyond
// the previous yield and, if upTo is set, strictly before rank y.
func (it *liveIter) minSkipped(inB func(int) bool, y int, upTo bool) (int, bool) {
	best, ok := 0, false
	for s := range it.S {
		if !inB(s) || (it.hasPrev && it.dir(s) <= it.dir(it.prev)) || (upTo && it.dir(s) >= it.dir(y)) {
			continue
		}
		if !ok || it.dir(s) < it.dir(best) {
			best, ok = s, true
		}
	}
	return best, ok
}

// ---------------------------------------------------------------------------------------------
// C03

// checkCost: a Get/Contains makes at most 15 key comparisons per level (see counter for what one
// key comparison is on a less-constructed tree).
func (e *Exec) checkCost(op string, k, cost int) {
	if !e.fresh || e.last == nil {
		return
	}
	lv := e.last.levels()
	if lv < 1 {
		lv = 1
	}
	bound := 15 * lv
	if !e.v.Cmp && !foldLessPairs {
		bound *= 2
	}
	if cost > bound {
		e.failf("c03-comparisons", e.params(op), "%s(%d) made %d key comparisons on a tree of %d levels (bound %d)", op, k, cost, lv, bound)
	}
}

func (e *Exec) checkC03(s *Shape) {
	if !e.checking("c03") {
		return
	}
	n := -1
	vlibTry(func() { n = e.c.Len() })
	if kind, what := c03(s, e.v, n); kind != "" {
		e.failf(kind, e.params("shape"), "%s", what)
	}
}

func vlibTry(f func()) {
	defer func() { recover() }()
	f()
}

func c03(s *Shape, v Variant, length int) (kind, what string) {
	if s.Truncated {
		return "c03-truncated-walk", "the walk was cut off"
	}
	if s.Malformed {
		return "c03-children", "a node does not have 15 key, 15 value and 16 child slots"
	}
	if len(s.Nodes) == 0 {
		return "c03-occupancy", "the tree has no root node"
	}
	if s.Nodes[0].Parent != -1 {
		return "c03-parent-link", "the root has a parent pointer"
	}
	keys, leafDepth := 0, -1
	for i := range s.Nodes {
		n := &s.Nodes[i]
		if n.N < 0 || n.N > maxKVs || (i > 0 && n.N < minKVs) {
			return "c03-occupancy", fmt.Sprintf("node %d (depth %d) has n=%d, allowed %d..%d", i, n.Depth, n.N, minKVs, maxKVs)
		}
		keys += n.N
		if n.leaf() {
			if leafDepth == -1 {
				leafDepth = n.Depth
			} else if n.Depth != leafDepth {
				return "c03-leaf-depth", fmt.Sprintf("leaf %d at depth %d, another leaf at depth %d", i, n.Depth, leafDepth)
			}
		} else {
			for j, c := range n.Ch {
				switch {
				case j <= n.N && c < 0:
					return "c03-children", fmt.Sprintf("inner node %d (n=%d): child slot %d is %s", i, n.N, j, pick(c == -1, "nil", "a shared or cyclic pointer"))
				case j > n.N && c != -1:
					return "c03-children", fmt.Sprintf("inner node %d (n=%d): child slot %d beyond n is not nil", i, n.N, j)
				case j <= n.N && (c >= len(s.Nodes) || s.Nodes[c].Parent != i):
					return "c03-parent-link", fmt.Sprintf("child %d of node %d has parent %d", c, i, s.Nodes[c].Parent)
				}
			}
		}
		if v.Ptr {
			for j := n.N; j < maxKVs; j++ {
				if !n.KeyZ[j] || (!v.Set && !n.ValZ[j]) {
					return "c03-retained", fmt.Sprintf("node %d (n=%d) still references a key or value in slot %d", i, n.N, j)
				}
			}
		}
	}
	if keys == 0 && (len(s.Nodes) != 1 || !s.Nodes[0].leaf()) {
		return "c03-occupancy", "the empty tree is not a single empty leaf"
	}
	if keys > 0 && s.Nodes[0].N < 1 {
		return "c03-occupancy", "the root of a non-empty tree has n=0"
	}
	// in-order sequence strictly ascending
	first, prev, bad := true, 0, -1
	var walk func(i int)
	walk = func(i int) {
		n := &s.Nodes[i]
		for j := 0; j <= n.N && bad < 0; j++ {
			if c := n.Ch[j]; c > i && c < len(s.Nodes) {
				walk(c)
			}
			if j < n.N && bad < 0 {
				r := v.rank(n.Keys[j])
				if (v.Ptr && n.KeyZ[j]) || (!first && r <= prev) {
					bad = i
				}
				first, prev = false, r
			}
		}
	}
	walk(0)
	if bad >= 0 {
		return "c03-order", fmt.Sprintf("the in-order key sequence is not strictly ascending at node %d", bad)
	}
	if s.Size != keys || length != keys {
		return "c03-size", fmt.Sprintf("size field %d, Len() %d, keys stored %d", s.Size, length, keys)
	}
	if keys > 0 {
		levels := leafDepth + 1
		need := 2
		for l := 1; l < levels && need <= keys+1; l++ {
			need *= 8
		}
		if need > keys+1 {
			return "c03-depth-bound", fmt.Sprintf("%d levels for %d keys: needs 2*8^%d = %d <= %d", levels, keys, levels-1, need, keys+1)
		}
	}
	return "", ""
}
