// C06: xlist.List equals an ideal sequence of node handles for every history.
//
// Correspondence: the same op lines run on the real xlist.List[int] (exported API only) and on the
// Lean model (`driver xlist`, an interpreter of the statement lists regenerated from xlist.go);
// after every op both sides print Len, Front, Back, both walks and the Prev/Next/Value of every node
// ever created (handles canonicalised by creation index) and the lines are compared.
// Monitor: the property's clauses checked on the implementation against a plain slice of handles.
package main

import (
	"fmt"
	"os"
	"strconv"
	"strings"
	"time"

	"github.com/bradenaw/juniper/container/xlist"
	"verifharness/vlib"
)

// Op is one operation; A is the node handle (or the mark of an insert), B the mark of a move.
// Handles are creation indices.
type Op struct {
	Name string
	V    int
	A    int
	B    int
}

func (o Op) Line() string {
	switch o.Name {
	case "pushfront", "pushback":
		return fmt.Sprintf("%s %d", o.Name, o.V)
	case "insertbefore", "insertafter":
		return fmt.Sprintf("%s %d %d", o.Name, o.V, o.A)
	case "remove", "movetofront", "movetoback":
		return fmt.Sprintf("%s %d", o.Name, o.A)
	case "movebefore", "moveafter":
		return fmt.Sprintf("%s %d %d", o.Name, o.A, o.B)
	}
	return o.Name
}

func parseOp(l string) (Op, bool) {
	f := strings.Fields(l)
	if len(f) == 0 {
		return Op{}, false
	}
	n := func(i int) int {
		if i < len(f) {
			v, _ := strconv.Atoi(f[i])
			return v
		}
		return 0
	}
	switch f[0] {
	case "pushfront", "pushback":
		return Op{Name: f[0], V: n(1)}, true
	case "insertbefore", "insertafter":
		return Op{Name: f[0], V: n(1), A: n(2)}, true
	case "remove", "movetofront", "movetoback":
		return Op{Name: f[0], A: n(1)}, true
	case "movebefore", "moveafter":
		return Op{Name: f[0], A: n(1), B: n(2)}, true
	case "clear":
		return Op{Name: "clear"}, true
	}
	return Op{}, false
}

func parseOps(ls []string) []Op {
	var ops []Op
	for _, l := range ls {
		if o, ok := parseOp(l); ok {
			ops = append(ops, o)
		}
	}
	return ops
}

func opLines(ops []Op) []string {
	out := make([]string, len(ops))
	for i, o := range ops {
		out[i] = o.Line()
	}
	return out
}

func key(ops []Op) string { return strings.Join(opLines(ops), ";") }

func modelLines(ops []Op) []string {
	out := make([]string, 0, 2*len(ops))
	for _, o := range ops {
		out = append(out, o.Line(), "state")
	}
	return out
}

// ---------------------------------------------------------------------------------------------
// the implementation side

type node = xlist.Node[int]

type world struct {
	l   xlist.List[int]
	hs  []*node
	idx map[*node]int
}

func newWorld() *world { return &world{idx: map[*node]int{}} }

func (w *world) h(i int) *node {
	if i < 0 || i >= len(w.hs) {
		return nil
	}
	return w.hs[i]
}

func (w *world) name(n *node) string {
	if n == nil {
		return "-"
	}
	if i, ok := w.idx[n]; ok {
		return strconv.Itoa(i)
	}
	return "x"
}

func (w *world) reg(n *node) string {
	if n == nil {
		return "nil-node"
	}
	if _, ok := w.idx[n]; ok {
		return "old-node" // a new node must be a new object
	}
	w.idx[n] = len(w.hs)
	w.hs = append(w.hs, n)
	return "n" + strconv.Itoa(len(w.hs)-1)
}

// apply executes one op on the real list and returns the protocol output.
func (w *world) apply(o Op) string {
	out := "ok"
	p, _ := vlib.Try(func() {
		switch o.Name {
		case "pushfront":
			out = w.reg(w.l.PushFront(o.V))
		case "pushback":
			out = w.reg(w.l.PushBack(o.V))
		case "insertbefore":
			out = w.reg(w.l.InsertBefore(o.V, w.h(o.A)))
		case "insertafter":
			out = w.reg(w.l.InsertAfter(o.V, w.h(o.A)))
		case "remove":
			w.l.Remove(w.h(o.A))
		case "movebefore":
			w.l.MoveBefore(w.h(o.A), w.h(o.B))
		case "moveafter":
			w.l.MoveAfter(w.h(o.A), w.h(o.B))
		case "movetofront":
			w.l.MoveToFront(w.h(o.A))
		case "movetoback":
			w.l.MoveToBack(w.h(o.A))
		case "clear":
			w.l.Clear()
		default:
			out = "bad-op"
		}
	})
	if p {
		return "panic"
	}
	return out
}

// walks are bounded by (nodes ever created + 1) so that a corrupted list gives a finite line
func (w *world) walk(start *node, next func(*node) *node) []string {
	var out []string
	n := start
	for i := 0; i < len(w.hs)+1 && n != nil; i++ {
		out = append(out, w.name(n))
		n = next(n)
	}
	return out
}

func (w *world) state() string {
	fwd := w.walk(w.l.Front(), func(n *node) *node { return n.Next() })
	bwd := w.walk(w.l.Back(), func(n *node) *node { return n.Prev() })
	nodes := make([]string, len(w.hs))
	for i, n := range w.hs {
		nodes[i] = fmt.Sprintf("%d:%s/%s/%d", i, w.name(n.Prev()), w.name(n.Next()), n.Value)
	}
	return fmt.Sprintf("len=%d front=%s back=%s fwd=%s bwd=%s nodes=%s", w.l.Len(), w.name(w.l.Front()), w.name(w.l.Back()),
		strings.Join(fwd, ","), strings.Join(bwd, ","), strings.Join(nodes, ";"))
}

func runImpl(ops []Op) []string {
	w := newWorld()
	out := make([]string, 0, 2*len(ops))
	for _, o := range ops {
		out = append(out, w.apply(o), w.state())
	}
	return out
}

// ---------------------------------------------------------------------------------------------
// the ideal sequence of handles (reference for the monitor and for the generators)

type ideal struct {
	seq     []int        // handles in list order
	removed map[int]bool // handles taken out by Remove
	value   map[int]int  // value given at creation
	created int
}

func newIdeal() *ideal { return &ideal{removed: map[int]bool{}, value: map[int]int{}} }

func (s *ideal) pos(h int) int {
	for i, x := range s.seq {
		if x == h {
			return i
		}
	}
	return -1
}

func (s *ideal) del(h int) {
	i := s.pos(h)
	s.seq = append(append([]int{}, s.seq[:i]...), s.seq[i+1:]...)
}

func (s *ideal) ins(i, h int) {
	s.seq = append(append(append([]int{}, s.seq[:i]...), h), s.seq[i:]...)
}

// wellFormed says whether the op only uses handles of nodes currently in the list.
func (s *ideal) wellFormed(o Op) bool {
	switch o.Name {
	case "insertbefore", "insertafter", "remove", "movetofront", "movetoback":
		return s.pos(o.A) >= 0
	case "movebefore", "moveafter":
		return s.pos(o.A) >= 0 && s.pos(o.B) >= 0
	}
	return true
}

// apply performs the op on the ideal sequence (the op must be well-formed).
func (s *ideal) apply(o Op) {
	fresh := func() int { h := s.created; s.created++; s.value[h] = o.V; return h }
	switch o.Name {
	case "pushfront":
		s.ins(0, fresh())
	case "pushback":
		s.ins(len(s.seq), fresh())
	case "insertbefore":
		s.ins(s.pos(o.A), fresh())
	case "insertafter":
		s.ins(s.pos(o.A)+1, fresh())
	case "remove":
		s.del(o.A)
		s.removed[o.A] = true
	case "movebefore":
		if o.A != o.B {
			s.del(o.A)
			s.ins(s.pos(o.B), o.A)
		}
	case "moveafter":
		if o.A != o.B {
			s.del(o.A)
			s.ins(s.pos(o.B)+1, o.A)
		}
	case "movetofront":
		s.del(o.A)
		s.ins(0, o.A)
	case "movetoback":
		s.del(o.A)
		s.ins(len(s.seq), o.A)
	case "clear":
		s.seq = nil
	}
}

// relation of node and mark before a move (for kinds, parameters and the distribution)
func (s *ideal) relation(o Op) string {
	switch o.Name {
	case "movebefore", "moveafter":
		a, b := s.pos(o.A), s.pos(o.B)
		switch {
		case a == b:
			return "same"
		case a+1 == b:
			return "node-just-before-mark"
		case b+1 == a:
			return "node-just-after-mark"
		}
		return "apart"
	}
	return ""
}

func (s *ideal) ends(o Op) string {
	at := func(h int) string {
		p := s.pos(h)
		switch {
		case p < 0:
			return "absent"
		case len(s.seq) == 1:
			return "only"
		case p == 0:
			return "front"
		case p == len(s.seq)-1:
			return "back"
		}
		return "inner"
	}
	switch o.Name {
	case "movebefore", "moveafter":
		return "node-" + at(o.A) + "/mark-" + at(o.B)
	case "insertbefore", "insertafter":
		return "mark-" + at(o.A)
	case "remove", "movetofront", "movetoback":
		return "node-" + at(o.A)
	}
	return ""
}

// ---------------------------------------------------------------------------------------------
// monitor: the clauses of the property, checked on the implementation against the ideal sequence.
// It stops (without complaint) at the first op that uses a handle that is not in the list: the
// property only speaks about histories "applied with handles of nodes currently in the list".

type verdict struct {
	kind, what string
	params     map[string]interface{}
	at         int
}

func monitor(ops []Op) *verdict {
	w := newWorld()
	s := newIdeal()
	for i, o := range ops {
		if !s.wellFormed(o) {
			return nil
		}
		rel, ends := s.relation(o), s.ends(o)
		fail := func(clause, what string) *verdict {
			p := map[string]interface{}{"op": o.Name}
			if rel != "" {
				p["relation"] = rel
			}
			if ends != "" {
				p["ends"] = ends
			}
			return &verdict{kind: clause + "-" + o.Name, what: fmt.Sprintf("after op %d %q: %s", i, o.Line(), what), params: p, at: i}
		}
		before := len(w.hs)
		got := w.apply(o)
		s.apply(o)
		// results: inserting operations hand out a new, distinct handle; nothing panics
		want := "ok"
		if s.created > before {
			want = "n" + strconv.Itoa(before)
		}
		if got != want {
			return fail("result", fmt.Sprintf("returned %s, expected %s", got, want))
		}
		// Len
		if w.l.Len() != len(s.seq) {
			return fail("len", fmt.Sprintf("Len() = %d, the ideal sequence has %d handles", w.l.Len(), len(s.seq)))
		}
		// the two walks
		var fwd, bwd []*node
		for n, k := w.l.Front(), 0; n != nil && k <= len(w.hs); n, k = n.Next(), k+1 {
			fwd = append(fwd, n)
		}
		for n, k := w.l.Back(), 0; n != nil && k <= len(w.hs); n, k = n.Prev(), k+1 {
			bwd = append(bwd, n)
		}
		show := func(ns []*node) string {
			parts := make([]string, len(ns))
			for i, n := range ns {
				parts[i] = w.name(n)
			}
			return "[" + strings.Join(parts, " ") + "]"
		}
		okF := len(fwd) == len(s.seq)
		okB := len(bwd) == len(s.seq)
		for j, h := range s.seq {
			if okF && fwd[j] != w.hs[h] {
				okF = false
			}
			if okB && bwd[len(s.seq)-1-j] != w.hs[h] {
				okB = false
			}
		}
		if !okF {
			return fail("forward-walk", fmt.Sprintf("Front/Next visits %s, the ideal sequence is %v", show(fwd), s.seq))
		}
		if !okB {
			return fail("backward-walk", fmt.Sprintf("Back/Prev visits %s, the ideal sequence reversed is %v", show(bwd), s.seq))
		}
		// ends
		if len(s.seq) == 0 {
			if w.l.Front() != nil || w.l.Back() != nil {
				return fail("ends", "empty list with a non-nil Front or Back")
			}
		} else {
			if w.l.Front() != w.hs[s.seq[0]] || w.l.Back() != w.hs[s.seq[len(s.seq)-1]] {
				return fail("ends", fmt.Sprintf("Front=%s Back=%s, the ideal sequence is %v", w.name(w.l.Front()), w.name(w.l.Back()), s.seq))
			}
			if w.l.Front().Prev() != nil {
				return fail("ends", "the first node has a Prev")
			}
			if w.l.Back().Next() != nil {
				return fail("ends", "the last node has a Next")
			}
		}
		// every live handle's neighbours
		for j, h := range s.seq {
			var p, n *node
			if j > 0 {
				p = w.hs[s.seq[j-1]]
			}
			if j+1 < len(s.seq) {
				n = w.hs[s.seq[j+1]]
			}
			if w.hs[h].Prev() != p || w.hs[h].Next() != n {
				return fail("neighbours", fmt.Sprintf("handle %d has Prev=%s Next=%s in the sequence %v", h, w.name(w.hs[h].Prev()), w.name(w.hs[h].Next()), s.seq))
			}
		}
		// values are never touched; removed nodes have neither neighbour
		for h, n := range w.hs {
			if n.Value != s.value[h] {
				return fail("value-touched", fmt.Sprintf("handle %d has Value %d, it was created with %d", h, n.Value, s.value[h]))
			}
			if s.removed[h] && (n.Prev() != nil || n.Next() != nil) {
				return fail("removed-has-neighbour", fmt.Sprintf("removed handle %d has Prev=%s Next=%s", h, w.name(n.Prev()), w.name(n.Next())))
			}
		}
		// documented postcondition of the moves
		if o.A != o.B {
			if o.Name == "movebefore" && (w.hs[o.B].Prev() != w.hs[o.A] || w.hs[o.A].Next() != w.hs[o.B]) {
				return fail("move-postcondition", "mark.Prev() != node or node.Next() != mark")
			}
			if o.Name == "moveafter" && (w.hs[o.B].Next() != w.hs[o.A] || w.hs[o.A].Prev() != w.hs[o.B]) {
				return fail("move-postcondition", "mark.Next() != node or node.Prev() != mark")
			}
		}
	}
	return nil
}

// ---------------------------------------------------------------------------------------------
// generators

var opNames = []string{"pushfront", "pushback", "insertbefore", "insertafter", "remove", "movebefore", "moveafter", "movetofront", "movetoback", "clear"}

// genCase builds one history. Modes: 0 uniform mix; 1 adjacent / identical node-mark pairs;
// 2 nodes and marks at the ends; 3 tiny lists (single-element lists, emptied by Remove);
// 4 re-growth after Clear or after removing every node; 5 malformed (stale handles: removed or
// cleared-away nodes — outside the property, correspondence only); 6 long histories.
func genCase(r *vlib.Rand, res *vlib.Result) (ops []Op, malformed bool) {
	mode := r.Intn(7)
	res.Count(fmt.Sprintf("mode-%d", mode))
	n := r.Range(6, 60)
	if mode == 6 {
		n = r.Range(100, 300)
	}
	s := newIdeal()
	val := 100
	add := func(o Op) {
		if !s.wellFormed(o) {
			malformed = true
			ops = append(ops, o)
			return // the ideal sequence is meaningless from here on; keep generating with stale data
		}
		ops = append(ops, o)
		s.apply(o)
	}
	pickLive := func() int { return s.seq[r.Intn(len(s.seq))] }
	pickEnd := func() int {
		if r.Bool() {
			return s.seq[0]
		}
		return s.seq[len(s.seq)-1]
	}
	pickStale := func() (int, bool) {
		var st []int
		for h := 0; h < s.created; h++ {
			if s.pos(h) < 0 {
				st = append(st, h)
			}
		}
		if len(st) == 0 {
			return 0, false
		}
		return st[r.Intn(len(st))], true
	}
	for len(ops) < n {
		size := len(s.seq)
		if malformed {
			break // after a stale handle the two sides only have to agree up to here and one step beyond
		}
		val++
		// shape control per mode
		w := []int{10, 10, 8, 8, 8, 14, 14, 6, 6, 1}
		switch mode {
		case 3:
			if size >= 2 {
				w = []int{0, 0, 0, 0, 20, 3, 3, 2, 2, 1}
			} else {
				w = []int{10, 10, 5, 5, 10, 6, 6, 4, 4, 1}
			}
		case 4:
			if size >= r.Range(2, 6) {
				if r.Bool() {
					add(Op{Name: "clear"})
				} else {
					for len(s.seq) > 0 {
						add(Op{Name: "remove", A: pickLive()})
					}
				}
				res.Count("regrow")
				continue
			}
			w = []int{10, 10, 8, 8, 1, 6, 6, 3, 3, 0}
		case 6:
			if size > 12 {
				w = []int{2, 2, 2, 2, 20, 14, 14, 6, 6, 1}
			}
		}
		k := r.Pick(w...)
		name := opNames[k]
		if size == 0 && k >= 2 && k <= 8 {
			if mode == 5 && r.Chance(1, 3) {
				if h, ok := pickStale(); ok {
					add(Op{Name: name, V: val, A: h, B: h})
					continue
				}
			}
			name = []string{"pushfront", "pushback"}[r.Intn(2)]
		}
		switch name {
		case "pushfront", "pushback", "clear":
			add(Op{Name: name, V: val})
		case "insertbefore", "insertafter", "remove", "movetofront", "movetoback":
			h := pickLive()
			if mode == 2 && r.Chance(3, 4) {
				h = pickEnd()
			}
			if mode == 5 && r.Chance(1, 6) {
				if st, ok := pickStale(); ok {
					h = st
				}
			}
			add(Op{Name: name, V: val, A: h})
		case "movebefore", "moveafter":
			a, b := pickLive(), pickLive()
			switch {
			case mode == 1 || r.Chance(1, 3):
				i := r.Intn(size)
				a = s.seq[i]
				switch r.Intn(5) {
				case 0:
					b = a
				case 1, 2:
					if i+1 < size {
						b = s.seq[i+1]
					}
				default:
					if i > 0 {
						b = s.seq[i-1]
					}
				}
			case mode == 2:
				if r.Bool() {
					a = pickEnd()
				}
				if r.Bool() {
					b = pickEnd()
				}
			}
			if mode == 5 && r.Chance(1, 6) {
				if st, ok := pickStale(); ok {
					if r.Bool() {
						a = st
					} else {
						b = st
					}
				}
			}
			add(Op{Name: name, A: a, B: b})
		}
	}
	if malformed && r.Bool() {
		// a few more steps on the (possibly corrupted) list: both sides must still agree pointer for pointer
		for i := 0; i < r.Range(1, 4); i++ {
			ops = append(ops, Op{Name: []string{"pushfront", "pushback", "clear"}[r.Pick(3, 3, 1)], V: val + 1 + i})
		}
	}
	return ops, malformed
}

// stats classifies a history for the distribution and the non-triviality rule.
func stats(ops []Op, res *vlib.Result) (nontrivial bool) {
	s := newIdeal()
	relative := 0
	for _, o := range ops {
		if !s.wellFormed(o) {
			res.Count("op-stale-handle")
			break
		}
		res.Count("op-" + o.Name)
		if rel := s.relation(o); rel != "" {
			res.Count("move-" + rel)
		}
		if e := s.ends(o); e != "" {
			res.Count("pos-" + e)
		}
		switch o.Name {
		case "insertbefore", "insertafter", "movebefore", "moveafter", "movetofront", "movetoback":
			if len(s.seq) >= 2 {
				relative++
			}
		}
		s.apply(o)
		if len(s.seq) == 1 {
			res.Count("state-single-element")
		}
		if len(s.seq) == 0 && s.created > 0 {
			res.Count("state-emptied")
		}
	}
	res.Count(fmt.Sprintf("final-size-%s", bucket(len(s.seq))))
	return len(ops) >= 5 && relative >= 1
}

func bucket(n int) string {
	switch {
	case n == 0:
		return "0"
	case n == 1:
		return "1"
	case n <= 4:
		return "2-4"
	case n <= 10:
		return "5-10"
	}
	return ">10"
}

// ---------------------------------------------------------------------------------------------
// shrinking: delta debugging over op positions; dropping a creating op renumbers the later handles
// (and drops the ops that referred to the dropped node), so that sub-histories stay meaningful.

func creates(o Op) bool {
	switch o.Name {
	case "pushfront", "pushback", "insertbefore", "insertafter":
		return true
	}
	return false
}

func project(ops []Op, keep []int) []Op {
	keepSet := map[int]bool{}
	for _, k := range keep {
		keepSet[k] = true
	}
	newIdx := map[int]int{}
	created, n := 0, 0
	var out []Op
	for i, o := range ops {
		kept := keepSet[i]
		if kept {
			ref := func(h int) int {
				if v, ok := newIdx[h]; ok {
					return v
				}
				kept = false
				return 0
			}
			switch o.Name {
			case "insertbefore", "insertafter", "remove", "movetofront", "movetoback":
				o.A = ref(o.A)
			case "movebefore", "moveafter":
				o.A = ref(o.A)
				o.B = ref(o.B)
			}
		}
		if creates(o) {
			if kept {
				newIdx[created] = n
				n++
			}
			created++
		}
		if kept {
			out = append(out, o)
		}
	}
	return out
}

func shrinkOps(ops []Op, fails func([]Op) bool) []Op {
	idx := make([]int, len(ops))
	for i := range idx {
		idx[i] = i
	}
	small := vlib.Shrink(idx, func(c []int) bool { return fails(project(ops, c)) })
	out := project(ops, small)
	if !fails(out) {
		return ops
	}
	return out
}

// ---------------------------------------------------------------------------------------------
// checking one case

func at(a []string, i int) string {
	if i >= 0 && i < len(a) {
		return a[i]
	}
	return "<none>"
}

func check(ops []Op, m *vlib.Model, res *vlib.Result) {
	if v := monitor(ops); v != nil {
		small := shrinkOps(ops, func(c []Op) bool { vv := monitor(c); return vv != nil && vv.kind == v.kind })
		if vv := monitor(small); vv != nil {
			v = vv
		}
		res.Fail(vlib.Failure{Source: "monitor", Kind: v.kind, Params: v.params, What: v.what, Case: opLines(small)})
	}
	if m == nil {
		return
	}
	impl := runImpl(ops)
	mod, err := m.Run(modelLines(ops))
	if err != nil {
		res.ModelMissing = err.Error()
		return
	}
	res.Traces++
	if i := vlib.FirstDiff(impl, mod); i >= 0 {
		differs := func(c []Op) bool {
			mo, err := m.Run(modelLines(c))
			return err == nil && vlib.FirstDiff(runImpl(c), mo) >= 0
		}
		small := shrinkOps(ops, differs)
		im := runImpl(small)
		mo, _ := m.Run(modelLines(small))
		j := vlib.FirstDiff(im, mo)
		name := "?"
		if j/2 < len(small) && j >= 0 {
			name = small[j/2].Name
		}
		what := fmt.Sprintf("line %d (%s): impl %q, model %q", j, name, at(im, j), at(mo, j))
		res.Fail(vlib.Failure{Source: "correspondence", Kind: "xlist-model-differs-" + name, What: what, Case: opLines(small)})
	}
}

// ---------------------------------------------------------------------------------------------
// exhaustive small scope: every op sequence of length <= depth over at most maxLive live handles
// (all well-formed choices of node and mark, including node == mark). The model is driven with
// prefix sharing (`mark d` / `back d` snapshots); the implementation re-runs each prefix.

func children(s *ideal, maxLive int) []Op {
	var out []Op
	v := 100 + s.created
	if len(s.seq) < maxLive {
		out = append(out, Op{Name: "pushfront", V: v}, Op{Name: "pushback", V: v})
		for _, h := range s.seq {
			out = append(out, Op{Name: "insertbefore", V: v, A: h}, Op{Name: "insertafter", V: v, A: h})
		}
	}
	for _, a := range s.seq {
		out = append(out, Op{Name: "remove", A: a}, Op{Name: "movetofront", A: a}, Op{Name: "movetoback", A: a})
		for _, b := range s.seq {
			out = append(out, Op{Name: "movebefore", A: a, B: b}, Op{Name: "moveafter", A: a, B: b})
		}
	}
	out = append(out, Op{Name: "clear"})
	return out
}

func idealAfter(ops []Op) *ideal {
	s := newIdeal()
	for _, o := range ops {
		s.apply(o)
	}
	return s
}

type enumStats struct{ nodes, nontrivial, failures int }

func nontrivialSeq(ops []Op) bool {
	if len(ops) < 5 {
		return false
	}
	s := newIdeal()
	for _, o := range ops {
		switch o.Name {
		case "insertbefore", "insertafter", "movebefore", "moveafter", "movetofront", "movetoback":
			if len(s.seq) >= 2 {
				return true
			}
		}
		s.apply(o)
	}
	return false
}

// enumerate explores the subtree below prefix (which has already been checked) down to depth.
func enumerate(prefix []Op, depth, maxLive int, m *vlib.Model, res *vlib.Result, st *enumStats) {
	var lines []string
	var seqs [][]Op
	var rec func(cur []Op)
	rec = func(cur []Op) {
		d := len(cur)
		if d > len(prefix) { // the prefix itself is replayed below without being compared again
			lines = append(lines, cur[d-1].Line(), "state")
			seqs = append(seqs, append([]Op{}, cur...))
		}
		if d == depth {
			return
		}
		lines = append(lines, fmt.Sprintf("mark %d", d))
		for i, o := range children(idealAfter(cur), maxLive) {
			if i > 0 {
				lines = append(lines, fmt.Sprintf("back %d", d))
			}
			rec(append(append([]Op{}, cur...), o))
		}
	}
	// monitor on every sequence of the subtree
	var pre []string
	for _, o := range prefix {
		pre = append(pre, o.Line())
	}
	rec(prefix)
	for _, sq := range seqs {
		st.nodes++
		if nontrivialSeq(sq) {
			st.nontrivial++
		}
		if v := monitor(sq); v != nil {
			st.failures++
			check(sq, nil, res) // records the (shrunk) monitor failure
		}
	}
	if m == nil {
		return
	}
	out, err := m.Run(append(pre, lines...))
	if err != nil {
		res.ModelMissing = err.Error()
		return
	}
	out = out[len(pre):]
	k := 0
	for i := 0; i < len(lines); i++ {
		if lines[i] != "state" {
			continue
		}
		sq := seqs[k]
		k++
		// output of the last op and the state after it
		w := newWorld()
		var got string
		for _, o := range sq {
			got = w.apply(o)
		}
		res.Traces++
		if out[i-1] != got || out[i] != w.state() {
			st.failures++
			check(sq, m, res) // records the (shrunk) correspondence failure
		}
	}
}

func exhaustive(depth, maxLive int, m *vlib.Model, res *vlib.Result, deadline time.Time) (complete bool, st enumStats) {
	// sequences of length <= 2 directly, then one model exchange per length-2 prefix
	var level2 [][]Op
	for _, a := range children(newIdeal(), maxLive) {
		check([]Op{a}, m, res)
		st.nodes++
		for _, b := range children(idealAfter([]Op{a}), maxLive) {
			check([]Op{a, b}, m, res)
			st.nodes++
			level2 = append(level2, []Op{a, b})
		}
	}
	if depth <= 2 {
		return true, st
	}
	for _, p := range level2 {
		if time.Now().After(deadline) {
			return false, st
		}
		enumerate(p, depth, maxLive, m, res, &st)
	}
	return true, st
}

// ---------------------------------------------------------------------------------------------

func main() {
	env := vlib.GetEnv()
	res := vlib.NewResult("C06", "random histories over all ten operations in 7 modes (uniform; node/mark adjacent in either order or identical; "+
		"node/mark at the ends; tiny lists; re-growth after Clear or after removing every node; stale handles (correspondence only); long) plus the corpus; "+
		"a case is non-trivial if it has >= 5 ops and at least one insert-relative or move operation on a list of >= 2 nodes; distinct = different op sequence. "+
		"In addition every op sequence up to a small length over <= 4 live handles is enumerated (quick: length 4, thorough: length 6); "+
		"each enumerated sequence counts as one evaluation")
	m, err := vlib.StartModel(env.Driver, "xlist")
	if err != nil {
		res.ModelMissing = err.Error()
		m = nil
	}
	defer m.Close()

	if env.Replay != "" {
		var ls []string
		if err := vlib.ReplayCase(env.Replay, &ls); err != nil {
			fmt.Println("cannot read replay:", err)
			os.Exit(2)
		}
		ops := parseOps(ls)
		fmt.Printf("replay of %d ops: %s\n", len(ops), strings.Join(opLines(ops), "; "))
		v := monitor(ops)
		if v != nil {
			fmt.Printf("monitor: %s: %s\n", v.kind, v.what)
		} else {
			fmt.Println("monitor: no clause of the property is violated")
		}
		im := runImpl(ops)
		for i := 1; i < len(im); i += 2 {
			fmt.Printf("  %-22s -> %-6s %s\n", ops[i/2].Line(), im[i-1], im[i])
		}
		if m != nil {
			mo, _ := m.Run(modelLines(ops))
			if i := vlib.FirstDiff(im, mo); i >= 0 {
				fmt.Printf("correspondence: line %d impl %q model %q\n", i, at(im, i), at(mo, i))
			} else {
				fmt.Println("correspondence: model and implementation agree")
			}
		}
		if v != nil {
			os.Exit(1)
		}
		return
	}

	for _, f := range vlib.CorpusFiles(env.Corpus, ".ops") {
		ops := parseOps(vlib.ReadLines(f))
		res.Count("corpus")
		res.Case(key(ops), stats(ops, res), nil)
		check(ops, m, res)
	}

	start := time.Now()
	budget := time.Duration(env.BudgetMs) * time.Millisecond
	depth := 4
	if env.Thorough() || env.Deep {
		depth = 6
	}
	// the enumeration first (it may use 3/4 of the budget), random histories for the rest
	complete, st := exhaustive(depth, 4, m, res, start.Add(budget*3/4))
	r := vlib.NewRand(env.Seed)
	deadline := start.Add(budget)
	if min := time.Now().Add(budget / 5); deadline.Before(min) {
		deadline = min
	}
	maxCases := 4000
	if env.Thorough() || env.Deep {
		maxCases = 100000
	}
	for i := 0; i < maxCases && time.Now().Before(deadline); i++ {
		ops, _ := genCase(r.Fork(), res)
		res.CountN("ops", len(ops))
		var sample interface{}
		if len(ops) <= 12 {
			sample = opLines(ops)
		}
		res.Case(key(ops), stats(ops, res), sample)
		check(ops, m, res)
	}
	res.Evaluations += st.nodes
	res.Nontrivial += st.nontrivial
	res.Dist["enumerated-sequences"] = st.nodes
	res.Dist["enumeration-depth"] = depth
	res.Extra["enumeration"] = fmt.Sprintf("all op sequences of length <= %d over <= 4 live handles: %d sequences, complete=%v", depth, st.nodes, complete)
	res.Exhaustive = complete
	res.Write(env.Out)
}
