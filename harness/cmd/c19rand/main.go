// C19 (sampling part): xmath/xrand.
//
// The verif hook (xmath/xrand/verif_export.go) runs the unexported sampler and the unexported
// rSample* functions with a caller-supplied random source. For every case
//   - the sampler's (next, replace) decisions are logged and checked against the sampler's contract
//     (the hypothesis of the Lean theorem sample_count_distinct_positions): first k are (i,i), then
//     strictly increasing next >= k, replace < k;
//   - the integer part of the sampler is compared with the Lean model (the floating point part —
//     skip = floor(log(u)/log1p(-w)) — is recomputed here from the logged draws and handed to the model);
//   - the reservoir that rSample / rSampleSlice / rSampleIterator / rSampleStream build from those
//     decisions is compared with the Lean model (final shuffle disabled in the source);
//   - the public API is monitored: min(k, n) items from distinct positions; Shuffle permutes.
// thorough: fixed-seed chi-square tests of inclusion and subset frequencies (p < 1e-9).
package main

import (
	"context"
	"fmt"
	"math"
	"math/bits"
	"math/rand"
	"os"
	"sort"
	"strconv"
	"strings"
	"time"
	"unsafe"

	"github.com/bradenaw/juniper/iterator"
	"github.com/bradenaw/juniper/stream"
	"github.com/bradenaw/juniper/xmath/xrand"
	"verifharness/vlib"
)

type P = map[string]interface{}

// ---------------------------------------------------------------------------------------------
// random sources

// logRand is a VerifRand that logs everything it hands out. Float64/Intn come from a seeded
// *rand.Rand or from scripts; Shuffle is the real one (swaps logged), scripted, or disabled.
type logRand struct {
	r        *rand.Rand
	floats   []float64 // script (cyclic) when r == nil
	ints     []int
	fi, ii   int
	noShuf   bool
	swapsIn  [][2]int // scripted swaps when r == nil
	Floats   []float64
	Ints     []int
	Swaps    [][2]int
	ShuffleN []int
}

func (l *logRand) Float64() float64 {
	var f float64
	if l.r != nil {
		f = l.r.Float64()
	} else {
		f = l.floats[l.fi%len(l.floats)]
		l.fi++
	}
	l.Floats = append(l.Floats, f)
	return f
}

func (l *logRand) Intn(n int) int {
	var v int
	if l.r != nil {
		v = l.r.Intn(n)
	} else {
		v = l.ints[l.ii%len(l.ints)] % n
		l.ii++
	}
	l.Ints = append(l.Ints, v)
	return v
}

func (l *logRand) Shuffle(n int, swap func(i, j int)) {
	l.ShuffleN = append(l.ShuffleN, n)
	if l.noShuf {
		return
	}
	logged := func(i, j int) {
		l.Swaps = append(l.Swaps, [2]int{i, j})
		swap(i, j)
	}
	if l.r != nil {
		l.r.Shuffle(n, logged)
		return
	}
	for _, s := range l.swapsIn {
		if n > 0 {
			logged(((s[0]%n)+n)%n, ((s[1]%n)+n)%n)
		}
	}
}

var craftedFloats = []float64{0, 5e-324, 1e-300, 1e-17, 1e-3, 0.25, 0.5, 0.75, 1 - 1e-9, 1 - 1.0/(1<<53)}

// Case: Src "seed" (math/rand source) or "craft" (scripted floats/ints, indices into craftedFloats).
type Case struct {
	Fn    string `json:"fn"` // sampler | rsample | rsampleslice | rsampleiter | rsamplestream | shuffle
	N     int    `json:"n"`
	K     int    `json:"k"`
	Seed  int64  `json:"seed"`
	Craft []int  `json:"craft,omitempty"` // crafted float indices; empty = seeded source
	List  []int  `json:"list,omitempty"`  // shuffle input
	T     int    `json:"trials,omitempty"` // uniformity: number of samples
}

func (c Case) Key() string {
	return fmt.Sprintf("%s n=%d k=%d seed=%d craft=%v list=%v", c.Fn, c.N, c.K, c.Seed, c.Craft, c.List)
}

func (c Case) source(noShuf bool) *logRand {
	if len(c.Craft) == 0 {
		return &logRand{r: rand.New(rand.NewSource(c.Seed)), noShuf: noShuf}
	}
	fl := make([]float64, len(c.Craft))
	ints := make([]int, len(c.Craft))
	var sw [][2]int
	for i, x := range c.Craft {
		fl[i] = craftedFloats[((x%len(craftedFloats))+len(craftedFloats))%len(craftedFloats)]
		ints[i] = (x/len(craftedFloats) + i) & 0xffff
		sw = append(sw, [2]int{x, x/3 + i})
	}
	return &logRand{floats: fl, ints: ints, noShuf: noShuf, swapsIn: sw}
}

const maxDecisions = 100000

// decisions runs the real sampler through the hook.
func decisions(c Case) (d [][2]int, src *logRand, panicked bool) {
	src = c.source(true)
	panicked, _ = vlib.Try(func() { d = xrand.VerifSamplerDecisions(src, c.K, c.N, maxDecisions) })
	return
}

func encPairs(d [][2]int) string {
	if len(d) == 0 {
		return "-"
	}
	p := make([]string, len(d))
	for i, x := range d {
		p[i] = fmt.Sprintf("%d:%d", x[0], x[1])
	}
	return strings.Join(p, ",")
}

func encList(l []int) string {
	if len(l) == 0 {
		return "-"
	}
	p := make([]string, len(l))
	for i, x := range l {
		p[i] = strconv.Itoa(x)
	}
	return strings.Join(p, ",")
}

// floatScript recomputes the floating point part of Algorithm L from the logged draws: one
// (skip, rnd) entry per decision after the fill phase.
func floatScript(k int, src *logRand, postFill int) string {
	if postFill == 0 || len(src.Floats) == 0 {
		return "-"
	}
	fl, in := src.Floats, src.Ints
	w := math.Exp(math.Log(fl[0]) / float64(k))
	fi, ii := 1, 0
	idx := k - 1 // s.i after the fill phase and the adjustment of the first call after it
	var parts []string
	for j := 0; j < postFill; j++ {
		if fi >= len(fl) {
			break
		}
		skip := math.Floor(math.Log(fl[fi]) / math.Log1p(-w))
		fi++
		if math.IsInf(skip, 0) || math.IsNaN(skip) || skip >= float64(math.MaxInt-idx) {
			parts = append(parts, "inf:0")
			continue
		}
		if fi >= len(fl) || ii >= len(in) {
			break
		}
		idx += int(skip) + 1
		w *= math.Exp(math.Log(fl[fi]) / float64(k))
		fi++
		parts = append(parts, fmt.Sprintf("%d:%d", int(skip), in[ii]))
		ii++
	}
	if len(parts) == 0 {
		return "-"
	}
	return strings.Join(parts, ",")
}

// ---------------------------------------------------------------------------------------------
// implementation side / model lines

const base = 100 // items of the sampled slice / iterator are base+position (never the zero value)

func items(n int) []int {
	a := make([]int, n)
	for i := range a {
		a[i] = base + i
	}
	return a
}

// itemsSpare is items(n) with `spare` unused elements of capacity behind it (an append to a[:0] or to
// a itself then stays inside the caller's array).
func itemsSpare(n, spare int) []int {
	a := make([]int, n, n+spare)
	for i := range a {
		a[i] = base + i
	}
	return a
}

// inputUntouched: SampleSlice / RSampleSlice document no in-place and no aliasing effect ("picks k
// items ... from a", a reservoir of O(k) space): after the call the caller's slice holds what it held, in
// the same order, and the sample is storage of its own (writing to it must not write to the input). The
// same reading as c19's "a read-only helper modified its input" / "Clone aliases".
func inputUntouched(name string, in, out []int, k int) (kind, what string) {
	full := in[:cap(in)]
	for i := range in {
		if in[i] != base+i {
			return "xrand-sample-input-modified", fmt.Sprintf("%s(a, %d) with len(a) = %d reordered the caller's slice: a[%d] is item %d afterwards (a = %v)",
				name, k, len(in), i, in[i]-base, trunc(positions(in)))
		}
	}
	for i := len(in); i < len(full); i++ {
		if full[i] != 0 {
			return "xrand-sample-input-modified", fmt.Sprintf("%s(a, %d) with len(a) = %d, cap(a) = %d wrote %d into a's spare capacity at %d",
				name, k, len(in), cap(in), full[i], i)
		}
	}
	if len(out) > 0 && len(full) > 0 {
		o := out[:cap(out)]
		lo, hi := uintptr(unsafe.Pointer(&full[0])), uintptr(unsafe.Pointer(&full[len(full)-1]))
		olo, ohi := uintptr(unsafe.Pointer(&o[0])), uintptr(unsafe.Pointer(&o[len(o)-1]))
		if olo <= hi && lo <= ohi {
			return "xrand-sample-aliases-input", fmt.Sprintf("%s(a, %d) with len(a) = %d returned a slice that shares storage with a (writing to the sample writes to the input)",
				name, k, len(in))
		}
	}
	return "", ""
}

func positions(out []int) []int {
	p := make([]int, len(out))
	for i, v := range out {
		if v == 0 {
			p[i] = -1
		} else {
			p[i] = v - base
		}
	}
	return p
}

// implAndLine returns the canonical output of the real code and the protocol line for the model.
func implAndLine(c Case) (implOut, line string) {
	switch c.Fn {
	case "sampler":
		d, src, pan := decisions(c)
		if pan {
			return "panic", ""
		}
		post := len(d) - c.K
		if post < 0 {
			post = 0
		}
		return encPairs(d), fmt.Sprintf("sampler %d %d %d %s", c.K, len(d), math.MaxInt, floatScript(c.K, src, post))
	case "rsample", "rsampleslice", "rsampleiter", "rsamplestream":
		d, _, pan := decisions(c)
		if pan {
			return "skip", ""
		}
		src := c.source(true)
		var out []int
		p, _ := vlib.Try(func() {
			switch c.Fn {
			case "rsample":
				out = xrand.VerifRSample(src, c.N, c.K)
			case "rsampleslice":
				out = positions(xrand.VerifRSampleSlice(src, items(c.N), c.K))
			case "rsampleiter":
				out = positions(xrand.VerifRSampleIterator(src, iterator.Slice(items(c.N)), c.K))
			case "rsamplestream":
				o, err := xrand.VerifRSampleStream(context.Background(), src, stream.FromIterator(iterator.Slice(items(c.N))), c.K)
				if err != nil {
					panic(err)
				}
				out = positions(o)
			}
		})
		implOut = encList(out)
		if p {
			implOut = "panic"
		}
		switch c.Fn {
		case "rsample":
			line = fmt.Sprintf("rsample %d %d %s", c.N, c.K, encPairs(d))
		case "rsampleslice":
			line = fmt.Sprintf("rsampleslice %d %d %s", c.N, c.K, encPairs(d))
		case "rsampleiter":
			line = fmt.Sprintf("rsampleiter 0 %d %d %s", c.N, c.K, encPairs(d))
		case "rsamplestream":
			line = fmt.Sprintf("rsampleiter 1 %d %d %s", c.N, c.K, encPairs(d))
		}
		return implOut, line
	case "shuffle":
		src := c.source(false)
		a := append([]int{}, c.List...)
		if p, _ := vlib.Try(func() { xrand.VerifRShuffle(src, a) }); p {
			return "panic", ""
		}
		return encList(a), fmt.Sprintf("shuffle %s %s", encList(c.List), encPairs(src.Swaps))
	}
	return "bad-op", ""
}

// ---------------------------------------------------------------------------------------------
// monitors

func distinctInRange(out []int, n int) (bool, string) {
	seen := map[int]bool{}
	for _, p := range out {
		if p < 0 || p >= n {
			return false, fmt.Sprintf("position %d outside [0,%d)", p, n)
		}
		if seen[p] {
			return false, fmt.Sprintf("position %d taken twice", p)
		}
		seen[p] = true
	}
	return true, ""
}

func monitor(c Case) (kind, what string, params P) {
	defer func() {
		if r := recover(); r != nil {
			kind, what = "harness-monitor-panic", fmt.Sprint(r)
		}
	}()
	if c.K < 0 || c.N < 0 {
		return // outside the documented domain
	}
	pr := P{"n": c.N, "k": c.K}
	want := c.K
	if c.N < c.K {
		want = c.N
	}
	switch c.Fn {
	case "sampler":
		// the sampler's contract (doc comment of sampler.Next): next always increasing; the first k
		// calls return (i, i); replace is a reservoir index
		d, _, pan := decisions(c)
		if pan {
			return "xrand-sampler-panic", c.Key() + ": the sampler panicked", pr
		}
		for i, x := range d {
			switch {
			case i < c.K && (x[0] != i || x[1] != i):
				return "xrand-sampler-contract", fmt.Sprintf("%s: decision %d is %v, want (%d,%d) while the reservoir fills", c.Key(), i, x, i, i), pr
			case i >= c.K && (x[0] < c.K || ((x[1] < 0 || x[1] >= c.K) && x[0] < c.N)):
				// exactly Juniper.Spec.Helpers.SamplerContract: replace is a reservoir index unless
				// the decision is the stopping one (next >= n)
				return "xrand-sampler-contract", fmt.Sprintf("%s: decision %d is %v: need next >= k and (0 <= replace < k or next >= n)", c.Key(), i, x), pr
			case i > 0 && x[0] <= d[i-1][0]:
				return "xrand-sampler-contract", fmt.Sprintf("%s: next not strictly increasing at decision %d: %v after %v", c.Key(), i, x, d[i-1]), pr
			}
		}
		if len(d) < maxDecisions && (len(d) == 0 || d[len(d)-1][0] < c.N) {
			return "xrand-sampler-contract", c.Key() + ": decisions end before next >= n", pr
		}
	case "rsample", "rsampleslice", "rsampleiter", "rsamplestream":
		var out []int
		var sliceKind, sliceWhat string
		src := c.source(false)
		var r *rand.Rand
		if len(c.Craft) == 0 {
			r = rand.New(rand.NewSource(c.Seed))
		}
		pan, v := vlib.Try(func() {
			switch c.Fn {
			case "rsample":
				if r != nil {
					out = xrand.RSample(r, c.N, c.K)
				} else {
					out = xrand.VerifRSample(src, c.N, c.K)
				}
			case "rsampleslice":
				in := itemsSpare(c.N, c.N%3)
				var o []int
				if r != nil {
					o = xrand.RSampleSlice(r, in, c.K)
				} else {
					o = xrand.VerifRSampleSlice(src, in, c.K)
				}
				out = positions(o)
				sliceKind, sliceWhat = inputUntouched("RSampleSlice", in, o, c.K)
			case "rsampleiter":
				if r != nil {
					out = positions(xrand.RSampleIterator(r, iterator.Slice(items(c.N)), c.K))
				} else {
					out = positions(xrand.VerifRSampleIterator(src, iterator.Slice(items(c.N)), c.K))
				}
			case "rsamplestream":
				var o []int
				var err error
				cs := &closeCounter{inner: stream.FromIterator(iterator.Slice(items(c.N)))}
				if r != nil {
					o, err = xrand.RSampleStream(context.Background(), r, stream.Stream[int](cs), c.K)
				} else {
					o, err = xrand.VerifRSampleStream(context.Background(), src, stream.Stream[int](cs), c.K)
				}
				if err != nil {
					panic(err)
				}
				out = positions(o)
			}
		})
		if pan {
			return "xrand-sample-panic", fmt.Sprintf("%s: panicked: %v", c.Key(), v), pr
		}
		if len(out) != want {
			return "xrand-sample-count", fmt.Sprintf("%s: returned %d items, want min(k,n) = %d", c.Key(), len(out), want), pr
		}
		if ok, why := distinctInRange(out, c.N); !ok {
			return "xrand-sample-distinct", fmt.Sprintf("%s: returned positions %v: %s", c.Key(), out, why), pr
		}
		if sliceKind != "" {
			return sliceKind, c.Key() + ": " + sliceWhat, pr
		}
	case "shuffle":
		a := append([]int{}, c.List...)
		if len(c.Craft) == 0 {
			xrand.RShuffle(rand.New(rand.NewSource(c.Seed)), a)
		} else {
			xrand.VerifRShuffle(c.source(false), a)
		}
		x, y := append([]int{}, a...), append([]int{}, c.List...)
		sort.Ints(x)
		sort.Ints(y)
		if fmt.Sprint(x) != fmt.Sprint(y) {
			return "xrand-shuffle-not-permutation", fmt.Sprintf("%s: shuffled to %v", c.Key(), a), nil
		}
	}
	return
}

type closeCounter struct {
	inner  stream.Stream[int]
	closed int
}

func (c *closeCounter) Next(ctx context.Context) (int, error) { return c.inner.Next(ctx) }
func (c *closeCounter) Close()                                { c.closed++; c.inner.Close() }

// global (package-level) API: Sample / SampleSlice / SampleIterator / SampleStream / Shuffle
func monitorGlobals(n, k int) (kind, what string, params P) {
	pr := P{"n": n, "k": k}
	want := k
	if n < k {
		want = n
	}
	check := func(name string, out []int) (string, string, P) {
		if len(out) != want {
			return "xrand-sample-count", fmt.Sprintf("%s(n=%d,k=%d) returned %d items", name, n, k, len(out)), pr
		}
		if ok, why := distinctInRange(out, n); !ok {
			return "xrand-sample-distinct", fmt.Sprintf("%s(n=%d,k=%d) = %v: %s", name, n, k, out, why), pr
		}
		return "", "", nil
	}
	if k, w, p := check("Sample", xrand.Sample(n, k)); k != "" {
		return k, w, p
	}
	in := itemsSpare(n, k%3)
	ss := xrand.SampleSlice(in, k)
	if k, w, p := check("SampleSlice", positions(ss)); k != "" {
		return k, w, p
	}
	if kd, w := inputUntouched("SampleSlice", in, ss, k); kd != "" {
		return kd, w, pr
	}
	if k, w, p := check("SampleIterator", positions(xrand.SampleIterator(iterator.Slice(items(n)), k))); k != "" {
		return k, w, p
	}
	cs := &closeCounter{inner: stream.FromIterator(iterator.Slice(items(n)))}
	o, err := xrand.SampleStream(context.Background(), stream.Stream[int](cs), k)
	if err != nil {
		return "xrand-sample-panic", "SampleStream: " + err.Error(), pr
	}
	if k, w, p := check("SampleStream", positions(o)); k != "" {
		return k, w, p
	}
	a := items(n)
	xrand.Shuffle(a)
	sort.Ints(a)
	for i := range a {
		if a[i] != base+i {
			return "xrand-shuffle-not-permutation", fmt.Sprintf("Shuffle of %d items lost an item", n), nil
		}
	}
	return "", "", nil
}

// ---------------------------------------------------------------------------------------------
// chi-square

// gammaQ is the regularized upper incomplete gamma function Q(a, x) (Numerical Recipes gammp/gammq).
func gammaQ(a, x float64) float64 {
	if x <= 0 {
		return 1
	}
	lg, _ := math.Lgamma(a)
	if x < a+1 {
		ap, sum, del := a, 1/a, 1/a
		for n := 0; n < 100000; n++ {
			ap++
			del *= x / ap
			sum += del
			if math.Abs(del) < math.Abs(sum)*1e-16 {
				break
			}
		}
		return 1 - sum*math.Exp(-x+a*math.Log(x)-lg)
	}
	b := x + 1 - a
	cc := 1 / 1e-300
	d := 1 / b
	h := d
	for i := 1; i < 100000; i++ {
		an := -float64(i) * (float64(i) - a)
		b += 2
		d = an*d + b
		if math.Abs(d) < 1e-300 {
			d = 1e-300
		}
		cc = b + an/cc
		if math.Abs(cc) < 1e-300 {
			cc = 1e-300
		}
		d = 1 / d
		del := d * cc
		h *= del
		if math.Abs(del-1) < 1e-16 {
			break
		}
	}
	return math.Exp(-x+a*math.Log(x)-lg) * h
}

func chiP(stat float64, dof int) float64 { return gammaQ(float64(dof)/2, stat/2) }

func binom(n, k int) int {
	if k < 0 || k > n {
		return 0
	}
	r := 1
	for i := 0; i < k; i++ {
		r = r * (n - i) / (i + 1)
	}
	return r
}

// subsetRank maps a sorted k-subset of [0,n) to its rank in [0, C(n,k)).
func subsetRank(s []int, n int) int {
	r, prev := 0, -1
	k := len(s)
	for i, x := range s {
		for y := prev + 1; y < x; y++ {
			r += binom(n-y-1, k-i-1)
		}
		prev = x
	}
	return r
}

const pThreshold = 1e-9

// uniformity runs T samples of one API variant on one seeded generator and tests inclusion
// frequencies (all n) and, when C(n,k) is small, subset frequencies.
func uniformity(res *vlib.Result, variant string, n, k, T int, seed int64) {
	r := rand.New(rand.NewSource(seed))
	if pkgLevel(variant) {
		// the package-level functions draw from math/rand's global source: seed it where the toolchain
		// still honours rand.Seed (Go <= 1.23); the verdict does not depend on it (p < 1e-9 for any seed)
		rand.Seed(seed) //nolint:staticcheck
	}
	incl := make([]int, n)
	var subs []int
	nsub := 0
	if n <= 12 && k < n && k > 0 {
		nsub = binom(n, k)
		if nsub > 1000 {
			nsub = 0
		} else {
			subs = make([]int, nsub)
		}
	}
	a := items(n)
	pr := P{"n": n, "k": k, "variant": variant}
	for t := 0; t < T; t++ {
		var out []int
		switch variant {
		case "RSample":
			out = xrand.RSample(r, n, k)
		case "RSampleSlice":
			out = positions(xrand.RSampleSlice(r, a, k))
		case "RSampleIterator":
			out = positions(xrand.RSampleIterator(r, iterator.Slice(a), k))
		case "RSampleStream":
			o, _ := xrand.RSampleStream(context.Background(), r, stream.FromIterator(iterator.Slice(a)), k)
			out = positions(o)
		// the package-level API (what users call): default source
		case "Sample":
			out = xrand.Sample(n, k)
		case "SampleSlice":
			out = positions(xrand.SampleSlice(a, k))
		case "SampleIterator":
			out = positions(xrand.SampleIterator(iterator.Slice(a), k))
		case "SampleStream":
			o, _ := xrand.SampleStream(context.Background(), stream.FromIterator(iterator.Slice(a)), k)
			out = positions(o)
		}
		if ok, why := distinctInRange(out, n); !ok || len(out) != k {
			res.Fail(vlib.Failure{Source: "monitor", Kind: "xrand-sample-distinct", Params: pr,
				What: fmt.Sprintf("%s(n=%d,k=%d) seed %d trial %d = %v: %s", variant, n, k, seed, t, out, why),
				Case: Case{Fn: "uniformity:" + variant, N: n, K: k, Seed: seed, T: T}})
			return
		}
		for _, p := range out {
			incl[p]++
		}
		if nsub > 0 {
			s := append([]int{}, out...)
			sort.Ints(s)
			subs[subsetRank(s, n)]++
		}
	}
	res.Count("chi2-tests")
	if k > 0 && k < n {
		p := float64(k) / float64(n)
		stat := 0.0
		for _, o := range incl {
			d := float64(o) - float64(T)*p
			stat += d * d
		}
		stat = stat * float64(n-1) / (float64(T) * p * (1 - p) * float64(n))
		pv := chiP(stat, n-1)
		res.Extra[fmt.Sprintf("chi2-inclusion-%s-n%d-k%d", variant, n, k)] = fmt.Sprintf("stat=%.2f dof=%d p=%.3g", stat, n-1, pv)
		if pv < pThreshold {
			res.Fail(vlib.Failure{Source: "monitor", Kind: "xrand-sample-not-uniform", Params: pr,
				What: fmt.Sprintf("%s(n=%d,k=%d), %d samples from seed %d: inclusion counts %v, chi-square %.1f on %d dof, p=%.3g < 1e-9",
					variant, n, k, T, seed, trunc(incl), stat, n-1, pv),
				Case: Case{Fn: "uniformity:" + variant, N: n, K: k, Seed: seed, T: T}})
			return
		}
	}
	if nsub > 1 {
		e := float64(T) / float64(nsub)
		stat := 0.0
		for _, o := range subs {
			d := float64(o) - e
			stat += d * d / e
		}
		pv := chiP(stat, nsub-1)
		res.Extra[fmt.Sprintf("chi2-subsets-%s-n%d-k%d", variant, n, k)] = fmt.Sprintf("stat=%.2f dof=%d p=%.3g", stat, nsub-1, pv)
		if pv < pThreshold {
			res.Fail(vlib.Failure{Source: "monitor", Kind: "xrand-sample-not-uniform", Params: pr,
				What: fmt.Sprintf("%s(n=%d,k=%d), %d samples from seed %d: subset counts %v, chi-square %.1f on %d dof, p=%.3g < 1e-9",
					variant, n, k, T, seed, trunc(subs), stat, nsub-1, pv),
				Case: Case{Fn: "uniformity:" + variant, N: n, K: k, Seed: seed, T: T}})
		}
	}
}

// rangeCoverage (every tier, fix9b): "every such subset being equally likely ... all (n, k, seed)" for n far
// beyond 2^31, where no frequency table over [0, n) can be kept and where the skips of Algorithm L are
// themselves larger than 2^31. T draws of k out of n; [0, n) is cut into 16 equal parts; every part must hold
// at least one of the T*k returned positions. For a sampler that picks every k-subset with equal probability
// one draw misses a given part with probability C(n-n/16, k)/C(n, k) <= (15/16)^k, all T draws with
// probability <= (15/16)^(T*k), any of the 16 parts with probability <= 16*(15/16)^(T*k): with T*k >= 2000
// that is below 2^-182 - a true-positive-only verdict for every seed, also of the global source.
func rangeCoverage(res *vlib.Result, variant string, n, k, T int, seed int64) {
	r := rand.New(rand.NewSource(seed))
	if pkgLevel(variant) {
		rand.Seed(seed) //nolint:staticcheck
	}
	width := n / 16
	if n%16 != 0 {
		width++
	}
	var parts [16]int
	max := -1
	c := Case{Fn: "coverage:" + variant, N: n, K: k, Seed: seed, T: T}
	pr := P{"n_bits": bits.Len64(uint64(n)), "k": k, "variant": variant}
	for t := 0; t < T; t++ {
		var out []int
		pan, pv := vlib.Try(func() {
			if variant == "RSample" {
				out = xrand.RSample(r, n, k)
			} else {
				out = xrand.Sample(n, k)
			}
		})
		if pan {
			res.Fail(vlib.Failure{Source: "monitor", Kind: "xrand-sample-panic", Params: pr,
				What: fmt.Sprintf("%s(n=%d,k=%d) seed %d trial %d panicked: %v", variant, n, k, seed, t, pv), Case: c})
			return
		}
		if ok, why := distinctInRange(out, n); !ok || len(out) != k {
			res.Fail(vlib.Failure{Source: "monitor", Kind: "xrand-sample-distinct", Params: pr,
				What: fmt.Sprintf("%s(n=%d,k=%d) seed %d trial %d = %v: %s", variant, n, k, seed, t, out, why), Case: c})
			return
		}
		for _, v := range out {
			parts[v/width]++
			if v > max {
				max = v
			}
		}
	}
	res.Count("range-coverage-tests")
	for i, cnt := range parts {
		if cnt == 0 {
			res.Fail(vlib.Failure{Source: "monitor", Kind: "xrand-sample-range-not-covered", Params: pr,
				What: fmt.Sprintf("%s(n=%d,k=%d), %d draws from seed %d: none of the %d returned positions lies in [%d, %d), part %d of 16 equal parts of [0, n) "+
					"(positions per part %v, largest position returned %d); a uniform sampler does that with probability below 2^-180",
					variant, n, k, T, seed, T*k, i*width, (i+1)*width, i, parts, max),
				Case: c})
			return
		}
	}
}

func pkgLevel(variant string) bool { return !strings.HasPrefix(variant, "R") }

var pkgVariants = []string{"Sample", "SampleSlice", "SampleIterator", "SampleStream"}

// allSubsetsOccur (quick tier, C19 F2): T draws of k out of n through one entry point; every one of the
// C(n,k) subsets must occur and every position of the output must see every value of its subset range
// (the final shuffle). For (n,k) = (4,2), T = 900 a uniform sampler misses a given subset with
// probability (5/6)^900 < 1e-71: a true-positive-only verdict for any seed of the global source.
func allSubsetsOccur(res *vlib.Result, variant string, n, k, T int, seed int64) {
	rand.Seed(seed) //nolint:staticcheck
	r := rand.New(rand.NewSource(seed))
	a := items(n)
	nsub := binom(n, k)
	subs := make([]int, nsub)
	first := make([]int, n) // how often position p came first in the output
	pr := P{"n": n, "k": k, "variant": variant}
	for t := 0; t < T; t++ {
		var out []int
		switch variant {
		case "Sample":
			out = xrand.Sample(n, k)
		case "SampleSlice":
			out = positions(xrand.SampleSlice(a, k))
		case "SampleIterator":
			out = positions(xrand.SampleIterator(iterator.Slice(a), k))
		case "SampleStream":
			o, _ := xrand.SampleStream(context.Background(), stream.FromIterator(iterator.Slice(a)), k)
			out = positions(o)
		case "RSample":
			out = xrand.RSample(r, n, k)
		case "RSampleSlice":
			out = positions(xrand.RSampleSlice(r, a, k))
		case "RSampleIterator":
			out = positions(xrand.RSampleIterator(r, iterator.Slice(a), k))
		case "RSampleStream":
			o, _ := xrand.RSampleStream(context.Background(), r, stream.FromIterator(iterator.Slice(a)), k)
			out = positions(o)
		}
		if ok, _ := distinctInRange(out, n); !ok || len(out) != k {
			return // reported by monitorGlobals / the sample monitors
		}
		first[out[0]]++
		sorted := append([]int{}, out...)
		sort.Ints(sorted)
		subs[subsetRank(sorted, n)]++
	}
	res.Count("all-subsets-tests")
	for i, c := range subs {
		if c == 0 {
			res.Fail(vlib.Failure{Source: "monitor", Kind: "xrand-sample-not-uniform", Params: pr,
				What: fmt.Sprintf("%s(n=%d,k=%d): subset #%d of %d never drawn in %d samples (subset counts %v); every subset must be equally likely",
					variant, n, k, i, nsub, T, subs),
				Case: Case{Fn: "subsets:" + variant, N: n, K: k, Seed: seed, T: T}})
			return
		}
	}
	for p, c := range first {
		if c == 0 {
			res.Fail(vlib.Failure{Source: "monitor", Kind: "xrand-sample-not-uniform", Params: pr,
				What: fmt.Sprintf("%s(n=%d,k=%d): position %d never came first in %d samples (counts %v)", variant, n, k, p, T, first),
				Case: Case{Fn: "subsets:" + variant, N: n, K: k, Seed: seed, T: T}})
			return
		}
	}
}

// shuffleAllPerms: T shuffles of n items through Shuffle (package level) or RShuffle; every one of the n!
// orders must occur (n = 3, T = 600: a uniform shuffle misses a given order with probability < 1e-47).
func shuffleAllPerms(res *vlib.Result, variant string, n, T int, seed int64) {
	rand.Seed(seed) //nolint:staticcheck
	r := rand.New(rand.NewSource(seed))
	seen := map[string]int{}
	for t := 0; t < T; t++ {
		a := items(n)
		if variant == "Shuffle" {
			xrand.Shuffle(a)
		} else {
			xrand.RShuffle(r, a)
		}
		seen[fmt.Sprint(positions(a))]++
	}
	res.Count("all-perms-tests")
	fact := 1
	for i := 2; i <= n; i++ {
		fact *= i
	}
	if len(seen) != fact {
		res.Fail(vlib.Failure{Source: "monitor", Kind: "xrand-shuffle-not-all-orders", Params: P{"n": n, "variant": variant},
			What: fmt.Sprintf("%s of %d items: only %d of %d orders occurred in %d shuffles: %v", variant, n, len(seen), fact, T, seen),
			Case: Case{Fn: "perms:" + variant, N: n, Seed: seed, T: T}})
	}
}

func trunc(l []int) []int {
	if len(l) > 24 {
		return l[:24]
	}
	return l
}

// ---------------------------------------------------------------------------------------------

type runner struct {
	m   *vlib.Model
	res *vlib.Result
}

func (r *runner) batch(cs []Case) {
	var lines []string
	var impls []string
	var idx []int
	for i, c := range cs {
		r.res.Count("fn-" + c.Fn)
		if len(c.Craft) > 0 {
			r.res.Count("crafted-source")
		}
		r.res.Case(c.Key(), c.N > c.K && c.K > 0 || c.Fn == "shuffle" && len(c.List) > 2, c.Key())
		if k, what, params := monitor(c); k != "" {
			r.res.Fail(vlib.Failure{Source: "monitor", Kind: k, Params: params, What: what, Case: c})
		}
		im, line := implAndLine(c)
		if line == "" {
			continue
		}
		lines = append(lines, line)
		impls = append(impls, im)
		idx = append(idx, i)
	}
	if r.m == nil || len(lines) == 0 {
		return
	}
	out, err := r.m.Run(lines)
	if err != nil {
		r.res.ModelMissing = err.Error()
		r.m = nil
		return
	}
	r.res.Traces += len(lines)
	for j := range lines {
		if out[j] != impls[j] {
			c := cs[idx[j]]
			l := lines[j]
			if len(l) > 300 {
				l = l[:300] + "…"
			}
			r.res.Fail(vlib.Failure{Source: "correspondence", Kind: "model-differs-" + c.Fn,
				What: fmt.Sprintf("%s: impl %q, model %q (line %s)", c.Key(), clip(impls[j]), clip(out[j]), l), Case: c})
		}
	}
}

func clip(s string) string {
	if len(s) > 200 {
		return s[:200] + "…"
	}
	return s
}

var sampleFns = []string{"sampler", "rsample", "rsampleslice", "rsampleiter", "rsamplestream"}

func genCase(r *vlib.Rand, big bool) Case {
	if r.Chance(1, 6) {
		n := r.Intn(12)
		if r.Chance(1, 6) {
			n = r.Range(50, 300)
		}
		l := make([]int, n)
		for i := range l {
			l[i] = r.Range(1, 9)
		}
		c := Case{Fn: "shuffle", List: l, Seed: int64(r.Uint64() >> 1)}
		if r.Chance(1, 3) {
			c.Craft = craft(r)
		}
		return c
	}
	c := Case{Fn: sampleFns[r.Intn(len(sampleFns))], Seed: int64(r.Uint64() >> 1)}
	switch r.Pick(4, 3, 2, 1) {
	case 0:
		c.N, c.K = r.Intn(10), r.Intn(6)
	case 1:
		c.N, c.K = r.Range(5, 200), r.Range(1, 12)
	case 2:
		c.K = r.Range(1, 40)
		c.N = c.K + r.Range(-2, 2)
		if c.N < 0 {
			c.N = 0
		}
	case 3:
		c.N, c.K = r.Range(200, 1000), r.Range(1, 50)
		if big {
			c.N = r.Range(1000, 20000)
		}
	}
	if r.Chance(1, 4) {
		c.Craft = craft(r)
		if c.N > 300 {
			c.N = r.Range(0, 300)
		}
	}
	return c
}

func craft(r *vlib.Rand) []int {
	n := r.Range(1, 6)
	out := make([]int, n)
	for i := range out {
		out[i] = r.Intn(10 * 1000)
	}
	return out
}

func main() {
	env := vlib.GetEnv()
	res := vlib.NewResult("C19", "sampling: one case = one run of the sampler / one rSample* call / one shuffle on a seeded math/rand source or a crafted source "+
		"(Float64 in {0, 5e-324, 1e-300, 1e-17, .., 1-2^-53}); n in 0..1000 (thorough 20000), k in 0..50, n<k, n=k±2; non-trivial = 0 < k < n "+
		"(shuffle: more than 2 items); distinct = different (fn, n, k, seed, script). Exhaustive scope: every (n,k) in [0,8]x[0,6] x 4 functions x 3 seeds + crafted sources. "+
		"thorough: chi-square tests of inclusion / subset frequencies")
	m, err := vlib.StartModel(env.Driver, "helpers")
	if err != nil {
		res.ModelMissing = err.Error()
		m = nil
	}
	run := &runner{m: m, res: res}
	defer func() {
		if run.m != nil {
			run.m.Close()
		}
	}()

	if env.Replay != "" {
		var c Case
		if err := vlib.ReplayCase(env.Replay, &c); err != nil {
			fmt.Println("cannot read replay:", err)
			os.Exit(2)
		}
		if strings.HasPrefix(c.Fn, "uniformity:") {
			r2 := vlib.NewResult("C19", "")
			T := c.T
			if T <= 0 {
				T = 200000
			}
			uniformity(r2, strings.TrimPrefix(c.Fn, "uniformity:"), c.N, c.K, T, c.Seed)
			for _, f := range r2.Failures {
				fmt.Println("monitor:", f.Kind, f.What)
			}
			if len(r2.Failures) > 0 {
				os.Exit(1)
			}
			fmt.Println("monitor: uniform within the threshold", r2.Extra)
			return
		}
		if c.Fn == "globals" { // the package-level API on (n, k): monitorGlobals
			fmt.Printf("replay: package-level Sample / SampleSlice / SampleIterator / SampleStream / Shuffle with n=%d k=%d (20 repetitions)\n", c.N, c.K)
			for rep := 0; rep < 20; rep++ {
				if kd, w, _ := monitorGlobals(c.N, c.K); kd != "" {
					fmt.Println("monitor:", kd, w)
					os.Exit(1)
				}
			}
			fmt.Println("monitor: no clause violated")
			return
		}
		if strings.HasPrefix(c.Fn, "coverage:") {
			r2 := vlib.NewResult("C19", "")
			rangeCoverage(r2, strings.TrimPrefix(c.Fn, "coverage:"), c.N, c.K, c.T, c.Seed)
			for _, f := range r2.Failures {
				fmt.Println("monitor:", f.Kind, f.What)
			}
			if len(r2.Failures) > 0 {
				os.Exit(1)
			}
			fmt.Println("monitor: every sixteenth of [0, n) holds a returned position")
			return
		}
		if strings.HasPrefix(c.Fn, "subsets:") || strings.HasPrefix(c.Fn, "perms:") {
			r2 := vlib.NewResult("C19", "")
			if strings.HasPrefix(c.Fn, "subsets:") {
				allSubsetsOccur(r2, strings.TrimPrefix(c.Fn, "subsets:"), c.N, c.K, c.T, c.Seed)
			} else {
				shuffleAllPerms(r2, strings.TrimPrefix(c.Fn, "perms:"), c.N, c.T, c.Seed)
			}
			for _, f := range r2.Failures {
				fmt.Println("monitor:", f.Kind, f.What)
			}
			if len(r2.Failures) > 0 {
				os.Exit(1)
			}
			fmt.Println("monitor: every subset / order occurred")
			return
		}
		im, line := implAndLine(c)
		fmt.Printf("replay: %s\nimplementation: %s\n", c.Key(), clip(im))
		k, what, _ := monitor(c)
		fmt.Printf("monitor: %s %s\n", k, what)
		if run.m != nil && line != "" {
			if out, err := run.m.Run([]string{line}); err == nil {
				fmt.Printf("model: %s\n", clip(out[0]))
			}
		}
		if k != "" {
			os.Exit(1)
		}
		return
	}

	start := time.Now()
	budget := time.Duration(env.BudgetMs) * time.Millisecond
	big := env.Thorough() || env.Deep
	r := vlib.NewRand(env.Seed)

	// exhaustive small scope
	var cs []Case
	for n := 0; n <= 8; n++ {
		for k := 0; k <= 6; k++ {
			for _, fn := range sampleFns {
				for s := int64(0); s < 3; s++ {
					cs = append(cs, Case{Fn: fn, N: n, K: k, Seed: int64(env.Seed)*7 + s})
				}
				for ci := 0; ci < len(craftedFloats); ci++ {
					cs = append(cs, Case{Fn: fn, N: n, K: k, Craft: []int{ci, ci + 3, 9 - ci, 5}})
				}
			}
			if k, w, p := monitorGlobals(n, k); k != "" {
				res.Fail(vlib.Failure{Source: "monitor", Kind: k, Params: p, What: w, Case: Case{Fn: "globals", N: n, K: k2i(p)}})
			}
		}
	}
	run.batch(cs)
	res.Exhaustive = true

	// extreme n (C19 F1, "all (n, k, seed)"): Sample over [0, n) for n up to MaxInt with a small k is a
	// legitimate O(k) call; the sampler's position arithmetic (s.i += int(skip) + 1, next >= n) must not
	// overflow. (k itself is documented to cost O(k) space, so a huge k is an allocation failure, not a case.)
	var ext []Case
	for _, n := range []int{math.MaxInt, math.MaxInt - 1, 1 << 62, 1<<62 + 1, 1 << 53, 1 << 40} {
		for _, k := range []int{1, 2, 5, 17} {
			for sd := int64(0); sd < 4; sd++ {
				ext = append(ext, Case{Fn: "rsample", N: n, K: k, Seed: int64(env.Seed)*13 + sd}, Case{Fn: "sampler", N: n, K: k, Seed: int64(env.Seed)*13 + sd})
			}
			ext = append(ext, Case{Fn: "rsample", N: n, K: k, Craft: []int{1, 2, 3, 4}}, Case{Fn: "rsample", N: n, K: k, Craft: []int{8, 7, 6, 5, 9}})
		}
	}
	run.batch(ext)
	res.Extra["extreme_n_cases"] = len(ext)

	// every tier: "all subsets occur / every order occurs" through EVERY entry point, the package-level
	// functions (default source) included (C19 F2)
	for i, v := range append(append([]string{}, pkgVariants...), "RSample", "RSampleSlice", "RSampleIterator", "RSampleStream") {
		allSubsetsOccur(res, v, 4, 2, 900, int64(env.Seed)*100+int64(i))
		allSubsetsOccur(res, v, 5, 3, 1500, int64(env.Seed)*100+50+int64(i))
	}
	// n beyond 2^31: every sixteenth of [0, n) is reached (rangeCoverage)
	for i, c := range []struct{ n, k, T int }{
		{1 << 40, 1, 2000}, {1 << 40, 4, 500}, {1 << 33, 1, 2000}, {1<<32 + 12345, 3, 700}, {1 << 36, 16, 130}, {1 << 48, 2, 1000},
		// n >= 2^58: with log(1 - w) instead of log1p(-w) the skip became infinite once w < 2^-53 and no position
		// beyond about k * 2^57 was ever returned (D22, repaired: known_findings.jsonl, fixed)
		{1 << 62, 1, 2000}, {math.MaxInt, 2, 1000},
	} {
		rangeCoverage(res, "RSample", c.n, c.k, c.T, int64(env.Seed)*100+70+int64(i))
	}
	rangeCoverage(res, "Sample", 1<<40, 1, 2000, int64(env.Seed)*100+90)
	rangeCoverage(res, "Sample", 1<<34, 5, 400, int64(env.Seed)*100+91)
	shuffleAllPerms(res, "Shuffle", 3, 600, int64(env.Seed))
	shuffleAllPerms(res, "RShuffle", 3, 600, int64(env.Seed)+1)
	shuffleAllPerms(res, "Shuffle", 4, 2400, int64(env.Seed)+2)

	maxBatches := 6
	if big {
		maxBatches = 100
	}
	deadline := start.Add(budget * 5 / 10)
	for b := 0; b < maxBatches && time.Now().Before(deadline); b++ {
		var cs []Case
		for i := 0; i < 400; i++ {
			cs = append(cs, genCase(r.Fork(), big))
		}
		run.batch(cs)
		n, k := r.Range(0, 300), r.Range(0, 40)
		if kd, w, p := monitorGlobals(n, k); kd != "" {
			res.Fail(vlib.Failure{Source: "monitor", Kind: kd, Params: p, What: w, Case: Case{Fn: "globals", N: n, K: k}})
		}
	}

	if big {
		T := 200000
		type cfg struct{ n, k int }
		for i, c := range []cfg{{5, 2}, {6, 3}, {4, 1}, {7, 6}, {10, 3}, {12, 2}, {30, 7}, {100, 1}, {300, 5}, {1000, 3}, {64, 32}} {
			if time.Now().After(start.Add(budget)) {
				res.Count("chi2-skipped-budget")
				break
			}
			t := T
			if c.n >= 300 {
				t = T * 2
			}
			uniformity(res, "RSample", c.n, c.k, t, int64(env.Seed)*1000+int64(i))
		}
		for i, v := range pkgVariants { // the package-level API: default source
			for j, c := range []cfg{{5, 2}, {6, 3}, {40, 4}} {
				if time.Now().After(start.Add(budget)) {
					res.Count("chi2-skipped-budget")
					break
				}
				uniformity(res, v, c.n, c.k, T/2, int64(env.Seed)*1000+500+int64(i*10+j))
			}
		}
		for i, v := range []string{"RSampleSlice", "RSampleIterator", "RSampleStream"} {
			for j, c := range []cfg{{5, 2}, {40, 4}} {
				if time.Now().After(start.Add(budget)) {
					res.Count("chi2-skipped-budget")
					break
				}
				uniformity(res, v, c.n, c.k, T/2, int64(env.Seed)*1000+100+int64(i*10+j))
			}
		}
	}
	res.Write(env.Out)
}

func k2i(p P) int {
	if v, ok := p["k"].(int); ok {
		return v
	}
	return 0
}
