package main

// Monitors (documentation vs independent reference code) for the helpers that have no Lean model of
// their own: the thin wrappers over the standard library and the one-line combinators. One "extras"
// case checks all of them on one input: `extras <list> <a> <b> <table>`.

import (
	"fmt"
	"sort"

	"github.com/bradenaw/juniper/xmaps"
	"github.com/bradenaw/juniper/xmath"
	"github.com/bradenaw/juniper/xslices"
	"github.com/bradenaw/juniper/xsort"
	"verifharness/vlib"
)

func monitorExtras(c Case) (kind, what string, params P) {
	l := decList(c.Args[0])
	a, b := atoi(c.Args[1]), atoi(c.Args[2])
	t := decList(c.Args[3])
	f := func(x int) bool { return tableAt(t, x) == 1 }
	bad := func(k string, format string, args ...interface{}) (string, string, P) {
		return "extras-" + k, c.Line() + ": " + fmt.Sprintf(format, args...), nil
	}
	n := len(l)
	s := clone(l)
	unchanged := func() bool { return eqInts(s, l) }

	// All / Any / Count / CountFunc / Index / IndexFunc / LastIndex / LastIndexFunc
	all, any, cnt, cntF, idx, idxF, last, lastF := true, false, 0, 0, -1, -1, -1, -1
	for i, x := range l {
		if !f(x) {
			all = false
		} else {
			any = true
			cntF++
			if idxF < 0 {
				idxF = i
			}
			lastF = i
		}
		if x == a {
			cnt++
			if idx < 0 {
				idx = i
			}
			last = i
		}
	}
	if xslices.All(s, f) != all {
		return bad("all", "All = %v", !all)
	}
	if xslices.Any(s, f) != any {
		return bad("any", "Any = %v", !any)
	}
	if g := xslices.Count(s, a); g != cnt {
		return bad("count", "Count(%d) = %d, want %d", a, g, cnt)
	}
	if g := xslices.CountFunc(s, f); g != cntF {
		return bad("countfunc", "CountFunc = %d, want %d", g, cntF)
	}
	if g := xslices.Index(s, a); g != idx {
		return bad("index", "Index(%d) = %d, want %d", a, g, idx)
	}
	if g := xslices.IndexFunc(s, f); g != idxF {
		return bad("indexfunc", "IndexFunc = %d, want %d", g, idxF)
	}
	if g := xslices.LastIndex(s, a); g != last {
		return bad("lastindex", "LastIndex(%d) = %d, want %d", a, g, last)
	}
	if g := xslices.LastIndexFunc(s, f); g != lastF {
		return bad("lastindexfunc", "LastIndexFunc = %d, want %d", g, lastF)
	}
	// Map / Reduce / Group / Join / Repeat / Fill / Clear / Clone / Equal / EqualFunc
	m := xslices.Map(s, func(x int) int { return 2*x + 1 })
	for i := range l {
		if len(m) != n || m[i] != 2*l[i]+1 {
			return bad("map", "Map = %v", m)
		}
	}
	sum := 7
	for _, x := range l {
		sum = sum*3 + x
	}
	if g := xslices.Reduce(s, 7, func(acc, x int) int { return acc*3 + x }); g != sum {
		return bad("reduce", "Reduce = %d, want %d", g, sum)
	}
	grp := xslices.Group(s, func(x int) int { return tableAt(t, x) })
	tot := 0
	for u, items := range grp {
		tot += len(items)
		var want []int
		for _, x := range l {
			if tableAt(t, x) == u {
				want = append(want, x)
			}
		}
		if !multisetEq(items, want) || len(items) == 0 {
			return bad("group", "Group[%d] = %v, want %v", u, items, want)
		}
	}
	if tot != n {
		return bad("group", "Group holds %d items of %d", tot, n)
	}
	cut := 0
	if n > 0 {
		cut = ((a % (n + 1)) + n + 1) % (n + 1)
	}
	j := xslices.Join(s[:cut], nil, s[cut:], []int{})
	if !eqInts(j, l) {
		return bad("join", "Join = %v", j)
	}
	if len(xslices.Join[int]()) != 0 {
		return bad("join", "Join() not empty")
	}
	rc := ((b % 5) + 5) % 5
	rp := xslices.Repeat(a, rc)
	if len(rp) != rc {
		return bad("repeat", "Repeat(%d,%d) has length %d", a, rc, len(rp))
	}
	for _, x := range rp {
		if x != a {
			return bad("repeat", "Repeat = %v", rp)
		}
	}
	fl := clone(l)
	xslices.Fill(fl, a)
	for _, x := range fl {
		if x != a {
			return bad("fill", "Fill = %v", fl)
		}
	}
	xslices.Clear(fl)
	for _, x := range fl {
		if x != 0 {
			return bad("clear", "Clear = %v", fl)
		}
	}
	cl := xslices.Clone(s)
	if !eqInts(cl, l) || (n > 0 && dataPtr(cl) == dataPtr(s)) {
		return bad("clone", "Clone = %v (aliases: %v)", cl, n > 0 && dataPtr(cl) == dataPtr(s))
	}
	if !xslices.Equal(s, cl) || (n > 0 && xslices.Equal(s, s[:n-1])) {
		return bad("equal", "Equal wrong")
	}
	if !xslices.EqualFunc(s, cl, func(x, y int) bool { return x == y }) {
		return bad("equalfunc", "EqualFunc wrong")
	}
	// Compact / CompactFunc / Filter (+ in-place variants)
	var comp, compF, filt []int
	for i, x := range l {
		if i == 0 || l[i-1] != x {
			comp = append(comp, x)
		}
		if i == 0 || tableAt(t, compF[len(compF)-1]) != tableAt(t, x) {
			compF = append(compF, x)
		}
		if f(x) {
			filt = append(filt, x)
		}
	}
	eqT := func(x, y int) bool { return tableAt(t, x) == tableAt(t, y) }
	if g := xslices.Compact(s); !eqInts(g, comp) || !unchanged() {
		return bad("compact", "Compact = %v, want %v (input now %v)", g, comp, s)
	}
	if g := xslices.CompactFunc(s, eqT); !eqInts(g, compF) || !unchanged() {
		return bad("compactfunc", "CompactFunc = %v, want %v (input now %v)", g, compF, s)
	}
	if g := xslices.Filter(s, f); !eqInts(g, filt) || !unchanged() {
		return bad("filter", "Filter = %v, want %v (input now %v)", g, filt, s)
	}
	s2 := clone(l)
	if g := xslices.CompactInPlace(s2); !eqInts(g, comp) || (len(g) > 0 && dataPtr(g) != dataPtr(s2)) {
		return bad("compactinplace", "CompactInPlace = %v, want %v", g, comp)
	}
	s2 = clone(l)
	if g := xslices.CompactInPlaceFunc(s2, eqT); !eqInts(g, compF) || (len(g) > 0 && dataPtr(g) != dataPtr(s2)) {
		return bad("compactinplacefunc", "CompactInPlaceFunc = %v, want %v", g, compF)
	}
	s2 = clone(l)
	if g := xslices.FilterInPlace(s2, f); !eqInts(g, filt) || (len(g) > 0 && dataPtr(g) != dataPtr(s2)) {
		return bad("filterinplace", "FilterInPlace = %v, want %v", g, filt)
	}
	// Grow / Insert / Remove
	gc := ((b % 7) + 7) % 7
	g := xslices.Grow(clone(l), gc)
	if !eqInts(g, l) || cap(g)-len(g) < gc {
		return bad("grow", "Grow(%d): contents %v, spare capacity %d", gc, g, cap(g)-len(g))
	}
	ip := 0
	if n > 0 {
		ip = ((b % (n + 1)) + n + 1) % (n + 1)
	}
	ins := xslices.Insert(clone(l), ip, 91, 92)
	wantIns := append(append(clone(l[:ip]), 91, 92), l[ip:]...)
	if !eqInts(ins, wantIns) {
		return bad("insert", "Insert at %d = %v, want %v", ip, ins, wantIns)
	}
	if n > 0 {
		ri := ((a % n) + n) % n
		rn := ((b % (n - ri + 1)) + (n - ri + 1)) % (n - ri + 1)
		rem := xslices.Remove(clone(l), ri, rn)
		wantRem := append(clone(l[:ri]), l[ri+rn:]...)
		if !eqInts(rem, wantRem) {
			return bad("remove", "Remove(%d,%d) = %v, want %v", ri, rn, rem, wantRem)
		}
	}
	if !unchanged() {
		return bad("input-modified", "a read-only helper modified its input: %v", s)
	}
	// xsort: derived comparisons, Reverse, sorts
	cc := len(t)%3 + 1
	less := lessOf(cc, 0)
	x, y := a, b
	if xsort.Greater[int](less, x, y) != less(y, x) || xsort.LessOrEqual[int](less, x, y) != !less(y, x) ||
		xsort.GreaterOrEqual[int](less, x, y) != !less(x, y) || xsort.Equal[int](less, x, y) != (!less(x, y) && !less(y, x)) ||
		xsort.Reverse[int](less)(x, y) != less(y, x) || xsort.OrderedLess(x, y) != (x < y) {
		return bad("xsort-comparisons", "Greater/LessOrEqual/GreaterOrEqual/Equal/Reverse/OrderedLess disagree with less for %d, %d", x, y)
	}
	tagged := make([][2]int, n) // (value, original position) to observe stability
	for i, v := range l {
		tagged[i] = [2]int{v, i}
	}
	lessT := func(p, q [2]int) bool { return less(p[0], q[0]) }
	st := append([][2]int{}, tagged...)
	xsort.SliceStable(st, lessT)
	for i := 1; i < n; i++ {
		if lessT(st[i], st[i-1]) || (!lessT(st[i-1], st[i]) && st[i-1][1] > st[i][1]) {
			return bad("slicestable", "SliceStable = %v", st)
		}
	}
	us := clone(l)
	xsort.Slice(us, less)
	if !multisetEq(us, l) || !sort.SliceIsSorted(us, func(i, j int) bool { return less(us[i], us[j]) }) {
		return bad("slice", "Slice = %v", us)
	}
	if !xsort.SliceIsSorted(us, less) || xsort.SliceIsSorted(l, less) != sort.SliceIsSorted(l, func(i, j int) bool { return less(l[i], l[j]) }) {
		return bad("sliceissorted", "SliceIsSorted wrong")
	}
	// xmaps.Set, SetFromSlice; xmath.Min / Max
	set := xmaps.SetFromSlice(s)
	if !eqInts(setList(set), sortedSet(l)) {
		return bad("setfromslice", "SetFromSlice = %v", setList(set))
	}
	had := set.Contains(a)
	if had != (cnt > 0) {
		return bad("set-contains", "Contains(%d) = %v", a, had)
	}
	set.Add(a)
	if !set.Contains(a) || len(set) != len(sortedSet(append(clone(l), a))) {
		return bad("set-add", "after Add(%d): %v", a, setList(set))
	}
	set.Remove(a)
	if set.Contains(a) {
		return bad("set-remove", "after Remove(%d): %v", a, setList(set))
	}
	mn, mx := a, a
	if b < a {
		mn = b
	} else {
		mx = b
	}
	if xmath.Min(a, b) != mn || xmath.Max(a, b) != mx {
		return bad("minmax", "Min/Max(%d,%d) = %d/%d", a, b, xmath.Min(a, b), xmath.Max(a, b))
	}
	return "", "", nil
}

func tryExtras(c Case) (kind, what string, params P) {
	if p, v := vlib.Try(func() { kind, what, params = monitorExtras(c) }); p {
		return "extras-panic", fmt.Sprintf("%s: panicked: %v", c.Line(), v), nil
	}
	return
}
