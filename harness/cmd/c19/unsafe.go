package main

import (
	"reflect"
	"unsafe"
)

// unsafePointer returns the address of an addressable (possibly unexported) struct field.
func unsafePointer(f reflect.Value) unsafe.Pointer { return unsafe.Pointer(f.UnsafeAddr()) }

func reflect_TypeOf(e error) reflect.Type { return reflect.TypeOf(e) }
