// C19: the pure helpers of xslices, xsort, xmaps, xmath and xerrors match their documentation.
//
// Every case is one call of one helper, written as one protocol line. It is evaluated three ways:
//   - on the real code (impl*): canonical rendering of the result, of the caller's backing array
//     afterwards (in-place / aliasing effects) and of panics;
//   - on the Lean model through `driver helpers` (correspondence: model == code on every input,
//     inside and outside the documented domain);
//   - by a Go monitor written from the documentation text against independent reference code
//     (source "monitor": a failing case is a violation of the property on the implementation).
//
// The sampling helpers of xmath/xrand live in harness/cmd/c19rand (they need the verif hook).
package main

import (
	"errors"
	"fmt"
	"math"
	"os"
	"reflect"
	"sort"
	"strconv"
	"strings"
	"time"

	"github.com/bradenaw/juniper/iterator"
	"github.com/bradenaw/juniper/xerrors"
	"github.com/bradenaw/juniper/xmaps"
	"github.com/bradenaw/juniper/xmath"
	"github.com/bradenaw/juniper/xslices"
	"github.com/bradenaw/juniper/xsort"
	"verifharness/vlib"
)

// ---------------------------------------------------------------------------------------------
// encodings (shared with lean/Juniper/Driver/C19.lean)

func encList(l []int) string {
	if len(l) == 0 {
		return "-"
	}
	p := make([]string, len(l))
	for i, x := range l {
		p[i] = strconv.Itoa(x)
	}
	return strings.Join(p, ",")
}

func decList(s string) []int {
	if s == "-" || s == "" {
		return nil
	}
	var out []int
	for _, t := range strings.Split(s, ",") {
		v, _ := strconv.Atoi(t)
		out = append(out, v)
	}
	return out
}

func encLL(ll [][]int) string {
	if len(ll) == 0 {
		return "~"
	}
	p := make([]string, len(ll))
	for i, l := range ll {
		p[i] = encList(l)
	}
	return strings.Join(p, "|")
}

func decLL(s string) [][]int {
	if s == "~" {
		return nil
	}
	var out [][]int
	for _, t := range strings.Split(s, "|") {
		out = append(out, decList(t))
	}
	return out
}

func atoi(s string) int { v, _ := strconv.Atoi(s); return v }

func b2s(b bool) string {
	if b {
		return "1"
	}
	return "0"
}

// sameOf: the `same` argument of Runs for the sub-commands "runs" (an equivalence: equal table entries) and
// "runsle" (a preorder: table[x] <= table[y] -- reflexive and transitive, which is all Runs' documentation
// requires of same; not symmetric, so "same as the predecessor" and "same as the head of the run" differ).
func sameOf(fn string, t []int) func(x, y int) bool {
	if fn == "runsle" {
		return func(x, y int) bool { return tableAt(t, x) <= tableAt(t, y) }
	}
	return func(x, y int) bool { return tableAt(t, x) == tableAt(t, y) }
}

func tableAt(t []int, x int) int {
	if len(t) == 0 {
		return 0
	}
	m := x % len(t)
	if m < 0 {
		m += len(t)
	}
	return t[m]
}

func keyOf(c, x int) int {
	if c <= 0 {
		return x
	}
	// floor division (elements are non-negative in generated cases)
	q := x / c
	if x%c != 0 && (x < 0) != (c < 0) {
		q--
	}
	return q
}

func lessOf(c, rev int) func(a, b int) bool {
	if rev == 1 {
		return func(a, b int) bool { return keyOf(c, b) < keyOf(c, a) }
	}
	return func(a, b int) bool { return keyOf(c, a) < keyOf(c, b) }
}

func sortedCopy(l []int) []int {
	o := append([]int{}, l...)
	sort.Ints(o)
	return o
}

func eqInts(a, b []int) bool {
	if len(a) != len(b) {
		return false
	}
	for i := range a {
		if a[i] != b[i] {
			return false
		}
	}
	return true
}

func clone(l []int) []int { return append(make([]int, 0, len(l)), l...) }

// dataPtr is the address of the first element of the slice's backing array window.
func dataPtr(s []int) uintptr { return reflect.ValueOf(s).Pointer() }

// rangesOf renders sub-slices of s as lo:hi index ranges (E for an empty one, whose position is
// not observable).
func rangesOf(s []int, subs [][]int) string {
	if len(subs) == 0 {
		return "-"
	}
	p := make([]string, len(subs))
	for i, c := range subs {
		if len(c) == 0 {
			p[i] = "E"
			continue
		}
		lo := -1
		if len(s) > 0 {
			d := int(dataPtr(c)) - int(dataPtr(s))
			if d >= 0 && d%8 == 0 && d/8 < len(s) {
				lo = d / 8
			}
		}
		if lo < 0 {
			p[i] = "foreign[" + encList(c) + "]"
		} else {
			p[i] = fmt.Sprintf("%d:%d", lo, lo+len(c))
		}
	}
	return strings.Join(p, ",")
}

// canonRanges rewrites empty ranges a:a of the model's output to E.
func canonRanges(s string) string {
	if s == "-" || s == "panic" || s == "bad-op" {
		return s
	}
	parts := strings.Split(s, ",")
	for i, p := range parts {
		ab := strings.Split(p, ":")
		if len(ab) == 2 && ab[0] == ab[1] {
			parts[i] = "E"
		}
	}
	return strings.Join(parts, ",")
}

// ---------------------------------------------------------------------------------------------
// error chains

type leafC1 struct{}

func (leafC1) Error() string { return "l1c" }

type leafC2 struct{}

func (leafC2) Error() string { return "l2c" }

type leafN3 struct{ x []int }

func (leafN3) Error() string { return "l3n" }

type leafN4 struct{ x []int }

func (leafN4) Error() string { return "l4n" }

var internedErr = map[string]error{}

var stackType = reflect.TypeOf(xerrors.WithStack(errors.New("probe")))

// buildErr constructs the Go error for an encoding (outer→inner, dot separated). Stack layers are
// produced by the real xerrors.WithStack applied to a stack-free inner error (documented to wrap),
// every other node is interned so that equal encodings are the same object.
func buildErr(enc string) error {
	if enc == "nil" {
		return nil
	}
	if e, ok := internedErr[enc]; ok {
		return e
	}
	parts := strings.SplitN(enc, ".", 2)
	head := parts[0]
	var e error
	if len(parts) == 1 {
		switch head {
		case "l1c":
			e = leafC1{}
		case "l2c":
			e = leafC2{}
		case "l3n":
			e = leafN3{x: []int{3}}
		case "l4n":
			e = leafN4{x: []int{4}}
		default: // l5c, l6c ...: pointer leaves
			e = errors.New(head)
		}
	} else {
		inner := buildErr(parts[1])
		if head == "s" {
			// a withStack value around inner: obtained from the real code on a stack-free error and
			// re-pointed with reflection when inner already carries a stack
			e = forceStack(inner)
		} else {
			e = fmt.Errorf(head+": %w", inner)
		}
	}
	internedErr[enc] = e
	return e
}

// forceStack returns a withStack value whose inner error is `inner`, even if inner already has a
// stack attached (needed to build arbitrary chains as inputs).
func forceStack(inner error) error {
	w := xerrors.WithStack(errors.New("placeholder"))
	v := reflect.New(stackType).Elem()
	v.Set(reflect.ValueOf(w))
	f := v.FieldByName("inner")
	// unexported field: set through unsafe pointer
	p := reflect.NewAt(f.Type(), unsafePointer(f)).Elem()
	p.Set(reflect.ValueOf(&inner).Elem())
	return v.Interface().(error)
}

// showErr renders an error chain in the encoding.
func showErr(e error) string {
	if e == nil {
		return "nil"
	}
	var parts []string
	for depth := 0; e != nil && depth < 64; depth++ {
		switch {
		case reflect.TypeOf(e) == stackType:
			parts = append(parts, "s")
		case strings.HasPrefix(fmt.Sprintf("%T", e), "*fmt.wrapError"):
			msg := e.Error()
			parts = append(parts, msg[:strings.Index(msg, ":")])
		default:
			parts = append(parts, e.Error())
		}
		e = errors.Unwrap(e)
	}
	return strings.Join(parts, ".")
}

func asTarget(ty string) interface{} {
	switch ty {
	case "s":
		return reflect.New(stackType).Interface()
	case "w":
		return reflect.New(reflect.TypeOf(fmt.Errorf("x: %w", errors.New("y")))).Interface()
	case "l1":
		return new(leafC1)
	case "l2":
		return new(leafC2)
	case "l3":
		return new(leafN3)
	case "l4":
		return new(leafN4)
	}
	return new(leafC1)
}

func errAs(e error, ty string) string {
	if e == nil {
		return "nil"
	}
	t := asTarget(ty)
	if !errors.As(e, t) {
		return "nil"
	}
	return showErr(reflect.ValueOf(t).Elem().Interface().(error))
}

// ---------------------------------------------------------------------------------------------
// implementation side: one canonical output line per case

type Case struct {
	Fn   string   `json:"fn"`
	Args []string `json:"args"`
}

func (c Case) Line() string { return c.Fn + " " + strings.Join(c.Args, " ") }

func try(f func() string) (out string) {
	if p, _ := vlib.Try(func() { out = f() }); p {
		return "panic"
	}
	return out
}

func setsOf(ll [][]int) []xmaps.Set[int] {
	out := make([]xmaps.Set[int], len(ll))
	for i, l := range ll {
		out[i] = xmaps.SetFromSlice(l)
	}
	return out
}

func setList(s xmaps.Set[int]) []int {
	var o []int
	for k := range s {
		o = append(o, k)
	}
	sort.Ints(o)
	return o
}

func mapOf(ks, vs []int) map[int]int {
	m := map[int]int{}
	for i := range ks {
		if i < len(vs) {
			m[ks[i]] = vs[i]
		}
	}
	return m
}

func showKV(m map[int]int) string {
	if len(m) == 0 {
		return "-"
	}
	var ks []int
	for k := range m {
		ks = append(ks, k)
	}
	sort.Ints(ks)
	p := make([]string, len(ks))
	for i, k := range ks {
		p[i] = fmt.Sprintf("%d=%d", k, m[k])
	}
	return strings.Join(p, "|")
}

func impl(c Case) string {
	a := c.Args
	return try(func() string {
		switch c.Fn {
		case "chunk":
			n := atoi(a[0])
			s := make([]int, n)
			for i := range s {
				s[i] = i + 1
			}
			return rangesOf(s, xslices.Chunk(s, atoi(a[1])))
		case "chunkz":
			s := make([]struct{}, atoi(a[0]))
			var lens []string
			for _, ch := range xslices.Chunk(s, atoi(a[1])) {
				lens = append(lens, strconv.Itoa(len(ch)))
			}
			return "lens=" + strings.Join(lens, ",")
		case "removeunordered":
			s := clone(decList(a[0]))
			ret := xslices.RemoveUnordered(s, atoi(a[1]), atoi(a[2]))
			return "ret=" + encList(ret) + " arr=" + encList(s)
		case "reverse":
			s := clone(decList(a[0]))
			xslices.Reverse(s)
			return encList(s)
		case "partition":
			s := clone(decList(a[0]))
			t := decList(a[1])
			i := xslices.Partition(s, func(x int) bool { return tableAt(t, x) == 1 })
			return fmt.Sprintf("ret=%d arr=%s", i, encList(s))
		case "unique":
			return encList(xslices.Unique(clone(decList(a[0]))))
		case "uniqueinplace":
			s := clone(decList(a[0]))
			ret := xslices.UniqueInPlace(s)
			return "ret=" + encList(ret) + " arr=" + encList(s)
		case "runs", "runsle":
			s := clone(decList(a[0]))
			return rangesOf(s, xslices.Runs(s, sameOf(c.Fn, decList(a[1]))))
		case "shrink":
			l := decList(a[0])
			cp := atoi(a[1])
			if cp < len(l) {
				return "bad-case"
			}
			s := make([]int, len(l), cp)
			copy(s, l)
			r := xslices.Shrink(s, atoi(a[2]))
			return fmt.Sprintf("s=%s cap=%d realloc=%s", encList(r), cap(r), b2s(dataPtr(r) != dataPtr(s)))
		case "search":
			return strconv.Itoa(xsort.Search(decList(a[0]), lessOf(atoi(a[1]), atoi(a[2])), atoi(a[3])))
		case "lesscompare":
			lab, lba := a[0] == "1", a[1] == "1"
			less := func(x, y int) bool {
				if x == 1 && y == 2 {
					return lab
				}
				if x == 2 && y == 1 {
					return lba
				}
				return false
			}
			return strconv.Itoa(xsort.LessCompare[int](less)(1, 2))
		case "merge":
			cc := atoi(a[0])
			ll := decLL(a[2])
			its := make([]iterator.Iterator[int], len(ll))
			for i := range ll {
				its[i] = iterator.Slice(clone(ll[i]))
			}
			out := iterator.Collect(xsort.Merge(lessOf(cc, atoi(a[1])), its...))
			return "keys=" + encList(keys(cc, out)) + " sorted=" + encList(sortedCopy(out))
		case "mergeslices":
			cc := atoi(a[0])
			ll := decLL(a[3])
			in := make([][]int, len(ll))
			for i := range ll {
				in[i] = clone(ll[i])
			}
			oc := atoi(a[2])
			var out []int
			if oc >= 0 {
				out = make([]int, oc/2, oc)
				for i := range out {
					out[i] = -7
				}
			}
			res := xsort.MergeSlices(lessOf(cc, atoi(a[1])), out, in...)
			return "keys=" + encList(keys(cc, res)) + " sorted=" + encList(sortedCopy(res)) + " reuse=" + b2s(dataPtr(res) == dataPtr(out))
		case "mink":
			cc := atoi(a[0])
			out := xsort.MinK(lessOf(cc, atoi(a[1])), iterator.Slice(clone(decList(a[3]))), atoi(a[2]))
			return "keys=" + encList(keys(cc, out))
		case "union":
			return encList(setList(xmaps.Union(setsOf(decLL(a[0]))...)))
		case "intersection":
			return encList(setList(xmaps.Intersection(setsOf(decLL(a[0]))...)))
		case "intersects":
			return b2s(xmaps.Intersects(setsOf(decLL(a[0]))...))
		case "difference":
			return encList(setList(xmaps.Difference(xmaps.SetFromSlice(decList(a[0])), xmaps.SetFromSlice(decList(a[1])))))
		case "mapreverse":
			r := xmaps.Reverse(mapOf(decList(a[0]), decList(a[1])))
			if len(r) == 0 {
				return "-"
			}
			var vs []int
			for v := range r {
				vs = append(vs, v)
			}
			sort.Ints(vs)
			p := make([]string, len(vs))
			for i, v := range vs {
				p[i] = fmt.Sprintf("%d=%s", v, encList(sortedCopy(r[v])))
			}
			return strings.Join(p, "|")
		case "reversesingle":
			m := mapOf(decList(a[0]), decList(a[1]))
			r, ok := xmaps.ReverseSingle(m)
			pre := map[int]int{}
			for _, v := range m {
				pre[v]++
			}
			var vs []int
			for v := range r {
				vs = append(vs, v)
			}
			sort.Ints(vs)
			p := make([]string, len(vs))
			for i, v := range vs {
				if pre[v] > 1 {
					p[i] = fmt.Sprintf("%d=*", v)
				} else {
					p[i] = fmt.Sprintf("%d=%d", v, r[v])
				}
			}
			body := strings.Join(p, "|")
			if len(vs) == 0 {
				body = "-"
			}
			return "ok=" + b2s(ok) + " " + body
		case "toindex":
			return showKV(xmaps.ToIndex(decList(a[0])))
		case "fromkv":
			m, ok := xmaps.FromKeysAndValues(decList(a[0]), decList(a[1]))
			return "ok=" + b2s(ok) + " " + showKV(m)
		case "abs":
			x := int64(atoi(a[1]))
			switch a[0] {
			case "8":
				return strconv.Itoa(int(xmath.Abs(int8(x))))
			case "16":
				return strconv.Itoa(int(xmath.Abs(int16(x))))
			case "32":
				return strconv.Itoa(int(xmath.Abs(int32(x))))
			}
			return strconv.FormatInt(xmath.Abs(x), 10)
		case "clamp":
			return strconv.Itoa(xmath.Clamp(atoi(a[0]), atoi(a[1]), atoi(a[2])))
		case "extras", "wsdepth":
			return "n/a"
		case "withstack":
			return showErr(xerrors.WithStack(buildErr(a[0])))
		case "wsws":
			return showErr(xerrors.WithStack(xerrors.WithStack(buildErr(a[0]))))
		case "wsunwrap":
			w := xerrors.WithStack(buildErr(a[0]))
			if w == nil {
				return "nil"
			}
			return showErr(errors.Unwrap(w))
		case "unwrap":
			e := buildErr(a[0])
			if e == nil {
				return "nil"
			}
			return showErr(errors.Unwrap(e))
		case "is":
			return b2s(errors.Is(buildErr(a[0]), buildErr(a[1])))
		case "wsis":
			return b2s(errors.Is(xerrors.WithStack(buildErr(a[0])), buildErr(a[1])))
		case "as":
			return errAs(buildErr(a[0]), a[1])
		case "wsas":
			return errAs(xerrors.WithStack(buildErr(a[0])), a[1])
		}
		if out, ok := implMore(c); ok {
			return out
		}
		return "bad-op"
	})
}

func keys(c int, l []int) []int {
	o := make([]int, len(l))
	for i, x := range l {
		o[i] = keyOf(c, x)
	}
	return o
}

// canonModel post-processes the model's output line for a case.
func canonModel(c Case, out string) string {
	switch c.Fn {
	case "chunk", "runs", "runsle":
		return canonRanges(out)
	}
	return out
}

// ---------------------------------------------------------------------------------------------
// shrinking: delete elements of list arguments while the failure persists

func shrinkCase(c Case, fails func(Case) bool) Case {
	if c.Fn == "wsdepth" { // the smallest depth that fails
		for d := 1; d < atoi(c.Args[0]); d++ {
			if nc := (Case{c.Fn, []string{strconv.Itoa(d)}}); fails(nc) {
				return nc
			}
		}
		return c
	}
	cur := c
	for changed, rounds := true, 0; changed && rounds < 200; rounds++ {
		changed = false
		for ai, arg := range cur.Args {
			if strings.Contains(arg, ".") && (arg[0] == 's' || arg[0] == 'w' || arg[0] == 'l') {
				parts := strings.Split(arg, ".")
				for i := 0; i+1 < len(parts) && !changed; i++ {
					cand := append(append([]string{}, parts[:i]...), parts[i+1:]...)
					nc := withArg(cur, ai, strings.Join(cand, "."))
					if fails(nc) {
						cur, changed = nc, true
					}
				}
				continue
			}
			if !strings.ContainsAny(arg, ",|") && !(len(arg) > 0 && arg[0] >= '0' && arg[0] <= '9') {
				continue
			}
			if cur.Fn == "clamp" || cur.Fn == "abs" || cur.Fn == "lesscompare" {
				continue
			}
			if strings.Contains(arg, "|") || arg == "~" {
				ll := decLL(arg)
				for i := 0; i < len(ll) && !changed; i++ {
					cand := append(append([][]int{}, ll[:i]...), ll[i+1:]...)
					nc := withArg(cur, ai, encLL(cand))
					if fails(nc) {
						cur, changed = nc, true
					}
				}
				for i := 0; i < len(ll) && !changed; i++ {
					for j := 0; j < len(ll[i]) && !changed; j++ {
						cp := make([][]int, len(ll))
						copy(cp, ll)
						cp[i] = append(append([]int{}, ll[i][:j]...), ll[i][j+1:]...)
						nc := withArg(cur, ai, encLL(cp))
						if fails(nc) {
							cur, changed = nc, true
						}
					}
				}
				continue
			}
			if !strings.Contains(arg, ",") {
				continue
			}
			l := decList(arg)
			for i := 0; i < len(l) && !changed; i++ {
				cand := append(append([]int{}, l[:i]...), l[i+1:]...)
				nc := withArg(cur, ai, encList(cand))
				if fails(nc) {
					cur, changed = nc, true
				}
			}
		}
	}
	return cur
}

func withArg(c Case, i int, v string) Case {
	a := append([]string{}, c.Args...)
	a[i] = v
	return Case{c.Fn, a}
}

// ---------------------------------------------------------------------------------------------
// running cases

type runner struct {
	m   *vlib.Model
	res *vlib.Result
}

func (r *runner) modelOut(cs []Case) []string {
	if r.m == nil {
		return nil
	}
	lines := make([]string, len(cs))
	for i, c := range cs {
		lines[i] = c.Line()
	}
	out, err := r.m.Run(lines)
	if err != nil {
		r.res.ModelMissing = err.Error()
		r.m = nil
		return nil
	}
	for i := range out {
		out[i] = canonModel(cs[i], out[i])
	}
	return out
}

func (r *runner) corrFails(c Case) bool {
	mo := r.modelOut([]Case{c})
	return mo != nil && mo[0] != impl(c)
}

// batch evaluates cases: monitors on each, then model vs implementation on all.
func (r *runner) batch(cs []Case) {
	for _, c := range cs {
		r.res.Count("fn-" + c.Fn)
		r.res.Case(c.Line(), nontrivial(c), c.Line())
		if k, what, params := monitor(c); k != "" {
			small := shrinkCase(c, func(x Case) bool { kk, _, _ := monitor(x); return kk == k })
			_, w2, p2 := monitor(small)
			if w2 != "" {
				what, params = w2, p2
			}
			r.res.Fail(vlib.Failure{Source: "monitor", Kind: k, Params: params, What: what, Case: small})
		}
	}
	var withModel []Case
	for _, c := range cs {
		if c.Fn != "extras" && c.Fn != "wsdepth" {
			withModel = append(withModel, c)
		}
	}
	cs = withModel
	mo := r.modelOut(cs)
	if mo == nil {
		return
	}
	r.res.Traces += len(cs)
	for i, c := range cs {
		im := impl(c)
		if im == "panic" {
			r.res.Count("impl-panics")
		}
		if im != mo[i] {
			small := shrinkCase(c, r.corrFails)
			so := r.modelOut([]Case{small})
			mout := "<none>"
			if so != nil {
				mout = so[0]
			}
			r.res.Fail(vlib.Failure{Source: "correspondence", Kind: "model-differs-" + c.Fn,
				What: fmt.Sprintf("%s: impl %q, model %q", small.Line(), impl(small), mout), Case: small})
		}
	}
}

func nontrivial(c Case) bool {
	n := 0
	for _, a := range c.Args {
		n += strings.Count(a, ",") + strings.Count(a, "|") + strings.Count(a, ".")
	}
	return n >= 2 || c.Fn == "abs" || c.Fn == "clamp" || c.Fn == "chunk" || c.Fn == "shrink" || c.Fn == "chunkz"
}

// ---------------------------------------------------------------------------------------------
// generators

func randList(r *vlib.Rand, n, lo, hi int) []int {
	l := make([]int, n)
	for i := range l {
		l[i] = r.Range(lo, hi)
	}
	return l
}

func randSorted(r *vlib.Rand, n, hi, c, rev int) []int {
	l := randList(r, n, 0, hi)
	less := lessOf(c, rev)
	sort.SliceStable(l, func(i, j int) bool { return less(l[i], l[j]) })
	return l
}

func randLen(r *vlib.Rand, big bool) int {
	switch r.Pick(3, 6, 3, 1) {
	case 0:
		return r.Intn(3)
	case 1:
		return r.Range(3, 12)
	case 2:
		return r.Range(12, 60)
	}
	if big {
		return r.Range(100, 1000)
	}
	return r.Range(30, 120)
}

func randTable(r *vlib.Rand, mod, vals int) []int {
	return randList(r, mod, 0, vals-1)
}

var errPool = []string{"nil", "l1c", "l2c", "l3n", "l4n", "l5c", "w1.l1c", "w1.l3n", "w2.w1.l2c", "s.l1c", "s.l3n", "s.w1.l1c",
	"w1.s.l1c", "w2.w1.s.l5c", "s.s.l1c", "w1.s.w2.l4n", "s.l5c", "w3.l5c", "w1.w2.w3.s.l2c", "s.w1.s.l3n"}

func randErr(r *vlib.Rand) string {
	if r.Chance(1, 2) {
		return errPool[r.Intn(len(errPool))]
	}
	leaves := []string{"l1c", "l2c", "l3n", "l4n", "l5c", "l6c"}
	e := leaves[r.Intn(len(leaves))]
	for d := r.Intn(5); d > 0; d-- {
		if r.Chance(1, 3) {
			e = "s." + e
		} else {
			e = fmt.Sprintf("w%d.%s", r.Range(1, 3), e)
		}
	}
	return e
}

var fnNames = append([]string{"chunk", "removeunordered", "reverse", "partition", "unique", "uniqueinplace", "runs", "runsle", "shrink",
	"search", "lesscompare", "merge", "mergeslices", "mink", "union", "intersection", "intersects", "difference",
	"mapreverse", "reversesingle", "toindex", "fromkv", "abs", "clamp", "extras", "withstack", "wsws", "wsunwrap", "unwrap", "is", "wsis", "as", "wsas"}, moreFns...)

// ---------------------------------------------------------------------------------------------
// extreme index / count arguments (C19 F1): the property quantifies over "all index/count arguments
// ... all integer widths and extreme values". Every helper that takes an index or a count is also
// called with MaxInt, MaxInt-1, MinInt, +-2^62, MaxInt/2+1, MaxInt-len ... in those positions. All
// pool values have magnitude >= 2^61, so an allocation of that many elements fails with a recoverable
// "len out of range" panic rather than exhausting memory.
var extremePool = []int{math.MaxInt, math.MaxInt - 1, math.MinInt, math.MinInt + 1, 1 << 62, -(1 << 62), 1<<62 + 1, 1<<62 - 1,
	math.MaxInt/2 + 1, math.MaxInt / 2, math.MinInt / 2, math.MaxInt - 2, 1 << 61}

// extremeArgs: positions of the index / count arguments of each sub-command.
var extremeArgs = map[string][]int{
	"chunk": {1}, "removeunordered": {1, 2}, "shrink": {2}, "mink": {2}, "repeat": {1}, "grow": {2}, "insert": {2},
	"remove": {2, 3}, "clamp": {0, 1, 2}, "min": {0, 1}, "max": {0, 1}, "orderedless": {0, 1},
}

func extremeInt(r *vlib.Rand, n int) int {
	switch r.Intn(5) {
	case 0:
		return math.MaxInt - r.Intn(n+3) // MaxInt-len-2 .. MaxInt: len+n just (not) overflowing
	case 1:
		return math.MinInt + r.Intn(n+3)
	}
	return extremePool[r.Intn(len(extremePool))]
}

// genCase: a random case; every 6th case of a helper with index/count arguments gets extreme values
// in one or all of those positions.
func genCase(r *vlib.Rand, fn string, big bool) Case {
	c := genCase0(r, fn, big)
	pos := extremeArgs[fn]
	if len(pos) == 0 || len(c.Args) == 0 || !r.Chance(1, 6) {
		return c
	}
	n := 0
	for _, a := range c.Args {
		if strings.Contains(a, ",") {
			n = len(decList(a))
			break
		}
	}
	if fn == "chunk" {
		n = atoi(c.Args[0])
	}
	all := r.Chance(1, 3)
	pick := pos[r.Intn(len(pos))]
	for _, p := range pos {
		if p < len(c.Args) && (all || p == pick) {
			c.Args[p] = strconv.Itoa(extremeInt(r, n))
		}
	}
	return c
}

// chunkzCases: Chunk on slices of zero-size elements whose LENGTH is extreme (the only way to have a
// slice with len near MaxInt): `chunkz <len> <size>`, chunk sizes >= 2^60 so that there are at most a
// handful of chunks. Compared: number and lengths of the chunks.
func chunkzCases() []Case {
	I := strconv.Itoa
	var cs []Case
	lens := []int{math.MaxInt, math.MaxInt - 1, math.MaxInt/2 + 2, math.MaxInt/2 + 1, 1 << 62, 1<<62 + 1, 1<<62 - 1, 1 << 61, 3 << 60, 0, 1, 5}
	for _, l := range lens {
		for _, sz := range []int{math.MaxInt, math.MaxInt - 1, math.MaxInt/2 + 1, math.MaxInt / 2, 1 << 62, 1<<62 + 1, 1<<62 - 1, 1 << 61, 1<<61 + 1, 3 << 60, 1 << 60,
			l, l - 1, l + 1, l / 2, l/2 + 1, l / 3, l/3 + 1} {
			if sz >= 1<<60 {
				cs = append(cs, Case{"chunkz", []string{I(l), I(sz)}})
			}
		}
	}
	return cs
}

// extremeSweep: every helper with index/count arguments on a few small slices x every extreme value
// (and MaxInt-len-2..MaxInt, MinInt..MinInt+len+2) in each such position, the other positions
// ranging over {0, 1, len}. Deterministic and complete; runs on every tier.
func extremeSweep() []Case {
	I := strconv.Itoa
	var cs []Case
	for _, l := range [][]int{{}, {1}, {1, 2}, {1, 2, 3}, {3, 1, 2, 2, 1}} {
		n := len(l)
		el := encList(l)
		vals := append([]int{}, extremePool...)
		for d := 0; d <= n+2; d++ {
			vals = append(vals, math.MaxInt-d, math.MinInt+d)
		}
		small := []int{0, 1, n}
		for _, v := range vals {
			cs = append(cs, Case{"chunk", []string{I(n), I(v)}})
			cs = append(cs, Case{"repeat", []string{I(7), I(v)}})
			for _, c := range []int{1, 2} {
				cs = append(cs, Case{"mink", []string{I(c), I(0), I(v), el}}, Case{"mink", []string{I(c), I(1), I(v), el}})
			}
			cs = append(cs, Case{"clamp", []string{I(v), I(-1), I(1)}}, Case{"clamp", []string{I(0), I(v), I(math.MaxInt)}},
				Case{"clamp", []string{I(0), I(math.MinInt), I(v)}}, Case{"min", []string{I(v), I(1)}}, Case{"max", []string{I(1), I(v)}},
				Case{"orderedless", []string{I(v), I(-v - 1)}})
			for _, extra := range []int{0, 1, 3} {
				cs = append(cs, Case{"shrink", []string{el, I(n + extra), I(v)}})
				cs = append(cs, Case{"grow", []string{el, I(n + extra), I(v)}})
				cs = append(cs, Case{"insert", []string{el, I(n + extra), I(v), "91,92"}})
				for _, o := range small {
					cs = append(cs, Case{"remove", []string{el, I(n + extra), I(v), I(o)}}, Case{"remove", []string{el, I(n + extra), I(o), I(v)}})
				}
			}
			for _, o := range small {
				cs = append(cs, Case{"removeunordered", []string{el, I(v), I(o)}}, Case{"removeunordered", []string{el, I(o), I(v)}})
			}
			for _, w := range []int{math.MaxInt, math.MinInt, 1 << 62, -(1 << 62)} {
				cs = append(cs, Case{"removeunordered", []string{el, I(v), I(w)}}, Case{"remove", []string{el, I(n), I(v), I(w)}})
			}
		}
	}
	return cs
}

func genCase0(r *vlib.Rand, fn string, big bool) Case {
	I := strconv.Itoa
	n := randLen(r, big)
	arg := func(n int) int { return r.Range(-2, n+2) }
	switch fn {
	case "chunk":
		sz := r.Range(-3, 9)
		if r.Chance(1, 4) {
			sz = r.Range(-n-2, n+2)
		}
		return Case{fn, []string{I(n), I(sz)}}
	case "removeunordered":
		l := randList(r, n, 1, 9)
		idx, k := arg(n), arg(n)
		if r.Chance(2, 3) && n > 0 { // in the documented domain
			idx = r.Intn(n + 1)
			k = r.Intn(n - idx + 1)
		}
		return Case{fn, []string{encList(l), I(idx), I(k)}}
	case "reverse", "unique", "uniqueinplace":
		hi := 9
		if r.Chance(1, 3) {
			hi = 3
		}
		return Case{fn, []string{encList(randList(r, n, 1, hi))}}
	case "partition":
		mod := r.Range(1, 8)
		return Case{fn, []string{encList(randList(r, n, 1, 20)), encList(randTable(r, mod, 2))}}
	case "runs":
		mod := r.Range(1, 6)
		return Case{fn, []string{encList(randList(r, n, 1, 12)), encList(randTable(r, mod, r.Range(1, 3)))}}
	case "runsle":
		// same(x, y) = table[x] <= table[y]: reflexive and transitive (all that Runs documents), not symmetric
		mod := r.Range(2, 7)
		return Case{fn, []string{encList(randList(r, n, 1, 12)), encList(randTable(r, mod, r.Range(2, 5)))}}
	case "shrink":
		l := randList(r, n, 1, 9)
		return Case{fn, []string{encList(l), I(n + r.Intn(6)), I(r.Range(-2, 6))}}
	case "search":
		c, rev := r.Range(1, 4), r.Intn(2)
		hi := 30
		if r.Chance(1, 3) {
			hi = r.Range(1, 4) // two to five symbols: long runs of ties
		}
		l := randSorted(r, n, hi, c, rev)
		if r.Chance(1, 8) {
			l = randList(r, n, 0, hi) // unsorted: outside the contract, correspondence only
		}
		item := r.Range(-1, hi+2)
		if len(l) > 0 && r.Chance(1, 3) {
			item = l[[]int{0, len(l) - 1, r.Intn(len(l))}[r.Intn(3)]] // an item of the slice: first, last, any
		}
		return Case{fn, []string{encList(l), I(c), I(rev), I(item)}}
	case "lesscompare":
		return Case{fn, []string{b2s(r.Bool()), b2s(r.Bool())}}
	case "merge", "mergeslices":
		c, rev := r.Range(1, 4), r.Intn(2)
		k := r.Pick(1, 2, 4, 2)
		if k == 3 {
			k = r.Range(3, 9)
		}
		if k == 0 && r.Chance(1, 2) {
			k = 0
		}
		ll := make([][]int, k)
		tot := 0
		for i := range ll {
			m := r.Intn(n/2 + 2)
			if r.Chance(1, 5) {
				m = 0
			}
			ll[i] = randSorted(r, m, 20, c, rev)
			tot += m
		}
		if fn == "merge" {
			return Case{fn, []string{I(c), I(rev), encLL(ll)}}
		}
		oc := []int{-1, 0, tot - 1, tot, tot + 1, tot + 5}[r.Intn(6)]
		if oc < -1 {
			oc = 0
		}
		return Case{fn, []string{I(c), I(rev), I(oc), encLL(ll)}}
	case "mink":
		c, rev := r.Range(1, 4), r.Intn(2)
		return Case{fn, []string{I(c), I(rev), I(arg(n)), encList(randList(r, n, 0, 30))}}
	case "union", "intersection", "intersects":
		k := r.Pick(1, 2, 4, 2)
		if k == 3 {
			k = r.Range(3, 6)
		}
		ll := make([][]int, k)
		for i := range ll {
			ll[i] = sortedSet(randList(r, r.Intn(8), 1, 8))
		}
		return Case{fn, []string{encLL(ll)}}
	case "difference":
		return Case{fn, []string{encList(sortedSet(randList(r, r.Intn(9), 1, 9))), encList(sortedSet(randList(r, r.Intn(9), 1, 9)))}}
	case "mapreverse", "reversesingle":
		ks := sortedSet(randList(r, r.Intn(9), 1, 12))
		return Case{fn, []string{encList(ks), encList(randList(r, len(ks), 1, 6))}}
	case "toindex":
		return Case{fn, []string{encList(randList(r, r.Intn(9), 1, 6))}}
	case "fromkv":
		ks := randList(r, r.Intn(8), 1, 6)
		vn := len(ks)
		if r.Chance(1, 5) {
			vn = r.Intn(9)
		}
		return Case{fn, []string{encList(ks), encList(randList(r, vn, 1, 9))}}
	case "abs":
		w := []int{8, 16, 32, 64}[r.Intn(4)]
		min := -(int64(1) << (w - 1))
		max := -(min + 1)
		xs := []int64{min, min + 1, -1, 0, 1, max, max - 1, int64(r.Uint64()) >> (64 - w)}
		return Case{fn, []string{I(w), strconv.FormatInt(xs[r.Intn(len(xs))], 10)}}
	case "clamp":
		return Case{fn, []string{I(r.Range(-9, 9)), I(r.Range(-9, 9)), I(r.Range(-9, 9))}}
	case "extras":
		hi := 9
		if r.Chance(1, 2) {
			hi = 3
		}
		return Case{fn, []string{encList(randList(r, n, 1, hi)), I(r.Range(-3, 12)), I(r.Range(-3, 12)), encList(randTable(r, r.Range(1, 5), 2))}}
	case "withstack", "wsws", "wsunwrap", "unwrap":
		return Case{fn, []string{randErr(r)}}
	case "is", "wsis":
		t := randErr(r)
		e := randErr(r)
		if r.Chance(1, 2) && e != "nil" { // a target taken from the chain itself
			parts := strings.Split(e, ".")
			t = strings.Join(parts[r.Intn(len(parts)):], ".")
		}
		if t == "nil" {
			t = "l1c"
		}
		return Case{fn, []string{e, t}}
	case "as", "wsas":
		return Case{fn, []string{randErr(r), []string{"s", "w", "l1", "l2", "l3", "l4"}[r.Intn(6)]}}
	}
	if c, ok := genMore(r, fn, n); ok {
		return c
	}
	return Case{fn, nil}
}

func sortedSet(l []int) []int {
	m := map[int]bool{}
	var o []int
	for _, x := range l {
		if !m[x] {
			m[x] = true
			o = append(o, x)
		}
	}
	sort.Ints(o)
	return o
}

// allLists enumerates all lists over {1..sym} of length <= maxLen.
func allLists(maxLen, sym int, f func([]int)) {
	var rec func(cur []int)
	rec = func(cur []int) {
		f(cur)
		if len(cur) == maxLen {
			return
		}
		for s := 1; s <= sym; s++ {
			rec(append(cur, s))
		}
	}
	rec(nil)
}

// exhaustive enumerates the small scope: every slice of length <= maxLen over 3 symbols x every
// index/count argument in [-2, len+2] x every predicate / class pattern / order.
func exhaustive(run *runner, maxLen int, deadline time.Time) bool {
	I := strconv.Itoa
	var buf []Case
	complete := true
	flush := func() {
		if len(buf) > 0 {
			run.batch(buf)
			buf = buf[:0]
		}
	}
	add := func(c Case) {
		buf = append(buf, c)
		if len(buf) >= 4000 {
			flush()
		}
	}
	// tables over 3 symbols (index = x mod 4, symbols 1..3): predicates and class patterns
	var preds, classes []string
	for m := 0; m < 8; m++ {
		preds = append(preds, encList([]int{0, m & 1, (m >> 1) & 1, (m >> 2) & 1}))
	}
	for _, cl := range [][]int{{0, 1, 1, 1}, {0, 1, 1, 2}, {0, 1, 2, 1}, {0, 1, 2, 2}, {0, 1, 2, 3}} {
		classes = append(classes, encList(cl))
	}
	// Runs with a preorder same(x, y) = t[x] <= t[y] (tables indexed by x mod 4; symbols 1..3): the three symbols
	// strictly ordered either way, with one tie, and with the middle symbol lowest / highest
	leTables := []string{"0,1,2,3", "0,3,2,1", "0,1,1,2", "0,2,1,1", "0,2,1,3", "0,1,3,2"}
	// Search on tie-heavy sorted slices: every non-decreasing slice of length <= maxLen+4 over the symbols
	// 1..3 (i.e. every arrangement of tie runs at the head, in the middle and at the tail) x every order
	// (key = x/c: under c = 2 the symbols 2 and 3 tie, under c = 3 the symbols 1 and 2; both directions) x
	// every item 0..4, judged against the exact lower bound
	var sortedLists func(cur []int, from int)
	sortedLists = func(cur []int, from int) {
		for c := 1; c <= 3; c++ {
			for rev := 0; rev <= 1; rev++ {
				sl := clone(cur)
				if rev == 1 {
					for i, j := 0, len(sl)-1; i < j; i, j = i+1, j-1 {
						sl[i], sl[j] = sl[j], sl[i]
					}
				}
				for item := 0; item <= 4; item++ {
					add(Case{"search", []string{encList(sl), I(c), I(rev), I(item)}})
				}
			}
		}
		if len(cur) == maxLen+4 {
			return
		}
		for s := from; s <= 3; s++ {
			sortedLists(append(cur, s), s)
		}
	}
	sortedLists(nil, 1)
	allLists(maxLen, 3, func(l []int) {
		if time.Now().After(deadline) {
			complete = false
			return
		}
		n := len(l)
		el := encList(l)
		add(Case{"reverse", []string{el}})
		add(Case{"unique", []string{el}})
		add(Case{"uniqueinplace", []string{el}})
		add(Case{"toindex", []string{el}})
		for _, p := range preds {
			add(Case{"partition", []string{el, p}})
			add(Case{"extras", []string{el, I(n % 4), I(n + 1), p}})
			add(Case{"extras", []string{el, I(3), I(-1), p}})
		}
		for _, cl := range classes {
			add(Case{"runs", []string{el, cl}})
		}
		for _, cl := range leTables {
			add(Case{"runsle", []string{el, cl}})
		}
		exhaustiveMore(l, preds, classes, add)
		for idx := -2; idx <= n+2; idx++ {
			for k := -2; k <= n+2; k++ {
				add(Case{"removeunordered", []string{el, I(idx), I(k)}})
			}
		}
		for k := -2; k <= n+2; k++ {
			for c := 1; c <= 3; c++ {
				for rev := 0; rev <= 1; rev++ {
					add(Case{"mink", []string{I(c), I(rev), I(k), el}})
				}
			}
			for extra := 0; extra <= 3; extra++ {
				add(Case{"shrink", []string{el, I(n + extra), I(k)}})
			}
		}
		// sorted inputs for Search: sort the list under each order
		for c := 1; c <= 3; c++ {
			for rev := 0; rev <= 1; rev++ {
				less := lessOf(c, rev)
				sl := clone(l)
				sort.SliceStable(sl, func(i, j int) bool { return less(sl[i], sl[j]) })
				for item := 0; item <= 4; item++ {
					add(Case{"search", []string{encList(sl), I(c), I(rev), I(item)}})
				}
				// split the sorted list into 0..3 sorted inputs in every contiguous way (small lists only)
				if n <= 5 {
					for cut1 := 0; cut1 <= n; cut1++ {
						for cut2 := cut1; cut2 <= n; cut2++ {
							// interleave: elements at even/odd positions keep sortedness
							ll := [][]int{sl[:cut1], sl[cut1:cut2], sl[cut2:]}
							add(Case{"merge", []string{I(c), I(rev), encLL(ll)}})
						}
					}
					var ev, od []int
					for i, x := range sl {
						if i%2 == 0 {
							ev = append(ev, x)
						} else {
							od = append(od, x)
						}
					}
					for oc := -1; oc <= n+1; oc++ {
						add(Case{"mergeslices", []string{I(c), I(rev), I(oc), encLL([][]int{ev, od})}})
					}
				}
			}
		}
	})
	for n := 0; n <= maxLen+3; n++ {
		for sz := -maxLen - 4; sz <= maxLen+4; sz++ {
			add(Case{"chunk", []string{I(n), I(sz)}})
		}
	}
	// k-ary set functions: all families of <= 3 subsets of {1,2,3}
	var subsets [][]int
	for m := 0; m < 8; m++ {
		var s []int
		for b := 0; b < 3; b++ {
			if m>>b&1 == 1 {
				s = append(s, b+1)
			}
		}
		subsets = append(subsets, s)
	}
	var fams [][][]int
	fams = append(fams, nil)
	for _, a := range subsets {
		fams = append(fams, [][]int{a})
		for _, b := range subsets {
			fams = append(fams, [][]int{a, b})
			add(Case{"difference", []string{encList(a), encList(b)}})
			for _, c := range subsets {
				fams = append(fams, [][]int{a, b, c})
			}
		}
	}
	for _, f := range fams {
		for _, fn := range []string{"union", "intersection", "intersects"} {
			add(Case{fn, []string{encLL(f)}})
		}
	}
	// maps over keys {1,2,3} with values in {1,2,3}
	for _, ks := range subsets {
		allLists(len(ks), 3, func(vs []int) {
			if len(vs) == len(ks) {
				add(Case{"mapreverse", []string{encList(ks), encList(vs)}})
				add(Case{"reversesingle", []string{encList(ks), encList(vs)}})
			}
		})
	}
	allLists(4, 3, func(ks []int) {
		allLists(4, 2, func(vs []int) {
			if len(vs) >= len(ks)-1 && len(vs) <= len(ks)+1 {
				add(Case{"fromkv", []string{encList(ks), encList(vs)}})
			}
		})
	})
	for _, a := range []string{"0", "1"} {
		for _, b := range []string{"0", "1"} {
			add(Case{"lesscompare", []string{a, b}})
			for _, fn := range []string{"greater", "lessorequal", "greaterorequal", "sortequal"} {
				add(Case{fn, []string{a, b}})
			}
		}
	}
	for x := -130; x <= 130; x++ {
		add(Case{"abs", []string{"8", I(x)}})
	}
	for _, w := range []int{16, 32, 64} {
		min := -(int64(1) << (w - 1))
		for d := int64(0); d < 3; d++ {
			add(Case{"abs", []string{I(w), strconv.FormatInt(min+d, 10)}})
			add(Case{"abs", []string{I(w), strconv.FormatInt(-(min+1)-d, 10)}})
			add(Case{"abs", []string{I(w), strconv.FormatInt(d-1, 10)}})
		}
	}
	exhaustiveMoreScalars(maxLen, add)
	for x := -3; x <= 3; x++ {
		for lo := -3; lo <= 3; lo++ {
			for hi := -3; hi <= 3; hi++ {
				add(Case{"clamp", []string{I(x), I(lo), I(hi)}})
			}
		}
	}
	// error chains: every chain of depth <= 4 over {s, w1, w2} on every leaf kind
	leaves := []string{"l1c", "l3n", "l5c"}
	var chains []string
	var rec func(e string, d int)
	rec = func(e string, d int) {
		chains = append(chains, e)
		if d == 0 {
			return
		}
		for _, h := range []string{"s", "w1", "w2"} {
			rec(h+"."+e, d-1)
		}
	}
	for _, l := range leaves {
		rec(l, 3)
	}
	chains = append(chains, "nil")
	for _, e := range chains {
		for _, fn := range []string{"withstack", "wsws", "wsunwrap", "unwrap"} {
			add(Case{fn, []string{e}})
		}
		for _, ty := range []string{"s", "w", "l1", "l3"} {
			add(Case{"as", []string{e, ty}})
			add(Case{"wsas", []string{e, ty}})
		}
		if e == "nil" {
			continue
		}
		parts := strings.Split(e, ".")
		targets := map[string]bool{"l1c": true, "l3n": true, "l5c": true, "l2c": true, "w1.l1c": true, "s.l1c": true}
		for i := range parts {
			targets[strings.Join(parts[i:], ".")] = true
		}
		var ts []string
		for t := range targets {
			ts = append(ts, t)
		}
		sort.Strings(ts)
		for _, t := range ts {
			add(Case{"is", []string{e, t}})
			add(Case{"wsis", []string{e, t}})
		}
	}
	flush()
	return complete
}

// ---------------------------------------------------------------------------------------------

func parseCase(line string) (Case, bool) {
	f := strings.Fields(line)
	if len(f) == 0 {
		return Case{}, false
	}
	return Case{f[0], f[1:]}, true
}

func main() {
	env := vlib.GetEnv()
	res := vlib.NewResult("C19", "one case = one call of one helper (73 sub-commands, one per exported helper of xslices, xsort, xmaps, xmath, xerrors, each compared with its Lean model; "+
		"extras = the documentation monitors of the 42 small loops / thin wrappers on one input; slices with spare capacity (cap = len, len+1, len+3, ...) for the in-place and aliasing effects); "+
		"random cases with lengths 0..1000, arguments in [-2, len+2], orders with ties (key = x/c, optionally reversed), predicate and "+
		"equivalence-class tables (Runs also with the preorder table[x] <= table[y]: reflexive, transitive, not symmetric), error chains incl. already wrapped / fmt.Errorf(%w) / non-comparable leaves; plus the corpus; "+
		"non-trivial = the arguments hold at least 3 list elements / chain links (always for abs, clamp, chunk, shrink); distinct = different protocol line. "+
		"Exhaustive scope: every slice of length <= L over 3 symbols x every index/count argument in [-2, len+2] x all 8 predicates / 5 class "+
		"patterns / 6 preorder tables / 6 orders, Search on every non-decreasing slice of length <= L+4 over 3 symbols x 6 orders x 5 items against the exact lower bound, all families of <= 3 subsets of a 3-element universe, all maps over 3 keys, every int8, every error chain of depth <= 4 "+
		"(L = 4 quick, 7 thorough)")
	m, err := vlib.StartModel(env.Driver, "helpers")
	if err != nil {
		res.ModelMissing = err.Error()
		m = nil
	}
	run := &runner{m: m, res: res}
	defer func() {
		if run.m != nil {
			run.m.Close()
		}
	}()

	if env.Replay != "" {
		var c Case
		if err := vlib.ReplayCase(env.Replay, &c); err != nil {
			fmt.Println("cannot read replay:", err)
			os.Exit(2)
		}
		fmt.Printf("replay: %s\nimplementation: %s\n", c.Line(), impl(c))
		k, what, _ := monitor(c)
		fmt.Printf("monitor: %s %s\n", k, what)
		if c.Fn == "wsdepth" {
			fmt.Println("correspondence: the call stack is outside the model (monitor only)")
		} else if mo := run.modelOut([]Case{c}); mo != nil {
			fmt.Printf("model: %s\n", mo[0])
			if mo[0] != impl(c) {
				fmt.Println("correspondence: model and implementation differ")
			} else {
				fmt.Println("correspondence: model and implementation agree")
			}
		}
		if k != "" {
			os.Exit(1)
		}
		return
	}

	var corpus []Case
	for _, f := range vlib.CorpusFiles(env.Corpus, ".ops") {
		for _, l := range vlib.ReadLines(f) {
			if c, ok := parseCase(l); ok {
				if _, known := fnSet[c.Fn]; known {
					corpus = append(corpus, c)
					res.Count("corpus")
				}
			}
		}
	}
	run.batch(corpus)
	// extreme index / count arguments (deterministic, complete on every tier)
	ext := append(extremeSweep(), chunkzCases()...)
	run.batch(ext)
	// WithStack at the bottom of call stacks of every depth 1..300 and a few deeper ones (stack.go)
	run.batch(stackSweep())
	res.Extra["extreme_argument_cases"] = len(ext)

	start := time.Now()
	budget := time.Duration(env.BudgetMs) * time.Millisecond
	r := vlib.NewRand(env.Seed)
	big := env.Thorough() || env.Deep
	// random phase: 40% of the budget
	randDeadline := start.Add(budget * 4 / 10)
	maxBatches := 12
	if big {
		maxBatches = 200
	}
	for b := 0; b < maxBatches && time.Now().Before(randDeadline); b++ {
		var cs []Case
		for i := 0; i < 1500; i++ {
			fn := fnNames[r.Intn(len(fnNames))]
			cs = append(cs, genCase(r.Fork(), fn, big))
		}
		run.batch(cs)
	}
	maxLen := 4
	if big {
		maxLen = 7
	}
	res.Exhaustive = exhaustive(run, maxLen, start.Add(budget))
	res.Extra["exhaustive_max_len"] = maxLen
	res.Write(env.Out)
}

var fnSet = func() map[string]bool {
	m := map[string]bool{"chunkz": true, "wsdepth": true}
	for _, f := range fnNames {
		m[f] = true
	}
	return m
}()
