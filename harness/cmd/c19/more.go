package main

// The remaining exported helpers (own small loops and thin wrappers over the standard library): one
// sub-command per helper, evaluated on the real code (implMore) and on the Lean model
// (Model/HelpersMore.lean through `driver helpers`). Their documentation monitors are the `extras`
// case (extras.go) plus the aliasing monitors below (monitorMore).
//
// A slice argument `l cap` is a slice with contents l and capacity cap whose spare capacity holds
// -7; "arr" is the caller's whole backing array (up to the capacity) after the call, "fresh" whether
// the returned slice has an array of its own (unobservable, "-", for an empty result).

import (
	"fmt"
	"sort"
	"strconv"
	"strings"

	"github.com/bradenaw/juniper/xmaps"
	"github.com/bradenaw/juniper/xmath"
	"github.com/bradenaw/juniper/xslices"
	"github.com/bradenaw/juniper/xsort"
	"verifharness/vlib"
)

var moreFns = []string{"all", "any", "count", "countfunc", "fill", "clear", "group", "join", "lastindex", "lastindexfunc",
	"map", "reduce", "repeat", "clone", "compact", "compactinplace", "compactfunc", "compactinplacefunc", "equal", "equalfunc",
	"filter", "filterinplace", "grow", "index", "indexfunc", "insert", "remove", "greater", "lessorequal", "greaterorequal",
	"sortequal", "sortreverse", "orderedless", "sortslice", "slicestable", "sliceissorted", "setadd", "setremove", "setcontains",
	"setfromslice", "min", "max"}

// allocLimit mirrors Juniper.Model.Stdlib.allocLimit: a `make` / Grow of more elements than this is
// modelled as the runtime's "len out of range" panic (the harness only asks for <= a few thousand or
// >= 2^61 elements, where the real runtime agrees whatever the exact limit).
const allocLimit = 1 << 44

func mkSl(l []int, cp int) []int {
	if cp < len(l) {
		cp = len(l)
	}
	s := make([]int, len(l), cp)
	copy(s, l)
	sp := s[len(l):cp]
	for i := range sp {
		sp[i] = -7
	}
	return s
}

func showSl(orig, r []int) string {
	fresh := "-"
	if len(r) > 0 {
		fresh = b2s(cap(orig) == 0 || dataPtr(r) != dataPtr(orig))
	}
	return "ret=" + encList(r) + " arr=" + encList(orig[:cap(orig)]) + " fresh=" + fresh
}

func predOf(t []int) func(int) bool { return func(x int) bool { return tableAt(t, x) == 1 } }
func eqOf(t []int) func(int, int) bool {
	return func(a, b int) bool { return tableAt(t, a) == tableAt(t, b) }
}

func implMore(c Case) (string, bool) {
	a := c.Args
	I := strconv.Itoa
	switch c.Fn {
	case "all":
		return b2s(xslices.All(clone(decList(a[0])), predOf(decList(a[1])))), true
	case "any":
		return b2s(xslices.Any(clone(decList(a[0])), predOf(decList(a[1])))), true
	case "count":
		return I(xslices.Count(clone(decList(a[0])), atoi(a[1]))), true
	case "countfunc":
		return I(xslices.CountFunc(clone(decList(a[0])), predOf(decList(a[1])))), true
	case "fill":
		s := clone(decList(a[0]))
		xslices.Fill(s, atoi(a[1]))
		return encList(s), true
	case "clear":
		s := clone(decList(a[0]))
		xslices.Clear(s)
		return encList(s), true
	case "group":
		t := decList(a[1])
		g := xslices.Group(clone(decList(a[0])), func(x int) int { return tableAt(t, x) })
		if len(g) == 0 {
			return "-", true
		}
		var ks []int
		for k := range g {
			ks = append(ks, k)
		}
		sort.Ints(ks)
		p := make([]string, len(ks))
		for i, k := range ks {
			p[i] = fmt.Sprintf("%d=%s", k, encList(g[k]))
		}
		return strings.Join(p, "|"), true
	case "join":
		ll := decLL(a[0])
		in := make([][]int, len(ll))
		for i := range ll {
			in[i] = clone(ll[i])
		}
		out := xslices.Join(in...)
		return fmt.Sprintf("out=%s cap=%d", encList(out), cap(out)), true
	case "lastindex":
		return I(xslices.LastIndex(clone(decList(a[0])), atoi(a[1]))), true
	case "lastindexfunc":
		return I(xslices.LastIndexFunc(clone(decList(a[0])), predOf(decList(a[1])))), true
	case "map":
		k := atoi(a[1])
		return encList(xslices.Map(clone(decList(a[0])), func(x int) int { return x*k + 1 })), true
	case "reduce":
		return I(xslices.Reduce(clone(decList(a[0])), atoi(a[1]), func(acc, x int) int { return floorMod(acc*3+x, 1000003) })), true
	case "repeat":
		return encList(xslices.Repeat(atoi(a[0]), atoi(a[1]))), true
	case "clone":
		s := mkSl(decList(a[0]), atoi(a[1]))
		return showSl(s, xslices.Clone(s)), true
	case "compact":
		s := mkSl(decList(a[0]), atoi(a[1]))
		return showSl(s, xslices.Compact(s)), true
	case "compactinplace":
		s := mkSl(decList(a[0]), atoi(a[1]))
		return showSl(s, xslices.CompactInPlace(s)), true
	case "compactfunc":
		s := mkSl(decList(a[0]), atoi(a[1]))
		return showSl(s, xslices.CompactFunc(s, eqOf(decList(a[2])))), true
	case "compactinplacefunc":
		s := mkSl(decList(a[0]), atoi(a[1]))
		return showSl(s, xslices.CompactInPlaceFunc(s, eqOf(decList(a[2])))), true
	case "equal":
		return b2s(xslices.Equal(clone(decList(a[0])), clone(decList(a[1])))), true
	case "equalfunc":
		return b2s(xslices.EqualFunc(clone(decList(a[0])), clone(decList(a[1])), eqOf(decList(a[2])))), true
	case "filter":
		s := mkSl(decList(a[0]), atoi(a[1]))
		return showSl(s, xslices.Filter(s, predOf(decList(a[2])))), true
	case "filterinplace":
		s := mkSl(decList(a[0]), atoi(a[1]))
		return showSl(s, xslices.FilterInPlace(s, predOf(decList(a[2])))), true
	case "grow":
		s := mkSl(decList(a[0]), atoi(a[1]))
		n := atoi(a[2])
		r := xslices.Grow(s, n)
		fresh := cap(s) == 0 && cap(r) > 0 || cap(s) > 0 && cap(r) > 0 && dataPtr(r[:1]) != dataPtr(s[:1])
		cp := I(cap(r))
		if fresh {
			cp = "lt" + I(len(s)+n)
			if cap(r) >= len(s)+n {
				cp = "ge" + I(len(s)+n)
			}
		}
		return "ret=" + encList(r) + " fresh=" + b2s(fresh) + " cap=" + cp, true
	case "index":
		return I(xslices.Index(clone(decList(a[0])), atoi(a[1]))), true
	case "indexfunc":
		return I(xslices.IndexFunc(clone(decList(a[0])), predOf(decList(a[1])))), true
	case "insert":
		s := mkSl(decList(a[0]), atoi(a[1]))
		return showSl(s, xslices.Insert(s, atoi(a[2]), decList(a[3])...)), true
	case "remove":
		s := mkSl(decList(a[0]), atoi(a[1]))
		return showSl(s, xslices.Remove(s, atoi(a[2]), atoi(a[3]))), true
	case "greater", "lessorequal", "greaterorequal", "sortequal":
		lab, lba := a[0] == "1", a[1] == "1"
		less := func(x, y int) bool {
			if x == 1 && y == 2 {
				return lab
			}
			if x == 2 && y == 1 {
				return lba
			}
			return false
		}
		switch c.Fn {
		case "greater":
			return b2s(xsort.Greater[int](less, 1, 2)), true
		case "lessorequal":
			return b2s(xsort.LessOrEqual[int](less, 1, 2)), true
		case "greaterorequal":
			return b2s(xsort.GreaterOrEqual[int](less, 1, 2)), true
		}
		return b2s(xsort.Equal[int](less, 1, 2)), true
	case "sortreverse":
		return b2s(xsort.Reverse[int](lessOf(atoi(a[0]), atoi(a[1])))(atoi(a[2]), atoi(a[3]))), true
	case "orderedless":
		return b2s(xsort.OrderedLess(atoi(a[0]), atoi(a[1]))), true
	case "sortslice":
		cc := atoi(a[0])
		s := clone(decList(a[2]))
		xsort.Slice(s, lessOf(cc, atoi(a[1])))
		return "keys=" + encList(keys(cc, s)) + " sorted=" + encList(sortedCopy(s)), true
	case "slicestable":
		s := clone(decList(a[2]))
		xsort.SliceStable(s, lessOf(atoi(a[0]), atoi(a[1])))
		return encList(s), true
	case "sliceissorted":
		return b2s(xsort.SliceIsSorted(clone(decList(a[2])), lessOf(atoi(a[0]), atoi(a[1])))), true
	case "setadd":
		s := xmaps.SetFromSlice(decList(a[0]))
		s.Add(atoi(a[1]))
		return encList(setList(s)), true
	case "setremove":
		s := xmaps.SetFromSlice(decList(a[0]))
		s.Remove(atoi(a[1]))
		return encList(setList(s)), true
	case "setcontains":
		return b2s(xmaps.SetFromSlice(decList(a[0])).Contains(atoi(a[1]))), true
	case "setfromslice":
		return encList(setList(xmaps.SetFromSlice(decList(a[0])))), true
	case "min":
		return I(xmath.Min(atoi(a[0]), atoi(a[1]))), true
	case "max":
		return I(xmath.Max(atoi(a[0]), atoi(a[1]))), true
	}
	return "", false
}

func floorMod(x, m int) int {
	r := x % m
	if r < 0 {
		r += m
	}
	return r
}

// monitorMore: documented in-place / aliasing effects of the wrappers that the combined `extras`
// monitor does not look at. Everything else about these helpers is monitored by `extras`.
func monitorMore(c Case) (kind, what string, params P) {
	a := c.Args
	fail := func(k, f string, args ...interface{}) (string, string, P) {
		return k, c.Line() + ": " + fmt.Sprintf(f, args...), nil
	}
	switch c.Fn {
	case "insert":
		// "inserts the given values starting at index idx, shifting elements after idx to the right ...
		// Insert will expand the length of the slice up to its capacity if it can"
		l, cp, idx, vals := decList(a[0]), atoi(a[1]), atoi(a[2]), decList(a[3])
		if idx < 0 || idx > len(l) {
			return // outside the documented domain
		}
		s := mkSl(l, cp)
		var r []int
		if pan, v := vlib.Try(func() { r = xslices.Insert(s, idx, vals...) }); pan {
			return fail("xslices-insert-panic", "panicked: %v", v)
		}
		want := append(append(clone(l[:idx]), vals...), l[idx:]...)
		if !eqInts(r, want) {
			return fail("xslices-insert-items", "= %v, want %v", r, want)
		}
		if len(want) <= cap(s) && len(r) > 0 && dataPtr(r) != dataPtr(s) {
			return fail("xslices-insert-did-not-use-capacity", "len %d + %d values fit the capacity %d but the result was reallocated", len(l), len(vals), cap(s))
		}
		if len(want) > cap(s) && !eqInts(s, l) {
			return fail("xslices-insert-clobbered-input", "no room, yet the caller's slice now holds %v", s)
		}
	case "remove":
		// "removes n elements from s starting at index idx and returns the modified slice"
		l, cp, idx, n := decList(a[0]), atoi(a[1]), atoi(a[2]), atoi(a[3])
		if idx < 0 || n < 0 || idx > len(l) || n > len(l)-idx { // (overflow-free form of idx+n > len)
			return
		}
		s := mkSl(l, cp)
		var r []int
		if pan, v := vlib.Try(func() { r = xslices.Remove(s, idx, n) }); pan {
			return fail("xslices-remove-panic", "panicked: %v", v)
		}
		want := append(clone(l[:idx]), l[idx+n:]...)
		if !eqInts(r, want) {
			return fail("xslices-remove-items", "= %v, want %v", r, want)
		}
		if len(r) > 0 && dataPtr(r) != dataPtr(s) {
			return fail("xslices-remove-not-in-place", "the modified slice does not share s's array")
		}
	case "grow":
		// "grows s's capacity by reallocating, if necessary, to fit n more elements ... does not change the
		// length of s. After Grow(s, n), the following n append()s to s will not need to reallocate."
		l, cp, n := decList(a[0]), atoi(a[1]), atoi(a[2])
		if n < 0 || n > allocLimit {
			return // slices.Grow: "If n is negative or too large to allocate the memory, Grow panics."
		}
		s := mkSl(l, cp)
		var r []int
		if pan, v := vlib.Try(func() { r = xslices.Grow(s, n) }); pan {
			return fail("xslices-grow-panic", "panicked: %v", v)
		}
		if !eqInts(r, l) {
			return fail("xslices-grow-items", "= %v, want %v", r, l)
		}
		if cap(r)-len(r) < n {
			return fail("xslices-grow-capacity", "spare capacity %d < %d", cap(r)-len(r), n)
		}
		if len(l)+n <= cap(s) && cap(s) > 0 && dataPtr(r[:1]) != dataPtr(s[:1]) {
			return fail("xslices-grow-needless-realloc", "reallocated although %d more elements fit the capacity %d", n, cap(s))
		}
		if n > 0 {
			p := dataPtr(r[:1])
			q := r
			for i := 0; i < n; i++ {
				q = append(q, i)
			}
			if dataPtr(q[:1]) != p {
				return fail("xslices-grow-append-reallocates", "one of the following %d appends reallocated", n)
			}
		}
	case "compactinplace", "compactinplacefunc", "filterinplace":
		// "This is done in-place and so modifies the contents of s. The modified slice is returned."
		l, cp := decList(a[0]), atoi(a[1])
		s := mkSl(l, cp)
		var r []int
		switch c.Fn {
		case "compactinplace":
			r = xslices.CompactInPlace(s)
		case "compactinplacefunc":
			r = xslices.CompactInPlaceFunc(s, eqOf(decList(a[2])))
		default:
			r = xslices.FilterInPlace(s, predOf(decList(a[2])))
		}
		if len(r) > 0 && dataPtr(r) != dataPtr(s) {
			return fail("xslices-"+c.Fn+"-not-in-place", "the returned slice does not share s's array")
		}
		if !eqInts(s[:len(r)], r) {
			return fail("xslices-"+c.Fn+"-not-in-place", "s does not begin with the result: %v vs %v", s, r)
		}
		for i := len(l); i < cap(s); i++ {
			if s[:cap(s)][i] != -7 {
				return fail("xslices-"+c.Fn+"-wrote-beyond-len", "spare capacity modified: %v", s[:cap(s)])
			}
		}
	case "clone", "compact", "compactfunc", "filter":
		// not in place: the input is left alone
		l, cp := decList(a[0]), atoi(a[1])
		s := mkSl(l, cp)
		switch c.Fn {
		case "clone":
			xslices.Clone(s)
		case "compact":
			xslices.Compact(s)
		case "compactfunc":
			xslices.CompactFunc(s, eqOf(decList(a[2])))
		default:
			xslices.Filter(s, predOf(decList(a[2])))
		}
		if !eqInts(s, l) {
			return fail("xslices-"+c.Fn+"-modified-input", "input now %v", s)
		}
	}
	return "", "", nil
}

// ---------------------------------------------------------------------------------------------
// generators

func genMore(r *vlib.Rand, fn string, n int) (Case, bool) {
	I := strconv.Itoa
	hi := 9
	if r.Chance(1, 2) {
		hi = 3
	}
	l := randList(r, n, 1, hi)
	el := encList(l)
	pred := encList(randTable(r, r.Range(1, 5), 2))
	cls := encList(randTable(r, r.Range(1, 5), r.Range(1, 3)))
	cp := I(n + []int{0, 0, 1, 2, 5}[r.Intn(5)])
	x := I(r.Range(0, hi+1))
	ord := func() (string, string) { return I(r.Range(1, 4)), I(r.Intn(2)) }
	switch fn {
	case "all", "any", "countfunc", "lastindexfunc", "indexfunc":
		return Case{fn, []string{el, pred}}, true
	case "count", "fill", "lastindex", "index":
		return Case{fn, []string{el, x}}, true
	case "setcontains", "setadd", "setremove": // a set is a duplicate-free list
		return Case{fn, []string{encList(sortedSet(l)), x}}, true
	case "clear", "setfromslice":
		return Case{fn, []string{el}}, true
	case "group":
		return Case{fn, []string{el, cls}}, true
	case "join":
		k := r.Intn(5)
		ll := make([][]int, k)
		for i := range ll {
			ll[i] = randList(r, r.Intn(n/2+2), 1, 9)
		}
		return Case{fn, []string{encLL(ll)}}, true
	case "map":
		return Case{fn, []string{el, I(r.Range(-3, 3))}}, true
	case "reduce":
		return Case{fn, []string{el, I(r.Range(-5, 50))}}, true
	case "repeat":
		return Case{fn, []string{I(r.Range(-3, 9)), I(r.Range(-2, 12))}}, true
	case "clone", "compact", "compactinplace":
		return Case{fn, []string{el, cp}}, true
	case "compactfunc", "compactinplacefunc":
		return Case{fn, []string{el, cp, cls}}, true
	case "filter", "filterinplace":
		return Case{fn, []string{el, cp, pred}}, true
	case "equal", "equalfunc":
		b := clone(l)
		switch r.Intn(4) {
		case 0:
			if len(b) > 0 {
				b[r.Intn(len(b))] = r.Range(1, hi)
			}
		case 1:
			if len(b) > 0 {
				b = b[:len(b)-1]
			}
		case 2:
			b = append(b, r.Range(1, hi))
		}
		if fn == "equal" {
			return Case{fn, []string{el, encList(b)}}, true
		}
		return Case{fn, []string{el, encList(b), cls}}, true
	case "grow":
		return Case{fn, []string{el, cp, I(r.Range(-2, 8))}}, true
	case "insert":
		return Case{fn, []string{el, cp, I(r.Range(-2, n+2)), encList(randList(r, r.Intn(4), 91, 95))}}, true
	case "remove":
		idx, k := r.Range(-2, n+2), r.Range(-2, n+2)
		if r.Chance(2, 3) && n > 0 {
			idx = r.Intn(n + 1)
			k = r.Intn(n - idx + 1)
		}
		return Case{fn, []string{el, cp, I(idx), I(k)}}, true
	case "greater", "lessorequal", "greaterorequal", "sortequal":
		return Case{fn, []string{b2s(r.Bool()), b2s(r.Bool())}}, true
	case "sortreverse":
		c, rev := ord()
		return Case{fn, []string{c, rev, I(r.Range(0, 12)), I(r.Range(0, 12))}}, true
	case "orderedless", "min", "max":
		return Case{fn, []string{I(r.Range(-9, 9)), I(r.Range(-9, 9))}}, true
	case "sortslice", "slicestable", "sliceissorted":
		c, rev := ord()
		ls := randList(r, n, 0, 30)
		if fn == "sliceissorted" && r.Chance(1, 2) {
			ls = randSorted(r, n, 30, atoi(c), atoi(rev))
		}
		return Case{fn, []string{c, rev, encList(ls)}}, true
	}
	return Case{}, false
}

// exhaustiveMore: the new sub-commands on one list of the small scope.
func exhaustiveMore(l []int, preds, classes []string, add func(Case)) {
	I := strconv.Itoa
	n := len(l)
	el := encList(l)
	add(Case{"clear", []string{el}})
	add(Case{"setfromslice", []string{el}})
	for _, cp := range []int{n, n + 1, n + 3} {
		add(Case{"clone", []string{el, I(cp)}})
		add(Case{"compact", []string{el, I(cp)}})
		add(Case{"compactinplace", []string{el, I(cp)}})
		for _, cl := range classes {
			add(Case{"compactfunc", []string{el, I(cp), cl}})
			add(Case{"compactinplacefunc", []string{el, I(cp), cl}})
		}
		for _, p := range preds {
			add(Case{"filter", []string{el, I(cp), p}})
			add(Case{"filterinplace", []string{el, I(cp), p}})
		}
		for k := -1; k <= 4; k++ {
			add(Case{"grow", []string{el, I(cp), I(k)}})
		}
		for idx := -1; idx <= n+1; idx++ {
			for _, v := range []string{"-", "91", "91,92", "91,92,93,94"} {
				add(Case{"insert", []string{el, I(cp), I(idx), v}})
			}
			for k := -1; k <= n+1; k++ {
				add(Case{"remove", []string{el, I(cp), I(idx), I(k)}})
			}
		}
	}
	for _, p := range preds {
		for _, fn := range []string{"all", "any", "countfunc", "lastindexfunc", "indexfunc"} {
			add(Case{fn, []string{el, p}})
		}
	}
	for _, cl := range classes {
		add(Case{"group", []string{el, cl}})
	}
	for x := 0; x <= 4; x++ {
		for _, fn := range []string{"count", "fill", "lastindex", "index"} {
			add(Case{fn, []string{el, I(x)}})
		}
		if eqInts(sortedSet(l), l) { // a set is a duplicate-free list
			for _, fn := range []string{"setadd", "setremove", "setcontains"} {
				add(Case{fn, []string{el, I(x)}})
			}
		}
	}
	for k := -1; k <= 2; k++ {
		add(Case{"map", []string{el, I(k)}})
		add(Case{"reduce", []string{el, I(k)}})
	}
	for c := 1; c <= 3; c++ {
		for rev := 0; rev <= 1; rev++ {
			for _, fn := range []string{"sortslice", "slicestable", "sliceissorted"} {
				add(Case{fn, []string{I(c), I(rev), el}})
			}
		}
	}
	// Equal / EqualFunc against every list obtained by one edit, Join of every split in three
	add(Case{"equal", []string{el, el}})
	for i := 0; i <= n; i++ {
		for s := 1; s <= 3; s++ {
			ins := append(append(clone(l[:i]), s), l[i:]...)
			add(Case{"equal", []string{el, encList(ins)}})
			add(Case{"equal", []string{encList(ins), el}})
			if i < n {
				sub := clone(l)
				sub[i] = s
				add(Case{"equal", []string{el, encList(sub)}})
				for _, cl := range classes {
					add(Case{"equalfunc", []string{el, encList(sub), cl}})
				}
			}
		}
		for j := i; j <= n; j++ {
			add(Case{"join", []string{encLL([][]int{l[:i], l[i:j], l[j:]})}})
		}
	}
	add(Case{"join", []string{encLL([][]int{l})}})
}

func exhaustiveMoreScalars(maxLen int, add func(Case)) {
	I := strconv.Itoa
	add(Case{"join", []string{"~"}})
	for x := -3; x <= 3; x++ {
		for y := -3; y <= 3; y++ {
			add(Case{"orderedless", []string{I(x), I(y)}})
			add(Case{"min", []string{I(x), I(y)}})
			add(Case{"max", []string{I(x), I(y)}})
		}
		for n := -2; n <= maxLen+1; n++ {
			add(Case{"repeat", []string{I(x), I(n)}})
		}
	}
	for c := 1; c <= 3; c++ {
		for rev := 0; rev <= 1; rev++ {
			for a := 0; a <= 6; a++ {
				for b := 0; b <= 6; b++ {
					add(Case{"sortreverse", []string{I(c), I(rev), I(a), I(b)}})
				}
			}
		}
	}
}
