package main

// xerrors.WithStack: "returns an error that wraps err and adds the call stack of the call to WithStack to
// Error()" (fix9b). *The* call stack: every frame from the caller of WithStack outwards - the implementation
// itself says so by collecting the stack in as many windows of 64 program counters as it takes. Sub-command
// `wsdepth <depth>` calls WithStack at the bottom of a recursion of that many frames of a function the
// compiler may not inline, and compares the function names listed by Error() with an independent reference:
// runtime.Callers with one buffer large enough for the whole stack, taken in the very same frame (skip 1
// there = skip 2 inside WithStack: the frame that called WithStack first). Monitor only: the Lean model of
// WithStack is about the error chain (wraps / nil / idempotent / Unwrap / Is / As), it defines no stack.
//
// Deterministic; the clauses: Error() starts with the inner message; it lists exactly `depth` frames of the
// recursive helper (kind xerrors-withstack-stack-frames) and, frame by frame, the functions of the
// reference stack (xerrors-withstack-stack-differs).

import (
	"errors"
	"fmt"
	"runtime"
	"strconv"
	"strings"

	"github.com/bradenaw/juniper/xerrors"
	"verifharness/vlib"
)

type stackCapture struct {
	w   error
	ref []string
}

var stackSink int

//go:noinline
func wsDescend(n int, e error, out *stackCapture) {
	if n <= 1 {
		out.w = xerrors.WithStack(e)
		var buf [4096]uintptr
		k := runtime.Callers(1, buf[:])
		frames := runtime.CallersFrames(buf[:k])
		for {
			fr, more := frames.Next()
			out.ref = append(out.ref, fr.Function)
			if !more {
				break
			}
		}
		stackSink += k
		return
	}
	wsDescend(n-1, e, out)
	stackSink++ // something left to do after the call: the recursion keeps its frames
}

// stackFunctions: the function names Error() lists after the inner message.
func stackFunctions(msg, inner string) ([]string, bool) {
	if !strings.HasPrefix(msg, inner+"\n\n") {
		return nil, false
	}
	var out []string
	lines := strings.Split(strings.TrimSuffix(msg[len(inner)+2:], "\n"), "\n")
	for i := 0; i+1 < len(lines); i += 2 {
		out = append(out, strings.TrimSuffix(lines[i], "(...)"))
	}
	return out, true
}

func monitorStackDepth(c Case) (string, string, P) {
	depth := atoi(c.Args[0])
	if depth < 1 || depth > 3000 {
		return "", "", nil
	}
	fail := func(k string, f string, args ...interface{}) (string, string, P) {
		return k, c.Line() + ": " + fmt.Sprintf(f, args...), P{"deeper_than_one_window": depth > 64}
	}
	var cap stackCapture
	inner := errors.New("inner message")
	// in a goroutine of its own: the frames outside the recursion are the same wherever the monitor is called
	// from (run, shrinking, replay), so a case says the same thing every time
	var pan bool
	var pv interface{}
	done := make(chan struct{})
	go func() {
		defer close(done)
		pan, pv = vlib.Try(func() { wsDescend(depth, inner, &cap) })
	}()
	<-done
	if pan {
		return fail("xerrors-withstack-panic", "WithStack called %d frames deep panicked: %v", depth, pv)
	}
	if cap.w == nil {
		return fail("xerrors-withstack-nil", "WithStack(non-nil) = nil")
	}
	got, ok := stackFunctions(cap.w.Error(), inner.Error())
	if !ok {
		return fail("xerrors-withstack-message", "Error() does not start with the inner message followed by an empty line")
	}
	self := ""
	if len(cap.ref) > 0 {
		self = cap.ref[0] // the recursive helper, as the runtime names it
	}
	count := func(l []string) int {
		n := 0
		for _, f := range l {
			if f == self {
				n++
			}
		}
		return n
	}
	if count(cap.ref) != depth {
		return "", "", nil // the reference itself does not see the recursion as built: no verdict
	}
	if n := count(got); n != depth {
		return fail("xerrors-withstack-stack-frames", "WithStack was called at the bottom of %d nested calls of %s; Error() lists %d frames of it (%d frames in all, the stack has %d)",
			depth, self, n, len(got), len(cap.ref))
	}
	for i := range cap.ref {
		if i >= len(got) || got[i] != cap.ref[i] {
			have := "nothing"
			if i < len(got) {
				have = got[i]
			}
			return fail("xerrors-withstack-stack-differs", "WithStack was called at the bottom of %d nested calls of %s; frame %d of the call stack is %s, Error() lists %s there (%d frames listed, the stack has %d)",
				depth, self, i, cap.ref[i], have, len(got), len(cap.ref))
		}
	}
	if len(got) != len(cap.ref) {
		return fail("xerrors-withstack-stack-differs", "Error() lists %d frames, the call stack has %d (the first extra one: %s)", len(got), len(cap.ref), got[len(cap.ref)])
	}
	return "", "", nil
}

// stackSweep: every depth around the window boundaries and beyond; quick and thorough alike (cheap).
func stackSweep() []Case {
	var out []Case
	for d := 1; d <= 300; d++ {
		out = append(out, Case{"wsdepth", []string{strconv.Itoa(d)}})
	}
	for _, d := range []int{383, 384, 385, 500, 511, 512, 513, 1000, 2000} {
		out = append(out, Case{"wsdepth", []string{strconv.Itoa(d)}})
	}
	return out
}
