package main

// Property monitors: each encodes the documentation text of one helper against independent
// reference code. A clause the documentation leaves open is left open (no check).

import (
	"errors"
	"fmt"
	"sort"
	"strings"

	"github.com/bradenaw/juniper/iterator"
	"github.com/bradenaw/juniper/xerrors"
	"github.com/bradenaw/juniper/xmaps"
	"github.com/bradenaw/juniper/xmath"
	"github.com/bradenaw/juniper/xslices"
	"github.com/bradenaw/juniper/xsort"
	"verifharness/vlib"
)

type P = map[string]interface{}

func multisetEq(a, b []int) bool { return eqInts(sortedCopy(a), sortedCopy(b)) }

// monitor returns ("", "", nil) or the kind / description / parameters of the violated clause.
func monitor(c Case) (kind, what string, params P) {
	defer func() {
		if r := recover(); r != nil {
			kind, what, params = "harness-monitor-panic-"+c.Fn, fmt.Sprint(r), nil
		}
	}()
	a := c.Args
	fail := func(k, f string, args ...interface{}) (string, string, P) {
		return k, c.Line() + ": " + fmt.Sprintf(f, args...), nil
	}
	switch c.Fn {
	case "chunk":
		n, size := atoi(a[0]), atoi(a[1])
		s := make([]int, n)
		for i := range s {
			s[i] = i + 1
		}
		var out [][]int
		pan, _ := vlib.Try(func() { out = xslices.Chunk(s, size) })
		if size <= 0 {
			if !pan {
				return "xslices-chunk-negative-size-no-panic", fmt.Sprintf("xslices.Chunk(len %d, chunkSize %d) returned %v; documented: panics if chunkSize <= 0", n, size, out), nil
			}
			return
		}
		if pan {
			return fail("xslices-chunk-unexpected-panic", "panicked for a positive chunkSize")
		}
		var cat []int
		for i, ch := range out {
			cat = append(cat, ch...)
			if i < len(out)-1 && len(ch) != size {
				return fail("xslices-chunk-sizes", "chunk %d has length %d, want %d", i, len(ch), size)
			}
			if len(ch) == 0 || len(ch) > size {
				return fail("xslices-chunk-sizes", "chunk %d has length %d", i, len(ch))
			}
		}
		if !eqInts(cat, s) {
			return fail("xslices-chunk-concat", "chunks concatenate to %v", cat)
		}
		if n == 0 && len(out) != 0 {
			return fail("xslices-chunk-empty", "non-empty result for an empty slice")
		}
	case "chunkz":
		// Chunk on a slice of zero-size elements with an extreme length: same documentation
		n, size := atoi(a[0]), atoi(a[1])
		if n < 0 || size < 1<<60 {
			return
		}
		s := make([]struct{}, n)
		var out [][]struct{}
		if pan, v := vlib.Try(func() { out = xslices.Chunk(s, size) }); pan {
			return fail("xslices-chunk-unexpected-panic", "len %d: panicked for a positive chunkSize: %v", n, v)
		}
		rest := n
		for i, ch := range out {
			if i < len(out)-1 && len(ch) != size {
				return fail("xslices-chunk-sizes", "chunk %d has length %d, want %d", i, len(ch), size)
			}
			if len(ch) == 0 || len(ch) > size || len(ch) > rest {
				return fail("xslices-chunk-sizes", "chunk %d has length %d", i, len(ch))
			}
			rest -= len(ch)
		}
		if rest != 0 {
			return fail("xslices-chunk-concat", "the chunk lengths add up to %d less than len(s) = %d", rest, n)
		}
	case "removeunordered":
		l, idx, n := decList(a[0]), atoi(a[1]), atoi(a[2])
		if idx < 0 || n < 0 || idx > len(l) || n > len(l)-idx { // (overflow-free form of idx+n > len)
			return // outside the documented domain
		}
		s := clone(l)
		var ret []int
		if pan, v := vlib.Try(func() { ret = xslices.RemoveUnordered(s, idx, n) }); pan {
			return fail("xslices-removeunordered-panic", "panicked: %v", v)
		}
		want := append(clone(l[:idx]), l[idx+n:]...)
		if len(ret) != len(l)-n || !multisetEq(ret, want) {
			return fail("xslices-removeunordered-contents", "returned %v, want a rearrangement of %v", ret, want)
		}
		if !eqInts(ret[:idx], l[:idx]) {
			return fail("xslices-removeunordered-prefix", "elements before idx changed: %v", ret)
		}
		// "moving up to n elements from the end of the slice into the gap": everything else stays put
		for p := idx + n; p < len(l)-n; p++ {
			if ret[p] != l[p] {
				return fail("xslices-removeunordered-moved-too-much", "element at %d moved: %v", p, ret)
			}
		}
		if len(ret) > 0 && dataPtr(ret) != dataPtr(s) {
			return fail("xslices-removeunordered-not-in-place", "result does not share s's array")
		}
	case "reverse":
		l := decList(a[0])
		s := clone(l)
		xslices.Reverse(s)
		for i := range l {
			if s[i] != l[len(l)-1-i] {
				return fail("xslices-reverse", "got %v", s)
			}
		}
	case "partition":
		l, t := decList(a[0]), decList(a[1])
		f := func(x int) bool { return tableAt(t, x) == 1 }
		s := clone(l)
		var r int
		if pan, v := vlib.Try(func() { r = xslices.Partition(s, f) }); pan {
			return fail("xslices-partition-panic", "panicked: %v", v)
		}
		if !multisetEq(s, l) {
			return fail("xslices-partition-not-permutation", "elements changed: %v", s)
		}
		if r < 0 || r > len(l) {
			return fail("xslices-partition-index", "returned %d", r)
		}
		for i, x := range s {
			if (i < r) == f(x) {
				return fail("xslices-partition-split", "returned %d but s=%v (f true at a prefix position or false at a suffix position)", r, s)
			}
		}
	case "unique", "uniqueinplace":
		l := decList(a[0])
		var want []int
		seen := map[int]bool{}
		for _, x := range l {
			if !seen[x] {
				seen[x] = true
				want = append(want, x)
			}
		}
		s := clone(l)
		var got []int
		if c.Fn == "unique" {
			got = xslices.Unique(s)
			if !eqInts(s, l) {
				return fail("xslices-unique-modifies-input", "input became %v", s)
			}
		} else {
			got = xslices.UniqueInPlace(s)
			if len(got) > 0 && dataPtr(got) != dataPtr(s) {
				return fail("xslices-uniqueinplace-not-in-place", "result does not share s's array")
			}
		}
		if !eqInts(got, want) {
			return fail("xslices-"+c.Fn+"-result", "got %v, want %v", got, want)
		}
	case "runs", "runsle":
		// "contiguous runs of elements from s such that same(a, b) returns true for any a and b in the run", same
		// reflexive and transitive (not necessarily symmetric: "runsle"). What is demanded below is the part of that
		// sentence that holds under every reading: same(a, b) for a at or before b in the run.
		l, t := decList(a[0]), decList(a[1])
		same := sameOf(c.Fn, t)
		s := clone(l)
		var runs [][]int
		if pan, v := vlib.Try(func() { runs = xslices.Runs(s, same) }); pan {
			return fail("xslices-runs-panic", "panicked: %v", v)
		}
		var cat []int
		for i, r := range runs {
			cat = append(cat, r...)
			if len(r) == 0 {
				return "xslices-runs-leading-singleton", fmt.Sprintf("xslices.Runs(%v) = %v: run %d is empty", l, runs, i), nil
			}
			for xi, x := range r {
				for _, y := range r[xi:] {
					if !same(x, y) || (c.Fn == "runs" && !same(y, x)) {
						return fail("xslices-runs-not-same", "run %v holds %d before %d which are not the same", r, x, y)
					}
				}
			}
			if i > 0 && same(runs[i-1][len(runs[i-1])-1], r[0]) {
				return fail("xslices-runs-not-maximal", "runs %v and %v should be one run", runs[i-1], r)
			}
			if dataPtr(r) < dataPtr(s) || (len(s) > 0 && dataPtr(r) > dataPtr(s[len(s)-1:])) {
				return fail("xslices-runs-not-aliased", "run %d does not use s's underlying array", i)
			}
		}
		if !eqInts(cat, l) {
			return "xslices-runs-leading-singleton", fmt.Sprintf("xslices.Runs(%v) = %v: the runs do not concatenate to s", l, runs), nil
		}
	case "shrink":
		l, cp, n := decList(a[0]), atoi(a[1]), atoi(a[2])
		if n < 0 || cp < len(l) {
			return
		}
		s := make([]int, len(l), cp)
		copy(s, l)
		var r []int
		if pan, v := vlib.Try(func() { r = xslices.Shrink(s, n) }); pan {
			return fail("xslices-shrink-panic", "panicked: %v", v)
		}
		if !eqInts(r, l) {
			return fail("xslices-shrink-contents", "contents %v", r)
		}
		// "so that cap(s) <= len(s) + n", in the integers: cap - len <= n (no overflow: 0 <= len <= cap)
		if cap(r)-len(l) > n {
			return fail("xslices-shrink-cap", "cap %d > len+n", cap(r))
		}
		if cp-len(l) <= n && (cap(r) != cp || dataPtr(r) != dataPtr(s)) {
			return fail("xslices-shrink-needless-realloc", "reallocated although cap(s) <= len(s)+n")
		}
	case "search":
		l, cc, rev, item := decList(a[0]), atoi(a[1]), atoi(a[2]), atoi(a[3])
		less := lessOf(cc, rev)
		if !sort.SliceIsSorted(l, func(i, j int) bool { return less(l[i], l[j]) }) {
			return
		}
		r := xsort.Search(l, less, item)
		if r < 0 || r > len(l) {
			return fail("xsort-search-range", "returned %d", r)
		}
		present := false
		for _, x := range l {
			if !less(x, item) && !less(item, x) {
				present = true
			}
		}
		if present {
			if r == len(l) || less(l[r], item) || less(item, l[r]) {
				return fail("xsort-search-present", "returned %d, which does not hold an item equal to %d", r, item)
			}
		}
		for i, x := range l {
			if i < r && less(item, x) || i >= r && less(x, item) {
				return fail("xsort-search-insertion-point", "returned %d: inserting there breaks the order", r)
			}
		}
		// the index is the lower bound: the position of the first element that is not less than item, i.e.
		// the earliest of the items equal to it (Search is sort.Search over "item <= x[i]", and its
		// documentation declares slices.BinarySearchFunc - "the earliest position" - its replacement)
		lb := len(l)
		for i, x := range l {
			if !less(x, item) {
				lb = i
				break
			}
		}
		if r != lb {
			return "xsort-search-not-lower-bound", fmt.Sprintf("%s: returned %d, the first position whose element is not less than %d is %d (of several equal items Search returns the earliest)", c.Line(), r, item, lb), P{"tie_run_at_tail": lb < len(l)-1 && !less(item, l[len(l)-1])}
		}
	case "lesscompare":
		lab, lba := a[0] == "1", a[1] == "1"
		if lab && lba {
			return // not a strict order
		}
		less := func(x, y int) bool {
			if x == 1 && y == 2 {
				return lab
			}
			if x == 2 && y == 1 {
				return lba
			}
			return false
		}
		got := xsort.LessCompare[int](less)(1, 2)
		if (got < 0) != lab || (got > 0) != lba {
			return fail("xsort-lesscompare", "compare = %d", got)
		}
	case "merge", "mergeslices":
		cc, rev := atoi(a[0]), atoi(a[1])
		less := lessOf(cc, rev)
		var ll [][]int
		if c.Fn == "merge" {
			ll = decLL(a[2])
		} else {
			ll = decLL(a[3])
		}
		var all []int
		for _, l := range ll {
			if !sort.SliceIsSorted(l, func(i, j int) bool { return less(l[i], l[j]) }) {
				return
			}
			all = append(all, l...)
		}
		var out []int
		if c.Fn == "merge" {
			its := make([]iterator.Iterator[int], len(ll))
			for i := range ll {
				its[i] = iterator.Slice(clone(ll[i]))
			}
			var it iterator.Iterator[int]
			if pan, v := vlib.Try(func() { it = xsort.Merge(less, its...); out = iterator.Collect(it) }); pan {
				return fail("xsort-merge-panic", "panicked: %v", v)
			}
			if _, ok := it.Next(); ok {
				return fail("xsort-merge-not-sticky", "Next after the end returned an item")
			}
		} else {
			in := make([][]int, len(ll))
			for i := range ll {
				in[i] = clone(ll[i])
			}
			oc := atoi(a[2])
			var o []int
			if oc >= 0 {
				o = make([]int, oc/2, oc)
			}
			if pan, v := vlib.Try(func() { out = xsort.MergeSlices(less, o, in...) }); pan {
				return fail("xsort-mergeslices-panic", "panicked: %v", v)
			}
			for i := range ll {
				if !eqInts(in[i], ll[i]) {
					return fail("xsort-mergeslices-modifies-input", "input %d became %v", i, in[i])
				}
			}
			if oc >= len(all) && len(all) > 0 && dataPtr(out) != dataPtr(o) {
				return fail("xsort-mergeslices-ignores-out", "the pre-allocated out slice (cap %d >= %d) was not used", oc, len(all))
			}
		}
		if !multisetEq(out, all) {
			return fail("xsort-"+c.Fn+"-items", "yields %v, inputs hold %v", out, all)
		}
		if !sort.SliceIsSorted(out, func(i, j int) bool { return less(out[i], out[j]) }) {
			return fail("xsort-"+c.Fn+"-order", "output %v is not sorted", out)
		}
	case "mink":
		cc, rev, k, l := atoi(a[0]), atoi(a[1]), atoi(a[2]), decList(a[3])
		if k < 0 {
			return
		}
		less := lessOf(cc, rev)
		var out []int
		if pan, v := vlib.Try(func() { out = xsort.MinK(less, iterator.Slice(clone(l)), k) }); pan {
			return fail("xsort-mink-panic", "panicked: %v", v)
		}
		want := k
		if len(l) < k {
			want = len(l)
		}
		if len(out) != want {
			return fail("xsort-mink-count", "returned %d items, want %d", len(out), want)
		}
		if !sort.SliceIsSorted(out, func(i, j int) bool { return less(out[i], out[j]) }) {
			return fail("xsort-mink-order", "output %v is not sorted", out)
		}
		rest := clone(l)
		for _, x := range out {
			found := false
			for i, y := range rest {
				if x == y {
					rest = append(rest[:i], rest[i+1:]...)
					found = true
					break
				}
			}
			if !found {
				return fail("xsort-mink-foreign", "output %v is not a sub-multiset of the input", out)
			}
		}
		for _, x := range out {
			for _, y := range rest {
				if less(y, x) {
					return fail("xsort-mink-not-minimal", "%d was left out although it is less than %d", y, x)
				}
			}
		}
	case "union", "intersection", "intersects":
		ll := decLL(a[0])
		sets := setsOf(ll)
		count := map[int]int{}
		for _, s := range sets {
			for k := range s {
				count[k]++
			}
		}
		var want []int
		for k, n := range count {
			if c.Fn == "union" || (n == len(sets) && len(sets) > 0) {
				want = append(want, k)
			}
		}
		sort.Ints(want)
		switch c.Fn {
		case "union":
			if got := setList(xmaps.Union(sets...)); !eqInts(got, want) {
				return fail("xmaps-union", "got %v, want %v", got, want)
			}
		case "intersection":
			if got := setList(xmaps.Intersection(sets...)); !eqInts(got, want) {
				return fail("xmaps-intersection", "got %v, want %v", got, want)
			}
		case "intersects":
			if got := xmaps.Intersects(sets...); got != (len(want) > 0) {
				return fail("xmaps-intersects", "got %v, common elements %v", got, want)
			}
		}
		for i, s := range sets {
			if !eqInts(setList(s), sortedSet(ll[i])) {
				return fail("xmaps-"+c.Fn+"-modifies-input", "input set %d became %v", i, setList(s))
			}
		}
	case "difference":
		x, y := decList(a[0]), decList(a[1])
		var want []int
		for _, k := range sortedSet(x) {
			in := false
			for _, j := range y {
				if j == k {
					in = true
				}
			}
			if !in {
				want = append(want, k)
			}
		}
		if got := setList(xmaps.Difference(xmaps.SetFromSlice(x), xmaps.SetFromSlice(y))); !eqInts(got, want) {
			return fail("xmaps-difference", "got %v, want %v", got, want)
		}
	case "mapreverse":
		m := mapOf(decList(a[0]), decList(a[1]))
		r := xmaps.Reverse(m)
		n := 0
		for v, ks := range r {
			n += len(ks)
			if len(ks) == 0 {
				return fail("xmaps-reverse", "empty key list for value %d", v)
			}
			for _, k := range ks {
				if mv, ok := m[k]; !ok || mv != v {
					return fail("xmaps-reverse", "key %d listed under value %d", k, v)
				}
			}
			if len(sortedSet(ks)) != len(ks) {
				return fail("xmaps-reverse", "duplicate keys under value %d: %v", v, ks)
			}
		}
		if n != len(m) {
			return fail("xmaps-reverse", "%d keys listed, map has %d", n, len(m))
		}
	case "reversesingle":
		m := mapOf(decList(a[0]), decList(a[1]))
		r, ok := xmaps.ReverseSingle(m)
		vals := map[int]int{}
		for _, v := range m {
			vals[v]++
		}
		if ok != (len(vals) == len(m)) {
			return fail("xmaps-reversesingle-flag", "ok=%v but %d keys map to %d distinct values", ok, len(m), len(vals))
		}
		if len(r) != len(vals) {
			return fail("xmaps-reversesingle", "result has %d entries for %d distinct values", len(r), len(vals))
		}
		for v, k := range r {
			if mv, in := m[k]; !in || mv != v {
				return fail("xmaps-reversesingle", "value %d mapped to key %d", v, k)
			}
		}
	case "toindex":
		ks := decList(a[0])
		m := xmaps.ToIndex(ks)
		if len(m) != len(sortedSet(ks)) {
			return fail("xmaps-toindex", "result has %d entries", len(m))
		}
		for k, i := range m {
			if i < 0 || i >= len(ks) || ks[i] != k {
				return fail("xmaps-toindex", "key %d mapped to %d", k, i)
			}
		}
	case "fromkv":
		ks, vs := decList(a[0]), decList(a[1])
		var m map[int]int
		var ok bool
		pan, _ := vlib.Try(func() { m, ok = xmaps.FromKeysAndValues(ks, vs) })
		if len(ks) != len(vs) {
			if !pan {
				return fail("xmaps-fromkv-no-panic", "no panic although len(keys) != len(values)")
			}
			return
		}
		if pan {
			return fail("xmaps-fromkv-panic", "panicked for equally long inputs")
		}
		if ok != (len(sortedSet(ks)) == len(ks)) {
			return fail("xmaps-fromkv-flag", "ok=%v for keys %v", ok, ks)
		}
		if len(m) != len(sortedSet(ks)) {
			return fail("xmaps-fromkv", "result has %d entries", len(m))
		}
		for k, v := range m {
			found := false
			for i := range ks {
				if ks[i] == k && vs[i] == v {
					found = true
				}
			}
			if !found {
				return fail("xmaps-fromkv", "%d mapped to %d", k, v)
			}
		}
	case "abs":
		w, x := atoi(a[0]), int64(atoi(a[1]))
		min := -(int64(1) << (w - 1))
		var got int64
		pan, _ := vlib.Try(func() {
			switch w {
			case 8:
				got = int64(xmath.Abs(int8(x)))
			case 16:
				got = int64(xmath.Abs(int16(x)))
			case 32:
				got = int64(xmath.Abs(int32(x)))
			default:
				got = xmath.Abs(x)
			}
		})
		if x < min || x > -(min+1) {
			return
		}
		if x == min {
			if !pan {
				return fail("xmath-abs-no-panic", "Abs of the minimum value returned %d", got)
			}
			return
		}
		want := x
		if x < 0 {
			want = -x
		}
		if pan || got != want {
			return fail("xmath-abs", "got %d (panic=%v), want %d", got, pan, want)
		}
	case "clamp":
		x, lo, hi := atoi(a[0]), atoi(a[1]), atoi(a[2])
		if lo > hi {
			return
		}
		got := xmath.Clamp(x, lo, hi)
		want := x
		if x < lo {
			want = lo
		}
		if x > hi {
			want = hi
		}
		if got != want {
			return fail("xmath-clamp", "got %d, want %d", got, want)
		}
	case "withstack", "wsws", "wsunwrap", "wsis", "wsas":
		return monitorWithStack(c)
	case "extras":
		return tryExtras(c)
	case "wsdepth":
		return monitorStackDepth(c)
	default:
		return monitorMore(c)
	}
	return "", "", nil
}

func stackDepth(e error) int {
	n := 0
	for d := 0; e != nil && d < 64; d++ {
		if reflect_TypeOf(e) == stackType {
			n++
		}
		e = errors.Unwrap(e)
	}
	return n
}

// monitorWithStack: "If err is nil or already has a stack attached, returns err"; the result wraps
// err (Unwrap), and is transparent to errors.Is / errors.As.
func monitorWithStack(c Case) (string, string, P) {
	enc := c.Args[0]
	e := buildErr(enc)
	fail := func(k string, params P, f string, args ...interface{}) (string, string, P) {
		return k, c.Line() + ": " + fmt.Sprintf(f, args...), params
	}
	var w error
	if pan, v := vlib.Try(func() { w = xerrors.WithStack(e) }); pan {
		return fail("xerrors-withstack-panic", nil, "panicked: %v", v)
	}
	if e == nil {
		if w != nil {
			return fail("xerrors-withstack-nil", nil, "WithStack(nil) = %v", w)
		}
		return "", "", nil
	}
	if w == nil {
		return fail("xerrors-withstack-nil", nil, "WithStack(non-nil) = nil")
	}
	had := stackDepth(e)
	switch c.Fn {
	case "withstack", "wsws":
		// idempotent: an error that already has a stack attached comes back unchanged
		if had > 0 && showErr(w) != showErr(e) {
			return fail("xerrors-withstack-wraps-twice", nil,
				"err already has a stack attached (%s) but WithStack returned %s", showErr(e), showErr(w))
		}
		if had == 0 && (stackDepth(w) != 1 || showErr(w) != "s."+showErr(e)) {
			return fail("xerrors-withstack-no-stack", nil, "WithStack(%s) = %s", showErr(e), showErr(w))
		}
		ww := xerrors.WithStack(w)
		if showErr(ww) != showErr(w) {
			return fail("xerrors-withstack-wraps-twice", nil,
				"WithStack(WithStack(%s)) = %s, WithStack(%s) = %s", enc, showErr(ww), enc, showErr(w))
		}
		if !strings.HasPrefix(w.Error(), e.Error()) {
			return fail("xerrors-withstack-message", nil, "Error() %q does not start with the inner message", w.Error())
		}
	case "wsunwrap":
		if had == 0 {
			u := errors.Unwrap(w)
			if showErr(u) != showErr(e) {
				return fail("xerrors-withstack-unwrap", nil, "Unwrap(WithStack(e)) = %s", showErr(u))
			}
		}
	case "wsis":
		t := buildErr(c.Args[1])
		if errors.Is(w, t) != errors.Is(e, t) {
			return fail("xerrors-withstack-is", nil, "errors.Is(WithStack(e), t) = %v, errors.Is(e, t) = %v", errors.Is(w, t), errors.Is(e, t))
		}
		// through a second application as well
		if ww := xerrors.WithStack(w); errors.Is(ww, t) != errors.Is(e, t) {
			return fail("xerrors-withstack-is", nil, "errors.Is(WithStack(WithStack(e)), t) differs")
		}
	case "wsas":
		ty := c.Args[1]
		if ty == "s" {
			return "", "", nil
		}
		if errAs(w, ty) != errAs(e, ty) {
			return fail("xerrors-withstack-as", nil, "errors.As through WithStack finds %s, without %s", errAs(w, ty), errAs(e, ty))
		}
	}
	return "", "", nil
}
