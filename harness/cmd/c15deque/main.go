// C15 (deque half): Deque.Iterate is snapshot-or-panic.
//
// A scenario is a list of protocol lines: deque calls (as in C04), `iter` (make an iterator) and
// `next k` (advance iterator k). Monitor: the property's clauses checked on the real Deque[*int]
// against a snapshot taken by the harness when the iterator is made. Correspondence: the same lines
// run on the Lean model (`driver deque`), raw ring state included.
//
// Clauses (kinds are prefixed c15-deque-):
//
//	wrong-item          an item that is not the next element of the snapshot
//	extra-item          an item after the whole snapshot (or after "exhausted")
//	early-exhaustion    "exhausted" before the whole snapshot has been yielded
//	unchanged-panic     a panic although nothing but reads happened since the iterator was made
//	no-panic-after-add-remove   iteration under way (>= 1 Next), an element added/removed, next call returns
//
// Grow and Shrink do not change the contents: continuing correctly and panicking are both accepted
// (DESIGN 8a); what is never accepted is a silently wrong item or a silent early end.
package main

import (
	"fmt"
	"os"
	"strconv"
	"strings"
	"time"

	"github.com/bradenaw/juniper/container/deque"
	"github.com/bradenaw/juniper/iterator"
	"verifharness/vlib"
)

func showPtr(p *int) string {
	if p == nil {
		return "nil"
	}
	return strconv.Itoa(*p)
}

func box(v int) *int { return &v }

func showState(d *deque.Deque[*int]) string {
	isNil, c, f, b, g := d.VerifState()
	sl := d.VerifSlots()
	parts := make([]string, len(sl))
	for i, p := range sl {
		if p == nil {
			parts[i] = "_"
		} else {
			parts[i] = strconv.Itoa(*p)
		}
	}
	n := 0
	if isNil {
		n = 1
	}
	return fmt.Sprintf("state nil=%d cap=%d front=%d back=%d gen=%d slots=%s", n, c, f, b, g, strings.Join(parts, ","))
}

type impl struct {
	d   deque.Deque[*int]
	its []iterator.Iterator[*int]
}

func atoi(f []string, i int) int {
	if i < len(f) {
		v, _ := strconv.Atoi(f[i])
		return v
	}
	return 0
}

// apply executes one protocol line on the real deque and returns the protocol output.
func (s *impl) apply(line string) string {
	f := strings.Fields(line)
	if len(f) == 0 {
		return "bad-op"
	}
	out := "bad-op"
	p, _ := vlib.Try(func() {
		switch f[0] {
		case "pushfront":
			if len(f) == 2 {
				s.d.PushFront(box(atoi(f, 1)))
				out = "ok"
			}
		case "pushback":
			if len(f) == 2 {
				s.d.PushBack(box(atoi(f, 1)))
				out = "ok"
			}
		case "popfront":
			out = showPtr(s.d.PopFront())
		case "popback":
			out = showPtr(s.d.PopBack())
		case "front":
			out = showPtr(s.d.Front())
		case "back":
			out = showPtr(s.d.Back())
		case "item":
			if len(f) == 2 {
				out = showPtr(s.d.Item(atoi(f, 1)))
			}
		case "set":
			if len(f) == 3 {
				s.d.Set(atoi(f, 1), box(atoi(f, 2)))
				out = "ok"
			}
		case "grow":
			if len(f) == 2 {
				s.d.Grow(atoi(f, 1))
				out = "ok"
			}
		case "shrink":
			if len(f) == 2 {
				s.d.Shrink(atoi(f, 1))
				out = "ok"
			}
		case "len":
			out = strconv.Itoa(s.d.Len())
		case "state":
			out = showState(&s.d)
		case "iter":
			s.its = append(s.its, s.d.Iterate())
			out = fmt.Sprintf("iter %d", len(s.its)-1)
		case "next":
			k := atoi(f, 1)
			if len(f) == 2 && k >= 0 && k < len(s.its) {
				v, ok := s.its[k].Next()
				if ok {
					out = showPtr(v)
				} else {
					out = "end"
				}
			}
		}
	})
	if p {
		return "panic"
	}
	return out
}

// withState interleaves `state` lines so that the correspondence is state-level.
func withState(ls []string) []string {
	out := make([]string, 0, 2*len(ls))
	for _, l := range ls {
		out = append(out, l, "state")
	}
	return out
}

func runImpl(ls []string) []string {
	var s impl
	out := make([]string, 0, len(ls))
	for _, l := range ls {
		out = append(out, s.apply(l))
	}
	return out
}

// ---------------------------------------------------------------------------------------------
// monitor

type itState struct {
	snapshot []int
	yielded  int
	ended    bool
	underWay bool   // at least one Next call so far
	touched  string // first successful non-read call since the iterator was made ("" = none)
	mustPan  string // add/remove that happened while under way ("" = none)
}

type verdict struct {
	kind, what string
	params     map[string]interface{}
	at         int
}

func posClass(y, n int) string {
	switch {
	case y == 0:
		return "start"
	case y >= n:
		return "end"
	}
	return "mid"
}

// monitor checks the clauses of C15 for every iterator of the scenario; first violation wins.
func monitor(ls []string) *verdict {
	var s impl
	var ref []int
	var its []*itState
	for idx, line := range ls {
		f := strings.Fields(line)
		if len(f) == 0 {
			continue
		}
		got := s.apply(line)
		if got == "bad-op" {
			continue
		}
		name := f[0]
		mutated := "" // successful call that may invalidate iterators
		addrem := false
		if got != "panic" {
			switch name {
			case "pushfront":
				ref = append([]int{atoi(f, 1)}, ref...)
				mutated, addrem = name, true
			case "pushback":
				ref = append(append([]int{}, ref...), atoi(f, 1))
				mutated, addrem = name, true
			case "popfront":
				if len(ref) > 0 { // (a pop of an empty deque that does not panic is C04's business)
					ref = append([]int{}, ref[1:]...)
					mutated, addrem = name, true
				}
			case "popback":
				if len(ref) > 0 {
					ref = append([]int{}, ref[:len(ref)-1]...)
					mutated, addrem = name, true
				}
			case "set":
				if i := atoi(f, 1); i >= 0 && i < len(ref) {
					ref = append([]int{}, ref...)
					ref[i] = atoi(f, 2)
					mutated = name
				}
			case "grow", "shrink":
				mutated = name
			}
		}
		if mutated != "" {
			for _, it := range its {
				if it.touched == "" {
					it.touched = mutated
				}
				if addrem && it.underWay && it.mustPan == "" {
					it.mustPan = mutated
				}
			}
		}
		switch name {
		case "iter":
			its = append(its, &itState{snapshot: append([]int{}, ref...)})
		case "next":
			k := atoi(f, 1)
			it := its[k]
			n := len(it.snapshot)
			par := func(op string) map[string]interface{} {
				if op == "" {
					op = "none"
				}
				return map[string]interface{}{"op": op, "pos": posClass(it.yielded, n)}
			}
			fail := func(kind, what string, op string) *verdict {
				return &verdict{kind: "c15-deque-" + kind, params: par(op), at: idx,
					what: fmt.Sprintf("line %d %q: %s (snapshot %v, %d item(s) yielded so far, calls since Iterate: first mutator %q)",
						idx, line, what, it.snapshot, it.yielded, it.touched)}
			}
			switch got {
			case "panic":
				if it.touched == "" {
					return fail("unchanged-panic", "Next panicked although the deque was not modified", "")
				}
			case "end":
				if it.mustPan != "" {
					return fail("no-panic-after-add-remove", "Next reported exhaustion instead of panicking after "+it.mustPan, it.mustPan)
				}
				if it.yielded < n {
					return fail("early-exhaustion", "Next reported exhaustion before the whole snapshot was yielded", it.touched)
				}
				it.ended = true
			default:
				if it.mustPan != "" {
					return fail("no-panic-after-add-remove", "Next returned "+got+" instead of panicking after "+it.mustPan, it.mustPan)
				}
				if it.ended || it.yielded >= n {
					return fail("extra-item", "Next returned "+got+" after the whole snapshot", it.touched)
				}
				if got != strconv.Itoa(it.snapshot[it.yielded]) {
					return fail("wrong-item", fmt.Sprintf("Next returned %s, the snapshot's next element is %d", got, it.snapshot[it.yielded]), it.touched)
				}
				it.yielded++
			}
			it.underWay = true
		}
	}
	return nil
}

// ---------------------------------------------------------------------------------------------
// scenarios

type stateClass struct {
	name string
	ops  []string
	n    int // length
	vals []int
}

// stateClasses enumerates every container state class with len <= maxLen: unallocated; empty
// allocated (cap 16 and cap 0); cap 16 with every front offset (contiguous and wrapped windows);
// exact fit after Shrink(0) with every rotation (full, wrapped); one spare slot after Shrink(1)
// with every rotation.
func stateClasses(maxLen int) []stateClass {
	var out []stateClass
	out = append(out, stateClass{name: "nil"})
	out = append(out, stateClass{name: "empty-cap16", ops: []string{"pushback 1", "popfront"}})
	out = append(out, stateClass{name: "empty-cap0", ops: []string{"pushback 1", "popfront", "shrink 0"}})
	out = append(out, stateClass{name: "empty-grown", ops: []string{"grow 3"}})
	for n := 1; n <= maxLen; n++ {
		for f := 0; f < 16; f++ {
			// one element, rotate the front to f, then fill to n
			v := 100
			ops := []string{fmt.Sprintf("pushback %d", v)}
			vals := []int{v}
			for i := 0; i < f; i++ {
				v++
				ops = append(ops, fmt.Sprintf("pushback %d", v), "popfront")
				vals = append(vals[1:], v)
			}
			for len(vals) < n {
				v++
				ops = append(ops, fmt.Sprintf("pushback %d", v))
				vals = append(vals, v)
			}
			out = append(out, stateClass{name: fmt.Sprintf("cap16-front%d-len%d", f, n), ops: ops, n: n, vals: append([]int{}, vals...)})
		}
		for spare := 0; spare <= 1; spare++ {
			for r := 0; r < n+spare; r++ {
				v := 200
				var ops []string
				var vals []int
				for i := 0; i < n; i++ {
					v++
					ops = append(ops, fmt.Sprintf("pushback %d", v))
					vals = append(vals, v)
				}
				ops = append(ops, fmt.Sprintf("shrink %d", spare))
				for i := 0; i < r; i++ {
					v++
					ops = append(ops, "popfront", fmt.Sprintf("pushback %d", v))
					vals = append(vals[1:], v)
				}
				out = append(out, stateClass{name: fmt.Sprintf("fit%d-rot%d-len%d", spare, r, n), ops: ops, n: n, vals: append([]int{}, vals...)})
			}
		}
	}
	return out
}

// midOps lists every mid-iteration operation class for a deque of length n.
func midOps(n int) []string {
	ops := []string{"pushfront 900", "pushback 901", "popfront", "popback", "front", "back", "len",
		"item 0", "item -1", fmt.Sprintf("item %d", n), "set -1 902", fmt.Sprintf("set %d 903", n),
		"grow 0", "grow 1", "grow 12", "grow 17", "grow 100", "shrink -1", "shrink 0", "shrink 1", "shrink 100", "iter"}
	for i := 0; i < n; i++ {
		ops = append(ops, fmt.Sprintf("set %d %d", i, 910+i))
	}
	return ops
}

func scenario(sc stateClass, pos int, mid string, after int) []string {
	ls := append([]string{}, sc.ops...)
	ls = append(ls, "iter")
	for i := 0; i < pos; i++ {
		ls = append(ls, "next 0")
	}
	if mid != "" {
		ls = append(ls, mid)
	}
	for i := 0; i < after; i++ {
		ls = append(ls, "next 0")
	}
	return ls
}

func key(ls []string) string { return strings.Join(ls, ";") }

// largeScenarios: the size tier, run in every tier (quick too). One deque of 100..300 elements on a
// wrapped ring (pushes at both ends through every doubling, then a rotation), and for every class of
// mid-iteration call one scenario at a position inside the snapshot and one at a boundary position
// drawn from {0, 1, len-1, len, len+1},
// plus the unchanged drain. The enumeration stops at 5 elements and the random interleavings rarely
// exceed 40, so a change of the code guarded by `d.Len() > 64` is invisible to them.
func largeScenarios(r *vlib.Rand) [][]string {
	n := r.Range(100, 300)
	var pre []string
	val := 1000
	for i := 0; i < n; i++ {
		val++
		if r.Chance(1, 3) {
			pre = append(pre, fmt.Sprintf("pushfront %d", val))
		} else {
			pre = append(pre, fmt.Sprintf("pushback %d", val))
		}
	}
	for i := r.Range(10, 200); i > 0; i-- {
		val++
		pre = append(pre, fmt.Sprintf("pushback %d", val), "popfront")
	}
	sc := stateClass{name: "large", ops: pre, n: n}
	mids := []string{"pushfront 900", "pushback 901", "popfront", "popback", "front", "back", "len",
		"item 0", fmt.Sprintf("item %d", n-1), fmt.Sprintf("item %d", n), "set -1 902", fmt.Sprintf("set %d 903", n),
		"set 0 904", fmt.Sprintf("set %d 905", n-1), fmt.Sprintf("set %d 906", r.Intn(n)),
		"grow 0", "grow 1", fmt.Sprintf("grow %d", 2*n+300), "shrink -1", "shrink 0", "shrink 1", "shrink 10000", "iter"}
	var out [][]string
	out = append(out, scenario(sc, n+3, "", 0))
	for _, mid := range mids {
		// once well inside the snapshot (iteration certainly under way, not exhausted), once at a boundary
		out = append(out, scenario(sc, 1+r.Intn(n-1), mid, 3))
		pos := []int{0, 1, n - 1, n, n + 1}[r.Intn(5)]
		out = append(out, scenario(sc, pos, mid, 3))
	}
	return out
}

// genRandom: a random interleaving of deque calls and Next calls on up to three iterators.
func genRandom(r *vlib.Rand, res *vlib.Result) []string {
	var ls []string
	size, val, nit := 0, 0, 0
	mode := r.Intn(4)
	res.Count(fmt.Sprintf("random-mode-%d", mode))
	pre := 0
	switch mode {
	case 1:
		pre = []int{15, 16, 17, 31, 32, 33}[r.Intn(6)]
	case 2:
		pre = r.Range(1, 8)
	}
	for i := 0; i < pre; i++ {
		val++
		if mode == 2 && r.Bool() {
			ls = append(ls, fmt.Sprintf("pushfront %d", val))
		} else {
			ls = append(ls, fmt.Sprintf("pushback %d", val))
		}
		size++
	}
	if mode == 3 {
		k := r.Range(1, 6)
		for i := 0; i < k; i++ {
			val++
			ls = append(ls, fmt.Sprintf("pushback %d", val))
			size++
		}
		ls = append(ls, fmt.Sprintf("shrink %d", r.Intn(2)))
	}
	n := r.Range(4, 40)
	for i := 0; i < n; i++ {
		switch r.Pick(30, 8, 6, 6, 5, 5, 4, 3, 3, 6, 2) {
		case 0:
			if nit == 0 {
				ls = append(ls, "iter")
				nit++
			} else {
				ls = append(ls, fmt.Sprintf("next %d", r.Intn(nit)))
			}
		case 1:
			if nit < 3 {
				ls = append(ls, "iter")
				nit++
			}
		case 2:
			val++
			ls = append(ls, fmt.Sprintf("pushback %d", val))
			size++
		case 3:
			val++
			ls = append(ls, fmt.Sprintf("pushfront %d", val))
			size++
		case 4:
			ls = append(ls, "popfront")
			if size > 0 {
				size--
			}
		case 5:
			ls = append(ls, "popback")
			if size > 0 {
				size--
			}
		case 6:
			val++
			i := -1
			if size > 0 && !r.Chance(1, 8) {
				i = r.Intn(size)
			}
			ls = append(ls, fmt.Sprintf("set %d %d", i, val))
		case 7:
			ls = append(ls, fmt.Sprintf("grow %d", []int{0, 1, 16, 17, r.Intn(40)}[r.Intn(5)]))
		case 8:
			ls = append(ls, fmt.Sprintf("shrink %d", []int{0, 1, -1, r.Intn(20)}[r.Intn(4)]))
		case 9:
			ls = append(ls, []string{"front", "back", "len", fmt.Sprintf("item %d", r.Intn(size+1))}[r.Intn(4)])
		case 10:
			ls = append(ls, "len")
		}
	}
	for k := 0; k < nit; k++ {
		for i := 0; i < 3; i++ {
			ls = append(ls, fmt.Sprintf("next %d", k))
		}
	}
	return ls
}

// ---------------------------------------------------------------------------------------------

type checker struct {
	m   *vlib.Model
	res *vlib.Result
}

func at(a []string, i int) string {
	if i >= 0 && i < len(a) {
		return a[i]
	}
	return "<none>"
}

func (c *checker) monitorCase(ls []string) {
	v := monitor(ls)
	if v == nil {
		return
	}
	small := vlib.Shrink(ls, func(cand []string) bool {
		w := monitor(cand)
		return w != nil && w.kind == v.kind
	})
	if w := monitor(small); w != nil {
		v = w
	}
	c.res.Fail(vlib.Failure{Source: "monitor", Kind: v.kind, Params: v.params, What: v.what, Case: small})
}

func (c *checker) differs(ls []string) bool {
	mo, err := c.m.Run(withState(ls))
	return err == nil && vlib.FirstDiff(runImpl(withState(ls)), mo) >= 0
}

func (c *checker) reportDiff(ls []string) {
	small := vlib.Shrink(ls, c.differs)
	im := runImpl(withState(small))
	mo, _ := c.m.Run(withState(small))
	j := vlib.FirstDiff(im, mo)
	what := fmt.Sprintf("line %d %q: impl %q, model %q", j, at(withState(small), j), at(im, j), at(mo, j))
	c.res.Fail(vlib.Failure{Source: "correspondence", Kind: "c15-deque-model-differs", What: what, Case: small})
}

// withStateFrom: `state` lines only after the lines from index `from` on (the prefix that builds a large
// deque is compared by its return values; the raw ring is compared from the iterator's creation on).
func withStateFrom(ls []string, from int) []string {
	out := make([]string, 0, 2*len(ls))
	for i, l := range ls {
		out = append(out, l)
		if i >= from {
			out = append(out, "state")
		}
	}
	return out
}

// batch runs monitor + correspondence on a batch of scenarios (one exchange with the model).
func (c *checker) batch(cases [][]string) { c.batchFrom(cases, 0) }

func (c *checker) batchFrom(cases [][]string, from int) {
	for _, ls := range cases {
		c.monitorCase(ls)
	}
	if c.m == nil {
		return
	}
	in := make([][]string, len(cases))
	for i, ls := range cases {
		in[i] = withStateFrom(ls, from)
	}
	outs, err := c.m.RunMany(in)
	if err != nil {
		c.res.ModelMissing = err.Error()
		c.m = nil
		return
	}
	for i, ls := range cases {
		c.res.Traces++
		if vlib.FirstDiff(runImpl(in[i]), outs[i]) >= 0 {
			c.reportDiff(ls)
		}
	}
}

func main() {
	env := vlib.GetEnv()
	res := vlib.NewResult("C15", "deque: every state class with len <= 5 (unallocated, empty cap 16/cap 0, cap 16 with each front offset 0..15, exact fit and one spare slot after Shrink with each rotation) "+
		"x iterator position 0..len+1 x every mid-iteration call class (pushes, pops, Set at each index and out of range, Grow/Shrink with and without reallocation, reads, a second Iterate) x 3 further Next calls "+
		"(thorough: all of them; quick: a seed-dependent third plus all of len <= 2), then random interleavings with up to 3 iterators incl. full rings of 16/32, and in every tier one wrapped deque of 100..300 elements with two scenarios per mid-iteration call class (a position inside the snapshot; one of 0, 1, len-1, len, len+1) and the unchanged drain; "+
		"non-trivial = a mid-iteration call or >= 2 iterators with at least one Next after it; distinct = different line sequence")
	m, err := vlib.StartModel(env.Driver, "deque")
	if err != nil {
		res.ModelMissing = err.Error()
		m = nil
	}
	defer m.Close()
	c := &checker{m: m, res: res}

	if env.Replay != "" {
		var ls []string
		if err := vlib.ReplayCase(env.Replay, &ls); err != nil {
			fmt.Println("cannot read replay:", err)
			os.Exit(2)
		}
		im := runImpl(ls)
		fmt.Printf("replay of %d lines\n", len(ls))
		for i, l := range ls {
			fmt.Printf("  %-14s -> %s\n", l, im[i])
		}
		v := monitor(ls)
		if v != nil {
			fmt.Printf("monitor: %s %s\n", v.kind, v.what)
		} else {
			fmt.Println("monitor: no clause violated")
		}
		if m != nil {
			mo, _ := m.Run(withState(ls))
			ims := runImpl(withState(ls))
			if i := vlib.FirstDiff(ims, mo); i >= 0 {
				fmt.Printf("correspondence: line %d impl %q model %q\n", i, at(ims, i), at(mo, i))
			} else {
				fmt.Println("correspondence: model and implementation agree")
			}
		}
		if v != nil {
			os.Exit(1)
		}
		return
	}

	for _, f := range vlib.CorpusFiles(env.Corpus, ".ops") {
		if !strings.HasPrefix(f[strings.LastIndex(f, "/")+1:], "deque-") {
			continue // corpus/C15 is shared with the heap half
		}
		ls := vlib.ReadLines(f)
		res.Count("corpus")
		res.Case(key(ls), true, nil)
		c.batch([][]string{ls})
	}

	r := vlib.NewRand(env.Seed)
	start := time.Now()
	full := env.Thorough() || env.Deep
	// the enumeration gets at most 60% of the budget; the rest goes to random interleavings
	enumDeadline := start.Add(time.Duration(env.BudgetMs) * time.Millisecond * 6 / 10)
	complete := true
	var pending [][]string
	flush := func() {
		if len(pending) > 0 {
			c.batch(pending)
			pending = nil
		}
	}
	pick := vlib.NewRand(env.Seed ^ 0x5eed)
enum:
	for _, sc := range stateClasses(5) {
		for pos := 0; pos <= sc.n+1; pos++ {
			for _, mid := range midOps(sc.n) {
				if !full && sc.n > 2 && pick.Intn(3) != 0 {
					continue
				}
				if time.Now().After(enumDeadline) {
					complete = false
					break enum
				}
				ls := scenario(sc, pos, mid, 3)
				res.Count("enum-" + strings.Fields(mid)[0])
				res.Count("enum-len" + strconv.Itoa(sc.n))
				res.Case(key(ls), true, nil)
				pending = append(pending, ls)
				if len(pending) >= 400 {
					flush()
				}
			}
			// unchanged container: drain completely, then two more calls
			ls := scenario(sc, sc.n+3, "", 0)
			res.Count("enum-unchanged")
			res.Case(key(ls), false, nil)
			pending = append(pending, ls)
		}
	}
	flush()
	res.Exhaustive = full && complete
	res.Dist["enum-state-classes"] = len(stateClasses(5))

	{
		// the size tier (every run)
		var cs [][]string
		if p, v := vlib.Try(func() { cs = largeScenarios(r.Fork()) }); p {
			res.Fail(vlib.Failure{Source: "correspondence", Kind: "c15-deque-harness-panic", What: fmt.Sprintf("generator of the large scenarios panicked: %v", v)})
		}
		from := 0
		for _, ls := range cs {
			res.Count("large")
			res.Case(key(ls), strings.Count(key(ls), "next") > 0, nil)
			for i, l := range ls {
				if l == "iter" {
					from = i
					break
				}
			}
		}
		c.batchFrom(cs, from)
	}

	deadline := start.Add(time.Duration(env.BudgetMs) * time.Millisecond)
	maxCases := 4000
	if full {
		maxCases = 80000
	}
	for i := 0; i < maxCases && time.Now().Before(deadline); i += 200 {
		var cases [][]string
		for j := 0; j < 200; j++ {
			ls := genRandom(r.Fork(), res)
			res.CountN("random-lines", len(ls))
			nontrivial := strings.Count(key(ls), "next") > 0
			res.Case(key(ls), nontrivial, ls)
			cases = append(cases, ls)
		}
		c.batch(cases)
	}
	res.Write(env.Out)
}
