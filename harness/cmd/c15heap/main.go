// C15 (heap half): iterators from xheap.Heap.Iterate / xheap.PriorityQueue.Iterate are
// snapshot-or-panic.
//
// Scenario = constructor + build ops + `iter` + k x `next` + one mid-iteration op + further `next`s.
// Correspondence: the same lines run on the real container and on the Lean model (`driver heap`);
// every Next result (item / end / panic) must agree, in array order.
// Monitor (the property oracle, DESIGN §8a): the snapshot is the contents at the iterator's first
// Next. On an unchanged container the iterator yields exactly the snapshot, each element once, then
// reports exhaustion. After a change, whatever it yields is still part of the not-yet-yielded
// snapshot, it reports exhaustion only after the whole snapshot, and once iteration is under way
// adding or removing an element makes the next call panic. Grow/Shrink (contents unchanged) may
// continue or panic. Kinds are prefixed `c15-heap-`.
package main

import (
	"fmt"
	"os"
	"strconv"
	"time"

	hc "verifharness/heapcommon"
	"verifharness/vlib"
)

type Case = hc.Case
type Op = hc.Op

type iterState struct {
	started, over bool // over: panicked, or a clause was reported: later calls are not judged
	ended         bool // reported exhaustion: a later call may report it again or panic, never hand out an item
	snap          map[string]int
	snapSize      int
	yielded       int
	addRemoved    bool   // an element was added or removed since the first Next
	touched       bool   // any mutating (or reallocating) call since the first Next
	lastMid       string // class of the most recent such call
}

// monitor returns the first violated clause.
func monitor(c Case) (kind, what string, params map[string]interface{}) {
	var im *hc.Impl
	if p, v := vlib.Try(func() { im = hc.NewImpl(c) }); p {
		return "c15-heap-new-panics", fmt.Sprintf("constructor panicked: %v", v), nil
	}
	pq := c.Kind == "pq"
	// reference contents, independent of the container: heap = multiset of "p:id", queue = key -> priority
	heapRef := map[string]int{}
	qRef := map[int]int{}
	less := hc.OrdLess(c.Ord)
	if pq {
		// first occurrence or not is left open by the text: take what the queue reports
		for _, p := range c.Init {
			if _, in := qRef[p[0]]; !in {
				pr, perr := im.QPriority(p[0]) // guarded: a panic here is a failure, not a crash of the harness
				if perr != "" {
					return "c15-heap-unexpected-panic-priority", fmt.Sprintf("Priority(%d) after construction: %s", p[0], perr), nil
				}
				qRef[p[0]] = pr
			}
		}
	} else {
		for _, p := range c.Init {
			heapRef[fmt.Sprintf("%d:%d", p[0], p[1])]++
		}
	}
	contents := func() (map[string]int, int) {
		out := map[string]int{}
		n := 0
		if pq {
			for k := range qRef {
				out[strconv.Itoa(k)]++
				n++
			}
		} else {
			for k, v := range heapRef {
				if v > 0 {
					out[k] = v
					n += v
				}
			}
		}
		return out, n
	}
	var its []*iterState
	mutate := func(class string, addRemove bool) {
		for _, it := range its {
			if it.started && !it.over {
				it.touched = true // (also for an iterator that has reported exhaustion: lastMid names the call since)
				it.lastMid = class
				if addRemove {
					it.addRemoved = true
				}
			}
		}
	}
	fail := func(k, w string, it *iterState) (string, string, map[string]interface{}) {
		return "c15-heap-" + k, w, map[string]interface{}{"object": c.Kind, "midop": it.lastMid}
	}
	for idx, o := range c.Ops {
		// classify the call against the reference before executing it
		class := o.Name
		switch o.Name {
		case "update":
			p, in := qRef[o.A]
			switch {
			case !in:
				class = "update-new"
			case less(o.B, p):
				class = "update-lower"
			case less(p, o.B):
				class = "update-higher"
			default:
				class = "update-equal"
			}
		case "remove":
			if _, in := qRef[o.A]; !in {
				class = "remove-absent"
			}
		}
		got := im.Apply(o)
		at := fmt.Sprintf("op %d %q", idx, o.Line())
		switch o.Name {
		case "push":
			heapRef[fmt.Sprintf("%d:%d", o.A, o.B)]++
			mutate(class, true)
		case "pop":
			if got != "panic" {
				heapRef[got]--
				if len(heapRef) > 0 {
					n := 0
					for _, v := range heapRef {
						n += v
					}
					if n == 0 {
						class = "pop-to-empty"
					}
				}
				mutate(class, true)
			}
		case "qpop":
			if got != "panic" {
				if k, err := strconv.Atoi(got); err == nil {
					delete(qRef, k)
				}
				if len(qRef) == 0 {
					class = "pop-to-empty"
				}
				mutate(class, true)
			}
		case "update":
			_, in := qRef[o.A]
			qRef[o.A] = o.B
			mutate(class, !in)
		case "remove":
			if _, in := qRef[o.A]; in {
				delete(qRef, o.A)
				mutate(class, true)
			}
		case "grow", "shrink", "qgrow":
			mutate(class, false)
		case "iter", "qiter":
			its = append(its, &iterState{lastMid: "none"})
		case "next", "qnext":
			if o.A < 0 || o.A >= len(its) {
				continue
			}
			it := its[o.A]
			if it.over {
				continue
			}
			if it.ended {
				// "never silently returns wrong data ... reports exhaustion only if it has yielded the whole snapshot":
				// what an iterator yields is a prefix of its snapshot, so after it has reported exhaustion there is
				// nothing left that it could correctly hand out (the snapshot was taken at the first Next, however
				// many elements it had). Reporting exhaustion again or panicking are both left open here.
				if got != "end" && got != "panic" {
					it.over = true
					return fail("item-after-exhaustion", fmt.Sprintf("%s: Next returned %s after this iterator had already reported exhaustion (%d of the %d snapshot elements yielded; call since: %s)", at, got, it.yielded, it.snapSize, it.lastMid), it)
				}
				if got == "panic" {
					it.over = true
				}
				continue
			}
			if !it.started {
				it.started = true
				it.snap, it.snapSize = contents()
			}
			switch got {
			case "panic":
				it.over = true
				if !it.touched {
					return fail("unchanged-panics", at+": Next panicked although the container was not modified since the first Next", it)
				}
			case "end":
				it.ended = true
				if it.addRemoved {
					it.over = true
					return fail("add-remove-no-panic", fmt.Sprintf("%s: an element was added or removed (%s) during iteration and Next reported exhaustion instead of panicking", at, it.lastMid), it)
				}
				if it.yielded != it.snapSize {
					it.over = true
					k := "early-exhaustion"
					if !it.touched {
						k = "unchanged-wrong"
					}
					return fail(k, fmt.Sprintf("%s: exhaustion reported after %d of the %d snapshot elements (mid-iteration call: %s)", at, it.yielded, it.snapSize, it.lastMid), it)
				}
			default:
				if it.addRemoved {
					it.over = true
					return fail("add-remove-no-panic", fmt.Sprintf("%s: an element was added or removed (%s) during iteration and Next returned %s instead of panicking", at, it.lastMid, got), it)
				}
				if it.snap[got] <= 0 {
					it.over = true
					k := "not-snapshot-item"
					if !it.touched {
						k = "unchanged-wrong"
					}
					return fail(k, fmt.Sprintf("%s: Next returned %s which is not among the not-yet-yielded snapshot elements (mid-iteration call: %s)", at, got, it.lastMid), it)
				}
				it.snap[got]--
				it.yielded++
			}
		}
	}
	return "", "", nil
}

// ---------------------------------------------------------------------------------------------
// scenarios

// scenario appends: iter, k nexts, mid op (if any), `after` nexts.
func scenario(base Case, k int, mid *Op, after int) Case {
	c := base
	c.Ops = append([]Op{}, base.Ops...)
	it, nx := "iter", "next"
	if c.Kind == "pq" {
		it, nx = "qiter", "qnext"
	}
	c.Ops = append(c.Ops, Op{Name: it})
	for i := 0; i < k; i++ {
		c.Ops = append(c.Ops, Op{Name: nx, A: 0})
	}
	if mid != nil {
		c.Ops = append(c.Ops, *mid)
	}
	for i := 0; i < after; i++ {
		c.Ops = append(c.Ops, Op{Name: nx, A: 0})
	}
	return c
}

func weakOrders(n int, f func(seq []int)) {
	seq := make([]int, n)
	var rec func(i int)
	rec = func(i int) {
		if i == n {
			used := make([]bool, n+1)
			mx := -1
			for _, v := range seq {
				used[v] = true
				if v > mx {
					mx = v
				}
			}
			for v := 0; v <= mx; v++ {
				if !used[v] {
					return
				}
			}
			f(seq)
			return
		}
		for v := 0; v < n; v++ {
			seq[i] = v
			rec(i + 1)
		}
	}
	rec(0)
}

// midOps: every mid-iteration operation class for a container holding priorities 2p (p < n).
func midOps(kind string, n int) []*Op {
	out := []*Op{nil}
	if kind == "heap" {
		out = append(out, &Op{Name: "pop"}, &Op{Name: "grow", A: 8}, &Op{Name: "shrink", A: 0}, &Op{Name: "peek"}, &Op{Name: "len"})
		for v := -1; v <= 2*n-1; v++ {
			out = append(out, &Op{Name: "push", A: v, B: 99})
		}
		return out
	}
	out = append(out, &Op{Name: "qpop"}, &Op{Name: "qgrow", A: 8}, &Op{Name: "qpeek"}, &Op{Name: "qlen"}, &Op{Name: "contains", A: 0})
	for k := 0; k <= n; k++ { // k == n: a new / absent key
		out = append(out, &Op{Name: "remove", A: k})
		for v := -1; v <= 2*n-1; v++ {
			out = append(out, &Op{Name: "update", A: k, B: v})
		}
	}
	return out
}

type runner struct {
	m   *vlib.Model
	res *vlib.Result
}

func differs(m *vlib.Model, c Case) (bool, string) {
	mo, err := m.Run(c.Lines(false))
	if err != nil {
		return false, ""
	}
	im := hc.RunImpl(c, false)
	j := vlib.FirstDiff(im, mo)
	if j < 0 {
		return false, ""
	}
	ls := c.Lines(false)
	return true, fmt.Sprintf("line %d %q: impl %q, model %q", j, at(ls, j), at(im, j), at(mo, j))
}

func at(a []string, i int) string {
	if i >= 0 && i < len(a) {
		return a[i]
	}
	return "<none>"
}

func shrinkCase(c Case, fails func(Case) bool) Case {
	cur := c
	cur.Ops = vlib.Shrink(cur.Ops, func(o []Op) bool { d := cur; d.Ops = o; return fails(d) })
	if len(cur.Init) > 0 {
		d := cur
		d.Init = vlib.Shrink(cur.Init, func(i [][2]int) bool { e := cur; e.Init = i; return fails(e) })
		if fails(d) {
			cur = d
		}
		e := cur
		e.Init = nil
		if fails(e) {
			cur = e
		}
	}
	return cur
}

var reported = map[string]bool{}

func firstReport(key string) bool {
	if reported[key] {
		return false
	}
	reported[key] = true
	return true
}

func (r *runner) checkMonitor(c Case) {
	if k, what, ps := monitor(c); k != "" {
		if !firstReport(fmt.Sprint("monitor|", k, "|", ps["object"], "|", ps["midop"])) {
			return
		}
		same := func(d Case) bool {
			kk, _, pp := monitor(d)
			return kk == k && fmt.Sprint(pp["midop"]) == fmt.Sprint(ps["midop"])
		}
		small := shrinkCase(c, same)
		if _, w2, _ := monitor(small); w2 != "" {
			what = w2
		}
		r.res.Fail(vlib.Failure{Source: "monitor", Kind: k, Params: ps, What: what, Case: small.Text()})
	}
}

func (r *runner) check(c Case) {
	r.checkMonitor(c)
	if r.m == nil {
		return
	}
	d, _ := differs(r.m, c)
	r.res.Traces++
	if d {
		if !firstReport("correspondence|" + c.Kind) {
			return
		}
		small := shrinkCase(c, func(x Case) bool { dd, _ := differs(r.m, x); return dd })
		_, what := differs(r.m, small)
		r.res.Fail(vlib.Failure{Source: "correspondence", Kind: "c15-heap-iterator-model-differs", Params: map[string]interface{}{"object": c.Kind}, What: what, Case: small.Text()})
	}
}

// checkBatch: many scenarios in one model exchange.
func (r *runner) checkBatch(cs []Case) {
	for _, c := range cs {
		r.checkMonitor(c)
	}
	if r.m == nil || len(cs) == 0 {
		return
	}
	lines := make([][]string, len(cs))
	for i, c := range cs {
		lines[i] = c.Lines(false)
	}
	mo, err := r.m.RunMany(lines)
	if err != nil {
		r.res.ModelMissing = err.Error()
		r.m = nil
		return
	}
	for i, c := range cs {
		r.res.Traces++
		if vlib.FirstDiff(hc.RunImpl(c, false), mo[i]) >= 0 {
			r.check(c)
		}
	}
}

// exhaustive: every state of <= maxN elements (every insertion order x tie pattern, built by pushes
// and by the constructor) x iterator position 0..len x every mid-iteration op x 3 further Nexts.
func (r *runner) exhaustive(maxN int, deadline time.Time) bool {
	complete := true
	bases := 0
	var batch []Case
	flush := func() {
		r.checkBatch(batch)
		batch = batch[:0]
	}
	for n := 0; n <= maxN && complete; n++ {
		weakOrders(n, func(seq []int) {
			if !complete {
				return
			}
			if time.Now().After(deadline) {
				complete = false
				return
			}
			bases++
			for variant := 0; variant < 4; variant++ {
				kind := []string{"heap", "pq"}[variant/2]
				viaInit := variant%2 == 1
				base := Case{Kind: kind, Ord: "nat", Ctor: hc.Ctors[(bases+variant)%len(hc.Ctors)], U: n + 1}
				for i, p := range seq {
					switch {
					case kind == "heap" && viaInit:
						base.Init = append(base.Init, [2]int{2 * p, i + 1})
					case kind == "heap":
						base.Ops = append(base.Ops, Op{Name: "push", A: 2 * p, B: i + 1})
					case viaInit:
						base.Init = append(base.Init, [2]int{i, 2 * p})
					default:
						base.Ops = append(base.Ops, Op{Name: "update", A: i, B: 2 * p})
					}
				}
				for k := 0; k <= n+1; k++ { // k == n+1: the iterator has reported exhaustion (for n == 0: of an empty snapshot)
					for _, mid := range midOps(kind, n) {
						after := 3
						if mid == nil {
							after = n - k + 2 // unchanged container: run to exhaustion and once more
							if k == n+1 {
								continue // the same calls as k == n
							}
						}
						c := scenario(base, k, mid, after)
						r.res.Evaluations++
						batch = append(batch, c)
					}
				}
				r.res.Nontrivial++
			}
			if len(batch) >= 2000 {
				flush()
			}
		})
		flush()
		if complete {
			r.res.Dist[fmt.Sprintf("exhaustive-n=%d-complete", n)] = 1
		}
	}
	r.res.Dist["exhaustive-states"] = bases
	return complete
}

// randomScenario: a random history as the state, random position, random mid op, then Nexts.
func randomScenario(rd *vlib.Rand, res *vlib.Result) Case {
	pq := rd.Bool()
	c := Case{Kind: "heap", Ord: hc.Orders[rd.Intn(3)], Ctor: hc.PickCtor(rd), U: rd.Range(3, 12)}
	if pq {
		c.Kind = "pq"
	}
	prio := func() int { return rd.Intn([]int{2, 5, 16, 1000}[rd.Intn(4)]) }
	id := 0
	if rd.Chance(1, 3) {
		for i := rd.Intn(12); i > 0; i-- {
			id++
			if pq {
				c.Init = append(c.Init, [2]int{rd.Intn(c.U), prio()})
			} else {
				c.Init = append(c.Init, [2]int{prio(), id})
			}
		}
	}
	for i := rd.Intn(40); i > 0; i-- {
		id++
		switch {
		case pq && rd.Chance(3, 4):
			c.Ops = append(c.Ops, Op{Name: "update", A: rd.Intn(c.U), B: prio()})
		case pq && rd.Bool():
			c.Ops = append(c.Ops, Op{Name: "remove", A: rd.Intn(c.U)})
		case pq:
			c.Ops = append(c.Ops, Op{Name: "qpop"})
		case rd.Chance(3, 4):
			c.Ops = append(c.Ops, Op{Name: "push", A: prio(), B: id})
		default:
			c.Ops = append(c.Ops, Op{Name: "pop"})
		}
	}
	sh := hc.NewImplSafe(c)
	for _, o := range c.Ops {
		sh.Apply(o)
	}
	size := sh.Size() // guarded; the shadow only steers the generation
	k := rd.Intn(size + 1)
	if rd.Chance(1, 8) {
		k = size + 1 // the iterator has reported exhaustion before the mid-iteration call
	}
	var mid *Op
	if pq {
		keys := sh.QueueKeys()
		prioOf := func(key int) int {
			p, perr := sh.QPriority(key)
			if perr != "" {
				res.Count("pq-shadow-panic")
			}
			return p
		}
		pick := func() int {
			if len(keys) == 0 || rd.Chance(1, 5) {
				return rd.Intn(c.U)
			}
			return keys[rd.Intn(len(keys))]
		}
		switch rd.Pick(4, 3, 3, 3, 3, 3, 1, 1) {
		case 0:
			mid = &Op{Name: "qpop"}
		case 1:
			key := pick()
			mid = &Op{Name: "update", A: key, B: prioOf(key) - 1 - rd.Intn(5)}
		case 2:
			key := pick()
			mid = &Op{Name: "update", A: key, B: prioOf(key) + 1 + rd.Intn(5)}
		case 3:
			key := pick()
			mid = &Op{Name: "update", A: key, B: prioOf(key)}
		case 4:
			mid = &Op{Name: "update", A: rd.Intn(c.U + 2), B: prio()}
		case 5:
			mid = &Op{Name: "remove", A: pick()}
		case 6:
			mid = &Op{Name: "qgrow", A: rd.Intn(30)}
		}
	} else {
		switch rd.Pick(4, 4, 1, 1, 1) {
		case 0:
			mid = &Op{Name: "pop"}
		case 1:
			mid = &Op{Name: "push", A: prio(), B: 9999}
		case 2:
			mid = &Op{Name: "grow", A: rd.Intn(30)}
		case 3:
			mid = &Op{Name: "shrink", A: rd.Intn(3)}
		}
	}
	after := 3
	if mid == nil || rd.Chance(1, 3) {
		after = size - k + 2
		if after < 2 {
			after = 2
		}
	}
	if mid == nil {
		res.Count("mid-none")
	} else {
		res.Count("mid-" + mid.Name)
	}
	out := scenario(c, k, mid, after)
	// occasionally a second mid op and more Nexts, or a second iterator started later
	if rd.Chance(1, 6) && mid != nil {
		out.Ops = append(out.Ops, *mid)
		nx := "next"
		if pq {
			nx = "qnext"
		}
		out.Ops = append(out.Ops, Op{Name: nx, A: 0}, Op{Name: nx, A: 0})
	}
	return out
}

// largeScenarios: the size tier, run in every tier (quick too). One heap and one queue holding several
// hundred elements (250..450: constructor + pushes / updates), then for every class of mid-iteration
// call one scenario at a random iterator position (plus position 0.. via the unchanged drain): a change
// of the code that is guarded by a size (`gen++` only while `len(h.a) <= 200`) is invisible to the
// <= 40-element random states.
func largeScenarios(rd *vlib.Rand, pq bool) []Case {
	n := rd.Range(250, 450)
	c := Case{Kind: "heap", Ord: hc.Orders[rd.Intn(3)], Ctor: hc.PickCtor(rd), U: 8}
	if pq {
		c.Kind = "pq"
	}
	prio := func() int { return rd.Intn(n / 3) }
	for i := 0; i < n/2; i++ {
		if pq {
			c.Init = append(c.Init, [2]int{i, prio()})
		} else {
			c.Init = append(c.Init, [2]int{prio(), i + 1})
		}
	}
	for i := n / 2; i < n; i++ {
		if pq {
			c.Ops = append(c.Ops, Op{Name: "update", A: i, B: prio()})
		} else {
			c.Ops = append(c.Ops, Op{Name: "push", A: prio(), B: i + 1})
		}
	}
	// keys 0..n-1 are held (queue); n items are held (heap)
	var mids []*Op
	if pq {
		key := func() int { return rd.Intn(n) }
		mids = []*Op{
			{Name: "qpop"},
			{Name: "update", A: key(), B: -1},     // existing key, lower
			{Name: "update", A: key(), B: n},      // existing key, higher
			{Name: "update", A: n + 5, B: prio()}, // new key
			{Name: "update", A: n + 6, B: -2},     // new key that becomes the minimum
			{Name: "remove", A: key()},            // present
			{Name: "remove", A: n + 7},            // absent: contents unchanged
			{Name: "qgrow", A: 64},
		}
		// existing key, equal priority: resolved on a shadow
		sh := hc.NewImplSafe(c)
		for _, o := range c.Ops {
			sh.Apply(o)
		}
		k := key()
		if p, perr := sh.QPriority(k); perr == "" {
			mids = append(mids, &Op{Name: "update", A: k, B: p})
		}
	} else {
		mids = []*Op{
			{Name: "pop"},
			{Name: "push", A: -1, B: 99999}, // new minimum
			{Name: "push", A: n, B: 99998},  // new maximum: stays at the end of the array
			{Name: "push", A: prio(), B: 99997},
			{Name: "grow", A: 64},
			{Name: "shrink", A: 0},
		}
	}
	out := []Case{scenario(c, n, nil, 3)} // unchanged: every element once, then exhausted (for ever)
	for _, mid := range mids {
		k := 1 + rd.Intn(n-1) // inside the snapshot: under way and not exhausted
		after := 3
		if rd.Chance(1, 3) {
			after = n - k + 2
		}
		out = append(out, scenario(c, k, mid, after))
	}
	// the exhausted iterator, then a mutation, then Next
	out = append(out, scenario(c, n+1, mids[0], 2))
	return out
}

func nontrivial(c Case) bool {
	nexts, mids := 0, 0
	seenIter := false
	for _, o := range c.Ops {
		switch o.Name {
		case "iter", "qiter":
			seenIter = true
		case "next", "qnext":
			nexts++
		case "push", "pop", "qpop", "update", "remove":
			if seenIter {
				mids++
			}
		}
	}
	return nexts >= 2 && mids >= 1
}

func main() {
	env := vlib.GetEnv()
	res := vlib.NewResult("C15", "heap half: scenarios = container state x iterator position (0..len Nexts done) x one mid-iteration call "+
		"(also after the Next that reported exhaustion, incl. of an empty container; Push of every relative priority, Pop incl. the pop that empties, Update of an existing key to a lower / higher / equal priority, Update of a new key, Remove present / absent, Grow, Shrink, none) "+
		"x 3 further Nexts (to exhaustion when unchanged), on xheap.Heap and xheap.PriorityQueue; exhaustive for every insertion order and tie pattern of <= 3 (quick) / <= 5 (thorough) elements, "+
		"plus random larger states (<= 40 elements, 3 orders, less/cmp constructors) and, in every tier, one heap and one queue of 250..450 elements with one scenario per class of mid-iteration call, the unchanged drain and the exhausted-then-mutated iterator; non-trivial = at least 2 Nexts and a mutating call after the iterator was made (exhaustive part: each state counts once); distinct = different line sequence")
	res.Property = "C15"
	m, err := vlib.StartModel(env.Driver, "heap")
	if err != nil {
		res.ModelMissing = err.Error()
		m = nil
	}
	defer func() { m.Close() }()
	r := &runner{m: m, res: res}

	if env.Replay != "" {
		var ls []string
		if err := vlib.ReplayCase(env.Replay, &ls); err != nil {
			fmt.Println("cannot read replay:", err)
			os.Exit(2)
		}
		c, err := hc.Parse(ls)
		if err != nil {
			fmt.Println("cannot parse replay:", err)
			os.Exit(2)
		}
		k, what, _ := monitor(c)
		fmt.Printf("replay of %s with %d ops\n", c.Header(), len(c.Ops))
		out := hc.RunImpl(c, false)
		for i, l := range c.Lines(false) {
			fmt.Printf("  %-16s -> %s\n", l, at(out, i))
		}
		fmt.Printf("monitor: %s %s\n", k, what)
		if m != nil {
			if d, w := differs(m, c); d {
				fmt.Println("correspondence:", w)
			} else {
				fmt.Println("correspondence: model and implementation agree")
			}
		}
		if k != "" {
			os.Exit(1)
		}
		return
	}

	// corpus: this harness's files end in .hops; they live in corpus/C15H (or corpus/C15 once folded)
	dirs := []string{env.Corpus}
	if env.Corpus != "" {
		dirs = append(dirs, env.Corpus+"/../C15H", env.Corpus+"/../C15")
	}
	seenCorpus := map[string]bool{}
	for _, d := range dirs {
		for _, f := range vlib.CorpusFiles(d, ".hops") {
			b, _ := os.ReadFile(f)
			if seenCorpus[string(b)] {
				continue
			}
			seenCorpus[string(b)] = true
			c, err := hc.Parse(splitLines(string(b)))
			if err != nil {
				fmt.Fprintln(os.Stderr, "corpus", f, err)
				os.Exit(3)
			}
			res.Count("corpus")
			res.Case(c.Key(), nontrivial(c), nil)
			r.check(c)
		}
	}
	start := time.Now()
	budget := time.Duration(env.BudgetMs) * time.Millisecond
	maxN := 3
	if env.Thorough() || env.Deep {
		maxN = 5
	}
	res.Exhaustive = r.exhaustive(maxN, start.Add(budget*2/3))
	rd := vlib.NewRand(env.Seed)
	for _, pq := range []bool{false, true} {
		var cs []Case
		if p, v := vlib.Try(func() { cs = largeScenarios(rd.Fork(), pq) }); p {
			res.Fail(vlib.Failure{Source: "correspondence", Kind: "c15-heap-harness-panic", What: fmt.Sprintf("generator of the large scenarios panicked: %v", v)})
			continue
		}
		for _, c := range cs {
			res.Count("large-" + c.Kind)
			res.Case(c.Key(), nontrivial(c), nil)
		}
		r.checkBatch(cs)
	}
	maxCases := 3000
	if env.Thorough() || env.Deep {
		maxCases = 40000
	}
	deadline := start.Add(budget)
	var batch []Case
	for i := 0; i < maxCases && time.Now().Before(deadline); i++ {
		c := randomScenario(rd.Fork(), res)
		res.Count(c.Kind)
		var sample interface{}
		if len(c.Ops) <= 14 {
			sample = c.Text()
		}
		res.Case(c.Key(), nontrivial(c), sample)
		batch = append(batch, c)
		if len(batch) >= 200 {
			r.checkBatch(batch)
			batch = batch[:0]
		}
	}
	r.checkBatch(batch)
	m = r.m
	res.Write(env.Out)
}

func splitLines(s string) []string {
	var out []string
	cur := ""
	for _, ch := range s {
		if ch == '\n' {
			out = append(out, cur)
			cur = ""
		} else {
			cur += string(ch)
		}
	}
	return append(out, cur)
}
