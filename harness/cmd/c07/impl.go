package main

// Implementation side: pipelines of the real iterator / stream / xslices combinators over
// instrumented sources, driven by the same op lines as the Lean model (`driver comb`).

import (
	"context"
	"fmt"
	"strconv"
	"strings"
	"sync/atomic"
	"time"

	"github.com/bradenaw/juniper/iterator"
	"github.com/bradenaw/juniper/stream"
	"github.com/bradenaw/juniper/xmath/xrand"
	"github.com/bradenaw/juniper/xslices"
	"verifharness/vlib"
)

// ---------------------------------------------------------------------------------------------
// which exported library functions the cases of this run have called ("api:<pkg>.<Name>" in the
// distribution; main.go compares the set with the exported API of the packages, see apiCheck)

var apiCalls = map[string]int{}

func api(name string) { apiCalls[name]++ }

// ---------------------------------------------------------------------------------------------
// values: int or []any

func showV(v any) string {
	switch x := v.(type) {
	case int:
		return strconv.Itoa(x)
	case []any:
		parts := make([]string, len(x))
		for i, e := range x {
			parts[i] = showV(e)
		}
		return "[" + strings.Join(parts, ",") + "]"
	case nil:
		return "_"
	}
	return fmt.Sprintf("?%v", v)
}

func showList(l []any) string { return showV(append([]any{}, l...)) }

func toInt(v any) int {
	switch x := v.(type) {
	case int:
		return x
	case []any:
		return len(x)
	}
	return 0
}

func eqV(a, b any) bool { return showV(a) == showV(b) }

// keyTable: `any` is not `comparable` under the go1.18 rules of this module, so the functions that
// need comparable elements (Compact, Equal) run on the canonical renderings of the values (structural
// equality); the table maps a rendering back to its value.
type keyTable map[string]any

func (t keyTable) key(v any) string { k := showV(v); t[k] = v; return k }
func (t keyTable) keys(l []any) []string {
	out := make([]string, len(l))
	for i, v := range l {
		out[i] = t.key(v)
	}
	return out
}
func (t keyTable) vals(ks []string) []any {
	out := make([]any, len(ks))
	for i, k := range ks {
		out[i] = t[k]
	}
	return out
}

// ---------------------------------------------------------------------------------------------
// injected errors (identity matters: the property says the error E itself must surface)

type injErr struct{ name string }

func (e *injErr) Error() string { return "injected " + e.name }

var errTable = map[string]*injErr{}

func inj(name string) *injErr {
	if e, ok := errTable[name]; ok {
		return e
	}
	e := &injErr{name}
	errTable[name] = e
	return e
}

var expiredCtx = func() context.Context {
	c, cancel := context.WithCancel(context.Background())
	cancel()
	return c
}()

func ctxOf(s string) context.Context {
	if s == "0" {
		return expiredCtx
	}
	return context.Background()
}

func showErr(err error) string {
	switch {
	case err == nil:
		return "nil"
	case err == stream.End:
		return "end"
	case err == context.Canceled:
		return "ctx"
	case err == stream.ErrEmpty:
		return "ErrEmpty"
	case err == stream.ErrMoreThanOne:
		return "ErrMoreThanOne"
	}
	if e, ok := err.(*injErr); ok && errTable[e.name] == e {
		return e.name
	}
	return "other(" + err.Error() + ")"
}

// ---------------------------------------------------------------------------------------------
// runaway protection: every source call and every callback invocation spends one unit of the case's
// budget; a combinator that loops for ever on them panics (recovered per op) instead of hanging the harness

var opBudget = 3000
var budgetOn bool // only operations executed by the implementation under test are charged

func spend() {
	if !budgetOn {
		return
	}
	opBudget--
	if opBudget < 0 {
		panic("runaway: the combinator keeps calling its source / callback")
	}
}

// ---------------------------------------------------------------------------------------------
// instrumented sources

type ev struct {
	kind byte // 'i' item, 't' transient, 'f' fatal
	v    int
}

func parseScript(s string) []ev {
	if s == "-" || s == "" {
		return nil
	}
	var out []ev
	for _, t := range strings.Split(s, ",") {
		if strings.HasPrefix(t, "t") {
			n, _ := strconv.Atoi(t[1:])
			out = append(out, ev{'t', n})
		} else if strings.HasPrefix(t, "f") {
			n, _ := strconv.Atoi(t[1:])
			out = append(out, ev{'f', n})
		} else if n, err := strconv.Atoi(t); err == nil {
			out = append(out, ev{'i', n})
		}
	}
	return out
}

func scriptItems(sc []ev) []any {
	var out []any
	for _, e := range sc {
		if e.kind == 'i' {
			out = append(out, e.v)
		}
	}
	return out
}

type srcLog struct {
	calls, pulled, closes, after int
	overlap                      int32 // Next/Close seen while another Next/Close was in progress
	busy                         int32
	isIter                       bool // an iterator source: has no Close
}

func (l *srcLog) enter() {
	if atomic.AddInt32(&l.busy, 1) != 1 {
		atomic.AddInt32(&l.overlap, 1)
	}
}
func (l *srcLog) leave() { atomic.AddInt32(&l.busy, -1) }

func (l *srcLog) show(name string) string {
	return fmt.Sprintf("%s:%d/%d/%d/%d", name, l.calls, l.pulled, l.closes, l.after)
}

// registry of the sources of one case, static ones first, then those created on the fly (Flatten)
type registry struct {
	static  []*srcLog
	dynamic []*srcLog
	taps    []*tapS      // one in front of every stream.WithPeek / stream.Runs / stream.Compact(Func) of the case, in build order
	fromits []*fromitRec // one around every stream.FromIterator of the case (conserve.go: fromitConservation)
}

func (r *registry) show() string {
	var parts []string
	for i, l := range r.static {
		parts = append(parts, l.show("s"+strconv.Itoa(i)))
	}
	for i, l := range r.dynamic {
		parts = append(parts, l.show("d"+strconv.Itoa(i)))
	}
	return strings.Join(parts, " ")
}

func (r *registry) all() []*srcLog { return append(append([]*srcLog{}, r.static...), r.dynamic...) }

type sSrc struct {
	script []ev
	log    *srcLog
}

func (s *sSrc) Next(ctx context.Context) (any, error) {
	spend()
	s.log.enter()
	defer s.log.leave()
	if s.log.closes > 0 {
		s.log.after++
	}
	if ctx.Err() != nil {
		return nil, ctx.Err() // answered before anything is touched; not counted as a call
	}
	s.log.calls++
	if len(s.script) == 0 {
		return nil, stream.End
	}
	e := s.script[0]
	switch e.kind {
	case 'i':
		s.script = s.script[1:]
		s.log.pulled++
		return e.v, nil
	case 't':
		s.script = s.script[1:]
		return nil, inj("t" + strconv.Itoa(e.v))
	}
	return nil, inj("f" + strconv.Itoa(e.v))
}

func (s *sSrc) Close() {
	s.log.enter()
	defer s.log.leave()
	s.log.closes++
}

type iSrc struct {
	items []any
	log   *srcLog
}

func (s *iSrc) Next() (any, bool) {
	spend()
	s.log.calls++
	if len(s.items) == 0 {
		return nil, false
	}
	x := s.items[0]
	s.items = s.items[1:]
	s.log.pulled++
	return x, true
}

func newSSrc(reg *registry, sc string, dynamic bool) *sSrc {
	l := &srcLog{}
	if dynamic {
		reg.dynamic = append(reg.dynamic, l)
	} else {
		reg.static = append(reg.static, l)
	}
	return &sSrc{script: parseScript(sc), log: l}
}

func newISrc(reg *registry, sc string, dynamic bool) *iSrc {
	l := &srcLog{isIter: true}
	if dynamic {
		reg.dynamic = append(reg.dynamic, l)
	} else {
		reg.static = append(reg.static, l)
	}
	return &iSrc{items: scriptItems(parseScript(sc)), log: l}
}

// ---------------------------------------------------------------------------------------------
// test callbacks (the same tiny families as in Driver/C07.lean)

func splitBang(s string) (string, *int) {
	if i := strings.Index(s, "!"); i >= 0 {
		if n, err := strconv.Atoi(s[i+1:]); err == nil {
			return s[:i], &n
		}
		return s[:i], nil
	}
	return s, nil
}

func predOf(name string) func(any) bool {
	return func(a any) bool {
		spend()
		n := toInt(a)
		switch {
		case name == "even":
			return n%2 == 0
		case name == "odd":
			return n%2 != 0
		case name == "nz":
			return n != 0
		case name == "true":
			return true
		case name == "false":
			return false
		case strings.HasPrefix(name, "lt"):
			k, _ := strconv.Atoi(name[2:])
			return n < k
		}
		return true
	}
}

func predE(spec string) func(context.Context, any) (bool, error) {
	name, bad := splitBang(spec)
	p := predOf(name)
	return func(_ context.Context, a any) (bool, error) {
		if bad != nil && toInt(a) == *bad {
			return false, inj("cb" + strconv.Itoa(*bad))
		}
		return p(a), nil
	}
}

func fnOf(name string) func(any) any {
	return func(a any) any {
		spend()
		n := toInt(a)
		switch name {
		case "inc":
			return n + 1
		case "neg":
			return -n
		case "dbl":
			return 2 * n
		case "const":
			return 7
		}
		return a
	}
}

func fnE(spec string) func(context.Context, any) (any, error) {
	name, bad := splitBang(spec)
	f := fnOf(name)
	return func(_ context.Context, a any) (any, error) {
		if bad != nil && toInt(a) == *bad {
			return nil, inj("cb" + strconv.Itoa(*bad))
		}
		return f(a), nil
	}
}

func mod2(n int) int { return ((n % 2) + 2) % 2 }

func relOf(name string) func(a, b any) bool {
	return func(a, b any) bool {
		spend()
		switch name {
		case "par":
			return mod2(toInt(a)) == mod2(toInt(b))
		case "le":
			return toInt(a) <= toInt(b)
		case "near":
			d := toInt(a) - toInt(b)
			return d >= -1 && d <= 1
		}
		return eqV(a, b)
	}
}

func asList(v any) []any {
	if l, ok := v.([]any); ok {
		return l
	}
	return []any{v}
}

func pickScript(tbl []string, v any) string {
	if len(tbl) == 0 {
		return "-"
	}
	n := toInt(v)
	if n < 0 {
		n = 0 // Int.toNat
	}
	return tbl[n%len(tbl)]
}

func splitTok(tok string) (string, string) {
	if i := strings.Index(tok, "="); i >= 0 && strings.Count(tok, "=") == 1 {
		return tok[:i], tok[i+1:]
	}
	return tok, ""
}

func atoi(s string) int { n, _ := strconv.Atoi(s); return n }

// ---------------------------------------------------------------------------------------------
// adapters written here (they contain no library code): element type conversions and the
// documented protocol for Runs

type convS[T, U any] struct {
	inner stream.Stream[T]
	f     func(T) U
}

func (c *convS[T, U]) Next(ctx context.Context) (U, error) {
	x, err := c.inner.Next(ctx)
	if err != nil {
		var zero U
		return zero, err
	}
	return c.f(x), nil
}
func (c *convS[T, U]) Close() { c.inner.Close() }

type convI[T, U any] struct {
	inner iterator.Iterator[T]
	f     func(T) U
}

func (c *convI[T, U]) Next() (U, bool) {
	x, ok := c.inner.Next()
	if !ok {
		var zero U
		return zero, false
	}
	return c.f(x), true
}

// tapS: a transparent recorder written here (no library code) that sits between a pipeline and the
// stream.WithPeek / stream.Runs under test. It forwards Next and Close unchanged and remembers what the
// inner stream *delivered* (the items of successful calls, whether the end was reported). The C07
// monitors of WithPeek and Runs judge "yields exactly the items of its source" against this log, so the
// clause needs no assumption about what failed calls (expired context, transient failure) cost.
type tapS struct {
	inner stream.Stream[any]
	got   []any
	ended bool
}

func (t *tapS) Next(ctx context.Context) (any, error) {
	x, err := t.inner.Next(ctx)
	if err == nil {
		t.got = append(t.got, x)
	} else if err == stream.End {
		t.ended = true
	}
	return x, err
}
func (t *tapS) Close() { t.inner.Close() }

// tapI: the same recorder for an iterator (what the iterator delivered to whoever pulled from it).
type tapI struct {
	inner iterator.Iterator[any]
	got   []any
	ended bool
}

func (t *tapI) Next() (any, bool) {
	x, ok := t.inner.Next()
	if ok {
		t.got = append(t.got, x)
	} else {
		t.ended = true
	}
	return x, ok
}

// fromitRec: the two recorders around one stream.FromIterator -- `in` (what the iterator delivered to it) and
// `out` (what it handed to its consumer, whether it reported the end) -- and the first executed line after
// which "the stream yields the values from iter" no longer held (badAt < 0: it held throughout).
type fromitRec struct {
	in    *tapI
	out   *tapS
	badAt int
	what  string
}

// tappedFromIterator builds stream.FromIterator(it) between two recorders (neither is registered among reg.taps:
// those are the recorders of WithPeek / Runs).
func tappedFromIterator(reg *registry, it iterator.Iterator[any]) stream.Stream[any] {
	in := &tapI{inner: it}
	out := &tapS{inner: stream.FromIterator[any](in)}
	reg.fromits = append(reg.fromits, &fromitRec{in: in, out: out, badAt: -1})
	return out
}

// judge: the items handed out so far are the first items the iterator delivered, in order (none invented, none
// skipped), and the end is reported only after the iterator's end with everything delivered handed out.
func (r *fromitRec) judge(line int) {
	if r.badAt >= 0 {
		return
	}
	in, out := r.in.got, r.out.got
	bad := func(f string, a ...interface{}) {
		r.badAt, r.what = line, fmt.Sprintf(f, a...)+fmt.Sprintf(" (the iterator delivered %s, the stream handed out %s)", showList(in), showList(out))
	}
	for i, x := range out {
		if i >= len(in) {
			bad("the stream handed out item %s which the iterator has not delivered", showV(x))
			return
		}
		if showV(in[i]) != showV(x) {
			bad("item %d handed out by the stream is %s, item %d delivered by the iterator is %s: an item was skipped or invented", i, showV(x), i, showV(in[i]))
			return
		}
	}
	if r.out.ended && (!r.in.ended || len(out) != len(in)) {
		bad("the stream reported the end although the iterator %s", map[bool]string{true: "delivered an item that was never handed out", false: "has not reported its end"}[r.in.ended])
	}
}

func newTap(reg *registry, p stream.Stream[any]) *tapS {
	t := &tapS{inner: p}
	reg.taps = append(reg.taps, t)
	return t
}

// runsProtoS: outer Next; read the inner stream to its end (take < 0) or take items; close a fully
// read inner stream if closeInner; advance the outer stream.
type runsProtoS struct {
	outer      stream.Stream[stream.Stream[any]]
	cur        stream.Stream[any]
	acc        []any
	k          int
	take       int
	closeInner bool
}

func (r *runsProtoS) Next(ctx context.Context) (any, error) {
	if r.cur == nil {
		in, err := r.outer.Next(ctx)
		if err != nil {
			return nil, err
		}
		r.cur, r.acc, r.k = in, []any{}, 0
	}
	for {
		if r.take >= 0 && r.k >= r.take {
			out := r.acc
			r.cur = nil
			return out, nil
		}
		x, err := r.cur.Next(ctx)
		if err == stream.End {
			if r.closeInner {
				r.cur.Close()
			}
			out := r.acc
			r.cur = nil
			return out, nil
		} else if err != nil {
			return nil, err
		}
		r.acc = append(r.acc, x)
		r.k++
	}
}
func (r *runsProtoS) Close() { r.outer.Close() }

type runsProtoI struct {
	outer iterator.Iterator[iterator.Iterator[any]]
	take  int
}

func (r *runsProtoI) Next() (any, bool) {
	in, ok := r.outer.Next()
	if !ok {
		return nil, false
	}
	acc := []any{}
	for k := 0; r.take < 0 || k < r.take; k++ {
		x, ok := in.Next()
		if !ok {
			break
		}
		acc = append(acc, x)
	}
	return acc, true
}

func optTake(s string) int {
	if s == "all" {
		return -1
	}
	return atoi(s)
}

// ---------------------------------------------------------------------------------------------
// pipeline construction

func stageS(reg *registry, p stream.Stream[any], tok string) (stream.Stream[any], bool) {
	k, arg := splitTok(tok)
	switch k {
	case "peek":
		api("stream.WithPeek")
		return stream.WithPeek[any](newTap(reg, p)), true
	case "chunk":
		api("stream.Chunk")
		return &convS[[]any, any]{stream.Chunk(p, atoi(arg)), func(x []any) any { return x }}, true
	case "compact":
		api("stream.CompactFunc")
		return stream.CompactFunc[any](newTap(reg, p), relOf(arg)), true // the tap: conserve.go, compactConservation
	case "compactw":
		api("stream.Compact")
		t := keyTable{}
		return &convS[string, any]{stream.Compact[string](&convS[any, string]{newTap(reg, p), t.key}), func(k string) any { return t[k] }}, true
	case "filter":
		api("stream.Filter")
		return stream.Filter(p, predE(arg)), true
	case "map":
		api("stream.Map")
		return stream.Map(p, fnE(arg)), true
	case "first":
		api("stream.First")
		return stream.First(p, atoi(arg)), true
	case "while":
		api("stream.While")
		return stream.While(p, predE(arg)), true
	case "flats":
		api("stream.FlattenSlices")
		return stream.FlattenSlices[any](&convS[any, []any]{p, asList}), true
	case "flat":
		tbl := strings.Split(arg, ";")
		outer := &convS[any, stream.Stream[any]]{p, func(v any) stream.Stream[any] { return newSSrc(reg, pickScript(tbl, v), true) }}
		api("stream.Flatten")
		return stream.Flatten[any](outer), true
	case "join":
		all := []stream.Stream[any]{p}
		for _, sc := range strings.Split(arg, ";") {
			all = append(all, newSSrc(reg, sc, false))
		}
		api("stream.Join")
		return stream.Join(all...), true
	case "runs":
		f := strings.Split(arg, ",")
		if len(f) != 3 {
			return nil, false
		}
		api("stream.Runs")
		return &runsProtoS{outer: stream.Runs[any](newTap(reg, p), relOf(f[0])), take: optTake(f[1]), closeInner: f[2] == "1"}, true
	}
	return nil, false
}

func buildS(reg *registry, toks []string) (stream.Stream[any], bool) {
	if len(toks) == 0 {
		return nil, false
	}
	k, arg := splitTok(toks[0])
	var p stream.Stream[any]
	switch k {
	case "src":
		p = newSSrc(reg, arg, false)
	case "empty":
		api("stream.Empty")
		p = stream.Empty[any]()
	case "error":
		api("stream.Error")
		p = stream.Error[any](inj("f" + strconv.Itoa(atoi(arg))))
	case "fromit":
		api("stream.FromIterator")
		p = tappedFromIterator(reg, newISrc(reg, arg, false))
	case "chan":
		api("stream.Chan")
		p = stream.Chan[any](filledChan(arg))
	default:
		return nil, false
	}
	for _, t := range toks[1:] {
		var ok bool
		if p, ok = stageS(reg, p, t); !ok {
			return nil, false
		}
	}
	return p, true
}

func stageI(reg *registry, p iterator.Iterator[any], tok string) (iterator.Iterator[any], bool) {
	k, arg := splitTok(tok)
	switch k {
	case "peek":
		api("iterator.WithPeek")
		return iterator.WithPeek(p), true
	case "chunk":
		api("iterator.Chunk")
		return &convI[[]any, any]{iterator.Chunk(p, atoi(arg)), func(x []any) any { return x }}, true
	case "compact":
		api("iterator.CompactFunc")
		return iterator.CompactFunc(p, relOf(arg)), true
	case "compactw":
		api("iterator.Compact")
		t := keyTable{}
		return &convI[string, any]{iterator.Compact[string](&convI[any, string]{p, t.key}), func(k string) any { return t[k] }}, true
	case "filter":
		name, _ := splitBang(arg)
		api("iterator.Filter")
		return iterator.Filter(p, predOf(name)), true
	case "map":
		name, _ := splitBang(arg)
		api("iterator.Map")
		return iterator.Map(p, fnOf(name)), true
	case "first":
		api("iterator.First")
		return iterator.First(p, atoi(arg)), true
	case "while":
		name, _ := splitBang(arg)
		api("iterator.While")
		return iterator.While(p, predOf(name)), true
	case "flat":
		tbl := strings.Split(arg, ";")
		outer := &convI[any, iterator.Iterator[any]]{p, func(v any) iterator.Iterator[any] { return newISrc(reg, pickScript(tbl, v), true) }}
		api("iterator.Flatten")
		return iterator.Flatten[any](outer), true
	case "join":
		all := []iterator.Iterator[any]{p}
		for _, sc := range strings.Split(arg, ";") {
			all = append(all, newISrc(reg, sc, false))
		}
		api("iterator.Join")
		return iterator.Join(all...), true
	case "runs":
		f := strings.Split(arg, ",")
		if len(f) != 3 {
			return nil, false
		}
		api("iterator.Runs")
		return &runsProtoI{outer: iterator.Runs(p, relOf(f[0])), take: optTake(f[1])}, true
	}
	return nil, false
}

func buildI(reg *registry, toks []string) (iterator.Iterator[any], bool) {
	if len(toks) == 0 {
		return nil, false
	}
	k, arg := splitTok(toks[0])
	var p iterator.Iterator[any]
	switch k {
	case "src":
		p = newISrc(reg, arg, false)
	case "slice": // the real iterator.Slice over the items of the script (no pull log)
		api("iterator.Slice")
		p = iterator.Slice(scriptItems(parseScript(arg)))
	case "counter":
		api("iterator.Counter")
		p = &convI[int, any]{iterator.Counter(atoi(arg)), func(i int) any { return i }}
	case "repeat":
		api("iterator.Repeat")
		p = iterator.Repeat[any](5, atoi(arg))
	case "empty":
		api("iterator.Empty")
		p = iterator.Empty[any]()
	case "chan":
		api("iterator.Chan")
		p = iterator.Chan[any](filledChan(arg))
	default:
		return nil, false
	}
	for _, t := range toks[1:] {
		var ok bool
		if p, ok = stageI(reg, p, t); !ok {
			return nil, false
		}
	}
	return p, true
}

// filledChan: a channel that holds the items of the script and is closed (a receive never blocks).
func filledChan(sc string) <-chan any {
	items := scriptItems(parseScript(sc))
	c := make(chan any, len(items)+1)
	for _, x := range items {
		c <- x
	}
	close(c)
	return c
}

// xslices: list in, list out; ok=false means the stage is not available, panics are recovered by the caller
func stageX(l []any, tok string) ([]any, bool) {
	k, arg := splitTok(tok)
	switch k {
	case "chunk":
		api("xslices.Chunk")
		cs := xslices.Chunk(l, atoi(arg))
		out := make([]any, len(cs))
		for i, c := range cs {
			out[i] = append([]any{}, c...)
		}
		return out, true
	case "compact":
		api("xslices.CompactFunc")
		return xslices.CompactFunc(l, relOf(arg)), true
	case "compactw":
		api("xslices.Compact")
		t := keyTable{}
		return t.vals(xslices.Compact(t.keys(l))), true
	case "filter":
		name, _ := splitBang(arg)
		api("xslices.Filter")
		return xslices.Filter(l, predOf(name)), true
	case "map":
		name, _ := splitBang(arg)
		api("xslices.Map")
		return xslices.Map(l, fnOf(name)), true
	case "runs":
		f := strings.Split(arg, ",")
		api("xslices.Runs")
		rs := xslices.Runs(l, relOf(f[0]))
		out := make([]any, len(rs))
		for i, c := range rs {
			out[i] = append([]any{}, c...)
		}
		return out, true
	case "join":
		all := [][]any{l}
		for _, sc := range strings.Split(arg, ";") {
			all = append(all, scriptItems(parseScript(sc)))
		}
		api("xslices.Join")
		return xslices.Join(all...), true
	case "repeat":
		var a any = 0
		if len(l) > 0 {
			a = l[0]
		}
		api("xslices.Repeat")
		return xslices.Repeat(a, atoi(arg)), true
	}
	return nil, false
}

func isTerminalX(tok string) bool { k, _ := splitTok(tok); return k == "reduce" || k == "equal" }

// finishX: the terminal operation of an xs line
func finishX(l []any, tok string) string {
	if tok == "" {
		return "list " + showList(l)
	}
	k, arg := splitTok(tok)
	switch k {
	case "reduce":
		api("xslices.Reduce")
		return "val " + strconv.Itoa(xslices.Reduce(l, 0, func(acc int, a any) int { return acc*3 + toInt(a) }))
	case "equal":
		api("xslices.Equal")
		t := keyTable{}
		return fmt.Sprintf("equal %v", xslices.Equal(t.keys(l), t.keys(scriptItems(parseScript(arg)))))
	}
	return "bad-op"
}

// ---------------------------------------------------------------------------------------------
// executing op lines on the implementation

type implState struct {
	reg        registry
	sp         stream.Stream[any]
	ips        []iterator.Iterator[any]
	peekS      stream.Peekable[any]
	peekI      iterator.Peekable[any]
	runsS      stream.Stream[stream.Stream[any]]
	runsI      iterator.Iterator[iterator.Iterator[any]]
	innS       map[int]stream.Stream[any]
	innI       map[int]iterator.Iterator[any]
	gen        int
	tapAt      []tapMark // after every executed line: what the last tap of the case had delivered by then
	closedSeen bool      // a close op has been executed (fromitRec.judge stops there)
}

type tapMark struct {
	n     int
	ended bool
}

// lastTap: the recorder in front of the WithPeek / Runs built last (nil: the case has none).
func (st *implState) lastTap() *tapS {
	if n := len(st.reg.taps); n > 0 {
		return st.reg.taps[n-1]
	}
	return nil
}

func showNextS(x any, err error) string {
	if err == nil {
		return "item " + showV(x)
	}
	if err == stream.End {
		return "end"
	}
	return "err " + showErr(err)
}

func showNextI(x any, ok bool) string {
	if ok {
		return "item " + showV(x)
	}
	return "end"
}

func (st *implState) exec(line string) (out string) {
	f := strings.Fields(line)
	if len(f) == 0 {
		return "bad-op"
	}
	logs := func() string { return " | " + st.reg.show() }
	budgetOn = true
	p, _ := vlib.Try(func() { out = st.exec1(f, logs) })
	budgetOn = false
	m := tapMark{}
	if t := st.lastTap(); t != nil {
		m = tapMark{len(t.got), t.ended}
	}
	st.tapAt = append(st.tapAt, m)
	if !st.closedSeen {
		for _, r := range st.reg.fromits {
			r.judge(len(st.tapAt) - 1)
		}
	}
	if strings.Contains(f[0], "close") {
		st.closedSeen = true // what a stream does after a Close is the consumer's business: not judged
	}
	if p {
		return "panic" + logs()
	}
	return out
}

func (st *implState) exec1(f []string, logs func() string) string {
	switch f[0] {
	case "st":
		p, ok := buildS(&st.reg, f[1:])
		if !ok {
			return "bad-pipeline"
		}
		st.sp = p
		return "ok"
	case "it":
		p, ok := buildI(&st.reg, f[1:])
		if !ok {
			return "bad-pipeline"
		}
		st.ips = append(st.ips, p)
		return "ok"
	case "xs":
		if len(f) < 2 {
			return "bad-pipeline"
		}
		k, arg := splitTok(f[1])
		if k != "src" {
			return "bad-pipeline"
		}
		l := scriptItems(parseScript(arg))
		res := ""
		stages, term := f[2:], ""
		if n := len(stages); n > 0 && isTerminalX(stages[n-1]) {
			stages, term = stages[:n-1], stages[n-1]
		}
		if p, _ := vlib.Try(func() {
			for _, t := range stages {
				var ok bool
				if l, ok = stageX(l, t); !ok {
					res = "panic"
					return
				}
			}
			res = finishX(l, term)
		}); p {
			return "panic"
		}
		return res
	case "stpk":
		p, ok := buildS(&st.reg, f[1:])
		if !ok {
			return "bad-pipeline"
		}
		api("stream.WithPeek")
		st.peekS = stream.WithPeek[any](newTap(&st.reg, p))
		return "ok"
	case "itpk":
		p, ok := buildI(&st.reg, f[1:])
		if !ok {
			return "bad-pipeline"
		}
		api("iterator.WithPeek")
		st.peekI = iterator.WithPeek(p)
		return "ok"
	case "strp":
		if len(f) < 3 {
			return "bad-pipeline"
		}
		p, ok := buildS(&st.reg, f[2:])
		if !ok {
			return "bad-pipeline"
		}
		api("stream.Runs")
		st.runsS = stream.Runs[any](newTap(&st.reg, p), relOf(f[1]))
		st.innS = map[int]stream.Stream[any]{}
		return "ok"
	case "itrp":
		if len(f) < 3 {
			return "bad-pipeline"
		}
		p, ok := buildI(&st.reg, f[2:])
		if !ok {
			return "bad-pipeline"
		}
		api("iterator.Runs")
		st.runsI = iterator.Runs(p, relOf(f[1]))
		st.innI = map[int]iterator.Iterator[any]{}
		return "ok"
	}
	// stream under test
	if st.sp != nil {
		switch {
		case f[0] == "next" && len(f) == 2:
			x, err := st.sp.Next(ctxOf(f[1]))
			return showNextS(x, err) + logs()
		case f[0] == "close" && len(f) == 1:
			st.sp.Close()
			return "closed" + logs()
		case f[0] == "collect" && len(f) == 2:
			api("stream.Collect")
			l, err := stream.Collect(ctxOf(f[1]), st.sp)
			if err != nil {
				return "err " + showErr(err) + logs()
			}
			return "list " + showList(l) + logs()
		case f[0] == "last" && len(f) == 3:
			api("stream.Last")
			l, err := stream.Last(ctxOf(f[2]), st.sp, atoi(f[1]))
			if err != nil {
				return "err " + showErr(err) + logs()
			}
			return "list " + showList(l) + logs()
		case f[0] == "one" && len(f) == 2:
			api("stream.One")
			x, err := stream.One(ctxOf(f[1]), st.sp)
			if err != nil {
				return "err " + showErr(err) + logs()
			}
			return "item " + showV(x) + logs()
		case f[0] == "reduce" && len(f) == 3:
			_, bad := splitBang(f[1])
			api("stream.Reduce")
			v, err := stream.Reduce(ctxOf(f[2]), st.sp, 0, func(acc int, a any) (int, error) {
				if bad != nil && toInt(a) == *bad {
					return acc, inj("cb" + strconv.Itoa(*bad))
				}
				return acc*3 + toInt(a), nil
			})
			if err != nil {
				return "err " + showErr(err) + logs()
			}
			return "val " + strconv.Itoa(v) + logs()
		case f[0] == "sample" && len(f) == 3:
			api("xrand.SampleStream")
			l, err := xrand.SampleStream(ctxOf(f[2]), st.sp, atoi(f[1]))
			if err != nil {
				return "err " + showErr(err) + logs()
			}
			return "count " + strconv.Itoa(len(l)) + logs()
		}
	}
	if st.peekS != nil {
		switch {
		case f[0] == "pnext" && len(f) == 2:
			x, err := st.peekS.Next(ctxOf(f[1]))
			return showNextS(x, err) + logs()
		case f[0] == "ppeek" && len(f) == 2:
			x, err := st.peekS.Peek(ctxOf(f[1]))
			return showNextS(x, err) + logs()
		case f[0] == "pclose":
			st.peekS.Close()
			return "closed" + logs()
		}
	}
	if st.runsS != nil {
		switch {
		case f[0] == "onext" && len(f) == 2:
			in, err := st.runsS.Next(ctxOf(f[1]))
			if err == stream.End {
				return "end" + logs()
			} else if err != nil {
				return "err " + showErr(err) + logs()
			}
			st.gen++
			st.innS[st.gen] = in
			return "run " + strconv.Itoa(st.gen) + logs()
		case f[0] == "inext" && len(f) == 3:
			in, ok := st.innS[atoi(f[1])]
			if !ok {
				return "end" + logs() // a handle that was never handed out
			}
			x, err := in.Next(ctxOf(f[2]))
			return showNextS(x, err) + logs()
		case f[0] == "iclose" && len(f) == 2:
			if in, ok := st.innS[atoi(f[1])]; ok {
				in.Close()
			}
			return "closed" + logs()
		case f[0] == "oclose":
			st.runsS.Close()
			return "closed" + logs()
		}
	}
	if st.runsI != nil {
		switch {
		case f[0] == "ionext":
			in, ok := st.runsI.Next()
			if !ok {
				return "end" + logs()
			}
			st.gen++
			st.innI[st.gen] = in
			return "run " + strconv.Itoa(st.gen) + logs()
		case f[0] == "iinext" && len(f) == 2:
			in, ok := st.innI[atoi(f[1])]
			if !ok {
				return "end" + logs()
			}
			x, ok2 := in.Next()
			return showNextI(x, ok2) + logs()
		}
	}
	if st.peekI != nil {
		switch f[0] {
		case "ipnext":
			x, ok := st.peekI.Next()
			return showNextI(x, ok) + logs()
		case "ippeek":
			x, ok := st.peekI.Peek()
			return showNextI(x, ok) + logs()
		}
	}
	// iterators
	if len(f) >= 2 || f[0] == "iequal" {
		if f[0] == "iequal" {
			// `any` is not comparable under go1.18 rules: compare canonical renderings (structural equality)
			keyed := make([]iterator.Iterator[string], len(st.ips))
			for i, p := range st.ips {
				keyed[i] = &convI[any, string]{p, showV}
			}
			api("iterator.Equal")
			b := iterator.Equal(keyed...)
			return fmt.Sprintf("equal %v", b) + logs()
		}
		k := atoi(f[1])
		if k < 0 || k >= len(st.ips) {
			return "bad-op"
		}
		p := st.ips[k]
		switch {
		case f[0] == "inextit":
			x, ok := p.Next()
			return showNextI(x, ok) + logs()
		case f[0] == "icollect":
			api("iterator.Collect")
			return "list " + showList(iterator.Collect(p)) + logs()
		case f[0] == "ireduce":
			api("iterator.Reduce")
			v := iterator.Reduce(p, 0, func(acc int, a any) int { return acc*3 + toInt(a) })
			return "val " + strconv.Itoa(v) + logs()
		case f[0] == "ilast" && len(f) == 3:
			api("iterator.Last")
			return "list " + showList(iterator.Last(p, atoi(f[2]))) + logs()
		case f[0] == "ione":
			api("iterator.One")
			x, ok := iterator.One(p)
			if !ok {
				return "none" + logs()
			}
			return "item " + showV(x) + logs()
		}
	}
	return "bad-op"
}

// watched runs f; if it does not finish within the watchdog time (a combinator looping without touching
// its source or callbacks) the whole run is aborted with a recorded failure for the case `lines`.
func watched(lines []string, f func()) {
	done := make(chan struct{})
	go func() {
		defer close(done)
		f()
	}()
	select {
	case <-done:
	case <-time.After(120 * time.Second): // generous: a loaded machine must not turn slowness into a verdict
		onHang(lines)
		panic("unreachable")
	}
}

// runImpl executes a case under the watchdog.
func runImpl(lines []string) ([]string, *implState) {
	var out []string
	var st *implState
	watched(lines, func() {
		opBudget = 3000
		st = &implState{}
		out = make([]string, len(lines))
		for i, l := range lines {
			out[i] = st.exec(l)
		}
	})
	return out, st
}

var onHang = func(lines []string) { panic("hang") }
