package main

// Property monitors for C07 (values, laziness, sticky end, cross-version agreement), C08 (faults)
// and C09 (Close discipline). They judge the observable outputs of the implementation (op answers
// + source logs) against ref.go; nothing here looks at the Lean model.

import (
	"fmt"
	"strconv"
	"strings"

	"verifharness/vlib"
)

type fail struct {
	kind   string
	params map[string]interface{}
	what   string
}

func stageNames(toks []string) string {
	var names []string
	for _, t := range toks {
		k, _ := splitTok(t)
		names = append(names, k)
	}
	if len(names) <= 1 {
		return names[0]
	}
	return strings.Join(names[1:], "+")
}

func relParam(toks []string) string {
	for _, t := range toks {
		k, arg := splitTok(t)
		if k == "runs" || k == "compact" {
			return strings.Split(arg, ",")[0]
		}
	}
	return ""
}

func mkParams(lib string, toks []string) map[string]interface{} {
	p := map[string]interface{}{"lib": lib, "stages": stageNames(toks)}
	if r := relParam(toks); r != "" {
		p["rel"] = r
	}
	return p
}

// monitorable: the callbacks / parameters of the pipeline are inside the documented domain, so that
// the documentation defines the outcome (chunk sizes >= 1; Compact with an equivalence; Runs with a
// reflexive and transitive relation).
func monitorable(toks []string) bool {
	for _, t := range toks[1:] {
		k, arg := splitTok(t)
		switch k {
		case "chunk":
			if atoi(arg) < 1 {
				return false
			}
		case "compact":
			if arg != "eq" && arg != "par" {
				return false
			}
		case "runs":
			r := strings.Split(arg, ",")[0]
			if r != "eq" && r != "par" && r != "le" {
				return false
			}
		}
	}
	return true
}

func hasBang(toks []string) bool {
	for _, t := range toks {
		if strings.Contains(t, "!") {
			return true
		}
	}
	return false
}

// every script mentioned in a pipeline (source, join arguments, flatten table)
func scriptsOf(toks []string) []string {
	var out []string
	for _, t := range toks {
		k, arg := splitTok(t)
		switch k {
		case "src", "fromit", "chan", "slice":
			out = append(out, arg)
		case "join", "flat":
			out = append(out, strings.Split(arg, ";")...)
		}
	}
	return out
}

func hasFaultScript(toks []string) bool {
	for _, sc := range scriptsOf(toks) {
		for _, e := range parseScript(sc) {
			if e.kind != 'i' {
				return true
			}
		}
	}
	k, _ := splitTok(toks[0])
	return k == "error"
}

func transientNames(toks []string) map[string]bool {
	m := map[string]bool{}
	for _, sc := range scriptsOf(toks) {
		for _, e := range parseScript(sc) {
			if e.kind == 't' {
				m["t"+strconv.Itoa(e.v)] = true
			}
		}
	}
	return m
}

func splitOut(o string) (res, logs string) {
	if i := strings.Index(o, " | "); i >= 0 {
		return o[:i], o[i+3:]
	}
	return o, ""
}

// pulledOf parses "s0:calls/pulled/closes/after ..." and returns the pulled count of s0.
func pulledOf(logs string) int {
	f := strings.Fields(logs)
	if len(f) == 0 {
		return 0
	}
	parts := strings.Split(strings.TrimPrefix(f[0], "s0:"), "/")
	if len(parts) != 4 {
		return 0
	}
	return atoi(parts[1])
}

// closeClauses checks C09 on the final logs: every stream handed to the library was closed exactly
// once, saw no Next after Close and no overlapping calls.
func closeClauses(st *implState, lib string, toks []string, who string) []fail {
	var out []fail
	p := mkParams(lib, toks)
	p["who"] = who
	for i, l := range st.reg.all() {
		if l.isIter {
			continue
		}
		name := "s" + strconv.Itoa(i)
		if i >= len(st.reg.static) {
			name = "d" + strconv.Itoa(i-len(st.reg.static))
		}
		switch {
		case l.closes == 0:
			out = append(out, fail{"c09-not-closed-" + who, p, fmt.Sprintf("source %s was never closed (%s)", name, l.show(name))})
		case l.closes > 1:
			out = append(out, fail{"c09-closed-twice-" + who, p, fmt.Sprintf("source %s was closed %d times", name, l.closes)})
		}
		if l.after > 0 {
			out = append(out, fail{"c09-next-after-close-" + who, p, fmt.Sprintf("source %s saw %d Next call(s) after Close", name, l.after)})
		}
		if l.overlap > 0 {
			out = append(out, fail{"c09-overlap-" + who, p, fmt.Sprintf("source %s saw overlapping Next/Close calls", name)})
		}
	}
	return out
}

type caseInfo struct {
	mode   string   // st it xs stpk itpk strp itrp
	builds [][]string // tokens of each build line (without the mode word / relation)
	rel    string   // strp/itrp
	ops    []string
	nbuild int
}

func parseCase(lines []string) (caseInfo, bool) {
	var c caseInfo
	for i, l := range lines {
		f := strings.Fields(l)
		if len(f) == 0 {
			return c, false
		}
		switch f[0] {
		case "st", "it", "xs", "stpk", "itpk":
			if c.mode != "" && (c.mode != "it" || f[0] != "it") {
				return c, false
			}
			c.mode = f[0]
			c.builds = append(c.builds, f[1:])
		case "strp", "itrp":
			if c.mode != "" || len(f) < 3 {
				return c, false
			}
			c.mode, c.rel = f[0], f[1]
			c.builds = append(c.builds, f[2:])
		default:
			c.nbuild = i
			c.ops = lines[i:]
			if c.mode == "" {
				return c, false
			}
			return c, true
		}
	}
	c.nbuild = len(lines)
	return c, c.mode != ""
}

// monitor runs the case on the implementation and returns the violated clauses.
func monitor(lines []string) []fail {
	c, ok := parseCase(lines)
	if !ok || len(c.builds) == 0 || len(c.builds[0]) == 0 {
		return nil
	}
	outs, st := runImpl(lines)
	for i := 0; i < c.nbuild; i++ {
		if outs[i] != "ok" && c.mode != "xs" {
			return nil // not a well-formed case
		}
	}
	toks := c.builds[0]
	if !monitorable(toks) {
		return nil
	}
	if len(st.reg.fromits) > 0 {
		// the conservation clause of FromIterator is judged whatever the other clauses find (conserve.go)
		return append(monitorClauses(c, toks, outs, st), fromitConservation(c, st)...)
	}
	return monitorClauses(c, toks, outs, st)
}

func monitorClauses(c caseInfo, toks []string, outs []string, st *implState) []fail {
	switch c.mode {
	case "xs":
		return monitorXS(toks, outs[0])
	case "st", "it":
		if len(c.ops) == 0 {
			return nil
		}
		f0 := strings.Fields(c.ops[0])[0]
		switch f0 {
		case "next", "close", "inextit":
			fails := monitorNexts(c, outs[c.nbuild:], st)
			if c.mode == "st" && len(toks) > 1 {
				// C07 conservation clauses of WithPeek / Runs (conserve.go): judged whatever the other
				// clauses found, also in cases with failed calls
				switch k, _ := splitTok(toks[len(toks)-1]); k {
				case "peek":
					fails = append(fails, peekConservation(c, outs[c.nbuild:], st, "next", "", "close")...)
				case "runs":
					fails = append(fails, runsConservation(c, outs[c.nbuild:], st)...)
				case "compact", "compactw":
					fails = append(fails, compactConservation(c, outs[c.nbuild:], st)...)
				}
			}
			return fails
		case "iequal":
			return monitorEqual(c, outs[c.nbuild:])
		default:
			if len(c.ops) == 1 {
				return monitorReducer(c, outs[c.nbuild], st)
			}
		}
	case "stpk", "itpk":
		fails := monitorPeek(c, outs[c.nbuild:], st)
		if c.mode == "stpk" {
			fails = append(fails, peekConservation(c, outs[c.nbuild:], st, "pnext", "ppeek", "pclose")...)
		}
		return fails
	case "strp", "itrp":
		if c.rel != "eq" && c.rel != "par" && c.rel != "le" {
			return nil
		}
		fails := monitorPorts(c, outs[c.nbuild:], st)
		if c.mode == "strp" {
			fails = append(fails, runsPortsConservation(c, outs[c.nbuild:], st)...)
		}
		return fails
	}
	return nil
}

func monitorXS(toks []string, out string) []fail {
	for _, t := range toks[1:] {
		if k, _ := splitTok(t); k == "repeat" {
			if _, arg := splitTok(t); atoi(arg) < 0 {
				return nil
			}
		}
	}
	body, term := toks, ""
	if n := len(toks); n > 1 && isTerminalX(toks[n-1]) {
		body, term = toks[:n-1], toks[n-1]
	}
	t, ok := refPipeline(body, false, true)
	if !ok {
		return nil
	}
	want := "list " + showList(t.items)
	switch k, arg := splitTok(term); k {
	case "reduce":
		acc := 0
		for _, x := range t.items {
			acc = acc*3 + toInt(x)
		}
		want = "val " + strconv.Itoa(acc)
	case "equal":
		want = fmt.Sprintf("equal %v", showList(t.items) == showList(scriptItems(parseScript(arg))))
	}
	if out != want {
		return []fail{{"c07-value-xs-" + stageNames(toks), mkParams("xs", toks),
			fmt.Sprintf("xslices %s on %s gives %s, the documentation defines %s", strings.Join(toks[1:], " "), toks[0], out, want)}}
	}
	return nil
}

// expectation for the j-th successful (non-erased) answer of a Next-style consumer
func wantAt(t trace, j int) (string, bool) {
	switch {
	case j < len(t.items):
		return "item " + showV(t.items[j]), true
	case j == len(t.items):
		if t.term == "end" {
			return "end", true
		}
		return "err " + t.term, true
	case t.term == "end":
		return "end", true
	}
	return "", false // after the error was reported once the property says nothing
}

func classify(faulty bool, want, got string, j int, t trace) string {
	if strings.HasPrefix(got, "panic") {
		if faulty {
			return "c08-panic" // a panic on a fault path belongs to C08 (the binary also runs with only_kinds c08-)
		}
		return "c07-panic"
	}
	if !faulty {
		if j > len(t.items) {
			return "c07-sticky"
		}
		return "c07-value"
	}
	switch {
	case strings.HasPrefix(want, "err ") && got == "end":
		return "c08-error-became-end"
	case strings.HasPrefix(want, "err ") && strings.HasPrefix(got, "err "):
		return "c08-wrong-error"
	case strings.HasPrefix(want, "err "):
		return "c08-output-after-failure-point"
	case strings.HasPrefix(got, "err "):
		return "c08-unexpected-error"
	}
	return "c08-item-lost-or-duplicated"
}

func monitorNexts(c caseInfo, outs []string, st *implState) []fail {
	lib := c.mode
	toks := c.builds[0]
	var fails []fail
	t, ok := refPipeline(toks, lib == "st", true)
	if !ok {
		return nil
	}
	faulty := hasFaultScript(toks) || (lib == "st" && hasBang(toks))
	for _, o := range c.ops {
		if f := strings.Fields(o); f[0] == "next" && len(f) == 2 && f[1] == "0" {
			faulty = true
		}
	}
	trans := transientNames(toks)
	params := mkParams(lib, toks)
	j := 0 // number of successful answers so far
	calls := 0
	closed := false
	stop := false
	srcKind, srcArg := splitTok(toks[0])
	lazyOK := !faulty && srcKind == "src" && len(scriptsOf(toks)) == 1
	items := scriptItems(parseScript(srcArg))
	// One divergence is reported once per clause. Clauses of different properties do not mask each
	// other: the alignment-independent C08 clauses (a live call answering the context error, an error
	// no source produced) and the C07 laziness clause keep being judged after a failure of another
	// clause; only the value clause stops once the answers are out of step with the reference.
	repCtx, repWrong, repLazy := false, false, false
	for i, o := range c.ops {
		f := strings.Fields(o)
		res, logs := splitOut(outs[i])
		switch f[0] {
		case "close":
			closed = true
			continue
		case "next", "inextit":
		default:
			return fails
		}
		if closed {
			return fails // Next after Close is the consumer's fault; nothing to judge
		}
		calls++
		live := f[0] == "inextit" || f[1] != "0"
		if res == "err ctx" {
			if live && !repCtx {
				repCtx = true
				fails = append(fails, fail{"c08-unexpected-error-" + stageNames(toks), params, fmt.Sprintf("call %d with a live context answered the context error", i)})
			}
			continue // costs nothing: erased
		}
		if strings.HasPrefix(res, "err t") {
			if !trans[strings.TrimPrefix(res, "err ")] && !repWrong {
				repWrong = true
				fails = append(fails, fail{"c08-wrong-error-" + stageNames(toks), params, fmt.Sprintf("call %d answered %q which no source produced", i, res)})
			}
			continue // a transient source failure: erased
		}
		if stop {
			continue
		}
		want, judged := wantAt(t, j)
		if judged && res != want {
			k := classify(faulty, want, res, j, t)
			fails = append(fails, fail{k + "-" + lib + "-" + stageNames(toks), params,
				fmt.Sprintf("%s: answer %d (op %d %q) is %q; the documented sequence %s then %s gives %q", strings.Join(toks, " "), j, i, o, res, showList(t.items), t.term, want)})
			stop = true
			continue
		}
		if !judged || strings.HasPrefix(res, "err ") {
			stop = true // the error was reported: nothing more is specified
			continue
		}
		j++
		if lazyOK && !repLazy {
			nd, okn := need(items, toks[1:], j)
			if got := pulledOf(logs); okn && got > nd {
				repLazy = true
				fails = append(fails, fail{"c07-lazy-" + lib + "-" + stageNames(toks), params,
					fmt.Sprintf("%s: after %d answers %d source items were pulled, %d determine those answers", strings.Join(toks, " "), j, got, nd)})
			}
		}
	}
	if lib == "st" && closed {
		fails = append(fails, closeClauses(st, lib, toks, "close")...)
	}
	return fails
}

func reducerWant(name string, arg string, t trace) string {
	errOr := func(s string) string {
		if t.term != "end" {
			return "err " + t.term
		}
		return s
	}
	switch name {
	case "collect", "icollect":
		return errOr("list " + showList(t.items))
	case "reduce", "ireduce":
		_, bad := splitBang(arg)
		acc := 0
		for _, x := range t.items {
			if bad != nil && name == "reduce" && toInt(x) == *bad {
				return "err cb" + strconv.Itoa(*bad)
			}
			acc = acc*3 + toInt(x)
		}
		return errOr("val " + strconv.Itoa(acc))
	case "last", "ilast":
		n := atoi(arg)
		l := t.items
		if len(l) > n {
			l = l[len(l)-n:]
		}
		return errOr("list " + showList(l))
	case "one":
		switch {
		case len(t.items) >= 2:
			return "err ErrMoreThanOne"
		case len(t.items) == 1:
			return errOr("item " + showV(t.items[0]))
		}
		return errOr("err ErrEmpty")
	case "ione":
		if len(t.items) == 1 {
			return "item " + showV(t.items[0])
		}
		return "none"
	case "sample":
		n := len(t.items)
		if k := atoi(arg); k < n {
			n = k
		}
		return errOr("count " + strconv.Itoa(n))
	}
	return ""
}

var ctxExpired bool // srcTrace consults it: a source asked with an expired context reports ctx at once

func monitorReducer(c caseInfo, out string, st *implState) []fail {
	lib := c.mode
	toks := c.builds[0]
	f := strings.Fields(c.ops[0])
	name := f[0]
	arg, ctx := "", "1"
	switch name {
	case "collect", "one":
		ctx = f[1]
	case "last", "reduce", "sample":
		arg, ctx = f[1], f[2]
	case "ilast":
		arg = f[2]
	case "icollect", "ireduce", "ione":
	default:
		return nil
	}
	if (name == "last" || name == "ilast" || name == "sample") && atoi(arg) < 0 {
		return nil // outside the documented domain
	}
	ctxExpired = ctx == "0"
	t, ok := refPipeline(toks, lib == "st", false)
	ctxExpired = false
	if !ok {
		return nil
	}
	if name == "one" && len(t.items) >= 2 {
		// One stops after two items: a failure behind them is never reached
		t.term = "end"
	}
	want := reducerWant(name, arg, t)
	if want == "" {
		return nil
	}
	res, _ := splitOut(out)
	faulty := hasFaultScript(toks) || (lib == "st" && (hasBang(toks) || strings.Contains(arg, "!"))) || ctx == "0"
	params := mkParams(lib, toks)
	params["who"] = name
	if name == "last" || name == "ilast" {
		params["n"] = atoi(arg)
	}
	var fails []fail
	if res != want {
		k := "c07-reducer-" + name
		if strings.HasPrefix(res, "panic") && faulty {
			k = "c08-panic-" + name
		} else if strings.HasPrefix(res, "panic") {
			k = "c07-panic-" + name
		} else if faulty {
			k = "c08-reducer-" + name
		}
		fails = append(fails, fail{k, params, fmt.Sprintf("%s: %s answers %q, documented result is %q", strings.Join(toks, " "), c.ops[0], res, want)})
	}
	if lib == "st" {
		fails = append(fails, closeClauses(st, lib, toks, name)...)
	}
	return fails
}

func monitorEqual(c caseInfo, outs []string) []fail {
	var lists []string
	for _, b := range c.builds {
		if !monitorable(b) {
			return nil
		}
		t, ok := refPipeline(b, false, true)
		if !ok {
			return nil
		}
		lists = append(lists, showList(t.items))
	}
	eq := true
	for _, l := range lists[1:] {
		if l != lists[0] {
			eq = false
		}
	}
	res, _ := splitOut(outs[0])
	if want := fmt.Sprintf("equal %v", eq); res != want {
		return []fail{{"c07-reducer-equal", map[string]interface{}{"lib": "it"}, fmt.Sprintf("Equal over %v answers %q, want %q", lists, res, want)}}
	}
	return nil
}

func monitorPeek(c caseInfo, outs []string, st *implState) []fail {
	lib := "st"
	if c.mode == "itpk" {
		lib = "it"
	}
	toks := c.builds[0]
	t, ok := refPipeline(toks, lib == "st", true)
	if !ok {
		return nil
	}
	trans := transientNames(toks)
	params := mkParams(lib, toks)
	params["who"] = "peek"
	faulty := hasFaultScript(toks) || (lib == "st" && hasBang(toks))
	for _, o := range c.ops {
		if f := strings.Fields(o); len(f) == 2 && f[1] == "0" {
			faulty = true
		}
	}
	srcKind, srcArg := splitTok(toks[0])
	lazyOK := !faulty && srcKind == "src" && len(scriptsOf(toks)) == 1
	items := scriptItems(parseScript(srcArg))
	var fails []fail
	pos := 0
	closed := false
	for i, o := range c.ops {
		f := strings.Fields(o)
		res, logs := splitOut(outs[i])
		if f[0] == "pclose" {
			closed = true
			continue
		}
		if closed {
			return fails
		}
		isPeek := f[0] == "ppeek" || f[0] == "ippeek"
		live := lib == "it" || f[1] != "0"
		if res == "err ctx" && !live {
			continue
		}
		if strings.HasPrefix(res, "err t") && trans[strings.TrimPrefix(res, "err ")] {
			continue
		}
		want, judged := wantAt(t, pos)
		if !judged {
			break
		}
		if res != want {
			k := "c07-value"
			if faulty {
				k = "c08-item-lost-or-duplicated"
			}
			fails = append(fails, fail{k + "-" + lib + "-peekable", params,
				fmt.Sprintf("%s: op %d %q answers %q, want %q", strings.Join(toks, " "), i, o, res, want)})
			break
		}
		if strings.HasPrefix(res, "err ") {
			break
		}
		if !isPeek && strings.HasPrefix(res, "item ") {
			pos++
		}
		if lazyOK {
			d := pos
			if isPeek || res == "end" {
				d = pos + 1
			}
			if nd, okn := need(items, toks[1:], d); okn && pulledOf(logs) > nd {
				fails = append(fails, fail{"c07-lazy-" + lib + "-peekable", params,
					fmt.Sprintf("%s: after op %d %q %d items were pulled, %d determine the %d answers requested", strings.Join(toks, " "), i, o, pulledOf(logs), nd, d)})
				break
			}
		}
	}
	if lib == "st" && closed {
		fails = append(fails, closeClauses(st, lib, toks, "peekable")...)
	}
	return fails
}

// monitorPorts: Runs used through its outer and inner streams directly, within the documented
// protocol (§8a: the generator never advances the outer stream after closing an undrained inner one).
func monitorPorts(c caseInfo, outs []string, st *implState) []fail {
	lib := "st"
	if c.mode == "itrp" {
		lib = "it"
	}
	toks := c.builds[0]
	t, ok := refPipeline(toks, lib == "st", true)
	if !ok {
		return nil
	}
	trans := transientNames(toks)
	params := mkParams(lib, toks)
	params["who"] = "runs"
	params["rel"] = c.rel
	same := relOf(c.rel)
	faulty := hasFaultScript(toks) || (lib == "st" && hasBang(toks))
	// group boundaries
	endOf := make([]int, len(t.items)) // endOf[i] = index one past the run containing item i
	for i := len(t.items) - 1; i >= 0; i-- {
		if i+1 < len(t.items) && same(t.items[i], t.items[i+1]) {
			endOf[i] = endOf[i+1]
		} else {
			endOf[i] = i + 1
		}
	}
	termStr := "end"
	if t.term != "end" {
		termStr = "err " + t.term
	}
	var fails []fail
	pos, cur, curEnd, gen := 0, 0, 0, 0
	closedH := map[int]bool{}
	forfeit := map[int]bool{} // the outer stream was asked to move on: what the old inner stream does is unspecified
	oclosed := false
	for i, o := range c.ops {
		f := strings.Fields(o)
		res, _ := splitOut(outs[i])
		if f[0] == "oclose" {
			oclosed = true
			continue
		}
		if oclosed {
			break
		}
		if f[0] == "iclose" {
			closedH[atoi(f[1])] = true
			continue
		}
		ctxArg := "1"
		if lib == "st" {
			ctxArg = f[len(f)-1]
		}
		if ctxArg == "0" {
			faulty = true
		}
		if (f[0] == "onext" || f[0] == "ionext") && cur != 0 {
			forfeit[cur] = true
		}
		if (f[0] == "inext" || f[0] == "iinext") && forfeit[atoi(f[1])] && atoi(f[1]) == cur {
			if strings.HasPrefix(res, "err ") && res != "err ctx" && !trans[strings.TrimPrefix(res, "err ")] {
				break // the failure was reported (to the abandoned inner stream): nothing more is specified
			}
			continue
		}
		if res == "err ctx" && ctxArg == "0" {
			continue
		}
		if strings.HasPrefix(res, "err t") && trans[strings.TrimPrefix(res, "err ")] {
			continue
		}
		want := ""
		switch f[0] {
		case "onext", "ionext":
			if cur != 0 {
				if curEnd == len(t.items) && t.term != "end" && pos <= curEnd && !closedH[cur] {
					want = termStr // draining the last run runs into the failure
				}
				if want == "" {
					if pos < curEnd {
						pos = curEnd
					}
				}
			}
			if want == "" {
				if pos < len(t.items) {
					gen++
					cur, curEnd = gen, endOf[pos]
					want = "run " + strconv.Itoa(gen)
				} else {
					want = termStr
					cur = 0
				}
			}
		case "inext", "iinext":
			g := atoi(f[1])
			switch {
			case g != cur || closedH[g] || cur == 0:
				want = "end"
			case pos < curEnd:
				want = "item " + showV(t.items[pos])
				pos++
			case curEnd < len(t.items):
				want = "end"
			default:
				want = termStr
			}
		default:
			return fails
		}
		if res != want {
			k := "c07-value"
			if faulty {
				k = "c08-item-lost-or-duplicated"
				if strings.HasPrefix(want, "err ") {
					k = "c08-wrong-error"
				}
			}
			fails = append(fails, fail{k + "-" + lib + "-runs-ports", params,
				fmt.Sprintf("%s (same=%s): op %d %q answers %q, want %q", strings.Join(toks, " "), c.rel, i, o, res, want)})
			break
		}
		if strings.HasPrefix(res, "err ") {
			break
		}
	}
	if lib == "st" && oclosed {
		fails = append(fails, closeClauses(st, lib, toks, "runs")...)
	}
	return fails
}

// agreeLines: the iterator, stream and xslices cases of one fault-free pipeline `toks` (same source
// script, same stages), possibly ending in a terminal token:
//
//	(none)      Collect / Collect / the list
//	reduce      iterator.Reduce / stream.Reduce / xslices.Reduce (the same fold)
//	equal=<sc>  iterator.Equal(pipeline, Slice(sc)) / - / xslices.Equal(list, sc)
//	[src=v repeat=n]  iterator.Repeat / - / xslices.Repeat
//
// a nil case = that package has no such function.
func agreeLines(toks []string) (it, st, xs []string) {
	var body []string
	term := ""
	for i, t := range toks {
		k, arg := splitTok(t)
		if i == len(toks)-1 && isTerminalX(t) {
			term = t
			continue
		}
		if k == "runs" {
			t = "runs=" + strings.Split(arg, ",")[0] + ",all,0"
		}
		body = append(body, t)
	}
	line := strings.Join(body, " ")
	if len(body) == 2 {
		if k, arg := splitTok(body[1]); k == "repeat" {
			if hk, harg := splitTok(body[0]); hk == "src" && harg == "5" {
				return []string{"it repeat=" + arg, "icollect 0"}, nil, []string{"xs " + line}
			}
		}
	}
	k, arg := splitTok(term)
	switch k {
	case "reduce":
		return []string{"it " + line, "ireduce 0"}, []string{"st " + line, "reduce sum 1"}, []string{"xs " + line + " reduce"}
	case "equal":
		return []string{"it " + line, "it slice=" + arg, "iequal"}, nil, []string{"xs " + line + " " + term}
	}
	return []string{"it " + line, "icollect 0"}, []string{"st " + line, "collect 1"}, []string{"xs " + line}
}

func lastOut(lines []string) string {
	if lines == nil {
		return ""
	}
	o, _ := runImpl(lines)
	a, _ := splitOut(o[len(o)-1])
	return a
}

// agree: the iterator, stream and xslices versions of one fault-free pipeline give the same answer.
func agree(toks []string) []fail {
	if !monitorable(toks) {
		return nil
	}
	it, st, xs := agreeLines(toks)
	a, b, cx := lastOut(it), lastOut(st), lastOut(xs)
	if (a == cx || it == nil) && (b == cx || st == nil) {
		return nil
	}
	return []fail{{"c07-agree-" + stageNames(toks), mkParams("all", toks),
		fmt.Sprintf("%s: iterator %q, stream %q, xslices %q", strings.Join(toks, " "), a, b, cx)}}
}

func toFailure(f fail, lines []string) vlib.Failure {
	return vlib.Failure{Source: "monitor", Kind: f.kind, Params: f.params, What: f.what, Case: lines}
}
