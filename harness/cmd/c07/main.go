// C07 / C08 / C09: iterator, stream and xslices combinators that run in the caller's goroutine.
//
// One binary serves the three properties (failure kinds are prefixed c07- / c08- / c09-; the three
// checks/C0x.json select theirs with "only_kinds").
//
//   - correspondence: the same case lines run on the real combinators (impl.go) and on the Lean
//     models (`driver comb`); answers *and* the source logs (Next calls / items pulled / Close calls /
//     Next after Close) after every consumer call are compared.
//   - monitors (monitor.go, ref.go): the property clauses against plain slice functions.
package main

import (
	"fmt"
	"go/ast"
	"go/parser"
	"go/token"
	"os"
	"path/filepath"
	"sort"
	"strconv"
	"strings"
	"time"

	"verifharness/vlib"
)

var res *vlib.Result
var model *vlib.Model

type pending struct{ lines []string }

var batch []pending

// report records a failure. The binary serves C07, C08 and C09 (runner filter `only_kinds`), and
// vlib keeps at most 50 failures: every kind prefix (c07- c08- c09- comb-) gets its own quota, so that
// a flood of failures of one property cannot push the failures of another one out of the result.
var perPrefix = map[string]int{}

func report(f vlib.Failure) {
	pre := strings.SplitN(f.Kind, "-", 2)[0]
	if perPrefix[pre] >= 12 {
		return
	}
	n := len(res.Failures)
	res.Fail(f)
	if len(res.Failures) > n {
		perPrefix[pre]++
	}
}

func classOf(kind string) string {
	f := strings.Split(kind, "-")
	if len(f) >= 2 {
		return f[0] + "-" + f[1]
	}
	return kind
}

// ---------------------------------------------------------------------------------------------
// shrinking

func splitBuild(lines []string) (build, ops []string) {
	c, ok := parseCase(lines)
	if !ok {
		return lines, nil
	}
	return lines[:c.nbuild], lines[c.nbuild:]
}

func shrinkLines(lines []string, fails func([]string) bool) []string {
	cur := append([]string{}, lines...)
	for round := 0; round < 4; round++ {
		before := strings.Join(cur, "\n")
		build, ops := splitBuild(cur)
		// 1. ops (keep at least one)
		if len(ops) > 1 {
			small := vlib.Shrink(ops, func(o []string) bool { return fails(append(append([]string{}, build...), o...)) })
			cur = append(append([]string{}, build...), small...)
			build, ops = splitBuild(cur)
		}
		// 2. stages and scripts of every build line
		for bi := range build {
			f := strings.Fields(build[bi])
			head := 1
			if f[0] == "strp" || f[0] == "itrp" {
				head = 2
			}
			// drop stages
			for si := len(f) - 1; si > head; si-- {
				g := append(append([]string{}, f[:si]...), f[si+1:]...)
				cand := append([]string{}, cur...)
				cand[bi] = strings.Join(g, " ")
				if fails(cand) {
					cur, f = cand, g
				}
			}
			// shrink the source script
			if k, arg := splitTok(f[head]); (k == "src" || k == "fromit" || k == "slice" || k == "chan") && arg != "-" {
				toks := strings.Split(arg, ",")
				mk := func(ts []string) string {
					if len(ts) == 0 {
						return k + "=-"
					}
					return k + "=" + strings.Join(ts, ",")
				}
				small := vlib.Shrink(toks, func(ts []string) bool {
					g := append([]string{}, f...)
					g[head] = mk(ts)
					cand := append([]string{}, cur...)
					cand[bi] = strings.Join(g, " ")
					return fails(cand)
				})
				f[head] = mk(small)
				cand := append([]string{}, cur...)
				cand[bi] = strings.Join(f, " ")
				if fails(cand) {
					cur = cand
				}
				// vlib.Shrink keeps at least one token: try the empty script as well
				if len(small) == 1 {
					g := append([]string{}, f...)
					g[head] = mk(nil)
					cand := append([]string{}, cur...)
					cand[bi] = strings.Join(g, " ")
					if fails(cand) {
						cur, f = cand, g
					}
				}
			}
		}
		if strings.Join(cur, "\n") == before {
			break
		}
	}
	return cur
}

// ---------------------------------------------------------------------------------------------
// one case: monitors now, correspondence batched

func nontrivial(lines []string) bool {
	c, ok := parseCase(lines)
	if !ok || len(c.builds) == 0 {
		return false
	}
	n := 0
	for _, sc := range scriptsOf(c.builds[0]) {
		n += len(parseScript(sc))
	}
	return n >= 2 && (len(c.ops) > 0 || c.mode == "xs")
}

func runMonitors(lines []string) {
	for _, f := range monitor(lines) {
		cl := classOf(f.kind)
		small := shrinkLines(lines, func(c []string) bool {
			for _, g := range monitor(c) {
				if classOf(g.kind) == cl {
					return true
				}
			}
			return false
		})
		reported := false
		for _, g := range monitor(small) {
			if classOf(g.kind) == cl {
				report(toFailure(g, small))
				reported = true
				break
			}
		}
		if !reported {
			report(toFailure(f, lines))
		}
	}
}

func check(lines []string) {
	res.Case(strings.Join(lines, ";"), nontrivial(lines), lines)
	if f := strings.Fields(lines[0]); len(f) > 0 {
		res.Count("mode-" + f[0])
	}
	runMonitors(lines)
	if model != nil {
		batch = append(batch, pending{lines})
		if len(batch) >= 300 {
			flush()
		}
	}
}

func differs(lines []string) (int, string, string) {
	impl, _ := runImpl(lines)
	mo, err := model.Run(lines)
	if err != nil {
		return -2, "", err.Error()
	}
	i := vlib.FirstDiff(impl, mo)
	if i < 0 {
		return -1, "", ""
	}
	return i, at(impl, i), at(mo, i)
}

func at(a []string, i int) string {
	if i >= 0 && i < len(a) {
		return a[i]
	}
	return "<none>"
}

func flush() {
	if model == nil || len(batch) == 0 {
		batch = nil
		return
	}
	cases := make([][]string, len(batch))
	for i, p := range batch {
		cases[i] = p.lines
	}
	outs, err := model.RunMany(cases)
	if err != nil {
		res.ModelMissing = err.Error()
		model = nil
		batch = nil
		return
	}
	for i, p := range batch {
		impl, _ := runImpl(p.lines)
		res.Traces++
		if vlib.FirstDiff(impl, outs[i]) >= 0 {
			small := shrinkLines(p.lines, func(c []string) bool {
				if model == nil {
					return false
				}
				j, _, _ := differs(c)
				return j >= 0
			})
			if model == nil {
				break
			}
			j, a, b := differs(small)
			c, _ := parseCase(small)
			stages := ""
			if len(c.builds) > 0 && len(c.builds[0]) > 0 {
				stages = stageNames(c.builds[0])
			}
			report(vlib.Failure{Source: "correspondence", Kind: "comb-model-differs-" + c.mode + "-" + stages,
				What: fmt.Sprintf("line %d %q: impl %q, model %q", j, at(small, j), a, b), Case: small})
		}
	}
	batch = nil
}

// ---------------------------------------------------------------------------------------------
// generators

var alphabets = [][]int{{0, 1}, {0, 1, 2}, {1, 2, 3, 4}, {0, 1, 2, 3, 5, 8}}

func genItems(r *vlib.Rand, maxLen int) []int {
	n := r.Intn(maxLen + 1)
	al := alphabets[r.Intn(len(alphabets))]
	out := make([]int, n)
	switch r.Intn(6) {
	case 0: // all equal
		v := al[r.Intn(len(al))]
		for i := range out {
			out[i] = v
		}
	case 1: // alternating
		for i := range out {
			out[i] = al[i%2]
		}
	case 2: // runs
		v := al[r.Intn(len(al))]
		for i := range out {
			if r.Chance(1, 3) {
				v = al[r.Intn(len(al))]
			}
			out[i] = v
		}
	case 3: // distinct ascending
		for i := range out {
			out[i] = i
		}
	default:
		for i := range out {
			out[i] = al[r.Intn(len(al))]
		}
	}
	return out
}

var errCounter int

// script renders items with optional faults: transients with probability pt per gap, a fatal error
// with probability pf at a random position.
func script(r *vlib.Rand, items []int, pt, pf int) string {
	var toks []string
	fatalAt := -1
	if pf > 0 && r.Chance(pf, 100) {
		fatalAt = r.Intn(len(items) + 1)
	}
	for i := 0; i <= len(items); i++ {
		for pt > 0 && r.Chance(pt, 100) {
			errCounter++
			toks = append(toks, "t"+strconv.Itoa(errCounter%50))
		}
		if i == fatalAt {
			errCounter++
			toks = append(toks, "f"+strconv.Itoa(errCounter%50))
			break
		}
		if i < len(items) {
			toks = append(toks, strconv.Itoa(items[i]))
		}
	}
	if len(toks) == 0 {
		return "-"
	}
	return strings.Join(toks, ",")
}

func pick(r *vlib.Rand, xs ...string) string { return xs[r.Intn(len(xs))] }

// genStage returns one stage token. lib: st | it | xs. wild: allow callbacks outside the documented
// domain (correspondence only). cbFault: a callback may carry a "!v" failure.
func genStage(r *vlib.Rand, lib string, items []int, wild, cbFault bool, flatUsed *bool) string {
	bang := func() string {
		if cbFault && lib == "st" && r.Chance(1, 2) {
			if len(items) > 0 && r.Chance(3, 4) {
				return "!" + strconv.Itoa(items[r.Intn(len(items))])
			}
			return "!" + strconv.Itoa(r.Intn(4))
		}
		return ""
	}
	rel := func() string {
		if wild && r.Chance(1, 4) {
			return pick(r, "le", "near")
		}
		return pick(r, "eq", "par")
	}
	for {
		w := []int{12, 10, 12, 12, 10, 10, 5, 6, 8, 10, 4, 4}
		if lib == "xs" {
			w = []int{12, 10, 12, 12, 0, 0, 0, 0, 8, 10, 0, 5}
		}
		switch r.Pick(w...) {
		case 0:
			return "chunk=" + strconv.Itoa(r.Range(1, 4))
		case 1:
			return "compact=" + rel()
		case 2:
			return "filter=" + pick(r, "even", "odd", "nz", "lt2", "true", "false") + bang()
		case 3:
			return "map=" + pick(r, "inc", "neg", "dbl", "const", "id") + bang()
		case 4:
			return "first=" + strconv.Itoa(r.Range(0, len(items)+1))
		case 5:
			return "while=" + pick(r, "lt2", "nz", "even", "true", "lt3") + bang()
		case 6:
			if lib == "st" {
				return "flats"
			}
		case 7:
			if lib != "xs" && !*flatUsed {
				*flatUsed = true
				n := r.Range(1, 3)
				var tbl []string
				for i := 0; i < n; i++ {
					pt, pf := 0, 0
					if cbFault && lib == "st" {
						pt, pf = 10, 8
					}
					tbl = append(tbl, script(r, genItems(r, 3), pt, pf))
				}
				return "flat=" + strings.Join(tbl, ";")
			}
		case 8:
			n := r.Range(1, 2)
			var scs []string
			for i := 0; i < n; i++ {
				pt, pf := 0, 0
				if cbFault && lib == "st" {
					pt, pf = 10, 8
				}
				scs = append(scs, script(r, genItems(r, 3), pt, pf))
			}
			return "join=" + strings.Join(scs, ";")
		case 9:
			rl := rel()
			if !wild && r.Chance(1, 5) {
				rl = "le"
			}
			if lib == "xs" {
				return "runs=" + rl + ",all,0"
			}
			return "runs=" + rl + "," + pick(r, "all", "all", "all", "0", "1", "2") + "," + pick(r, "0", "1")
		case 10:
			if lib != "xs" {
				return "peek"
			}
		case 11:
			return "compactw" // the Compact wrapper (comparable elements)
		}
	}
}

// genHead: the source of a pipeline. Besides the instrumented scripted source (`src=`, which stands for
// iterator.Slice / a user stream and carries the pull and Close logs) every constructor of the two
// packages: Slice, Counter, Repeat, Empty, Chan (iterator); FromIterator, Chan, Empty, Error (stream).
// ctxOK = false: the head must only be driven with live contexts (stream.Chan: with an expired context
// both arms of its select are ready and Go picks either).
func genHead(r *vlib.Rand, lib string, faults bool) (tok string, items []int, ctxOK bool) {
	items = genItems(r, 8)
	pt, pf := 0, 0
	if faults && lib == "st" {
		pt, pf = 12, 25
	}
	plain := func() string { return script(r, items, 0, 0) }
	switch lib {
	case "it":
		switch r.Pick(70, 6, 7, 5, 4, 8) {
		case 1:
			return "slice=" + plain(), items, true
		case 2:
			n := r.Range(-1, 6)
			items = nil
			for i := 0; i < n; i++ {
				items = append(items, i)
			}
			return "counter=" + strconv.Itoa(n), items, true
		case 3:
			n := r.Range(-1, 4)
			items = nil
			for i := 0; i < n; i++ {
				items = append(items, 5)
			}
			return "repeat=" + strconv.Itoa(n), items, true
		case 4:
			return "empty", nil, true
		case 5:
			return "chan=" + plain(), items, true
		}
	case "st":
		switch r.Pick(72, 9, 8, 4, 7) {
		case 1:
			return "fromit=" + plain(), items, true
		case 2:
			return "chan=" + plain(), items, false
		case 3:
			return "empty", nil, true
		case 4:
			return "error=" + strconv.Itoa(r.Intn(50)), nil, true
		}
	}
	return "src=" + script(r, items, pt, pf), items, true
}

func genPipeline(r *vlib.Rand, lib string, maxDepth int, faults, wild bool) ([]string, []int, bool) {
	head, items, ctxOK := genHead(r, lib, faults)
	toks := []string{head}
	flatUsed := false
	d := r.Intn(maxDepth + 1)
	for i := 0; i < d; i++ {
		toks = append(toks, genStage(r, lib, items, wild, faults, &flatUsed))
	}
	return toks, items, ctxOK
}

func nextOps(r *vlib.Rand, lib string, n int, pExpired int, closeAt int) []string {
	var ops []string
	for i := 0; i < n; i++ {
		if i == closeAt {
			break
		}
		if lib == "it" {
			ops = append(ops, "inextit 0")
		} else if pExpired > 0 && r.Chance(pExpired, 100) {
			ops = append(ops, "next 0")
		} else {
			ops = append(ops, "next 1")
		}
	}
	if lib == "st" {
		ops = append(ops, "close")
	}
	return ops
}

func genCase(r *vlib.Rand) {
	wild := r.Chance(1, 6)
	switch mode := r.Pick(22, 22, 14, 10, 8, 10, 8, 6); mode {
	case 0, 1: // Next-driven run, fault-free (0) or with faults (1)
		lib := pick(r, "st", "it")
		faults := mode == 1
		if faults {
			lib = "st"
		}
		toks, items, ctxOK := genPipeline(r, lib, 4, faults, wild)
		n := len(items) + 3
		if r.Chance(1, 4) {
			n = r.Intn(n + 1)
		}
		pe := 0
		if faults && ctxOK {
			pe = 20
		}
		ops := nextOps(r, lib, n+r.Intn(3), pe, -1)
		check(append([]string{lib + " " + strings.Join(toks, " ")}, ops...))
	case 2: // reducers
		lib := pick(r, "st", "st", "it")
		faults := lib == "st" && r.Chance(1, 2)
		toks, items, ctxOK := genPipeline(r, lib, 3, faults, wild)
		ctx := "1"
		if faults && ctxOK && r.Chance(1, 6) {
			ctx = "0"
		}
		var op string
		if lib == "st" {
			switch r.Intn(5) {
			case 0:
				op = "collect " + ctx
			case 1:
				op = "last " + strconv.Itoa(r.Range(0, len(items)+1)) + " " + ctx
			case 2:
				op = "one " + ctx
			case 3:
				f := "sum"
				if faults && len(items) > 0 && r.Chance(1, 2) {
					f = "sum!" + strconv.Itoa(items[r.Intn(len(items))])
				}
				op = "reduce " + f + " " + ctx
			case 4:
				op = "sample " + strconv.Itoa(r.Range(0, len(items)+1)) + " " + ctx
			}
		} else {
			switch r.Intn(4) {
			case 0:
				op = "icollect 0"
			case 1:
				op = "ilast 0 " + strconv.Itoa(r.Range(0, len(items)+1))
			case 2:
				op = "ione 0"
			case 3:
				op = "ireduce 0"
			}
		}
		check([]string{lib + " " + strings.Join(toks, " "), op})
	case 3: // Peek interleavings
		lib := pick(r, "st", "it")
		faults := lib == "st" && r.Chance(1, 2)
		toks, items, ctxOK := genPipeline(r, lib, 2, faults, wild)
		var ops []string
		for i := 0; i < len(items)+3+r.Intn(4); i++ {
			c := " 1"
			if faults && ctxOK && r.Chance(1, 5) {
				c = " 0"
			}
			if lib == "it" {
				ops = append(ops, pick(r, "ipnext", "ippeek"))
			} else {
				ops = append(ops, pick(r, "pnext", "ppeek")+c)
			}
		}
		if lib == "st" {
			ops = append(ops, "pclose")
		}
		check(append([]string{lib + "pk " + strings.Join(toks, " ")}, ops...))
	case 4: // Runs through its ports, within the documented protocol
		lib := pick(r, "st", "it")
		faults := lib == "st" && r.Chance(1, 2)
		toks, items, ctxOK := genPipeline(r, lib, 1, faults, wild)
		rel := pick(r, "eq", "par", "par", "le")
		if wild {
			rel = pick(r, "near", "le")
		}
		var ops []string
		g := 0
		drained := true
		for i := 0; i < 2*len(items)+4; i++ {
			c := " 1"
			if faults && ctxOK && r.Chance(1, 6) {
				c = " 0"
			}
			if lib == "it" {
				c = ""
			}
			switch {
			case g == 0 || r.Chance(1, 4):
				ops = append(ops, pick(r, "onext", "onext")+c)
				if lib == "it" {
					ops[len(ops)-1] = "ionext"
				}
				g++ // the handle exists only if the call succeeded; the monitor and the model cope with unknown handles
				drained = false
			case r.Chance(1, 10) && g > 1:
				if lib == "it" {
					ops = append(ops, "iinext "+strconv.Itoa(r.Range(1, g)))
				} else {
					ops = append(ops, "inext "+strconv.Itoa(r.Range(1, g))+c)
				}
			default:
				if lib == "it" {
					ops = append(ops, "iinext "+strconv.Itoa(g))
				} else {
					ops = append(ops, "inext "+strconv.Itoa(g)+c)
				}
			}
			_ = drained
		}
		if lib == "st" {
			ops = append(ops, "oclose")
		}
		check(append([]string{lib + "rp " + rel + " " + strings.Join(toks, " ")}, fixHandles(lib, rel, toks, ops)...))
	case 5: // xslices
		toks, items, _ := genPipeline(r, "xs", 3, false, wild)
		if r.Chance(1, 10) {
			toks = append(toks, "repeat="+strconv.Itoa(r.Range(0, 4)))
		}
		switch r.Pick(6, 2, 2) {
		case 1:
			toks = append(toks, "reduce")
		case 2:
			other := items
			if r.Chance(1, 2) {
				other = genItems(r, 8)
			}
			toks = append(toks, "equal="+itemsStr(other))
		}
		check([]string{"xs " + strings.Join(toks, " ")})
	case 6: // cross-version agreement
		toks, items, _ := genPipeline(r, "xs", 3, false, false)
		switch r.Pick(6, 2, 2, 1) {
		case 1: // Reduce: iterator / stream / xslices
			toks = append(toks, "reduce")
		case 2: // Equal: iterator.Equal of the pipeline and a slice vs xslices.Equal
			other := items
			if r.Chance(1, 2) {
				other = genItems(r, 8)
			}
			toks = append(toks, "equal="+itemsStr(other))
		case 3: // Repeat: iterator.Repeat vs xslices.Repeat
			toks = []string{"src=5", "repeat=" + strconv.Itoa(r.Range(0, 5))}
		}
		it, st, xs := agreeLines(toks)
		for _, c := range [][]string{it, st, xs} {
			if c != nil {
				check(c)
			}
		}
		res.Count("agree")
		reportAgree(toks)
	case 7: // Equal
		n := r.Range(0, 3)
		var lines []string
		base, _, _ := genPipeline(r, "xs", 2, false, false)
		for i := 0; i < n; i++ {
			t := base
			if r.Chance(1, 3) {
				t, _, _ = genPipeline(r, "xs", 2, false, false)
			}
			lines = append(lines, "it "+strings.Join(t, " "))
		}
		if n == 0 {
			return
		}
		check(append(lines, "iequal"))
	}
}

// fixHandles rewrites the handle numbers of a generated port scenario so that they refer to the runs
// actually handed out (the generator guessed one handle per outer call), by replaying on the implementation.
func fixHandles(lib, rel string, toks []string, ops []string) []string {
	build := lib + "rp " + rel + " " + strings.Join(toks, " ")
	var out []string
	// under the watchdog of runImpl: a source that never ends makes the outer Next loop for ever
	watched(append([]string{build}, ops...), func() {
		st := &implState{}
		st.exec(build)
		out = make([]string, 0, len(ops))
		for _, o := range ops {
			f := strings.Fields(o)
			switch f[0] {
			case "inext", "iinext":
				want := atoi(f[1])
				if want >= st.gen { // "current" handle
					f[1] = strconv.Itoa(st.gen)
				}
				if st.gen == 0 {
					continue
				}
				o = strings.Join(f, " ")
			}
			st.exec(o)
			out = append(out, o)
		}
	})
	return out
}

func reportAgree(toks []string) {
	for _, f := range agree(toks) {
		lines := []string{"agree " + strings.Join(toks, " ")}
		small := toks
		// shrink: stages, then the script
		for i := len(small) - 1; i >= 1; i-- {
			g := append(append([]string{}, small[:i]...), small[i+1:]...)
			if len(agree(g)) > 0 {
				small = g
			}
		}
		if k, arg := splitTok(small[0]); k == "src" && arg != "-" {
			ts := vlib.Shrink(strings.Split(arg, ","), func(ts []string) bool {
				g := append([]string{"src=" + strings.Join(ts, ",")}, small[1:]...)
				return len(agree(g)) > 0
			})
			g := append([]string{"src=" + strings.Join(ts, ",")}, small[1:]...)
			if len(agree(g)) > 0 {
				small = g
			}
		}
		if fs := agree(small); len(fs) > 0 {
			f = fs[0]
			lines = []string{"agree " + strings.Join(small, " ")}
		}
		report(toFailure(f, lines))
	}
}

// ---------------------------------------------------------------------------------------------
// exhaustive small scope (thorough)

func itemsStr(items []int) string {
	if len(items) == 0 {
		return "-"
	}
	s := make([]string, len(items))
	for i, x := range items {
		s[i] = strconv.Itoa(x)
	}
	return strings.Join(s, ",")
}

// stageConfigs: every combinator with every parameter value 0..n+1 (chunk sizes >= 1).
func stageConfigs(lib string, n int) [][]string {
	var out [][]string
	add := func(s ...string) { out = append(out, s) }
	add()
	for k := 1; k <= n+1; k++ {
		add("chunk=" + strconv.Itoa(k))
	}
	add("compact=eq")
	add("compact=par")
	add("compactw")
	add("filter=even")
	add("filter=nz")
	add("map=inc")
	if lib != "xs" {
		for k := 0; k <= n+1; k++ {
			add("first=" + strconv.Itoa(k))
		}
		add("while=lt1")
		add("while=nz")
	}
	add("join=1,0;-;0")
	add("runs=eq,all,1")
	add("runs=par,all,0")
	add("runs=le,all,0")
	if lib != "xs" {
		add("peek")
		add("flat=1,0;-")
		add("runs=eq,1,0")
		add("runs=eq,0,0")
	}
	if lib == "st" {
		add("chunk=2", "flats")
		add("flats")
	}
	return out
}

func allInputs(maxLen int, f func(items []int)) {
	for n := 0; n <= maxLen; n++ {
		for m := 0; m < 1<<n; m++ {
			items := make([]int, n)
			for i := range items {
				items[i] = (m >> i) & 1
			}
			f(items)
		}
	}
}

func exhaustive(deadline time.Time) bool {
	complete := true
	over := func() bool {
		if time.Now().After(deadline) {
			complete = false
			return true
		}
		return false
	}
	// 1. fault-free: every input over {0,1} up to length 6 x every combinator x every parameter
	// 0. every constructor: Counter / Repeat for n = -1..7, Empty, Error; Slice, Chan, FromIterator over every input
	for n := -1; n <= 7; n++ {
		check([]string{"it counter=" + strconv.Itoa(n), "icollect 0"})
		check([]string{"it repeat=" + strconv.Itoa(n), "icollect 0"})
		check([]string{"it counter=" + strconv.Itoa(n), "inextit 0", "inextit 0", "inextit 0"})
		check([]string{"xs src=5 repeat=" + strconv.Itoa(n)})
	}
	check([]string{"it empty", "inextit 0", "inextit 0"})
	check([]string{"st empty", "next 1", "next 0", "next 1", "close"})
	check([]string{"st error=3", "next 1", "next 0", "close"})
	allInputs(5, func(items []int) {
		src := itemsStr(items)
		nx := make([]string, len(items)+2)
		ix := make([]string, len(items)+2)
		for i := range nx {
			nx[i], ix[i] = "next 1", "inextit 0"
		}
		for _, h := range []string{"slice=", "chan="} {
			check(append([]string{"it " + h + src}, ix...))
			check([]string{"it " + h + src + " compactw", "icollect 0"})
		}
		for _, h := range []string{"fromit=", "chan="} {
			check(append(append([]string{"st " + h + src}, nx...), "close"))
			check([]string{"st " + h + src + " compactw", "collect 1"})
		}
		check(append(append([]string{"st fromit=" + src, "next 0"}, nx...), "close"))
		check([]string{"xs src=" + src + " reduce"})
		check([]string{"xs src=" + src + " equal=" + src})
		check([]string{"xs src=" + src + " equal=" + itemsStr(append(append([]int{}, items...), 1))})
		reportAgree([]string{"src=" + src, "reduce"})
		reportAgree([]string{"src=" + src, "equal=" + src})
		reportAgree([]string{"src=" + src, "compactw"})
	})
	allInputs(6, func(items []int) {
		if over() {
			return
		}
		n := len(items)
		for _, lib := range []string{"st", "it", "xs"} {
			for _, cfg := range stageConfigs(lib, n) {
				toks := append([]string{"src=" + itemsStr(items)}, cfg...)
				line := strings.Join(toks, " ")
				switch lib {
				case "xs":
					check([]string{"xs " + line})
					reportAgreeIfCommon(toks)
				case "st":
					ops := make([]string, 0, n+4)
					for i := 0; i < n+3; i++ {
						ops = append(ops, "next 1")
					}
					check(append(append([]string{"st " + line}, ops...), "close"))
					check([]string{"st " + line, "collect 1"})
					for k := 0; k <= n+1; k++ {
						check([]string{"st " + line, "last " + strconv.Itoa(k) + " 1"})
					}
					check([]string{"st " + line, "one 1"})
					check([]string{"st " + line, "reduce sum 1"})
				case "it":
					ops := make([]string, 0, n+3)
					for i := 0; i < n+3; i++ {
						ops = append(ops, "inextit 0")
					}
					check(append([]string{"it " + line}, ops...))
					check([]string{"it " + line, "icollect 0"})
					for k := 0; k <= n+1; k++ {
						check([]string{"it " + line, "ilast 0 " + strconv.Itoa(k)})
					}
					check([]string{"it " + line, "ione 0"})
				}
			}
		}
	})
	// 2. every consumer stop point (C09) and every Next/Peek interleaving up to depth len+2, inputs up to length 4
	allInputs(4, func(items []int) {
		if over() {
			return
		}
		n := len(items)
		for _, cfg := range stageConfigs("st", n) {
			line := strings.Join(append([]string{"src=" + itemsStr(items)}, cfg...), " ")
			for stop := 0; stop <= n+2; stop++ {
				ops := []string{}
				for i := 0; i < stop; i++ {
					ops = append(ops, "next 1")
				}
				check(append(append([]string{"st " + line}, ops...), "close"))
			}
		}
		depth := n + 2
		for m := 0; m < 1<<depth; m++ {
			var so, io []string
			for i := 0; i < depth; i++ {
				if (m>>i)&1 == 1 {
					so, io = append(so, "ppeek 1"), append(io, "ippeek")
				} else {
					so, io = append(so, "pnext 1"), append(io, "ipnext")
				}
			}
			check(append(append([]string{"stpk src=" + itemsStr(items)}, so...), "pclose"))
			check(append([]string{"itpk src=" + itemsStr(items)}, io...))
		}
	})
	// 2b. the same interleavings with failing calls: every Next/Peek sequence over {live, expired} contexts
	//     up to depth 5 (sources up to length 4), one transient failure at every position x every sequence
	//     up to depth 3; then the stream is read to its end with live contexts
	if !over() {
		peekFailSpace(4, 5, 3)
	}
	// 3. faults: every combinator x every fault position x fault kind, inputs with distinct values
	//    (and one with duplicates), every consumer stop point after the fault
	for n := 0; n <= 5 && !over(); n++ {
		inputs := [][]int{make([]int, n), make([]int, n)}
		for i := 0; i < n; i++ {
			inputs[0][i] = i
			inputs[1][i] = i / 2
		}
		for _, items := range inputs {
			for _, cfg := range faultConfigs(n) {
				for p := 0; p <= n; p++ {
					for kind := 0; kind < 5; kind++ {
						if over() {
							return complete
						}
						faultCase(items, cfg, p, kind)
					}
				}
			}
		}
	}
	flush()
	return complete
}

func faultConfigs(n int) [][]string {
	out := stageConfigs("st", n)
	out = append(out, []string{"filter=true", "chunk=2"}, []string{"compact=eq", "first=2"}, []string{"chunk=2", "flats", "while=lt3"})
	return out
}

// faultCase: kind 0 source error at p; 1 callback error on item p; 2 expired context on call p;
// 3 transient at p then recovery; 4 two faults (transient at p, fatal two items later / expired ctx).
func faultCase(items []int, cfg []string, p, kind int) {
	n := len(items)
	toks := func(fault string, at int, second string, at2 int) string {
		var s []string
		for i := 0; i <= n; i++ {
			if i == at && fault != "" {
				s = append(s, fault)
				if fault[0] == 'f' {
					break
				}
			}
			if i == at2 && second != "" {
				s = append(s, second)
				if second[0] == 'f' {
					break
				}
			}
			if i < n {
				s = append(s, strconv.Itoa(items[i]))
			}
		}
		if len(s) == 0 {
			return "-"
		}
		return strings.Join(s, ",")
	}
	nexts := func(k int, expiredAt int) []string {
		var ops []string
		for i := 0; i < k; i++ {
			if i == expiredAt {
				ops = append(ops, "next 0")
			} else {
				ops = append(ops, "next 1")
			}
		}
		return append(ops, "close")
	}
	stages := strings.Join(cfg, " ")
	switch kind {
	case 0:
		src := "src=" + toks("f9", p, "", -1)
		check(append([]string{"st " + src + " " + stages}, nexts(n+3, -1)...))
		for _, red := range []string{"collect 1", "last 2 1", "one 1", "reduce sum 1", "sample 2 1"} {
			check([]string{"st " + src + " " + stages, red})
		}
	case 1:
		if p >= n {
			return
		}
		bad := "!" + strconv.Itoa(items[p])
		src := "src=" + itemsStr(items)
		for _, cb := range []string{"filter=true" + bad, "map=id" + bad, "while=true" + bad} {
			check(append([]string{"st " + src + " " + cb + " " + stages}, nexts(n+3, -1)...))
			check(append([]string{"st " + src + " " + stages + " " + cb}, nexts(n+3, -1)...))
			check([]string{"st " + src + " " + cb + " " + stages, "collect 1"})
		}
		check([]string{"st " + src + " " + stages, "reduce sum" + bad + " 1"})
	case 2:
		src := "src=" + itemsStr(items)
		check(append([]string{"st " + src + " " + stages}, nexts(n+4, p)...))
	case 3:
		src := "src=" + toks("t7", p, "", -1)
		check(append([]string{"st " + src + " " + stages}, nexts(n+4, -1)...))
		check([]string{"st " + src + " " + stages, "collect 1"})
	case 4:
		src := "src=" + toks("t7", p, "f9", p+2)
		check(append([]string{"st " + src + " " + stages}, nexts(n+4, -1)...))
		src = "src=" + toks("t7", p, "t8", p+1)
		check(append([]string{"st " + src + " " + stages}, nexts(n+5, p+1)...))
	}
}

func reportAgreeIfCommon(toks []string) {
	for _, t := range toks[1:] {
		k, arg := splitTok(t)
		switch k {
		case "chunk", "compact", "compactw", "filter", "map", "join":
		case "runs":
			if !strings.HasSuffix(arg, ",all,0") && !strings.HasSuffix(arg, ",all,1") {
				return
			}
		default:
			return
		}
	}
	res.Count("agree")
	reportAgree(toks)
}

// ---------------------------------------------------------------------------------------------
// API coverage of the generator: every exported function of iterator, of stream (the caller's-goroutine
// part) and every xslices function that has an iterator/stream namesake must have been called by the
// cases of this run. The list is read from the source tree under test, not written here.

// goroutine-backed constructors of package stream: owned by the checks named
var apiElsewhere = map[string]string{"stream.Pipe": "C10", "stream.Batch": "C11", "stream.BatchFunc": "C11", "stream.Merge": "C12"}

func exportedFuncs(dir string) []string {
	fset := token.NewFileSet()
	ents, err := os.ReadDir(dir)
	if err != nil {
		return nil
	}
	seen := map[string]bool{}
	for _, e := range ents {
		n := e.Name()
		if !strings.HasSuffix(n, ".go") || strings.HasSuffix(n, "_test.go") {
			continue
		}
		f, err := parser.ParseFile(fset, filepath.Join(dir, n), nil, parser.SkipObjectResolution)
		if err != nil {
			continue
		}
		for _, d := range f.Decls {
			if fd, ok := d.(*ast.FuncDecl); ok && fd.Recv == nil && fd.Name.IsExported() {
				seen[fd.Name.Name] = true
			}
		}
	}
	var out []string
	for n := range seen {
		out = append(out, n)
	}
	sort.Strings(out)
	return out
}

func expectedAPI(repo string) []string {
	it := exportedFuncs(filepath.Join(repo, "iterator"))
	st := exportedFuncs(filepath.Join(repo, "stream"))
	xs := exportedFuncs(filepath.Join(repo, "xslices"))
	common := map[string]bool{}
	var out []string
	for _, n := range it {
		out = append(out, "iterator."+n)
		common[n] = true
	}
	for _, n := range st {
		common[n] = true
		if _, other := apiElsewhere["stream."+n]; !other {
			out = append(out, "stream."+n)
		}
	}
	for _, n := range xs {
		if common[n] {
			out = append(out, "xslices."+n)
		}
	}
	return out
}

// apiCheck records the per-function call counts and reports every function of the API that no case of
// this run has called: a hole in the generator (a broken tie, not a property violation).
func apiCheck() {
	repo := os.Getenv("VERIF_REPO")
	if repo == "" {
		repo = "/repo"
	}
	want := expectedAPI(repo)
	for name, n := range apiCalls {
		res.CountN("api:"+name, n)
	}
	for name, owner := range apiElsewhere {
		res.CountN("api-elsewhere:"+name+"="+owner, 1)
	}
	if len(want) == 0 {
		res.Fail(vlib.Failure{Source: "correspondence", Kind: "comb-api-list-unreadable",
			What: "cannot enumerate the exported functions of iterator / stream / xslices under " + repo})
		return
	}
	for _, name := range want {
		if apiCalls[name] == 0 {
			res.CountN("api:"+name, 0)
			res.Fail(vlib.Failure{Source: "correspondence", Kind: "comb-api-never-called",
				Params: map[string]interface{}{"api": name},
				What: "no case of this run called " + name + " (named by the property, exported by the package): the generator has a hole"})
		}
	}
}

// ---------------------------------------------------------------------------------------------

func corpusDirs(dir string) []string {
	// the three properties share one harness: read the corpus of all of them
	parent := filepath.Dir(dir)
	return []string{filepath.Join(parent, "C07"), filepath.Join(parent, "C08"), filepath.Join(parent, "C09")}
}

func runLines(lines []string) {
	if f := strings.Fields(lines[0]); f[0] == "agree" {
		res.Case(strings.Join(lines, ";"), true, lines)
		res.Count("agree")
		reportAgree(f[1:])
		return
	}
	check(lines)
}

func main() {
	env := vlib.GetEnv()
	res = vlib.NewResult("C07", "cases = pipelines (depth <= 4) of the real iterator / stream / xslices combinators over instrumented scripted sources "+
		"(items, transient and fatal failures, failing callbacks, expired per-call contexts) driven by Next / Peek / Close / reducers / Runs ports / Equal; "+
		"a case is non-trivial if its scripts hold >= 2 events and at least one consumer operation runs; distinct = different case text. "+
		"thorough adds: every input over {0,1} up to length 6 x every combinator x every parameter 0..len+1 x Next-run, reducers, xslices and 3-way agreement; "+
		"every consumer stop point and every Next/Peek interleaving (inputs up to length 4), the interleavings also with expired contexts (depth 5) "+
		"and one transient failure at every position (depth 3); every combinator x fault position 0..len x "+
		"{source error, callback error, expired ctx, transient, two faults}. "+
		"Every run starts with a deterministic directed pass: WithPeek over sources of length 0..3 x every Next/Peek sequence with live and expired "+
		"contexts up to depth 3 (and one transient failure at every position, depth 2) then read to the end; Runs through its ports by the documented "+
		"protocol with an expired context at every call / a transient failure at every position, each failed call retried; every single-stage "+
		"configuration x sources of length 0..3 x {expired context on call p, transient at p} then live calls")
	onHang = func(lines []string) {
		// the run ends here: say so under the property the case belongs to (fault-free: C07, with faults:
		// C08) and, as a broken tie that no only_kinds filter drops, for every property this binary serves
		kind := "c07-hang"
		if c, ok := parseCase(lines); ok && len(c.builds) > 0 && len(c.builds[0]) > 0 && (hasFaultScript(c.builds[0]) || hasBang(c.builds[0])) {
			kind = "c08-hang"
		}
		res.Fail(vlib.Failure{Source: "monitor", Kind: kind, What: "the case did not finish within 20 s (a combinator loops for ever)", Case: lines})
		res.Fail(vlib.Failure{Source: "correspondence", Kind: "comb-run-aborted-by-hang", What: "the harness stopped at a case that did not finish within 20 s; the remaining cases were not run", Case: lines})
		res.Write(env.Out)
		os.Exit(0)
	}
	var err error
	model, err = vlib.StartModel(env.Driver, "comb")
	if err != nil {
		res.ModelMissing = err.Error()
		model = nil
	}
	defer func() {
		if model != nil {
			model.Close()
		}
	}()

	if env.Replay != "" {
		var ls []string
		if err := vlib.ReplayCase(env.Replay, &ls); err != nil {
			fmt.Println("cannot read replay:", err)
			os.Exit(2)
		}
		fmt.Printf("replay of case:\n  %s\n", strings.Join(ls, "\n  "))
		bad := false
		if f := strings.Fields(ls[0]); f[0] == "agree" {
			for _, g := range agree(f[1:]) {
				fmt.Printf("monitor: %s: %s\n", g.kind, g.what)
				bad = true
			}
		} else {
			outs, _ := runImpl(ls)
			for i, o := range outs {
				fmt.Printf("  impl  %-28s -> %s\n", ls[i], o)
			}
			for _, g := range monitor(ls) {
				fmt.Printf("monitor: %s: %s\n", g.kind, g.what)
				bad = true
			}
			if model != nil {
				if j, a, b := differs(ls); j >= 0 {
					fmt.Printf("correspondence: line %d %q impl %q model %q\n", j, at(ls, j), a, b)
				} else {
					fmt.Println("correspondence: model and implementation agree")
				}
			}
		}
		if !bad {
			fmt.Println("monitor: no clause violated")
		}
		if bad {
			os.Exit(1)
		}
		return
	}

	for _, d := range corpusDirs(env.Corpus) {
		for _, f := range vlib.CorpusFiles(d, ".ops") {
			ls := vlib.ReadLines(f)
			if len(ls) == 0 {
				continue
			}
			res.Count("corpus")
			runLines(ls)
		}
	}
	// deterministic in every tier: failed calls (expired context, transient failure) at every position of
	// every stage that can be holding an item, then a retry (directed.go)
	directed()
	r := vlib.NewRand(env.Seed)
	deadline := env.Deadline()
	maxCases := 40000
	if env.Thorough() || env.Deep {
		maxCases = 400000
	}
	genDeadline := deadline
	if env.Thorough() {
		// leave most of the budget to the exhaustive part
		genDeadline = time.Now().Add(time.Duration(env.BudgetMs/4) * time.Millisecond)
	}
	for i := 0; i < maxCases && time.Now().Before(genDeadline); i++ {
		genCase(r.Fork())
	}
	flush()
	if env.Thorough() {
		res.Exhaustive = exhaustive(deadline)
	}
	flush()
	apiCheck()
	res.Write(env.Out)
}
