package main

// Reference semantics written from the documentation / the property text only (plain slice
// functions on "traces": the items a stream yields and how it terminates). Independent of the
// library code and of the Lean model.

import (
	"strconv"
	"strings"
)

// trace = what a fault-free consumer sees: items, then term forever ("end") or the error term.
type trace struct {
	items []any
	term  string // "end", or the name of an error ("f3", "cb2", "t1", "ctx")
}

// srcTrace: the items of a script up to its first hard failure. Transient failures cost nothing and
// are erased (erase=true) or, for reducers which stop at the first error of any kind, they end the trace.
func srcTrace(sc string, erase bool) trace {
	if ctxExpired {
		return trace{term: "ctx"}
	}
	t := trace{term: "end"}
	for _, e := range parseScript(sc) {
		switch e.kind {
		case 'i':
			t.items = append(t.items, e.v)
		case 't':
			if !erase {
				t.term = "t" + strconv.Itoa(e.v)
				return t
			}
		case 'f':
			t.term = "f" + strconv.Itoa(e.v)
			return t
		}
	}
	return t
}

func groupAdjacent(items []any, same func(a, b any) bool) [][]any {
	var out [][]any
	for i, x := range items {
		if i > 0 && same(items[i-1], x) {
			out[len(out)-1] = append(out[len(out)-1], x)
		} else {
			out = append(out, []any{x})
		}
	}
	return out
}

// refStage applies the documented meaning of one stage. callbacks=false (iterator, xslices): the
// "!v" failure annotations do not exist. erase as in srcTrace (for the extra sources of join/flat).
func refStage(tok string, t trace, callbacks, erase bool) (trace, bool) {
	k, arg := splitTok(tok)
	out := trace{term: t.term}
	switch k {
	case "peek":
		return t, true
	case "chunk":
		n := atoi(arg)
		if n < 1 {
			return t, false
		}
		i := 0
		for ; i+n <= len(t.items); i += n {
			out.items = append(out.items, append([]any{}, t.items[i:i+n]...))
		}
		if i < len(t.items) && t.term == "end" {
			out.items = append(out.items, append([]any{}, t.items[i:]...))
		}
		return out, true
	case "compact", "compactw":
		same := relOf(arg)
		if k == "compactw" {
			same = eqV // Compact: "elides adjacent duplicates"
		}
		for i, x := range t.items {
			if i > 0 && same(t.items[i-1], x) {
				continue
			}
			out.items = append(out.items, x)
		}
		return out, true
	case "filter", "map", "while":
		name, bad := splitBang(arg)
		if !callbacks {
			bad = nil
		}
		for _, x := range t.items {
			if bad != nil && toInt(x) == *bad {
				out.term = "cb" + strconv.Itoa(*bad)
				return out, true
			}
			switch k {
			case "filter":
				if predOf(name)(x) {
					out.items = append(out.items, x)
				}
			case "map":
				out.items = append(out.items, fnOf(name)(x))
			case "while":
				if !predOf(name)(x) {
					out.term = "end"
					return out, true
				}
				out.items = append(out.items, x)
			}
		}
		return out, true
	case "first":
		n := atoi(arg)
		if n < 0 {
			n = 0
		}
		if len(t.items) >= n {
			out.items = append(out.items, t.items[:n]...)
			out.term = "end"
			return out, true
		}
		out.items = append(out.items, t.items...)
		return out, true
	case "flats":
		for _, x := range t.items {
			out.items = append(out.items, asList(x)...)
		}
		return out, true
	case "flat":
		tbl := strings.Split(arg, ";")
		for _, x := range t.items {
			in := srcTrace(pickScript(tbl, x), erase)
			out.items = append(out.items, in.items...)
			if in.term != "end" {
				out.term = in.term
				return out, true
			}
		}
		return out, true
	case "join":
		out.items = append(out.items, t.items...)
		if t.term != "end" {
			return out, true
		}
		for _, sc := range strings.Split(arg, ";") {
			in := srcTrace(sc, erase)
			out.items = append(out.items, in.items...)
			if in.term != "end" {
				out.term = in.term
				return out, true
			}
		}
		out.term = "end"
		return out, true
	case "runs":
		f := strings.Split(arg, ",")
		if len(f) < 1 {
			return t, false
		}
		take := -1
		if len(f) >= 2 {
			take = optTake(f[1])
		}
		gs := groupAdjacent(t.items, relOf(f[0]))
		for i, g := range gs {
			last := i == len(gs)-1
			complete := !last || t.term == "end"
			if take >= 0 && len(g) >= take {
				out.items = append(out.items, append([]any{}, g[:take]...))
			} else if complete {
				out.items = append(out.items, append([]any{}, g...))
			}
		}
		return out, true
	case "repeat":
		var a any = 0
		if len(t.items) > 0 {
			a = t.items[0]
		}
		out.items = nil
		for i := 0; i < atoi(arg); i++ {
			out.items = append(out.items, a)
		}
		out.term = "end"
		return out, true
	}
	return t, false
}

// refSource: the trace of the first token of a pipeline.
func refSource(tok string, erase bool) (trace, bool) {
	k, arg := splitTok(tok)
	switch k {
	case "src", "fromit", "chan", "slice":
		return srcTrace(arg, erase), true
	case "empty":
		return trace{term: "end"}, true
	case "error":
		return trace{term: "f" + strconv.Itoa(atoi(arg))}, true
	case "counter":
		t := trace{term: "end"}
		for i := 0; i < atoi(arg); i++ {
			t.items = append(t.items, i)
		}
		return t, true
	case "repeat":
		t := trace{term: "end"}
		for i := 0; i < atoi(arg); i++ {
			t.items = append(t.items, 5)
		}
		return t, true
	}
	return trace{}, false
}

func refPipeline(toks []string, callbacks, erase bool) (trace, bool) {
	if len(toks) == 0 {
		return trace{}, false
	}
	t, ok := refSource(toks[0], erase)
	if !ok {
		return t, false
	}
	for _, s := range toks[1:] {
		if t, ok = refStage(s, t, callbacks, erase); !ok {
			return t, false
		}
	}
	return t, true
}

// refPipelineOn: the pipeline applied to an explicit fault-free input (used by the laziness probe).
func refPipelineOn(items []any, stages []string, callbacks bool) (trace, bool) {
	t := trace{items: items, term: "end"}
	ok := true
	for _, s := range stages {
		if t, ok = refStage(s, t, callbacks, true); !ok {
			return t, false
		}
	}
	return t, true
}

// firstResults: what the first k consumer calls of a fault-free run answer.
func firstResults(t trace, k int) []string {
	out := make([]string, 0, k)
	for i := 0; i < k; i++ {
		switch {
		case i < len(t.items):
			out = append(out, "item "+showV(t.items[i]))
		case t.term == "end":
			out = append(out, "end")
		default:
			out = append(out, "err "+t.term)
		}
	}
	return out
}

func sameStrings(a, b []string) bool {
	if len(a) != len(b) {
		return false
	}
	for i := range a {
		if a[i] != b[i] {
			return false
		}
	}
	return true
}

// stageNeed: how many results of its input (len(in)+1 = "and the end signal") one combinator has to
// see before its first j results are determined, callbacks being black boxes (their outcome on an item
// is known only once the item has been pulled). Written from the documentation of each combinator;
// this is the `need_C` of the laziness clause. ok=false: no closed form here (multi-source stages).
func stageNeed(tok string, in []any, j int) (int, bool) {
	k, arg := splitTok(tok)
	n := len(in)
	if j <= 0 {
		return 0, true
	}
	kept := func(keep func(i int) bool) (int, bool) {
		c := 0
		for i := range in {
			if keep(i) {
				c++
				if c == j {
					return i + 1, true
				}
			}
		}
		return n + 1, true
	}
	switch k {
	case "peek", "map":
		if j <= n {
			return j, true
		}
		return n + 1, true
	case "filter":
		name, _ := splitBang(arg)
		return kept(func(i int) bool { return predOf(name)(in[i]) })
	case "compact", "compactw":
		same := relOf(arg)
		if k == "compactw" {
			same = eqV
		}
		return kept(func(i int) bool { return i == 0 || !same(in[i-1], in[i]) })
	case "first":
		f := atoi(arg)
		if f < 0 {
			f = 0
		}
		if j <= f && j <= n {
			return j, true
		}
		if f <= n {
			return f, true
		}
		return n + 1, true
	case "chunk":
		c := atoi(arg)
		if c < 1 {
			return 0, false
		}
		if j*c <= n {
			return j * c, true
		}
		return n + 1, true
	case "while":
		name, _ := splitBang(arg)
		p := 0
		for p < n && predOf(name)(in[p]) {
			p++
		}
		if j <= p {
			return j, true
		}
		if p < n {
			return p + 1, true
		}
		return n + 1, true
	case "flats":
		c := 0
		for i, x := range in {
			c += len(asList(x))
			if c >= j {
				return i + 1, true
			}
		}
		return n + 1, true
	case "runs":
		f := strings.Split(arg, ",")
		take := -1
		if len(f) >= 2 {
			take = optTake(f[1])
		}
		gs := groupAdjacent(in, relOf(f[0]))
		if j > len(gs) {
			return n + 1, true
		}
		start := 0
		for i := 0; i < j-1; i++ {
			start += len(gs[i])
		}
		g := gs[j-1]
		if take >= 0 && len(g) >= take {
			if take == 0 {
				return start + 1, true
			}
			return start + take, true
		}
		if start+len(g) < n {
			return start + len(g) + 1, true
		}
		return n + 1, true
	}
	return 0, false
}

// need: the number of source items that determine the first k answers of a single-source pipeline
// (composition of the per-combinator closed forms, last stage first).
func need(items []any, stages []string, k int) (int, bool) {
	// intermediate sequences
	seqs := [][]any{items}
	t := trace{items: items, term: "end"}
	for _, s := range stages {
		var ok bool
		if t, ok = refStage(s, t, false, true); !ok {
			return 0, false
		}
		seqs = append(seqs, t.items)
	}
	j := k
	for i := len(stages) - 1; i >= 0; i-- {
		m, ok := stageNeed(stages[i], seqs[i], j)
		if !ok {
			return 0, false
		}
		j = m
	}
	if j > len(items) {
		j = len(items)
	}
	return j, true
}
