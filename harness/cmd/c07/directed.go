package main

// Directed pass: deterministic, seed-independent, runs in every tier before the random generation.
//
// It covers the class "a call that FAILS while a stage is (or is not) holding an item, and the consumer
// carries on": for every stage whose state machine has a look-ahead / pending item (WithPeek, Runs,
// Chunk, Compact, First, While, Flatten, FlattenSlices, Join, ...) every position of the failing call x
// {expired per-call context, transient source failure} followed by a retry with live contexts. For
// WithPeek the failing call is a Peek as well as a Next (so that Peek, not only Next, is the call that
// reaches the source when it fails); Runs is driven through its ports by the documented protocol with
// every failed call retried, and as a stage read run by run.
//
// Nothing here judges anything: the cases go through check() like generated ones (monitors +
// correspondence with the Lean model).

import (
	"strconv"
	"strings"
)

var peekAlphabet = []string{"pnext 1", "ppeek 1", "pnext 0", "ppeek 0"}

// opStrings: every sequence over alpha of length 0..depth.
func opStrings(alpha []string, depth int, f func(ops []string)) {
	var rec func(cur []string)
	rec = func(cur []string) {
		f(append([]string{}, cur...))
		if len(cur) == depth {
			return
		}
		for _, a := range alpha {
			rec(append(cur, a))
		}
	}
	rec(nil)
}

// peekDrain: Peek then Next, n+1 times (the last pair meets the end), one more of each, Close.
func peekDrain(n int) []string {
	var ops []string
	for i := 0; i <= n; i++ {
		ops = append(ops, "ppeek 1", "pnext 1")
	}
	return append(ops, "pnext 1", "ppeek 1", "pclose")
}

// withTransient: the items with one transient failure t1 in front of position p (p = len: at the end).
func withTransient(items []int, p int) string {
	var s []string
	for i := 0; i <= len(items); i++ {
		if i == p {
			s = append(s, "t1")
		}
		if i < len(items) {
			s = append(s, strconv.Itoa(items[i]))
		}
	}
	return strings.Join(s, ",")
}

// peekFailSpace: WithPeek over sources of length 0..maxLen (distinct items, and one with equal items),
// fault-free (heads src= and fromit=) x every Next/Peek sequence with live and expired contexts up to
// depthCtx, and with one transient failure at every position x every sequence up to depthT; then the
// stream is read to its end by Peek/Next pairs with live contexts.
func peekFailSpace(maxLen, depthCtx, depthT int) {
	for n := 0; n <= maxLen; n++ {
		inputs := [][]int{make([]int, n)}
		for i := range inputs[0] {
			inputs[0][i] = i + 1
		}
		if n >= 2 {
			eq := make([]int, n)
			for i := range eq {
				eq[i] = 5
			}
			inputs = append(inputs, eq)
		}
		for _, items := range inputs {
			for _, head := range []string{"src=", "fromit="} {
				opStrings(peekAlphabet, depthCtx, func(ops []string) {
					res.Count("directed-peek-ctx")
					check(append(append([]string{"stpk " + head + itemsStr(items)}, ops...), peekDrain(n)...))
				})
			}
			for p := 0; p <= n; p++ {
				opStrings(peekAlphabet, depthT, func(ops []string) {
					res.Count("directed-peek-transient")
					check(append(append([]string{"stpk src=" + withTransient(items, p)}, ops...), peekDrain(n+1)...))
				})
			}
		}
	}
}

// portsProtocol follows the documented protocol of Runs on the implementation: outer Next, read the
// inner stream to its end, outer Next, ... The failAt-th call (0-based; -1: none) is made with an expired
// context; every call that fails softly (context error, transient failure) is repeated with a live
// context. The answer is a fixed case (build line + ops) like any other.
func portsProtocol(build string, failAt int) []string {
	lines := []string{build}
	watched(lines, func() {
		st := &implState{}
		st.exec(build)
		g, calls, ends := 0, 0, 0
		for len(lines) < 48 && ends < 2 {
			c := "1"
			if calls == failAt {
				c = "0"
			}
			op := "onext " + c
			if g != 0 {
				op = "inext " + strconv.Itoa(g) + " " + c
			}
			calls++
			out, _ := splitOut(st.exec(op))
			lines = append(lines, op)
			switch {
			case strings.HasPrefix(out, "run "):
				g = st.gen
			case strings.HasPrefix(out, "item "):
			case out == "end":
				if g == 0 {
					ends++ // the outer stream has ended; ask once more (the end is sticky)
				}
				g = 0
			case out == "err ctx" || strings.HasPrefix(out, "err t"):
				// failed softly: the same call again
			default:
				ends = 2 // hard failure or panic: the protocol ends here
			}
		}
	})
	return append(lines, "oclose")
}

// portsSkipProtocol: the consumer that looks at the first `take` items of every run only (take = 0: at
// none) and then asks the outer stream for the next run, leaving the rest of the inner stream unread - the
// outer Next skips it. failAt / soft failures as in portsProtocol: a call that fails softly is repeated.
func portsSkipProtocol(build string, take, failAt int) []string {
	lines := []string{build}
	watched(lines, func() {
		st := &implState{}
		st.exec(build)
		g, calls, ends, read := 0, 0, 0, 0
		for len(lines) < 48 && ends < 2 {
			c := "1"
			if calls == failAt {
				c = "0"
			}
			op := "onext " + c
			if g != 0 && read < take {
				op = "inext " + strconv.Itoa(g) + " " + c
			}
			calls++
			out, _ := splitOut(st.exec(op))
			lines = append(lines, op)
			switch {
			case strings.HasPrefix(out, "run "):
				g, read = st.gen, 0
			case strings.HasPrefix(out, "item "):
				read++
			case out == "end":
				if strings.HasPrefix(op, "onext") {
					ends++
					g = 0
				} else {
					read = take // the run was shorter than take
				}
			case out == "err ctx" || strings.HasPrefix(out, "err t"):
			default:
				ends = 2
			}
		}
	})
	return append(lines, "oclose")
}

var runsSkipInputs = [][]int{{5, 5}, {5, 5, 5, 7}, {5, 5, 7, 7}, {5, 5, 5, 7, 7, 9}, {1, 3, 5, 2, 4, 7}, {4, 6, 5, 5, 8}, {1, 2, 3, 1, 2, 1}}

// directedRunsSkip: inner streams left undrained x an expired context at every call x a transient failure
// at every position of the source (so also at every pull the outer Next makes while it skips), repeated.
func directedRunsSkip() {
	for _, items := range runsSkipInputs {
		for _, rel := range []string{"eq", "par", "le"} {
			for take := 0; take <= 2; take++ {
				base := "strp " + rel + " src=" + itemsStr(items)
				calls := len(portsSkipProtocol(base, take, -1)) - 2
				for k := -1; k < calls; k++ {
					res.Count("directed-runs-skip-ctx")
					check(portsSkipProtocol(base, take, k))
				}
				for p := 0; p <= len(items); p++ {
					res.Count("directed-runs-skip-transient")
					check(portsSkipProtocol("strp "+rel+" src="+withTransient(items, p), take, -1))
				}
			}
		}
	}
}

var runsInputs = [][]int{{}, {5}, {5, 5}, {5, 7}, {5, 7, 7}, {5, 5, 5, 7}, {5, 5, 7, 7}, {4, 6, 5}}

func directedRuns() {
	for _, items := range runsInputs {
		n := len(items)
		for _, rel := range []string{"eq", "par"} {
			// ports: an expired context at every call of the protocol; a transient failure at every position
			base := "strp " + rel + " src=" + itemsStr(items)
			calls := len(portsProtocol(base, -1)) - 2
			for k := -1; k < calls; k++ {
				res.Count("directed-runs-ports-ctx")
				check(portsProtocol(base, k))
			}
			for p := 0; p <= n; p++ {
				res.Count("directed-runs-ports-transient")
				check(portsProtocol("strp "+rel+" src="+withTransient(items, p), -1))
				check(portsProtocol("strp "+rel+" src="+withTransient(items, p), p+1))
			}
			// as a stage, every run read completely: Next until the end, a failed call is simply repeated
			for _, cl := range []string{"0", "1"} {
				stage := " runs=" + rel + ",all," + cl
				for p := 0; p <= n; p++ {
					res.Count("directed-runs-stage")
					check(append(append([]string{"st src=" + withTransient(items, p) + stage}, repeatOp("next 1", n+4)...), "close"))
					ops := repeatOp("next 1", n+4)
					ops[p] = "next 0"
					check(append(append([]string{"st src=" + itemsStr(items) + stage}, ops...), "close"))
				}
				check([]string{"st src=" + withTransient(items, n/2) + stage, "collect 1"})
			}
		}
	}
}

func repeatOp(op string, k int) []string {
	out := make([]string, k)
	for i := range out {
		out[i] = op
	}
	return out
}

// directedStages: every single-stage configuration (and three compositions) x sources of length 0..maxLen
// x {expired context on call p, transient failure at position p then recovery}, p = 0..len: the consumer
// goes on with live contexts after the failed call (faultCase kinds 2 and 3 of the thorough enumeration).
func directedStages(maxLen int) {
	for n := 0; n <= maxLen; n++ {
		inputs := [][]int{make([]int, n)}
		for i := range inputs[0] {
			inputs[0][i] = i
		}
		if n >= 2 {
			dup := make([]int, n)
			for i := range dup {
				dup[i] = i / 2
			}
			inputs = append(inputs, dup)
		}
		for _, items := range inputs {
			for _, cfg := range faultConfigs(n) {
				for p := 0; p <= n; p++ {
					res.Count("directed-stage-faults")
					faultCase(items, cfg, p, 2)
					faultCase(items, cfg, p, 3)
				}
			}
		}
	}
}

func directed() {
	peekFailSpace(3, 3, 2)
	directedRuns()
	directedRunsSkip()
	directedStages(3)
	flush()
}
