package main

// C07 for stream.WithPeek and stream.Runs (which is built on WithPeek), judged in *every* case -- also
// in those that contain failed calls (expired per-call context, transient source failure, retried).
//
// Reference: the tap (impl.go: tapS), a recorder written here that sits between the source pipeline
// and the WithPeek / Runs under test and remembers what that source *delivered*. The clauses:
//
//   - "WithPeek returns s with a Peek method attached": the items WithPeek hands out through Next are
//     exactly the items its source delivered, in order, none invented, none dropped, and the end is
//     reported only when the source has reported it and nothing delivered is still held
//     (c07-withpeek-items-st);
//   - "If Peek returns a value, the next call to Next will return the same value"
//     (c07-peeknext-differs-st; a Next that fails on an expired context is left open);
//   - Runs: "the inner streams yield contiguous elements from s such that same(a, b) ... for any a and b
//     in the run": every item an inner stream hands out is an item the source delivered (in order); when
//     the runs are read completely (the documented protocol) their concatenation is exactly what was
//     delivered and they are the maximal runs (c07-runs-items-st, c07-runs-items-st-ports).
//
// What a failed call may cost is C08's business (kinds c08-item-lost-or-duplicated-*): the clauses here
// never ask *which* calls fail, only that nothing is handed out that the source did not deliver. After
// a hard failure (source error, callback error) was reported nothing more is judged (notes/C07.md).

import (
	"fmt"
	"strings"
)

// softAnswer: an answer that is a failed call which the consumer may retry (the context error of an
// expired per-call context, a transient failure some script of the case holds).
func softAnswer(res string, live bool, trans map[string]bool) bool {
	if res == "err ctx" {
		return true // with a live context this is reported by the C08 clause; nothing was handed out
	}
	return strings.HasPrefix(res, "err t") && trans[strings.TrimPrefix(res, "err ")]
}

func showDelivered(d []any, handed int) string {
	if handed > len(d) {
		handed = len(d)
	}
	return fmt.Sprintf("delivered %s, handed out %d of them", showList(d), handed)
}

// peekConservation: ops pnext/ppeek (mode stpk) or next (mode st, last stage `peek`).
func peekConservation(c caseInfo, outs []string, st *implState, nextOp, peekOp, closeOp string) []fail {
	tap := st.lastTap()
	if tap == nil {
		return nil
	}
	toks := c.builds[0]
	params := mkParams("st", toks)
	params["who"] = "peek"
	trans := transientNames(toks)
	var fails []fail
	handed := 0
	peeked, hasPeeked := "", false
	repSame := false
	for i, o := range c.ops {
		f := strings.Fields(o)
		if f[0] == closeOp || (f[0] != nextOp && f[0] != peekOp) || len(f) != 2 || c.nbuild+i >= len(st.tapAt) {
			break
		}
		res, _ := splitOut(outs[i])
		mark := st.tapAt[c.nbuild+i]
		d := tap.got[:mark.n]
		live := f[1] != "0"
		isPeek := f[0] == peekOp
		differs := func(what string) {
			if !repSame {
				repSame = true
				fails = append(fails, fail{"c07-peeknext-differs-st", params,
					fmt.Sprintf("%s: Peek returned %s; the next call to Next (op %d %q) %s", strings.Join(toks, " "), peeked, i, o, what)})
			}
		}
		switch {
		case strings.HasPrefix(res, "item "):
			v := strings.TrimPrefix(res, "item ")
			if !isPeek && hasPeeked && peeked != v {
				differs("returned " + v)
			}
			if handed >= len(d) || showV(d[handed]) != v {
				nxt := "nothing delivered is pending"
				if handed < len(d) {
					nxt = "the next delivered item is " + showV(d[handed])
				}
				fails = append(fails, fail{"c07-withpeek-items-st", params,
					fmt.Sprintf("%s: op %d %q hands out item %s, which its source has not delivered at this point (%s; %s)",
						strings.Join(toks, " "), i, o, v, showDelivered(d, handed), nxt)})
				return fails
			}
			if isPeek {
				peeked, hasPeeked = v, true
			} else {
				hasPeeked = false
				handed++
			}
		case res == "end":
			if !isPeek && hasPeeked {
				differs("reported the end")
			}
			if !mark.ended || handed != len(d) {
				why := "its source has not reported the end"
				if mark.ended {
					why = "an item its source delivered was never handed out"
				}
				fails = append(fails, fail{"c07-withpeek-items-st", params,
					fmt.Sprintf("%s: op %d %q reports the end although %s (%s)", strings.Join(toks, " "), i, o, why, showDelivered(d, handed))})
				return fails
			}
		case softAnswer(res, live, trans):
			if !isPeek && hasPeeked && live {
				differs("failed with " + res)
			}
		default:
			return fails // hard failure (or panic: the value monitors report it): nothing more is judged
		}
	}
	return fails
}

// matchFrom: the first index >= cur of an item rendered v in d, or -1.
func matchFrom(d []any, cur int, v string) int {
	for i := cur; i < len(d); i++ {
		if showV(d[i]) == v {
			return i
		}
	}
	return -1
}

// runsPortsConservation: mode strp. Whatever the order of outer and inner calls, an inner stream only
// hands out items that the source delivered and that no inner stream has handed out before, in order
// (c07-runs-items-st-ports); and a run starts where a run of what the source delivered starts
// (c07-runs-not-maximal-st-ports, fix9b): the first item handed out by the inner stream that the last
// successful outer Next returned - nothing else has been asked of the outer stream since, the inner stream
// was not closed - is the head of that run. It is one of the delivered items no inner stream has handed out
// yet (the clause above); if *every* such item of that value directly follows a delivered item with which
// `same` holds, then wherever the run was cut, the cut lies inside a run of the delivered sequence: the two
// neighbours belong to one run of xslices.Runs / iterator.Runs of the same items ("the iterator, stream and
// xslices versions of the same operation agree"), and of the stream version whenever no call fails.
// How the consumer got there - inner streams left undrained (the outer Next then skips the rest, which is
// what the implementation documents by doing it), outer calls that failed softly and were repeated - does
// not enter: only what the source delivered does.
func runsPortsConservation(c caseInfo, outs []string, st *implState) []fail {
	tap := st.lastTap()
	if tap == nil {
		return nil
	}
	toks := c.builds[0]
	params := mkParams("st", toks)
	params["who"] = "runs"
	params["rel"] = c.rel
	trans := transientNames(toks)
	same := relOf(c.rel)
	cur := 0
	curRun, headSeen := 0, false // the run the last successful outer Next returned (0: none / abandoned / closed)
	curDrained := false          // ... has reported its end
	maxOff := false              // an undrained inner stream was closed: where the next run starts is not specified (DESIGN 8a; not generated)
	for i, o := range c.ops {
		f := strings.Fields(o)
		if f[0] == "oclose" || c.nbuild+i >= len(st.tapAt) {
			break
		}
		res, _ := splitOut(outs[i])
		if f[0] == "iclose" {
			if len(f) > 1 && atoi(f[1]) == curRun && curRun != 0 {
				if !curDrained {
					maxOff = true
				}
				curRun = 0
			}
			continue
		}
		if f[0] != "onext" && f[0] != "inext" {
			break
		}
		live := f[len(f)-1] != "0"
		d := tap.got[:st.tapAt[c.nbuild+i].n]
		if f[0] == "onext" {
			// the outer stream was asked to move on (even by a call that fails): the old run is abandoned
			curRun, headSeen, curDrained = 0, false, false
			if strings.HasPrefix(res, "run ") {
				curRun = atoi(strings.TrimPrefix(res, "run "))
			}
		}
		switch {
		case f[0] == "inext" && strings.HasPrefix(res, "item "):
			v := strings.TrimPrefix(res, "item ")
			j := matchFrom(d, cur, v)
			if j < 0 {
				return []fail{{"c07-runs-items-st-ports", params,
					fmt.Sprintf("%s (same=%s): op %d %q hands out item %s, which is not among the items the source delivered and no run has handed out yet (%s)",
						strings.Join(toks, " "), c.rel, i, o, v, showDelivered(d, cur))}}
			}
			if len(f) > 1 && atoi(f[1]) == curRun && curRun != 0 && !headSeen && !maxOff {
				headSeen = true
				inside := true // every candidate position lies inside a run of the delivered sequence
				for k := j; k < len(d) && inside; k++ {
					if showV(d[k]) == v && (k == 0 || !same(d[k-1], d[k])) {
						inside = false
					}
				}
				if inside {
					return []fail{{"c07-runs-not-maximal-st-ports", params,
						fmt.Sprintf("%s (same=%s): op %d %q: run %d starts with item %s, but every delivered item %s that no run has handed out yet directly follows an item it is `same` with (%s): a run of the source was split in two",
							strings.Join(toks, " "), c.rel, i, o, curRun, v, v, showDelivered(d, cur))}}
				}
			}
			cur = j + 1
		case res == "end" && f[0] == "inext" && len(f) > 1 && atoi(f[1]) == curRun:
			curDrained = true
		case strings.HasPrefix(res, "item "), strings.HasPrefix(res, "run "), res == "end", softAnswer(res, live, trans):
		default:
			return nil
		}
	}
	return nil
}

// runsConservation: mode st, last stage `runs=rel,take,close` driven by Next (the adapter runsProtoS reads
// every run as the documentation asks; a failed call keeps what it has read and the next call carries on).
func runsConservation(c caseInfo, outs []string, st *implState) []fail {
	tap := st.lastTap()
	if tap == nil {
		return nil
	}
	toks := c.builds[0]
	_, arg := splitTok(toks[len(toks)-1])
	ra := strings.Split(arg, ",")
	if len(ra) != 3 {
		return nil
	}
	same := relOf(ra[0])
	whole := ra[1] == "all"
	params := mkParams("st", toks)
	params["who"] = "runs"
	trans := transientNames(toks)
	cur := 0
	var lastOfPrev any
	havePrev := false
	bad := func(i int, o, what string, d []any) []fail {
		return []fail{{"c07-runs-items-st", params, fmt.Sprintf("%s: answer of op %d %q: %s (%s)", strings.Join(toks, " "), i, o, what, showDelivered(d, cur))}}
	}
	for i, o := range c.ops {
		f := strings.Fields(o)
		if f[0] != "next" || len(f) != 2 || c.nbuild+i >= len(st.tapAt) {
			break
		}
		res, _ := splitOut(outs[i])
		mark := st.tapAt[c.nbuild+i]
		d := tap.got[:mark.n]
		live := f[1] != "0"
		switch {
		case strings.HasPrefix(res, "item ["):
			// the run as a list of renderings: re-read it from the tap rather than parsing the answer
			body := strings.TrimSuffix(strings.TrimPrefix(res, "item ["), "]")
			var vs []string
			if body != "" {
				vs = strings.Split(body, ",")
			}
			for _, v := range vs {
				if strings.ContainsAny(v, "[]") {
					return nil // nested values (Runs over chunks): not judged here
				}
			}
			if !whole {
				for _, v := range vs {
					j := matchFrom(d, cur, v)
					if j < 0 {
						return bad(i, o, "the run holds item "+v+", which is not among the items the source delivered and no run has handed out yet", d)
					}
					cur = j + 1
				}
				continue
			}
			if len(vs) == 0 {
				return bad(i, o, "an empty run", d)
			}
			for k, v := range vs {
				if cur >= len(d) || showV(d[cur]) != v {
					nxt := "nothing delivered is pending"
					if cur < len(d) {
						nxt = "the next delivered item is " + showV(d[cur])
					}
					return bad(i, o, "the run "+res[5:]+" holds item "+v+" which the source has not delivered at this point ("+nxt+")", d)
				}
				if k == 0 && havePrev && same(lastOfPrev, d[cur]) {
					return bad(i, o, "the run "+res[5:]+" starts with an item that belongs to the previous run (same("+showV(lastOfPrev)+", "+v+") holds)", d)
				}
				if k > 0 && !same(d[cur-1], d[cur]) {
					return bad(i, o, "the run "+res[5:]+" holds neighbours "+showV(d[cur-1])+", "+v+" for which same does not hold", d)
				}
				cur++
			}
			lastOfPrev, havePrev = d[cur-1], true
		case res == "end":
			if whole && (!mark.ended || cur != len(d)) {
				why := "the source has not reported the end"
				if mark.ended {
					why = "an item the source delivered is in no run"
				}
				return bad(i, o, "the end is reported although "+why, d)
			}
		case softAnswer(res, live, trans):
		default:
			return nil
		}
	}
	return nil
}

// fromitConservation: C07 for stream.FromIterator ("FromIterator returns a Stream that yields the values from
// iter"), judged in every case that builds one -- whatever the stages behind it, whatever calls failed on the way.
// Reference: the two recorders of impl.go (tappedFromIterator). At every executed line up to the first Close: the
// items the stream has handed out are exactly the first items the iterator delivered, in order, and the end is
// reported only when the iterator has ended and everything it delivered was handed out. Nothing is asked about
// *when* the iterator is pulled (that is the laziness clause) nor about what a failed call costs (C08): an
// implementation that pulled ahead and kept the item for the next call would pass.
func fromitConservation(c caseInfo, st *implState) []fail {
	var fails []fail
	for _, r := range st.reg.fromits {
		if r.badAt < 0 {
			continue
		}
		toks := c.builds[0]
		params := mkParams(strings.TrimSuffix(strings.TrimSuffix(c.mode, "pk"), "rp"), toks)
		params["who"] = "fromiterator"
		at := "the build line"
		if i := r.badAt - c.nbuild; i >= 0 && i < len(c.ops) {
			at = fmt.Sprintf("op %d %q", i, c.ops[i])
		}
		fails = append(fails, fail{"c07-fromiterator-items-st", params, fmt.Sprintf("%s: after %s: %s", strings.Join(toks, " "), at, r.what)})
		break
	}
	return fails
}

// compactConservation: mode st, last stage `compact=<equivalence>` / `compactw`, driven by Next. "Compact elides
// adjacent duplicates from s": at every executed line up to the first Close, the items handed out are the first
// items of "what the source has delivered so far with adjacent duplicates elided" (the first item of every run
// of adjacent duplicates, in order), and the end is reported only after the source's end with every such item
// handed out. Judged in every case, also those with failed calls (expired per-call context, transient failure,
// retried): the clause never asks which calls fail or what a failed call costs (C08), only that what is
// handed out is what the documentation defines for the items the source delivered. After a hard failure
// nothing more is judged.
func compactConservation(c caseInfo, outs []string, st *implState) []fail {
	tap := st.lastTap()
	if tap == nil {
		return nil
	}
	toks := c.builds[0]
	k, arg := splitTok(toks[len(toks)-1])
	same := relOf(arg)
	if k == "compactw" {
		same = eqV
	}
	params := mkParams("st", toks)
	params["who"] = "compact"
	trans := transientNames(toks)
	elided := func(d []any) []any {
		var out []any
		for i, x := range d {
			if i > 0 && same(d[i-1], x) {
				continue
			}
			out = append(out, x)
		}
		return out
	}
	handed := 0
	for i, o := range c.ops {
		f := strings.Fields(o)
		if f[0] != "next" || len(f) != 2 || c.nbuild+i >= len(st.tapAt) {
			break
		}
		res, _ := splitOut(outs[i])
		mark := st.tapAt[c.nbuild+i]
		d := tap.got[:mark.n]
		want := elided(d)
		switch {
		case strings.HasPrefix(res, "item "):
			v := strings.TrimPrefix(res, "item ")
			if handed >= len(want) || showV(want[handed]) != v {
				nxt := "all of them have been handed out"
				if handed < len(want) {
					nxt = "the next one is " + showV(want[handed])
				}
				return []fail{{"c07-compact-items-st", params,
					fmt.Sprintf("%s: op %d %q hands out item %s; its source has delivered %s, which with adjacent duplicates elided is %s, %d of them handed out so far (%s)",
						strings.Join(toks, " "), i, o, v, showList(d), showList(want), handed, nxt)}}
			}
			handed++
		case res == "end":
			if !mark.ended || handed != len(want) {
				why := "its source has not reported the end"
				if mark.ended {
					why = "an item that starts a run of adjacent duplicates was never handed out"
				}
				return []fail{{"c07-compact-items-st", params,
					fmt.Sprintf("%s: op %d %q reports the end although %s (its source has delivered %s, which with adjacent duplicates elided is %s; handed out %d of them)",
						strings.Join(toks, " "), i, o, why, showList(d), showList(want), handed)}}
			}
		case softAnswer(res, f[1] != "0", trans):
		default:
			return nil // hard failure (or panic: the value monitors report it): nothing more is judged
		}
	}
	return nil
}
