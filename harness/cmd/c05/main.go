// C05: xheap.Heap and xheap.PriorityQueue always hand out a minimum; the key->index map stays exact.
//
// Correspondence: the same constructor + op lines run on the real xheap.Heap[Item] /
// xheap.PriorityQueue[int,int] (less- and cmp-constructed, three orders) and on the Lean model
// (`driver heap`); after the constructor and after every op a full observation (Len, Peek, for the
// queue Contains/Priority of every key of the universe) and the array layout (a fresh iterator over
// the unchanged container yields the array in order) are compared line by line, so even the choice
// among ties must agree.
// Monitor (the property oracle): the clauses of the property checked on the implementation against a
// reference multiset / map: results are *a* minimum, Len counts, draining is non-decreasing, the
// initial list holds each distinct key once, Pop/Peek on empty panic.
package main

import (
	"fmt"
	"os"
	"runtime"
	"strconv"
	"strings"
	"sync"
	"sync/atomic"
	"time"

	hc "verifharness/heapcommon"
	"verifharness/vlib"
)

type Case = hc.Case
type Op = hc.Op

// ---------------------------------------------------------------------------------------------
// monitors

func parseItem(s string) (hc.Item, bool) {
	ab := strings.Split(s, ":")
	if len(ab) != 2 {
		return hc.Item{}, false
	}
	p, e1 := strconv.Atoi(ab[0])
	id, e2 := strconv.Atoi(ab[1])
	return hc.Item{P: p, ID: id}, e1 == nil && e2 == nil
}

// monitorHeap: xheap.Heap behaves as a multiset with minimum extraction.
func monitorHeap(c Case) (kind, what string) {
	less := hc.OrdLess(c.Ord)
	var im *hc.Impl
	if p, v := vlib.Try(func() { im = hc.NewImpl(c) }); p {
		return "heap-unexpected-panic-new", fmt.Sprintf("constructor panicked: %v", v)
	}
	var ref []hc.Item
	for _, p := range c.Init {
		ref = append(ref, hc.Item{P: p[0], ID: p[1]})
	}
	find := func(x hc.Item) int {
		for i, y := range ref {
			if y == x {
				return i
			}
		}
		return -1
	}
	// isMin: x is held and no held item is less than it
	isMin := func(x hc.Item) (string, string) {
		if find(x) < 0 {
			return "not-held", fmt.Sprintf("%v is not among the held items %v", x, ref)
		}
		for _, y := range ref {
			if less(y.P, x.P) {
				return "not-minimum", fmt.Sprintf("%v was handed out while %v is held", x, y)
			}
		}
		return "", ""
	}
	if n, perr := im.HLen(); perr != "" {
		return "heap-unexpected-panic-len", "Len after construction: " + perr
	} else if n != len(ref) {
		return "heap-len-initial", fmt.Sprintf("Len %d after construction from %d items", n, len(ref))
	}
	for idx, o := range c.Ops {
		got := im.Apply(o)
		at := fmt.Sprintf("op %d %q", idx, o.Line())
		switch o.Name {
		case "push":
			ref = append(ref, hc.Item{P: o.A, ID: o.B})
			if got != "ok" {
				return "heap-unexpected-panic-push", at + " returned " + got
			}
		case "pop", "peek":
			if len(ref) == 0 {
				if got != "panic" {
					return "heap-" + o.Name + "-empty-no-panic", at + " on an empty heap returned " + got
				}
				break
			}
			x, ok := parseItem(got)
			if !ok {
				return "heap-unexpected-panic-" + o.Name, at + " returned " + got + " with items held"
			}
			if k, w := isMin(x); k != "" {
				return "heap-" + o.Name + "-" + k, at + ": " + w
			}
			if o.Name == "pop" {
				i := find(x)
				ref = append(ref[:i:i], ref[i+1:]...)
			}
		case "len":
			if got == "panic" {
				return "heap-unexpected-panic-len", at + " returned " + got
			}
			if got != strconv.Itoa(len(ref)) {
				return "heap-len", at + " returned " + got + fmt.Sprintf(", %d items are held", len(ref))
			}
		case "grow", "shrink":
			if got != "ok" {
				return "heap-unexpected-panic-" + o.Name, at + " returned " + got
			}
		default:
			continue
		}
		// the observation after every step: Len counts, Peek is a minimum of what is held
		if n, perr := im.HLen(); perr != "" {
			return "heap-unexpected-panic-len", "Len after " + at + ": " + perr
		} else if n != len(ref) {
			return "heap-len-after-" + o.Name, fmt.Sprintf("after %s Len is %d, pushes minus pops is %d", at, n, len(ref))
		}
		if len(ref) > 0 && o.Name != "peek" {
			pk := im.Apply(Op{Name: "peek"})
			x, ok := parseItem(pk)
			if !ok {
				return "heap-unexpected-panic-peek", "Peek after " + at + " returned " + pk + " with items held"
			}
			if k, w := isMin(x); k != "" {
				return "heap-peek-" + k + "-after-" + o.Name, "Peek after " + at + ": " + w
			}
		}
	}
	// draining returns everything in non-decreasing order
	var prev *hc.Item
	total := len(ref)
	for i := 0; i < total; i++ {
		got := im.Apply(Op{Name: "pop"})
		x, ok := parseItem(got)
		if !ok {
			return "heap-unexpected-panic-pop", fmt.Sprintf("drain: pop %d of %d returned %s", i, total, got)
		}
		if k, w := isMin(x); k != "" {
			return "heap-drain-" + k, fmt.Sprintf("drain: pop %d: %s", i, w)
		}
		if prev != nil && less(x.P, prev.P) {
			return "heap-drain-not-sorted", fmt.Sprintf("drain: %v came after %v", x, *prev)
		}
		y := x
		prev = &y
		j := find(x)
		ref = append(ref[:j:j], ref[j+1:]...)
	}
	if n, perr := im.HLen(); perr != "" {
		return "heap-unexpected-panic-len", "Len after draining: " + perr
	} else if n != 0 {
		return "heap-drain-count", fmt.Sprintf("after draining %d items Len is %d", total, n)
	}
	if got := im.Apply(Op{Name: "pop"}); got != "panic" {
		return "heap-pop-empty-no-panic", "pop after draining returned " + got
	}
	return "", ""
}

// monitorPQ: xheap.PriorityQueue behaves as a map key -> priority with minimum extraction.
func monitorPQ(c Case) (kind, what string) {
	less := hc.OrdLess(c.Ord)
	var im *hc.Impl
	if p, v := vlib.Try(func() { im = hc.NewImpl(c) }); p {
		return "pq-unexpected-panic-new", fmt.Sprintf("constructor panicked: %v", v)
	}
	// every call into the library is guarded; a panic that the property does not ask for (only Pop and
	// Peek on an empty queue must panic) is a failure of its own kind
	unexpected := func(op, where, perr string) (string, string) {
		return "pq-unexpected-panic-" + op, where + ": " + perr
	}
	ref := map[int]int{}
	// a queue built from an initial list holds each distinct key once (the text leaves open which
	// of the listed priorities a duplicated key gets)
	cand := map[int][]int{}
	var order []int // distinct keys in list order (deterministic reports)
	for _, p := range c.Init {
		if _, seen := cand[p[0]]; !seen {
			order = append(order, p[0])
		}
		cand[p[0]] = append(cand[p[0]], p[1])
	}
	if n, perr := im.QLen(); perr != "" {
		return unexpected("len", "Len after construction", perr)
	} else if n != len(cand) {
		return "pq-initial-dedup-len", fmt.Sprintf("Len %d for an initial list with %d distinct keys", n, len(cand))
	}
	for _, k := range order {
		ps := cand[k]
		if in, perr := im.QContains(k); perr != "" {
			return unexpected("contains", fmt.Sprintf("Contains(%d) after construction", k), perr)
		} else if !in {
			return "pq-initial-dedup-contains", fmt.Sprintf("key %d of the initial list is not contained", k)
		}
		p, perr := im.QPriority(k)
		if perr != "" {
			return unexpected("priority", fmt.Sprintf("Priority(%d) after construction", k), perr)
		}
		ok := false
		for _, q := range ps {
			ok = ok || p == q
		}
		if !ok {
			return "pq-initial-dedup-priority", fmt.Sprintf("key %d has priority %d, the initial list gives %v", k, p, ps)
		}
		ref[k] = p
	}
	// full: the observation after every step, judged against the reference map: Len, Contains and
	// Priority of every key of the universe, and Peek (a key whose current priority is minimal)
	full := func(after string) (string, string) {
		if n, perr := im.QLen(); perr != "" {
			return unexpected("len", "Len", perr)
		} else if n != len(ref) {
			return "pq-len-after-" + after, fmt.Sprintf("Len is %d, the mapping holds %d keys", n, len(ref))
		}
		for k := 0; k < c.U; k++ {
			p, in := ref[k]
			got, perr := im.QContains(k)
			if perr != "" {
				return unexpected("contains", fmt.Sprintf("Contains(%d)", k), perr)
			}
			// Priority of an absent key must not panic either (which value it returns is left open)
			gp, perr := im.QPriority(k)
			if perr != "" {
				return unexpected("priority", fmt.Sprintf("Priority(%d) (mapping: present=%v)", k, in), perr)
			}
			if got != in {
				return "pq-contains-after-" + after, fmt.Sprintf("Contains(%d) = %v, mapping says %v", k, got, in)
			}
			if in && gp != p {
				return "pq-priority-after-" + after, fmt.Sprintf("Priority(%d) = %d, mapping says %d", k, gp, p)
			}
		}
		return "", ""
	}
	isMin := func(k int) (string, string) {
		p, in := ref[k]
		if !in {
			return "absent-key", fmt.Sprintf("key %d is not in the mapping %v", k, ref)
		}
		for k2, p2 := range ref {
			if less(p2, p) {
				return "not-minimum", fmt.Sprintf("key %d (priority %d) was handed out while key %d has priority %d", k, p, k2, p2)
			}
		}
		return "", ""
	}
	observe := func(after string) (string, string) {
		if k, w := full(after); k != "" {
			return k, w
		}
		if len(ref) == 0 {
			return "", ""
		}
		pk := im.Apply(Op{Name: "qpeek"})
		k, err := strconv.Atoi(pk)
		if err != nil {
			return "pq-unexpected-panic-peek", "Peek returned " + pk + " with keys held"
		}
		if kk, w := isMin(k); kk != "" {
			return "pq-peek-" + kk + "-after-" + after, "Peek: " + w
		}
		return "", ""
	}
	if k, w := observe("new"); k != "" {
		return k, "after construction: " + w
	}
	for idx, o := range c.Ops {
		got := im.Apply(o)
		at := fmt.Sprintf("op %d %q", idx, o.Line())
		switch o.Name {
		case "update":
			ref[o.A] = o.B
			if got != "ok" {
				return "pq-unexpected-panic-update", at + " returned " + got
			}
		case "remove":
			delete(ref, o.A)
			if got != "ok" {
				return "pq-unexpected-panic-remove", at + " returned " + got
			}
		case "qpop", "qpeek":
			if len(ref) == 0 {
				if got != "panic" {
					return "pq-" + o.Name[1:] + "-empty-no-panic", at + " on an empty queue returned " + got
				}
				break
			}
			k, err := strconv.Atoi(got)
			if err != nil {
				return "pq-unexpected-panic-" + o.Name[1:], at + " returned " + got + " with keys held"
			}
			if kk, w := isMin(k); kk != "" {
				return "pq-" + o.Name[1:] + "-" + kk, at + ": " + w
			}
			if o.Name == "qpop" {
				delete(ref, k)
			}
		case "contains":
			_, in := ref[o.A]
			if got == "panic" {
				return "pq-unexpected-panic-contains", at + " returned " + got
			}
			if (got == "1") != in {
				return "pq-contains", at + " returned " + got + fmt.Sprintf(", mapping says %v", in)
			}
		case "priority":
			if got == "panic" {
				return "pq-unexpected-panic-priority", at + " returned " + got
			}
			if p, in := ref[o.A]; in && got != strconv.Itoa(p) {
				return "pq-priority", at + " returned " + got + fmt.Sprintf(", mapping says %d", p)
			}
		case "qlen":
			if got == "panic" {
				return "pq-unexpected-panic-len", at + " returned " + got
			}
			if got != strconv.Itoa(len(ref)) {
				return "pq-len", at + " returned " + got + fmt.Sprintf(", mapping holds %d keys", len(ref))
			}
		case "qgrow":
			if got != "ok" {
				return "pq-unexpected-panic-grow", at + " returned " + got
			}
		default:
			continue
		}
		if k, w := observe(o.Name); k != "" {
			return k, "after " + at + ": " + w
		}
	}
	total := len(ref)
	havePrev := false
	prev := 0
	for i := 0; i < total; i++ {
		got := im.Apply(Op{Name: "qpop"})
		k, err := strconv.Atoi(got)
		if err != nil {
			return "pq-unexpected-panic-pop", fmt.Sprintf("drain: pop %d of %d returned %s", i, total, got)
		}
		if kk, w := isMin(k); kk != "" {
			return "pq-drain-" + kk, fmt.Sprintf("drain: pop %d: %s", i, w)
		}
		if havePrev && less(ref[k], prev) {
			return "pq-drain-not-sorted", fmt.Sprintf("drain: key %d (priority %d) came after priority %d", k, ref[k], prev)
		}
		prev, havePrev = ref[k], true
		delete(ref, k)
		// the key map must stay exact while the queue drains, too
		if kk, w := full("drain-pop"); kk != "" {
			return kk, fmt.Sprintf("drain: after pop %d of %d: %s", i, total, w)
		}
	}
	if n, perr := im.QLen(); perr != "" {
		return unexpected("len", "Len after draining", perr)
	} else if n != 0 {
		return "pq-drain-count", fmt.Sprintf("after draining %d keys Len is %d", total, n)
	}
	if got := im.Apply(Op{Name: "qpop"}); got != "panic" {
		return "pq-pop-empty-no-panic", "pop after draining returned " + got
	}
	return "", ""
}

func monitor(c Case) (string, string) {
	if c.Kind == "pq" {
		return monitorPQ(c)
	}
	return monitorHeap(c)
}

// ---------------------------------------------------------------------------------------------
// generators

func pickPrio(r *vlib.Rand, mode int) int {
	switch mode {
	case 0:
		return r.Intn(2) // nearly all ties
	case 1:
		return r.Intn(5)
	case 2:
		return r.Intn(16) // several coarse classes
	}
	return r.Range(-1000, 1000)
}

func genHeap(r *vlib.Rand, res *vlib.Result) Case {
	c := Case{Kind: "heap", Ord: hc.Orders[r.Intn(3)], Ctor: hc.PickCtor(r)}
	pm := r.Intn(4)
	res.Count(fmt.Sprintf("heap-prio-mode-%d", pm))
	id := 0
	size := 0
	if r.Chance(2, 5) {
		n := []int{0, 1, 2, 3, 7, 8, r.Range(4, 24)}[r.Intn(7)]
		for i := 0; i < n; i++ {
			id++
			c.Init = append(c.Init, [2]int{pickPrio(r, pm), id})
		}
		size = n
		res.Count("heap-with-initial")
	}
	n := r.Range(5, 160)
	shape := r.Intn(4) // 0 mixed, 1 grow-then-drain, 2 sawtooth, 3 mixed with malformed calls
	for len(c.Ops) < n {
		w := []int{40, 30, 10, 5, 3, 3}
		switch shape {
		case 1:
			if len(c.Ops) < n/2 {
				w = []int{80, 5, 5, 2, 1, 1}
			} else {
				w = []int{5, 80, 5, 2, 1, 1}
			}
		case 2:
			if (len(c.Ops)/12)%2 == 0 {
				w = []int{70, 10, 10, 3, 1, 1}
			} else {
				w = []int{10, 70, 10, 3, 1, 1}
			}
		}
		malformed := shape == 3 && r.Chance(1, 6)
		switch r.Pick(w...) {
		case 0:
			id++
			c.Ops = append(c.Ops, Op{Name: "push", A: pickPrio(r, pm), B: id})
			size++
		case 1:
			if size > 0 || malformed {
				c.Ops = append(c.Ops, Op{Name: "pop"})
				if size > 0 {
					size--
				}
			}
		case 2:
			if size > 0 || malformed {
				c.Ops = append(c.Ops, Op{Name: "peek"})
			}
		case 3:
			c.Ops = append(c.Ops, Op{Name: "len"})
		case 4:
			c.Ops = append(c.Ops, Op{Name: "grow", A: r.Intn(20)})
		case 5:
			c.Ops = append(c.Ops, Op{Name: "shrink", A: r.Intn(4)})
		}
	}
	return c
}

// genPQ generates queue histories; positions (first / last / leaf / inner) are resolved against a
// shadow instance of the real queue, the resulting case is a plain list of concrete ops.
func genPQ(r *vlib.Rand, res *vlib.Result) Case {
	c := Case{Kind: "pq", Ord: hc.Orders[r.Intn(3)], Ctor: hc.PickCtor(r), U: r.Range(3, 12)}
	pm := r.Intn(4)
	res.Count(fmt.Sprintf("pq-prio-mode-%d", pm))
	if r.Chance(1, 2) {
		n := r.Intn(2*c.U + 1)
		for i := 0; i < n; i++ {
			c.Init = append(c.Init, [2]int{r.Intn(c.U), pickPrio(r, pm)})
		}
		res.Count("pq-with-initial")
	}
	shadow := hc.NewImplSafe(c)
	// the shadow is the library under test: its answers only steer the generation, and a panic in
	// it must not stop the search (the monitor judges the finished case)
	shadowLen := func() int {
		n, perr := shadow.QLen()
		if perr != "" {
			res.Count("pq-shadow-panic")
		}
		return n
	}
	shadowPrio := func(k int) int {
		p, perr := shadow.QPriority(k)
		if perr != "" {
			res.Count("pq-shadow-panic")
		}
		return p
	}
	n := r.Range(5, 160)
	malformedCase := r.Chance(1, 4)
	add := func(o Op) {
		c.Ops = append(c.Ops, o)
		shadow.Apply(o)
	}
	if len(c.Init) == 0 && r.Chance(1, 5) {
		// two-subtree shape: the left subtree holds large priorities, the right one small ones and
		// the last array element; removing / re-prioritising a node of the left subtree puts a
		// replacement there that must move *up*.
		size := []int{6, 7, 12, 13, 14, 15}[r.Intn(6)]
		c.U = size + r.Intn(3)
		sign := 1
		if c.Ord == "rev" {
			sign = -1
		}
		top := func(i int) int {
			for i > 2 {
				i = (i - 1) / 2
			}
			return i
		}
		depth := func(i int) int {
			d := 0
			for i > 0 {
				i = (i - 1) / 2
				d++
			}
			return d
		}
		var left []int
		for i := 0; i < size; i++ {
			p := 0
			switch top(i) {
			case 1:
				p = 100 + 20*depth(i) + r.Intn(8)
				left = append(left, i)
			case 2:
				p = 4 * depth(i)
			}
			add(Op{Name: "update", A: i, B: sign * p})
		}
		k := left[r.Intn(len(left))]
		if r.Bool() {
			add(Op{Name: "remove", A: k})
		} else {
			add(Op{Name: "qpop"})
			add(Op{Name: "remove", A: left[r.Intn(len(left))]})
		}
		res.Count("pq-two-subtree-shape")
		n = len(c.Ops) + r.Intn(6)
	}
	// key at a position class of the array
	keyAt := func(class int) (int, bool) {
		ks := shadow.QueueKeys()
		m := len(ks)
		if m == 0 {
			return 0, false
		}
		switch class {
		case 0:
			res.Count("pq-target-first")
			return ks[0], true
		case 1:
			res.Count("pq-target-last")
			return ks[m-1], true
		case 2: // a leaf: no children
			lo := m / 2
			res.Count("pq-target-leaf")
			return ks[lo+r.Intn(m-lo)], true
		default: // an inner node other than the root
			if m/2 <= 1 {
				return ks[r.Intn(m)], true
			}
			res.Count("pq-target-inner")
			return ks[1+r.Intn(m/2-1)], true
		}
	}
	absent := func() (int, bool) {
		var free []int
		for k := 0; k < c.U; k++ {
			if in, _ := shadow.QContains(k); !in {
				free = append(free, k)
			}
		}
		if len(free) == 0 {
			return 0, false
		}
		return free[r.Intn(len(free))], true
	}
	for len(c.Ops) < n {
		switch r.Pick(18, 24, 12, 14, 6, 5, 5, 3, 2) {
		case 0: // Update of a new key
			if k, ok := absent(); ok {
				add(Op{Name: "update", A: k, B: pickPrio(r, pm)})
				res.Count("pq-update-new")
			}
		case 1: // Update of an existing key: lower / higher / equal / to a tie with another key
			k, ok := keyAt(r.Intn(4))
			if !ok {
				continue
			}
			p := shadowPrio(k)
			switch r.Intn(4) {
			case 0:
				add(Op{Name: "update", A: k, B: p - 1 - r.Intn(6)})
				res.Count("pq-update-lower")
			case 1:
				add(Op{Name: "update", A: k, B: p + 1 + r.Intn(6)})
				res.Count("pq-update-higher")
			case 2:
				add(Op{Name: "update", A: k, B: p})
				res.Count("pq-update-equal")
			default:
				if k2, ok := keyAt(r.Intn(4)); ok {
					add(Op{Name: "update", A: k, B: shadowPrio(k2)})
					res.Count("pq-update-to-tie")
				}
			}
		case 2: // Remove by position
			if k, ok := keyAt(r.Intn(4)); ok {
				add(Op{Name: "remove", A: k})
				res.Count("pq-remove-present")
			}
		case 3:
			if shadowLen() > 0 || malformedCase {
				if shadowLen() == 0 {
					res.Count("pq-pop-on-empty")
				}
				add(Op{Name: "qpop"})
			}
		case 4:
			if shadowLen() > 0 || malformedCase {
				add(Op{Name: "qpeek"})
			}
		case 5: // Remove of an absent key
			if k, ok := absent(); ok {
				add(Op{Name: "remove", A: k})
				res.Count("pq-remove-absent")
			}
		case 6:
			add(Op{Name: []string{"contains", "priority"}[r.Intn(2)], A: r.Intn(c.U)})
		case 7:
			add(Op{Name: "qlen"})
		case 8:
			add(Op{Name: "qgrow", A: r.Intn(20)})
		}
	}
	return c
}

// bigCase: long histories on large heaps (thorough).
func bigCase(r *vlib.Rand, size int, pq bool) Case {
	if pq {
		c := Case{Kind: "pq", Ord: hc.Orders[r.Intn(3)], Ctor: hc.PickCtor(r), U: 6}
		keys := size
		for i := 0; i < keys/2; i++ {
			c.Init = append(c.Init, [2]int{r.Intn(keys), r.Intn(keys / 3)})
		}
		for i := 0; i < size; i++ {
			switch r.Pick(6, 3, 2) {
			case 0:
				c.Ops = append(c.Ops, Op{Name: "update", A: r.Intn(keys), B: r.Intn(keys / 3)})
			case 1:
				c.Ops = append(c.Ops, Op{Name: "qpop"})
			case 2:
				c.Ops = append(c.Ops, Op{Name: "remove", A: r.Intn(keys)})
			}
		}
		return c
	}
	c := Case{Kind: "heap", Ord: hc.Orders[r.Intn(3)], Ctor: hc.PickCtor(r)}
	id := 0
	for i := 0; i < size/2; i++ {
		id++
		c.Init = append(c.Init, [2]int{r.Intn(size / 4), id})
	}
	for i := 0; i < size; i++ {
		if r.Chance(3, 4) {
			id++
			c.Ops = append(c.Ops, Op{Name: "push", A: r.Intn(size / 4), B: id})
		} else {
			c.Ops = append(c.Ops, Op{Name: "pop"})
		}
	}
	return c
}

// largeCase: one history per run (every tier, quick included) on a heap / queue that holds several
// hundred items (target 300..600, far beyond the <= 160-op random histories): built by the constructor,
// grown by pushes / updates of new keys, then a mixed phase of every operation at that size. Checked
// with the full monitor (every Pop / Peek against the reference, sorted drain) and the full
// correspondence (observation + array dump after every op). A change of the code that is guarded by a
// size (`if len(h.a) <= 200 {...}`) is invisible below that size.
func largeCase(r *vlib.Rand, pq bool) Case {
	target := r.Range(300, 600)
	if pq {
		c := Case{Kind: "pq", Ord: hc.Orders[r.Intn(3)], Ctor: hc.PickCtor(r), U: 8}
		keys := 2 * target
		prio := func() int { return r.Intn(target / 3) }
		held := map[int]bool{}
		var heldList []int
		add := func(k int) {
			if !held[k] {
				held[k] = true
				heldList = append(heldList, k)
			}
		}
		del := func(k int) {
			if held[k] {
				delete(held, k)
				for i, x := range heldList {
					if x == k {
						heldList = append(heldList[:i], heldList[i+1:]...)
						break
					}
				}
			}
		}
		anyHeld := func() int { return heldList[r.Intn(len(heldList))] }
		for i := 0; i < target/3; i++ {
			k := r.Intn(keys)
			c.Init = append(c.Init, [2]int{k, prio()})
			add(k)
		}
		// grow: updates of new keys, now and then an existing one
		for len(heldList) < target {
			if len(heldList) > 0 && r.Chance(1, 5) {
				c.Ops = append(c.Ops, Op{Name: "update", A: anyHeld(), B: prio()})
			} else {
				k := r.Intn(keys)
				c.Ops = append(c.Ops, Op{Name: "update", A: k, B: prio()})
				add(k)
			}
		}
		// mixed phase at full size; qpop removes a key the generator does not know: resolve it on a shadow
		shadow := hc.NewImplSafe(c)
		for _, o := range c.Ops {
			shadow.Apply(o)
		}
		do := func(o Op) string {
			c.Ops = append(c.Ops, o)
			return shadow.Apply(o)
		}
		for i := 0; i < target/2; i++ {
			switch r.Pick(4, 3, 4, 3, 1, 1, 1, 1, 1) {
			case 0: // existing key, lower / higher / equal priority
				do(Op{Name: "update", A: anyHeld(), B: prio()})
			case 1:
				k := r.Intn(keys)
				do(Op{Name: "update", A: k, B: prio()})
				add(k)
			case 2:
				if got := do(Op{Name: "qpop"}); got != "panic" {
					if k, err := strconv.Atoi(got); err == nil {
						del(k)
					}
				}
			case 3:
				if len(heldList) > 0 {
					k := anyHeld()
					do(Op{Name: "remove", A: k})
					del(k)
				}
			case 4:
				do(Op{Name: "remove", A: keys + r.Intn(10)}) // absent
			case 5:
				do(Op{Name: "qpeek"})
			case 6:
				if len(heldList) > 0 {
					do(Op{Name: "priority", A: anyHeld()})
				}
			case 7:
				do(Op{Name: "contains", A: r.Intn(keys)})
			case 8:
				do(Op{Name: "qlen"})
			}
			if len(heldList) == 0 {
				break
			}
		}
		return c
	}
	c := Case{Kind: "heap", Ord: hc.Orders[r.Intn(3)], Ctor: hc.PickCtor(r)}
	prio := func() int { return r.Intn(target / 4) } // many ties
	id, size := 0, 0
	for i := 0; i < target/3; i++ {
		id++
		c.Init = append(c.Init, [2]int{prio(), id})
		size++
	}
	for size < target {
		if r.Chance(1, 6) && size > 0 {
			c.Ops = append(c.Ops, Op{Name: "pop"})
			size--
		} else {
			id++
			c.Ops = append(c.Ops, Op{Name: "push", A: prio(), B: id})
			size++
		}
	}
	for i := 0; i < target/2; i++ {
		switch r.Pick(5, 5, 1, 1, 1, 1) {
		case 0:
			id++
			// small priorities: the pushed item has to travel all the way up
			c.Ops = append(c.Ops, Op{Name: "push", A: r.Intn(3), B: id})
			size++
		case 1:
			if size > 0 {
				c.Ops = append(c.Ops, Op{Name: "pop"})
				size--
			}
		case 2:
			c.Ops = append(c.Ops, Op{Name: "peek"})
		case 3:
			c.Ops = append(c.Ops, Op{Name: "len"})
		case 4:
			c.Ops = append(c.Ops, Op{Name: "grow", A: r.Intn(50)})
		case 5:
			c.Ops = append(c.Ops, Op{Name: "shrink", A: r.Intn(4)})
		}
	}
	return c
}

// stats classifies what a case reaches (distribution + the non-triviality rule).
func stats(c Case, res *vlib.Result) bool {
	im := hc.NewImplSafe(c)
	maxSize, removals, panics := 0, 0, 0
	size := im.Size
	maxSize = size()
	for _, o := range c.Ops {
		before := size()
		existing := false
		if o.Name == "update" {
			existing, _ = im.QContains(o.A)
		}
		if im.Apply(o) == "panic" {
			panics++
		}
		if s := size(); s > maxSize {
			maxSize = s
		}
		if before >= 3 && (o.Name == "pop" || o.Name == "qpop" || (o.Name == "remove" && size() < before) || existing) {
			removals++
		}
	}
	switch {
	case maxSize >= 1000:
		res.Count("size>=1000")
	case maxSize > 200:
		res.Count("size>200")
	case maxSize >= 32:
		res.Count("size>=32")
	case maxSize >= 8:
		res.Count("size>=8")
	default:
		res.Count("size<8")
	}
	if panics > 0 {
		res.Count("cases-with-panic")
	}
	return len(c.Ops) >= 5 && maxSize >= 3 && removals > 0
}

// ---------------------------------------------------------------------------------------------
// one case through monitor and correspondence

func shrinkCase(c Case, fails func(Case) bool) Case {
	cur := c
	ops := vlib.Shrink(cur.Ops, func(o []Op) bool { d := cur; d.Ops = o; return fails(d) })
	cur.Ops = ops
	if len(cur.Init) > 0 {
		init := vlib.Shrink(cur.Init, func(i [][2]int) bool { d := cur; d.Init = i; return fails(d) })
		d := cur
		d.Init = init
		if fails(d) {
			cur = d
		}
		e := cur
		e.Init = nil
		if fails(e) {
			cur = e
		}
	}
	if len(cur.Ops) == 1 {
		e := cur
		e.Ops = nil
		if fails(e) {
			cur = e
		}
	}
	return cur
}

func params(c Case) map[string]interface{} {
	return map[string]interface{}{"object": c.Kind, "order": c.Ord, "ctor": c.Ctor}
}

// reported remembers which failure kinds were already shrunk and recorded (per object kind), so that a
// broken tree does not spend its budget shrinking thousands of instances of the same failure.
var (
	reportedMu sync.Mutex
	reported   = map[string]bool{}
)

func firstReport(key string) bool {
	reportedMu.Lock()
	defer reportedMu.Unlock()
	if reported[key] {
		return false
	}
	reported[key] = true
	return true
}

func checkMonitor(c Case, res *vlib.Result) {
	if k, what := monitor(c); k != "" {
		if !firstReport("monitor|" + k + "|" + c.Kind) {
			return
		}
		small := shrinkCase(c, func(d Case) bool { kk, _ := monitor(d); return kk == k })
		if _, w2 := monitor(small); w2 != "" {
			what = w2
		}
		res.Fail(vlib.Failure{Source: "monitor", Kind: k, Params: map[string]interface{}{"object": c.Kind}, What: what, Case: small.Text()})
	}
}

func differs(m *vlib.Model, c Case) (bool, string) {
	mo, err := m.Run(c.Lines(true))
	if err != nil {
		return false, ""
	}
	im := hc.RunImpl(c, true)
	j := vlib.FirstDiff(im, mo)
	if j < 0 {
		return false, ""
	}
	ls := c.Lines(true)
	return true, fmt.Sprintf("line %d %q: impl %q, model %q", j, at(ls, j), at(im, j), at(mo, j))
}

func check(c Case, m *vlib.Model, res *vlib.Result) {
	checkMonitor(c, res)
	if m == nil {
		return
	}
	d, _ := differs(m, c)
	res.Traces++
	if d {
		if !firstReport("correspondence|" + c.Kind) {
			return
		}
		small := shrinkCase(c, func(x Case) bool { dd, _ := differs(m, x); return dd })
		_, what := differs(m, small)
		res.Fail(vlib.Failure{Source: "correspondence", Kind: c.Kind + "-model-differs", What: what, Case: small.Text()})
	}
}

func at(a []string, i int) string {
	if i >= 0 && i < len(a) {
		return a[i]
	}
	return "<none>"
}

// ---------------------------------------------------------------------------------------------
// exhaustive small scope: every insertion order of <= maxN priorities with every tie pattern, built
// by pushes and by the constructor, followed by every single follow-up op.

// weakOrders enumerates the sequences of length n over 0..n-1 whose set of values is an initial
// segment {0..k} (every arrangement of every tie pattern, up to order isomorphism).
func weakOrders(n int, f func(seq []int)) {
	seq := make([]int, n)
	var rec func(i int)
	rec = func(i int) {
		if i == n {
			used := make([]bool, n+1)
			mx := -1
			for _, v := range seq {
				used[v] = true
				if v > mx {
					mx = v
				}
			}
			for v := 0; v <= mx; v++ {
				if !used[v] {
					return
				}
			}
			f(seq)
			return
		}
		for v := 0; v < n; v++ {
			seq[i] = v
			rec(i + 1)
		}
	}
	rec(0)
}

type exhaustiveStats struct {
	bases, followups int
	complete         bool
}

func exhaustive(driver string, res *vlib.Result, maxN int, deadline time.Time) exhaustiveStats {
	st := exhaustiveStats{complete: true}
	type job struct {
		base      Case
		followups []Op
	}
	workers := runtime.NumCPU() / 2
	if workers < 1 {
		workers = 1
	}
	if workers > 8 {
		workers = 8
	}
	// one batch = one model exchange; follow-ups via save/restore
	runBatch := func(m **vlib.Model, r *vlib.Result, batch []job) {
		var lines []string
		if *m != nil {
			for i, j := range batch {
				if i > 0 {
					lines = append(lines, "reset")
				}
				lines = append(lines, j.base.Lines(false)...)
				lines = append(lines, "save")
				for _, o := range j.followups {
					lines = append(lines, "restore", o.Line())
					lines = append(lines, j.base.ObsLines()...)
				}
			}
		}
		var mo []string
		if *m != nil {
			var err error
			mo, err = (*m).Run(lines)
			if err != nil {
				r.ModelMissing = err.Error()
				*m = nil
			}
		}
		p := 0
		for i, j := range batch {
			if *m != nil {
				if i > 0 {
					p++
				}
				p += len(j.base.Lines(false)) + 1
			}
			for _, o := range j.followups {
				c := j.base
				c.Ops = append(append([]Op{}, j.base.Ops...), o)
				r.Evaluations++
				r.Dist["exhaustive-followups"]++
				checkMonitor(c, r)
				if *m != nil {
					im := hc.NewImplSafe(j.base)
					for _, b := range j.base.Ops {
						im.Apply(b)
					}
					got := []string{im.Apply(o), im.Obs(c.U), im.Dump()}
					want := mo[p+1 : p+4]
					p += 4
					r.Traces++
					if vlib.FirstDiff(got, want) >= 0 {
						// re-run as an ordinary case: shrinks and reports
						check(c, *m, r)
						if !r.HasFailure("correspondence") {
							r.Fail(vlib.Failure{Source: "correspondence", Kind: c.Kind + "-model-differs-exhaustive",
								What: fmt.Sprintf("impl %q, model %q", got, want), Case: c.Text()})
						}
					}
				}
			}
		}
	}
	mkJobs := func(seq []int, idx int) []job {
		n := len(seq)
		var out []job
		for variant := 0; variant < 4; variant++ {
			kind := []string{"heap", "pq"}[variant/2]
			viaInit := variant%2 == 1
			c := Case{Kind: kind, Ord: "nat", Ctor: hc.Ctors[(idx+variant)%len(hc.Ctors)], U: n + 1}
			for i, p := range seq {
				switch {
				case kind == "heap" && viaInit:
					c.Init = append(c.Init, [2]int{2 * p, i + 1})
				case kind == "heap":
					c.Ops = append(c.Ops, Op{Name: "push", A: 2 * p, B: i + 1})
				case viaInit:
					c.Init = append(c.Init, [2]int{i, 2 * p})
				default:
					c.Ops = append(c.Ops, Op{Name: "update", A: i, B: 2 * p})
				}
			}
			// follow-ups: priorities 2p are the existing classes, odd values fall strictly between
			var fs []Op
			if kind == "heap" {
				fs = append(fs, Op{Name: "pop"}, Op{Name: "peek"})
				for v := -1; v <= 2*n-1; v++ {
					fs = append(fs, Op{Name: "push", A: v, B: 99})
				}
			} else {
				fs = append(fs, Op{Name: "qpop"}, Op{Name: "qpeek"})
				for k := 0; k <= n; k++ { // k == n: absent key
					fs = append(fs, Op{Name: "remove", A: k})
					for v := -1; v <= 2*n-1; v++ {
						fs = append(fs, Op{Name: "update", A: k, B: v})
					}
				}
			}
			out = append(out, job{c, fs})
		}
		return out
	}
	for n := 0; n <= maxN && st.complete; n++ {
		var seqs [][]int
		weakOrders(n, func(seq []int) { seqs = append(seqs, append([]int{}, seq...)) })
		var next int64
		var timedOut int32
		var wg sync.WaitGroup
		results := make([]*vlib.Result, workers)
		for w := 0; w < workers; w++ {
			wg.Add(1)
			results[w] = vlib.NewResult("C05", "")
			go func(r *vlib.Result) {
				defer wg.Done()
				m, err := vlib.StartModel(driver, "heap")
				if err != nil {
					m = nil
				}
				defer func() { m.Close() }()
				for {
					lo := int(atomic.AddInt64(&next, 16)) - 16
					if lo >= len(seqs) {
						return
					}
					if time.Now().After(deadline) {
						atomic.StoreInt32(&timedOut, 1)
						return
					}
					hi := lo + 16
					if hi > len(seqs) {
						hi = len(seqs)
					}
					var batch []job
					for i := lo; i < hi; i++ {
						batch = append(batch, mkJobs(seqs[i], i)...)
					}
					runBatch(&m, r, batch)
					r.Dist["exhaustive-bases"] += hi - lo
				}
			}(results[w])
		}
		wg.Wait()
		for _, r := range results {
			res.Evaluations += r.Evaluations
			res.Traces += r.Traces
			for k, v := range r.Dist {
				res.Dist[k] += v
			}
			for _, f := range r.Failures {
				res.Fail(f)
			}
			if r.ModelMissing != "" && driver != "" {
				res.ModelMissing = r.ModelMissing
			}
		}
		if timedOut != 0 {
			st.complete = false
		} else {
			res.Dist[fmt.Sprintf("exhaustive-n=%d-complete", n)] = 1
		}
	}
	st.bases = res.Dist["exhaustive-bases"]
	res.Nontrivial += st.bases
	return st
}

// directedCtors: the same small history under every order and every constructor family.
func directedCtors() []Case {
	prios := []int{5, 3, 8, 1, 9, 2, 7, 12, 4, 3, 16, 1}
	var out []Case
	for _, kind := range []string{"heap", "pq"} {
		for _, ord := range hc.Orders {
			for _, ctor := range hc.Ctors {
				for _, viaInit := range []bool{false, true} {
					c := Case{Kind: kind, Ord: ord, Ctor: ctor, U: len(prios) + 1}
					for i, p := range prios {
						switch {
						case kind == "heap" && viaInit:
							c.Init = append(c.Init, [2]int{p, i + 1})
						case kind == "heap":
							c.Ops = append(c.Ops, Op{Name: "push", A: p, B: i + 1})
						case viaInit:
							c.Init = append(c.Init, [2]int{i, p})
						default:
							c.Ops = append(c.Ops, Op{Name: "update", A: i, B: p})
						}
					}
					if kind == "heap" {
						c.Ops = append(c.Ops, Op{Name: "pop"}, Op{Name: "push", A: 0, B: 99}, Op{Name: "pop"})
					} else {
						c.Ops = append(c.Ops, Op{Name: "qpop"}, Op{Name: "update", A: 3, B: 20}, Op{Name: "update", A: 6, B: 0}, Op{Name: "remove", A: 0}, Op{Name: "qpop"})
					}
					out = append(out, c)
				}
			}
		}
	}
	return out
}

func main() {
	env := vlib.GetEnv()
	res := vlib.NewResult("C05", "random Heap histories (Push/Pop/Peek/Len/Grow/Shrink; mixed, grow-then-drain, sawtooth, malformed pops on empty; "+
		"4 priority ranges from all-ties to wide; with and without an initial slice) and PriorityQueue histories (Update new / existing lower, higher, equal, to a tie; "+
		"Remove of the key at the first / last / a leaf / an inner array position and of absent keys; Pop/Peek/Contains/Priority/Len; initial lists with duplicate keys), "+
		"3 orders x constructors (less; compare functions returning -1/0/+1, key differences, +-1000, MinInt64/MaxInt64), plus the corpus and a directed pass over every order x constructor; a case is non-trivial if it has >= 5 ops, reaches size >= 3 and pops / removes / re-prioritises an element at size >= 3; "+
		"every run (quick included) has one heap and one queue history that hold 300..600 items (constructor, growth, then every operation at that size) under the full monitor and the full array-level correspondence; distinct = different constructor + op sequence. thorough adds every insertion order of <= 7 priorities with every tie pattern (built by pushes and by the constructor, heap and queue) "+
		"x every single follow-up op (each base counts as one distinct non-trivial case) and heaps / queues up to 10^4 elements")
	m, err := vlib.StartModel(env.Driver, "heap")
	if err != nil {
		res.ModelMissing = err.Error()
		m = nil
	}
	defer m.Close()

	if env.Replay != "" {
		var ls []string
		if err := vlib.ReplayCase(env.Replay, &ls); err != nil {
			fmt.Println("cannot read replay:", err)
			os.Exit(2)
		}
		c, err := hc.Parse(ls)
		if err != nil {
			fmt.Println("cannot parse replay:", err)
			os.Exit(2)
		}
		k, what := monitor(c)
		fmt.Printf("replay of %s with %d ops\nmonitor: %s %s\n", c.Header(), len(c.Ops), k, what)
		if m != nil {
			if d, w := differs(m, c); d {
				fmt.Println("correspondence:", w)
			} else {
				fmt.Println("correspondence: model and implementation agree")
			}
		}
		if k != "" {
			os.Exit(1)
		}
		return
	}

	for _, f := range vlib.CorpusFiles(env.Corpus, ".ops") {
		c, err := hc.Parse(rawLines(f))
		if err != nil {
			fmt.Fprintln(os.Stderr, "corpus", f, err)
			os.Exit(3)
		}
		res.Count("corpus")
		res.Case(c.Key(), stats(c, res), nil)
		check(c, m, res)
	}
	// directed: every order x every constructor family (the compare families differ in the magnitudes they
	// return), heap and queue, built by the constructor and by pushes / updates, then popped once and
	// drained by the monitor
	for _, c := range directedCtors() {
		res.Count("directed-" + c.Kind + "-" + c.Ord + "-" + c.Ctor)
		res.Case(c.Key(), stats(c, res), nil)
		check(c, m, res)
	}
	r := vlib.NewRand(env.Seed)
	deadline := env.Deadline()
	// the size tier: one large heap and one large queue in every run (quick too), full monitor and full
	// correspondence at that size
	for _, pq := range []bool{false, true} {
		var c Case
		fr := r.Fork()
		if p, v := vlib.Try(func() {
			c = largeCase(fr, pq)
			res.Count("large-" + c.Kind)
			res.CountN("large-ops", len(c.Ops))
			res.Case(c.Key(), stats(c, res), nil)
			check(c, m, res)
		}); p {
			res.Fail(vlib.Failure{Source: "correspondence", Kind: "heap-harness-panic", What: fmt.Sprintf("harness panic in the large case: %v", v), Case: c.Text()})
		}
	}
	maxCases := 4000
	if env.Thorough() || env.Deep {
		maxCases = 80000
		deadline = time.Now().Add(time.Duration(env.BudgetMs) * time.Millisecond / 3)
	}
	for i := 0; i < maxCases && time.Now().Before(deadline); i++ {
		var c Case
		fr := r.Fork()
		// a crash of the harness itself is a broken tie with the case at hand, not a lost run
		if p, v := vlib.Try(func() {
			if i%2 == 0 {
				c = genHeap(fr, res)
			} else {
				c = genPQ(fr, res)
			}
			res.Count(c.Kind + "-" + c.Ord + "-" + c.Ctor)
			res.CountN("ops", len(c.Ops))
			var sample interface{}
			if len(c.Ops) <= 12 {
				sample = c.Text()
			}
			res.Case(c.Key(), stats(c, res), sample)
			check(c, m, res)
		}); p {
			res.Fail(vlib.Failure{Source: "correspondence", Kind: "heap-harness-panic", What: fmt.Sprintf("harness panic in case %d: %v", i, v), Case: c.Text()})
		}
	}
	if env.Thorough() || env.Deep {
		for i, size := range []int{1000, 3000, 10000, 1000, 3000} {
			pq := i >= 3
			c := bigCase(r.Fork(), size, pq)
			res.Count(fmt.Sprintf("big-%s-%d", c.Kind, size))
			res.Case(c.Key(), stats(c, res), nil)
			checkMonitor(c, res)
			if m != nil {
				// observations only at the end of every 50th op keep the exchange small
				cmpSparse(c, m, res)
			}
		}
		// a monitor-only pass over 10^4-key queues
		c := bigCase(r.Fork(), 10000, true)
		res.Count("big-pq-10000-monitor-only")
		res.Case(c.Key(), stats(c, res), nil)
		checkMonitor(c, res)
		drv := env.Driver
		if m == nil {
			drv = ""
		}
		st := exhaustive(drv, res, 7, time.Now().Add(time.Duration(env.BudgetMs)*time.Millisecond/2))
		res.Exhaustive = st.complete
	}
	res.Write(env.Out)
}

// cmpSparse compares op results of a long case with the model, with a full observation only at the end.
func cmpSparse(c Case, m *vlib.Model, res *vlib.Result) {
	lines := c.Lines(false)
	lines = append(lines, c.ObsLines()...)
	mo, err := m.Run(lines)
	if err != nil {
		res.ModelMissing = err.Error()
		return
	}
	im := hc.NewImplSafe(c)
	out := []string{"ok"}
	for _, o := range c.Ops {
		out = append(out, im.Apply(o))
	}
	out = append(out, im.Obs(c.U), im.Dump())
	res.Traces++
	if j := vlib.FirstDiff(out, mo); j >= 0 {
		res.Fail(vlib.Failure{Source: "correspondence", Kind: c.Kind + "-model-differs-big",
			What: fmt.Sprintf("line %d %q: impl %q, model %q", j, at(lines, j), at(out, j), at(mo, j)), Case: nil})
		check(Case{Kind: c.Kind, Ord: c.Ord, Ctor: c.Ctor, U: c.U, Init: c.Init, Ops: c.Ops[:min(len(c.Ops), 400)]}, m, res)
	}
}

func min(a, b int) int {
	if a < b {
		return a
	}
	return b
}

// rawLines keeps "# U n" comment lines (vlib.ReadLines drops comments).
func rawLines(path string) []string {
	b, err := os.ReadFile(path)
	if err != nil {
		return nil
	}
	return strings.Split(string(b), "\n")
}
