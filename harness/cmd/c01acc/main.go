// C01, last sentence — correspondence of the ACCESS-LEVEL model (lean/Juniper/Model/BTreeAccess.lean)
// with the real tree.Map: the footprints that the race-freedom theorems of Props/C01Race.lean reason
// about are the ones the code has.
//
// Protocol of `driver treeacc`: `new map <less|cmp> <nat|rev|coarse> <d>`, `put k v`, `del k`,
// `accget k`, `acchas k`, `accput k v`. For every `acc…` line the model runs the operation's access
// machine alone on the heap image of its tree and prints
//
//	keys=<stored keys handed to the comparator, in order> val=<pos>:<slot of the value returned>|-
//	writes=<written locations> ret=<result> [mem=ok]
//
// and this harness derives the same line from the real code:
//   - keys: a recording comparator (the stored key is the second argument of compare(k, x.keys[i]));
//   - val: the slot of the hook dump that holds a key equivalent to k (pos = pre-order position);
//   - writes: the raw slots (n, every key / value / child slot, size, gen) that differ between the hook
//     dumps before and after the call. For a Put of a PRESENT key this must be exactly the model's
//     single `pos:v<slot>` (new values are always fresh, so the slot does change); for a Put of an
//     absent key into a non-full leaf the changed set must be a subset of the model's write set (a
//     moved value may equal the one it overwrites); Get / Contains must change nothing;
//   - mem=ok is the model's own check that the memory its Put machine leaves holds exactly the tree the
//     functional `put` produces (so the insertion path used by the negative witness is validated too).
//
// `accrange lo hi n` / `accrrange lo hi n` (bounds u / i<k> / e<k>): the range reader of the access-level model
// (Range / RangeReverse, then up to n calls of Next, run alone) prints
//
//	keys=<second arguments of the comparator calls> vals=<pos:slot of every value slot read> items=<k:v,...>
//	writes=- ret=<end|more> func=ok
//
// and this harness derives from the real code: keys from the recording comparator (find's comparisons, the
// comparison that decides whether the seek steps, one in-range test per Next), items = what Next returned, vals = the
// slots of the hook dump holding the yielded keys (so a model that read one value slot more - the first key beyond
// the far bound, defect D18 - or less would differ), writes = dump diff (must be empty), ret. `func=ok` is the model's
// own check that the access machine yields what the functional model's range/rangeReverse + iterNext yield.
//
// A Put that splits (`ret=unmodelled` on the model side) is outside the access-level model: only its
// return is compared. Every difference is a broken tie (source "correspondence"), kind
// tree-access-<what>-differs.
package main

import (
	"fmt"
	"os"
	"sort"
	"strconv"
	"strings"
	"time"

	"github.com/bradenaw/juniper/container/tree"
	"verifharness/vlib"
)

type variant struct {
	Cmp  bool
	Kind string // nat | rev | coarse
	D    int
}

func (v variant) header() string {
	c := "less"
	if v.Cmp {
		c = "cmp"
	}
	return fmt.Sprintf("new map %s %s %d", c, v.Kind, v.D)
}

func (v variant) cmpInt(a, b int) int {
	switch v.Kind {
	case "rev":
		return b - a
	case "coarse":
		return fdiv(a, v.D) - fdiv(b, v.D)
	}
	return a - b
}

// keys generated here are >= 1, so Go's truncating division and Lean's Int division agree.
func fdiv(a, d int) int { return a / d }

func (v variant) lessInt(a, b int) bool { return v.cmpInt(a, b) < 0 }

type recorder struct {
	keys []int
	twin bool
	n    int
}

func (r *recorder) reset() { r.keys, r.twin, r.n = r.keys[:0], false, 0 }

const spinLimit = 200000

func (r *recorder) tick() {
	r.n++
	if r.n > spinLimit {
		panic("spin: more than 200000 comparator calls in one API call")
	}
}

type impl struct {
	v   variant
	m   tree.Map[int, int]
	rec *recorder
}

func newImpl(v variant) *impl {
	rec := &recorder{}
	im := &impl{v: v, rec: rec}
	if v.Cmp {
		im.m = tree.NewMapCmp[int, int](func(a, b int) int { rec.tick(); rec.keys = append(rec.keys, b); return v.cmpInt(a, b) })
	} else {
		// xsort.LessCompare: less(a, b), and only if that is false, its twin less(b, a)
		im.m = tree.NewMap[int, int](func(a, b int) bool {
			rec.tick()
			res := v.lessInt(a, b)
			if rec.twin {
				rec.twin = false
				return res
			}
			rec.keys = append(rec.keys, b)
			rec.twin = !res
			return res
		})
	}
	return im
}

type dump = tree.VerifShape[int, int]

func joinInts(a []int) string {
	if len(a) == 0 {
		return "-"
	}
	s := make([]string, len(a))
	for i, x := range a {
		s[i] = strconv.Itoa(x)
	}
	return strings.Join(s, ",")
}

// diff lists the locations whose raw content differs; "structural" if the node objects changed.
func diff(a, b dump) []string {
	if len(a.Nodes) != len(b.Nodes) {
		return []string{"structural"}
	}
	var out []string
	for p := range a.Nodes {
		x, y := &a.Nodes[p], &b.Nodes[p]
		if x.Ref != y.Ref {
			return []string{"structural"}
		}
		if x.N != y.N {
			out = append(out, fmt.Sprintf("%d:n", p))
		}
		for i := range x.Keys {
			if x.Keys[i] != y.Keys[i] {
				out = append(out, fmt.Sprintf("%d:k%d", p, i))
			}
		}
		for i := range x.Values {
			if x.Values[i] != y.Values[i] {
				out = append(out, fmt.Sprintf("%d:v%d", p, i))
			}
		}
		for i := range x.Children {
			if x.Children[i] != y.Children[i] {
				out = append(out, fmt.Sprintf("%d:c%d", p, i))
			}
		}
	}
	if a.Gen != b.Gen {
		out = append(out, "gen")
	}
	if a.Size != b.Size {
		out = append(out, "size")
	}
	sort.Strings(out)
	return out
}

func joinStrs(a []string) string {
	if len(a) == 0 {
		return "-"
	}
	return strings.Join(a, ",")
}

// slotOf finds the live slot holding a key equivalent to k.
func (im *impl) slotOf(d dump, k int) string {
	for p := range d.Nodes {
		n := &d.Nodes[p]
		for i := 0; i < n.N && i < len(n.Keys); i++ {
			if im.v.cmpInt(k, n.Keys[i]) == 0 {
				return fmt.Sprintf("%d:%d", p, i)
			}
		}
	}
	return "-"
}

// slotOfExact finds the live slot holding exactly the key k (the stored key object an iterator yields).
func (im *impl) slotOfExact(d dump, k int) string {
	for p := range d.Nodes {
		n := &d.Nodes[p]
		for i := 0; i < n.N && i < len(n.Keys); i++ {
			if n.Keys[i] == k {
				return fmt.Sprintf("%d:%d", p, i)
			}
		}
	}
	return "?"
}

func parseBound(s string) tree.Bound[int] {
	if s == "u" {
		return tree.Unbounded[int]()
	}
	k, _ := strconv.Atoi(s[1:])
	if s[0] == 'i' {
		return tree.Included(k)
	}
	return tree.Excluded(k)
}

func (im *impl) step(line string) string {
	f := strings.Fields(line)
	arg := func(i int) int { v, _ := strconv.Atoi(f[i]); return v }
	switch {
	case len(f) == 3 && f[0] == "put":
		im.m.Put(arg(1), arg(2))
		return "ok"
	case len(f) == 2 && f[0] == "del":
		im.m.Delete(arg(1))
		return "ok"
	case len(f) == 2 && (f[0] == "accget" || f[0] == "acchas"):
		k := arg(1)
		before := im.m.VerifShape()
		im.rec.reset()
		var ret string
		val := "-"
		if f[0] == "accget" {
			v := im.m.Get(k)
			val = im.slotOf(before, k)
			if val == "-" {
				ret = "zero"
				if v != 0 {
					ret = strconv.Itoa(v)
				}
			} else {
				ret = strconv.Itoa(v)
			}
		} else {
			ret = strconv.FormatBool(im.m.Contains(k))
		}
		keys := append([]int(nil), im.rec.keys...)
		after := im.m.VerifShape()
		return fmt.Sprintf("keys=%s val=%s writes=%s ret=%s", joinInts(keys), val, joinStrs(diff(before, after)), ret)
	case len(f) == 4 && (f[0] == "accrange" || f[0] == "accrrange"):
		lo, hi, limit := parseBound(f[1]), parseBound(f[2]), arg(3)
		before := im.m.VerifShape()
		im.rec.reset()
		var it interface {
			Next() (tree.KVPair[int, int], bool)
		}
		if f[0] == "accrange" {
			it = im.m.Range(lo, hi)
		} else {
			it = im.m.RangeReverse(lo, hi)
		}
		var items, vals []string
		ret := "more"
		for i := 0; i < limit; i++ {
			kv, ok := it.Next()
			if !ok {
				ret = "end"
				break
			}
			items = append(items, fmt.Sprintf("%d:%d", kv.Key, kv.Value))
			vals = append(vals, im.slotOfExact(before, kv.Key))
		}
		keys := append([]int(nil), im.rec.keys...)
		after := im.m.VerifShape()
		return fmt.Sprintf("keys=%s vals=%s writes=%s items=%s ret=%s func=ok", joinInts(keys), joinStrs(vals), joinStrs(diff(before, after)), joinStrs(items), ret)
	case len(f) == 3 && f[0] == "accput":
		k, v := arg(1), arg(2)
		before := im.m.VerifShape()
		im.rec.reset()
		im.m.Put(k, v)
		keys := append([]int(nil), im.rec.keys...)
		after := im.m.VerifShape()
		return fmt.Sprintf("keys=%s val=- writes=%s ret=ok mem=ok", joinInts(keys), joinStrs(diff(before, after)))
	}
	return "bad-op"
}

func runImpl(lines []string) (out []string, panicked bool, pv interface{}) {
	var im *impl
	for _, l := range lines {
		if strings.HasPrefix(l, "new ") {
			f := strings.Fields(l)
			d, _ := strconv.Atoi(f[4])
			if d <= 0 {
				d = 1
			}
			im = newImpl(variant{Cmp: f[2] == "cmp", Kind: f[3], D: d})
			out = append(out, "ok")
			continue
		}
		if im == nil {
			out = append(out, "bad-op")
			continue
		}
		var o string
		p, val := vlib.Try(func() { o = im.step(l) })
		if p {
			return append(out, "panic"), true, val
		}
		out = append(out, o)
	}
	return out, false, nil
}

// ---------------------------------------------------------------------------------------------
// comparison of one line

func fields(s string) map[string]string {
	m := map[string]string{}
	for _, f := range strings.Fields(s) {
		if i := strings.IndexByte(f, '='); i > 0 {
			m[f[:i]] = f[i+1:]
		}
	}
	return m
}

func setOf(s string) map[string]bool {
	m := map[string]bool{}
	if s == "-" || s == "" {
		return m
	}
	for _, x := range strings.Split(s, ",") {
		m[x] = true
	}
	return m
}

// judge compares the implementation's line with the model's; "" = they agree.
func judge(op, impl, model string, res *vlib.Result) (what, why string) {
	if !strings.HasPrefix(op, "acc") {
		if impl != model {
			return "state", fmt.Sprintf("impl %q, model %q", impl, model)
		}
		return "", ""
	}
	a, b := fields(impl), fields(model)
	if op == "accrange" || op == "accrrange" {
		res.Count("range-probe-" + a["ret"])
		for _, fld := range []struct{ key, what string }{{"ret", "result"}, {"items", "result"}, {"keys", "read-set"}, {"vals", "value-slot"},
			{"writes", "write-footprint"}, {"func", "functional-model"}} {
			if a[fld.key] != b[fld.key] {
				return fld.what, fmt.Sprintf("range reader, %s: impl %s, model %s", fld.key, a[fld.key], b[fld.key])
			}
		}
		return "", ""
	}
	if b["ret"] == "unmodelled" {
		// a Put that has to split a full leaf is outside the access-level model
		res.Count("put-overfill-skipped")
		return "", ""
	}
	if a["ret"] != b["ret"] {
		return "result", fmt.Sprintf("returned: impl %s, model %s", a["ret"], b["ret"])
	}
	if a["keys"] != b["keys"] {
		return "read-set", fmt.Sprintf("keys compared: impl %s, model %s", a["keys"], b["keys"])
	}
	if a["val"] != b["val"] {
		return "value-slot", fmt.Sprintf("value slot: impl %s, model %s", a["val"], b["val"])
	}
	if op == "accput" && b["mem"] != "ok" {
		return "put-memory", "the memory the model's Put machine leaves does not hold the tree its functional put produces"
	}
	iw, mw := setOf(a["writes"]), setOf(b["writes"])
	if op != "accput" {
		if len(iw) != 0 || len(mw) != 0 {
			return "write-footprint", fmt.Sprintf("a read wrote: impl %s, model %s", a["writes"], b["writes"])
		}
		return "", ""
	}
	onlyVal := len(mw) == 1 && strings.Contains(b["writes"], ":v")
	if onlyVal {
		res.Count("put-present")
		if a["writes"] != b["writes"] {
			return "write-footprint", fmt.Sprintf("Put of a present key wrote: impl %s, model %s", a["writes"], b["writes"])
		}
		return "", ""
	}
	res.Count("put-insert")
	for w := range iw {
		if !mw[w] {
			return "write-footprint", fmt.Sprintf("inserting Put changed %s which the model does not write (impl %s, model %s)", w, a["writes"], b["writes"])
		}
	}
	for _, must := range []string{"gen", "size"} {
		if !iw[must] || !mw[must] {
			return "write-footprint", fmt.Sprintf("inserting Put: %s not written (impl %s, model %s)", must, a["writes"], b["writes"])
		}
	}
	return "", ""
}

// ---------------------------------------------------------------------------------------------
// generator

var fresh int // values never repeat within a case: an overwritten slot always changes

func genCase(r *vlib.Rand) []string {
	fresh = 1000
	kinds := []string{"nat", "rev", "coarse"}
	v := variant{Cmp: r.Bool(), Kind: kinds[r.Intn(3)], D: 1}
	if v.Kind == "coarse" {
		v.D = r.Range(2, 5)
	}
	lines := []string{v.header()}
	var n int
	switch r.Pick(2, 3, 3, 2) {
	case 0:
		n = r.Range(0, 15)
	case 1:
		n = r.Range(16, 60)
	case 2:
		n = r.Range(100, 400)
	default:
		n = r.Range(400, 900)
	}
	step := v.D * r.Range(1, 3)
	present := map[int]bool{}
	var keys []int
	add := func(k int) {
		fresh++
		lines = append(lines, fmt.Sprintf("put %d %d", k, fresh))
		cls := k / v.D
		if !present[cls] {
			present[cls] = true
			keys = append(keys, k)
		}
	}
	base := r.Range(1, 50) * v.D
	switch r.Intn(3) {
	case 0:
		for i := 0; i < n; i++ {
			add(base + 2*i*step)
		}
	case 1:
		for i := n - 1; i >= 0; i-- {
			add(base + 2*i*step)
		}
	default:
		for i := 0; i < n; i++ {
			add(base + 2*r.Intn(n+1)*step)
		}
	}
	// a few deletions so that nodes are not all at the fill pattern's occupancy
	for i := 0; i < n/10 && len(keys) > 0; i++ {
		j := r.Intn(len(keys))
		k := keys[j]
		lines = append(lines, fmt.Sprintf("del %d", k))
		delete(present, k/v.D)
		keys = append(keys[:j], keys[j+1:]...)
	}
	probes := r.Range(8, 30)
	for i := 0; i < probes; i++ {
		var k int
		isPresent := len(keys) > 0 && r.Chance(2, 3)
		if isPresent {
			k = keys[r.Intn(len(keys))]
			if v.Kind == "coarse" { // an equivalent but different key
				k = (k/v.D)*v.D + r.Intn(v.D)
				if k < 1 {
					k = 1
				}
			}
		} else {
			k = base + (2*r.Intn(n+2)+1)*step // between / beyond the stored keys
			if present[k/v.D] {
				isPresent = true
			}
		}
		switch r.Pick(3, 2, 4, 3) {
		case 0:
			lines = append(lines, fmt.Sprintf("accget %d", k))
		case 1:
			lines = append(lines, fmt.Sprintf("acchas %d", k))
		case 3:
			// a range reader: bounds on / next to stored keys, in any order; the reader stops after `limit` items
			bound := func(k int) string {
				switch r.Intn(5) {
				case 0:
					return "u"
				case 1, 2:
					return fmt.Sprintf("i%d", k)
				}
				return fmt.Sprintf("e%d", k)
			}
			k2 := k + step*r.Range(0, 12)
			if len(keys) > 0 && r.Chance(1, 2) {
				k2 = keys[r.Intn(len(keys))]
			}
			if k2 < k && r.Chance(4, 5) {
				k, k2 = k2, k
			}
			limit := r.Range(0, 20)
			if r.Chance(1, 3) {
				limit = n + 3
			}
			cmd := "accrange"
			if r.Bool() {
				cmd = "accrrange"
			}
			lines = append(lines, fmt.Sprintf("%s %s %s %d", cmd, bound(k), bound(k2), limit))
		default:
			fresh++
			lines = append(lines, fmt.Sprintf("accput %d %d", k, fresh))
			if !present[k/v.D] {
				present[k/v.D] = true
				keys = append(keys, k)
			}
		}
	}
	return lines
}

// ---------------------------------------------------------------------------------------------

func check(lines []string, m *vlib.Model, res *vlib.Result) (kind, what string, at int) {
	implOut, panicked, pv := runImpl(lines)
	if panicked {
		return "tree-access-panic", fmt.Sprintf("the implementation panicked at line %d: %v", len(implOut)-1, pv), len(implOut) - 1
	}
	modelOut, err := m.Run(lines)
	if err != nil {
		return "tree-access-model-died", err.Error(), 0
	}
	for i, l := range lines {
		op := strings.Fields(l)[0]
		if w, why := judge(op, implOut[i], modelOut[i], res); w != "" {
			return "tree-access-" + w + "-differs", fmt.Sprintf("line %d %q: %s", i, l, why), i
		}
	}
	return "", "", -1
}

func levelsOf(lines []string) int {
	n := 0
	for _, l := range lines {
		if strings.HasPrefix(l, "put ") {
			n++
		}
	}
	switch {
	case n > 255:
		return 3
	case n > 15:
		return 2
	}
	return 1
}

func main() {
	env := vlib.GetEnv()
	res := vlib.NewResult("C01", "a case = a fill of tree.Map[int,int] (cmp/less x natural/reversed/coarse order; ascending/descending/random; a few deletions) followed by 8-30 accget/acchas/accput probes of present, equivalent-but-different and absent keys; every probe's comparator read set, value slot, write footprint (raw hook dump before/after) and result are compared with the access-level model. Non-trivial: the tree has >= 2 levels and the case contains a Put of a present key")
	m, err := vlib.StartModel(env.Driver, "treeacc")
	if err != nil {
		res.ModelMissing = err.Error()
		res.Write(env.Out)
		return
	}
	defer m.Close()

	report := func(lines []string, kind, what string) {
		small := vlib.Shrink(lines[1:], func(c []string) bool {
			k, _, _ := check(append([]string{lines[0]}, c...), m, vlib.NewResult("C01", ""))
			return k == kind
		})
		full := append([]string{lines[0]}, small...)
		_, what2, _ := check(full, m, vlib.NewResult("C01", ""))
		if what2 != "" {
			what = what2
		}
		res.Fail(vlib.Failure{Source: "correspondence", Kind: kind, What: what, Case: full,
			Params: map[string]interface{}{"variant": lines[0]}})
	}

	runCase := func(lines []string) {
		before := res.Dist["put-present"]
		kind, what, _ := check(lines, m, res)
		hasPresentPut := res.Dist["put-present"] > before
		res.Case(strings.Join(lines, "|"), levelsOf(lines) >= 2 && hasPresentPut, nil)
		res.Count(fmt.Sprintf("levels-%d", levelsOf(lines)))
		for _, l := range lines {
			if strings.HasPrefix(l, "acc") {
				res.Count(strings.Fields(l)[0])
				res.Traces++
			}
		}
		if kind != "" {
			report(lines, kind, what)
		}
	}

	if env.Replay != "" {
		var lines []string
		if err := vlib.ReplayCase(env.Replay, &lines); err != nil {
			fmt.Fprintln(os.Stderr, "c01acc: cannot read replay:", err)
			os.Exit(3)
		}
		runCase(lines)
		res.Write(env.Out)
		return
	}

	for _, f := range vlib.CorpusFiles(env.Corpus, ".acc") {
		runCase(vlib.ReadLines(f))
	}
	r := vlib.NewRand(env.Seed)
	budget := env.BudgetMs / 4
	if budget < 1500 {
		budget = 1500
	}
	deadline := time.Now().Add(time.Duration(budget) * time.Millisecond)
	maxCases := 400
	if env.Thorough() || env.Deep {
		maxCases = 4000
	}
	for i := 0; i < maxCases && time.Now().Before(deadline) && len(res.Failures) == 0; i++ {
		runCase(genCase(r.Fork()))
	}
	res.Write(env.Out)
}
