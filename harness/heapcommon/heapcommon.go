// Package heapcommon drives the real xheap.Heap / xheap.PriorityQueue behind the line protocol of
// `driver heap` (shared by harness/cmd/c05 and harness/cmd/c15heap).
//
// Heap items are (priority, id) pairs ordered by priority only, so the algorithm's choice among
// ties is observable. Orders: nat, rev, coarse (a/4 < b/4); each less- or cmp-constructed, the compare
// functions in four magnitude families (see OrdCmp).
package heapcommon

import (
	"fmt"
	"math"
	"strconv"
	"strings"

	"github.com/bradenaw/juniper/container/xheap"
	"github.com/bradenaw/juniper/iterator"
	"verifharness/vlib"
)

type Item struct{ P, ID int }

func OrdLess(ord string) func(a, b int) bool {
	switch ord {
	case "rev":
		return func(a, b int) bool { return a > b }
	case "coarse":
		return func(a, b int) bool { return a/4 < b/4 }
	}
	return func(a, b int) bool { return a < b }
}

// OrdCmp is the three-way comparison of the order `ord` as the constructor `ctor` hands it to
// NewCmp / NewPriorityQueueCmp. Only the sign of a compare result is meaningful, so the families differ
// in the magnitudes they return (the property quantifies over "any orderings given as less or compare"):
//
//	cmp      -1 / 0 / +1 (what cmp.Compare, strings.Compare, time.Time.Compare return)
//	cmpdiff  the difference of the order's keys: a-b, b-a, a/4-b/4 (the classic `return a - b`)
//	cmpk     -1000 / 0 / +1000 (a scaled result)
//	cmpbig   MinInt64 / 0 / MaxInt64 (the extreme results; their low 8/16/32 bits are 0 resp. all ones)
func OrdCmp(ord, ctor string) func(a, b int) int {
	l := OrdLess(ord)
	neg, pos := -1, 1
	switch ctor {
	case "cmpdiff":
		switch ord {
		case "rev":
			return func(a, b int) int { return b - a }
		case "coarse":
			return func(a, b int) int { return a/4 - b/4 }
		}
		return func(a, b int) int { return a - b }
	case "cmpk":
		neg, pos = -1000, 1000
	case "cmpbig":
		neg, pos = math.MinInt64, math.MaxInt64
	}
	return func(a, b int) int {
		if l(a, b) {
			return neg
		}
		if l(b, a) {
			return pos
		}
		return 0
	}
}

var Orders = []string{"nat", "rev", "coarse"}

// Ctors: "less" = New / NewPriorityQueue; every other one goes through NewCmp / NewPriorityQueueCmp with
// the compare function OrdCmp(ord, ctor).
var Ctors = []string{"less", "cmp", "cmpdiff", "cmpk", "cmpbig"}

// IsCmp: the constructor takes a compare function.
func IsCmp(ctor string) bool { return strings.HasPrefix(ctor, "cmp") }

// PickCtor draws a constructor: `less` one time in three, otherwise one of the compare families.
func PickCtor(r *vlib.Rand) string {
	if r.Intn(3) == 0 {
		return "less"
	}
	return Ctors[1+r.Intn(len(Ctors)-1)]
}

type Op struct {
	Name string `json:"op"`
	A    int    `json:"a,omitempty"`
	B    int    `json:"b,omitempty"`
}

func (o Op) Line() string {
	switch o.Name {
	case "push", "update":
		return fmt.Sprintf("%s %d %d", o.Name, o.A, o.B)
	case "grow", "shrink", "qgrow", "next", "qnext", "remove", "contains", "priority":
		return fmt.Sprintf("%s %d", o.Name, o.A)
	}
	return o.Name
}

// Case is one history: a constructor call followed by operations.
type Case struct {
	Kind string   // "heap" | "pq"
	Ord  string   // nat | rev | coarse
	Ctor string   // less | cmp | cmpdiff | cmpk | cmpbig
	Init [][2]int // heap: (priority,id); pq: (key,priority)
	U    int      // pq: keys observed are 0..U-1
	Ops  []Op
}

func pairs(l [][2]int) string {
	if len(l) == 0 {
		return "-"
	}
	parts := make([]string, len(l))
	for i, p := range l {
		parts[i] = fmt.Sprintf("%d:%d", p[0], p[1])
	}
	return strings.Join(parts, ",")
}

func (c Case) Header() string {
	if c.Kind == "pq" {
		return fmt.Sprintf("qnew %s %s %s", c.Ord, c.Ctor, pairs(c.Init))
	}
	return fmt.Sprintf("hnew %s %s %s", c.Ord, c.Ctor, pairs(c.Init))
}

func (c Case) ObsLines() []string {
	if c.Kind == "pq" {
		return []string{fmt.Sprintf("qobs %d", c.U), "qdump"}
	}
	return []string{"obs", "dump"}
}

// Lines is the protocol input; with observe, a full observation follows the constructor and every op.
func (c Case) Lines(observe bool) []string {
	out := []string{c.Header()}
	if observe {
		out = append(out, c.ObsLines()...)
	}
	for _, o := range c.Ops {
		out = append(out, o.Line())
		if observe {
			out = append(out, c.ObsLines()...)
		}
	}
	return out
}

// Text is the replayable form (header + op lines, no observations).
func (c Case) Text() []string {
	out := []string{fmt.Sprintf("# U %d", c.U), c.Header()}
	for _, o := range c.Ops {
		out = append(out, o.Line())
	}
	return out
}

func (c Case) Key() string { return strings.Join(c.Lines(false), ";") }

func parsePairs(s string) [][2]int {
	if s == "-" || s == "" {
		return nil
	}
	var out [][2]int
	for _, f := range strings.Split(s, ",") {
		ab := strings.Split(f, ":")
		if len(ab) != 2 {
			continue
		}
		a, _ := strconv.Atoi(ab[0])
		b, _ := strconv.Atoi(ab[1])
		out = append(out, [2]int{a, b})
	}
	return out
}

// Parse reads the Text form (lines starting with '#' other than "# U n" are ignored by ReadLines already).
func Parse(lines []string) (Case, error) {
	c := Case{U: 8}
	seenHeader := false
	for _, l := range lines {
		f := strings.Fields(l)
		if len(f) == 0 {
			continue
		}
		if f[0] == "#" {
			if len(f) == 3 && f[1] == "U" {
				c.U, _ = strconv.Atoi(f[2])
			}
			continue
		}
		switch f[0] {
		case "obs", "dump", "qobs", "qdump":
			continue
		case "hnew", "qnew":
			if len(f) != 4 {
				return c, fmt.Errorf("bad header %q", l)
			}
			c.Kind = map[string]string{"hnew": "heap", "qnew": "pq"}[f[0]]
			c.Ord, c.Ctor, c.Init = f[1], f[2], parsePairs(f[3])
			seenHeader = true
			continue
		}
		o := Op{Name: f[0]}
		if len(f) > 1 {
			o.A, _ = strconv.Atoi(f[1])
		}
		if len(f) > 2 {
			o.B, _ = strconv.Atoi(f[2])
		}
		c.Ops = append(c.Ops, o)
	}
	if !seenHeader {
		return c, fmt.Errorf("no hnew/qnew header")
	}
	for _, p := range c.Init {
		if c.Kind == "pq" && p[0] >= c.U {
			c.U = p[0] + 1
		}
	}
	for _, o := range c.Ops {
		if (o.Name == "update" || o.Name == "remove") && o.A >= c.U {
			c.U = o.A + 1
		}
	}
	return c, nil
}

// Impl is the real object under test.
type Impl struct {
	Kind string
	Less func(a, b int) bool
	H    xheap.Heap[Item]
	Q    xheap.PriorityQueue[int, int]
	hits []iterator.Iterator[Item]
	qits []iterator.Iterator[int]
}

func NewImpl(c Case) *Impl {
	im := &Impl{Kind: c.Kind, Less: OrdLess(c.Ord)}
	if c.Kind == "pq" {
		init := make([]xheap.KP[int, int], len(c.Init))
		for i, p := range c.Init {
			init[i] = xheap.KP[int, int]{K: p[0], P: p[1]}
		}
		if IsCmp(c.Ctor) {
			im.Q = xheap.NewPriorityQueueCmp[int, int](OrdCmp(c.Ord, c.Ctor), init)
		} else {
			im.Q = xheap.NewPriorityQueue[int, int](OrdLess(c.Ord), init)
		}
		return im
	}
	init := make([]Item, len(c.Init))
	for i, p := range c.Init {
		init[i] = Item{p[0], p[1]}
	}
	if IsCmp(c.Ctor) {
		cmp := OrdCmp(c.Ord, c.Ctor)
		im.H = xheap.NewCmp(func(a, b Item) int { return cmp(a.P, b.P) }, init)
	} else {
		l := OrdLess(c.Ord)
		im.H = xheap.New(func(a, b Item) bool { return l(a.P, b.P) }, init)
	}
	return im
}

func showItem(x Item) string { return fmt.Sprintf("%d:%d", x.P, x.ID) }

// Apply executes one op and returns the protocol output ("panic" when the call panicked).
func (im *Impl) Apply(o Op) string {
	var out string
	p, _ := vlib.Try(func() {
		switch o.Name {
		case "push":
			im.H.Push(Item{o.A, o.B})
			out = "ok"
		case "pop":
			out = showItem(im.H.Pop())
		case "peek":
			out = showItem(im.H.Peek())
		case "len":
			out = strconv.Itoa(im.H.Len())
		case "grow":
			im.H.Grow(o.A)
			out = "ok"
		case "shrink":
			im.H.Shrink(o.A)
			out = "ok"
		case "iter":
			im.hits = append(im.hits, im.H.Iterate())
			out = fmt.Sprintf("iter %d", len(im.hits)-1)
		case "next":
			if o.A < 0 || o.A >= len(im.hits) {
				out = "bad-op"
				return
			}
			x, ok := im.hits[o.A].Next()
			if ok {
				out = showItem(x)
			} else {
				out = "end"
			}
		case "update":
			im.Q.Update(o.A, o.B)
			out = "ok"
		case "qpop":
			out = strconv.Itoa(im.Q.Pop())
		case "qpeek":
			out = strconv.Itoa(im.Q.Peek())
		case "remove":
			im.Q.Remove(o.A)
			out = "ok"
		case "contains":
			out = "0"
			if im.Q.Contains(o.A) {
				out = "1"
			}
		case "priority":
			out = strconv.Itoa(im.Q.Priority(o.A))
		case "qlen":
			out = strconv.Itoa(im.Q.Len())
		case "qgrow":
			im.Q.Grow(o.A)
			out = "ok"
		case "qiter":
			im.qits = append(im.qits, im.Q.Iterate())
			out = fmt.Sprintf("iter %d", len(im.qits)-1)
		case "qnext":
			if o.A < 0 || o.A >= len(im.qits) {
				out = "bad-op"
				return
			}
			k, ok := im.qits[o.A].Next()
			if ok {
				out = strconv.Itoa(k)
			} else {
				out = "end"
			}
		default:
			out = "bad-op"
		}
	})
	if p {
		return "panic"
	}
	return out
}

func try(f func() string) string {
	var out string
	if p, _ := vlib.Try(func() { out = f() }); p {
		return "panic"
	}
	return out
}

// HeapItems returns the array of the heap in array order (a fresh iterator over the unchanged heap).
func (im *Impl) HeapItems() []Item {
	var out []Item
	vlib.Try(func() {
		it := im.H.Iterate()
		for i := 0; i <= im.H.Len(); i++ {
			x, ok := it.Next()
			if !ok {
				break
			}
			out = append(out, x)
		}
	})
	return out
}

// QueueKeys returns the keys of the queue in array order.
func (im *Impl) QueueKeys() []int {
	var out []int
	vlib.Try(func() {
		it := im.Q.Iterate()
		for i := 0; i <= im.Q.Len(); i++ {
			k, ok := it.Next()
			if !ok {
				break
			}
			out = append(out, k)
		}
	})
	return out
}

// Safe accessors: every call into the library goes through vlib.Try. perr is "" when the call
// returned and the panic value (as text) when it panicked.
func guarded(f func()) (perr string) {
	if p, v := vlib.Try(f); p {
		return fmt.Sprintf("panic: %v", v)
	}
	return ""
}

func (im *Impl) QLen() (n int, perr string) {
	perr = guarded(func() { n = im.Q.Len() })
	return
}

func (im *Impl) QContains(k int) (in bool, perr string) {
	perr = guarded(func() { in = im.Q.Contains(k) })
	return
}

func (im *Impl) QPriority(k int) (p int, perr string) {
	perr = guarded(func() { p = im.Q.Priority(k) })
	return
}

func (im *Impl) HLen() (n int, perr string) {
	perr = guarded(func() { n = im.H.Len() })
	return
}

// Size is Len of whichever object the case is about (0 when Len panics).
func (im *Impl) Size() int {
	var n int
	if im.Kind == "pq" {
		n, _ = im.QLen()
	} else {
		n, _ = im.HLen()
	}
	return n
}

// Obs is the full observation after a step (same text as the model's obs / qobs line); "panic" when
// one of the observing calls panicked.
func (im *Impl) Obs(u int) string { return try(func() string { return im.obs(u) }) }

// Dump is the array layout (same text as the model's dump / qdump line); "panic" when a call panicked.
func (im *Impl) Dump() string { return try(im.dump) }

func (im *Impl) obs(u int) string {
	if im.Kind == "pq" {
		var b strings.Builder
		fmt.Fprintf(&b, "len=%d peek=%s", im.Q.Len(), try(func() string { return strconv.Itoa(im.Q.Peek()) }))
		for k := 0; k < u; k++ {
			c := "0"
			if im.Q.Contains(k) {
				c = "1"
			}
			fmt.Fprintf(&b, " %d=%s/%s", k, c, try(func() string { return strconv.Itoa(im.Q.Priority(k)) }))
		}
		return b.String()
	}
	return fmt.Sprintf("len=%d peek=%s", im.H.Len(), try(func() string { return showItem(im.H.Peek()) }))
}

func (im *Impl) dump() string {
	if im.Kind == "pq" {
		ks := im.QueueKeys()
		l := make([][2]int, len(ks))
		for i, k := range ks {
			l[i] = [2]int{k, im.Q.Priority(k)}
		}
		return pairs(l)
	}
	it := im.HeapItems()
	l := make([][2]int, len(it))
	for i, x := range it {
		l[i] = [2]int{x.P, x.ID}
	}
	return pairs(l)
}

// RunImpl produces the implementation's outputs for c.Lines(observe).
func RunImpl(c Case, observe bool) []string {
	im := NewImplSafe(c)
	out := []string{"ok"}
	obs := func() {
		if observe {
			out = append(out, im.Obs(c.U), im.Dump())
		}
	}
	obs()
	for _, o := range c.Ops {
		out = append(out, im.Apply(o))
		obs()
	}
	return out
}

// NewImplSafe builds the object; a panicking constructor yields an empty object (and is reported by
// the monitors).
func NewImplSafe(c Case) *Impl {
	var im *Impl
	if p, _ := vlib.Try(func() { im = NewImpl(c) }); p || im == nil {
		e := c
		e.Init = nil
		im = NewImpl(e)
	}
	return im
}
