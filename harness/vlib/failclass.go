package vlib

// Failure classes. A harness that serves several properties tags the clauses of the other
// properties with a kind prefix ("c08-…", "c09-…"); the runner's `only_kinds` / `skip_kinds` filters
// select by that prefix. Result keeps a bounded number of failures, and shrinking a failing case is
// expensive, so harnesses stop reporting at some point — but that point must not be reached because
// of failures of ONE class while another class has had no room yet: a `c09-` violation dropped behind
// a pile of the component's own kinds is invisible to the C09 check (it would show only as
// "no-failing-input-found"). ClassLimiter admits at most perKind failures per kind and perClass per
// class (monitor failures by kind prefix, correspondence failures as a class of their own).

// FailClass returns the prefix class of a failure kind: "cNN-" for kinds that start with such a
// prefix, "" for everything else (the component's own clauses).
func FailClass(kind string) string {
	if len(kind) >= 4 && kind[0] == 'c' && kind[1] >= '0' && kind[1] <= '9' && kind[2] >= '0' && kind[2] <= '9' && kind[3] == '-' {
		return kind[:4]
	}
	return ""
}

type ClassLimiter struct {
	perKind, perClass int
	kinds, classes    map[string]int
}

func NewClassLimiter(perKind, perClass int) *ClassLimiter {
	return &ClassLimiter{perKind: perKind, perClass: perClass, kinds: map[string]int{}, classes: map[string]int{}}
}

// Admit reports whether one more failure of this source and kind should be shrunk and recorded, and
// counts it if so.
func (l *ClassLimiter) Admit(source, kind string) bool {
	class := source + "|" + FailClass(kind)
	if source != "monitor" {
		class = source
	}
	k := source + "|" + kind
	if l.kinds[k] >= l.perKind || l.classes[class] >= l.perClass {
		return false
	}
	l.kinds[k]++
	l.classes[class]++
	return true
}

// Has reports whether a failure of this kind has been admitted.
func (l *ClassLimiter) Has(source, kind string) bool { return l.kinds[source+"|"+kind] > 0 }
