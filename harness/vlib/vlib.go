// Package vlib is the shared plumbing of the verification harness: one PRNG, the line protocol to the
// Lean model driver, panic capture, delta-debugging and the result file consumed by runner/check.py.
package vlib

import (
	"bufio"
	"encoding/json"
	"fmt"
	"io"
	"os"
	"os/exec"
	"sort"
	"strconv"
	"strings"
	"time"
)

// ---------------------------------------------------------------------------------------------
// environment

type Env struct {
	Seed     uint64
	Tier     string // quick | thorough
	Driver   string // path of the compiled Lean driver ("" = model unavailable)
	Out      string // result file
	Corpus   string // corpus directory of this property
	Replay   string // replay file ("" = normal run)
	BudgetMs int    // soft wall-clock budget for generated cases
	Deep     bool   // a tie broke: search with the full budget
}

func GetEnv() Env {
	e := Env{Tier: "quick"}
	if s := os.Getenv("VERIF_SEED"); s != "" {
		if v, err := strconv.ParseUint(s, 10, 64); err == nil {
			e.Seed = v
		} else if v, err := strconv.ParseInt(s, 10, 64); err == nil {
			e.Seed = uint64(v)
		}
	}
	if t := os.Getenv("VERIF_TIER"); t == "thorough" {
		e.Tier = t
	}
	e.Driver = os.Getenv("VERIF_DRIVER")
	e.Out = os.Getenv("VERIF_OUT")
	e.Corpus = os.Getenv("VERIF_CORPUS")
	e.Replay = os.Getenv("VERIF_REPLAY")
	e.BudgetMs = 8000
	if e.Tier == "thorough" {
		e.BudgetMs = 120000
	}
	if s := os.Getenv("VERIF_BUDGET_MS"); s != "" {
		if v, err := strconv.Atoi(s); err == nil {
			e.BudgetMs = v
		}
	}
	e.Deep = os.Getenv("VERIF_DEEP") == "1"
	return e
}

func (e Env) Thorough() bool { return e.Tier == "thorough" }

// Deadline returns the instant at which generated-case loops should stop.
func (e Env) Deadline() time.Time { return time.Now().Add(time.Duration(e.BudgetMs) * time.Millisecond) }

// ---------------------------------------------------------------------------------------------
// PRNG (splitmix64): every random choice of a run derives from VERIF_SEED

type Rand struct{ s uint64 }

// NewRand hashes the seed first, so that consecutive seeds give unrelated streams (a plain
// splitmix64 state of seed*golden would make seed k+1 a one-step shift of seed k).
func NewRand(seed uint64) *Rand {
	z := seed + 0x632BE59BD9B4E019
	z = (z ^ (z >> 30)) * 0xBF58476D1CE4E5B9
	z = (z ^ (z >> 27)) * 0x94D049BB133111EB
	z ^= z >> 31
	z = (z ^ 0xD1B54A32D192ED03) * 0x9E3779B97F4A7C15
	z ^= z >> 29
	return &Rand{s: z}
}

func (r *Rand) Uint64() uint64 {
	r.s += 0x9E3779B97F4A7C15
	z := r.s
	z = (z ^ (z >> 30)) * 0xBF58476D1CE4E5B9
	z = (z ^ (z >> 27)) * 0x94D049BB133111EB
	return z ^ (z >> 31)
}

// Intn returns a value in [0,n); n <= 0 gives 0.
func (r *Rand) Intn(n int) int {
	if n <= 0 {
		return 0
	}
	return int(r.Uint64() % uint64(n))
}

// Range returns a value in [lo,hi].
func (r *Rand) Range(lo, hi int) int { return lo + r.Intn(hi-lo+1) }

func (r *Rand) Bool() bool { return r.Uint64()&1 == 1 }

// Chance is true with probability num/den.
func (r *Rand) Chance(num, den int) bool { return r.Intn(den) < num }

// Fork derives an independent generator (for per-case streams that replay exactly).
func (r *Rand) Fork() *Rand { return NewRand(r.Uint64()) }

// Pick returns a weighted choice index.
func (r *Rand) Pick(weights ...int) int {
	t := 0
	for _, w := range weights {
		t += w
	}
	x := r.Intn(t)
	for i, w := range weights {
		if x < w {
			return i
		}
		x -= w
	}
	return len(weights) - 1
}

// ---------------------------------------------------------------------------------------------
// panic capture

// Try runs f and reports whether it panicked.
func Try(f func()) (panicked bool, val interface{}) {
	defer func() {
		if r := recover(); r != nil {
			panicked = true
			val = r
		}
	}()
	f()
	return false, nil
}

// ---------------------------------------------------------------------------------------------
// Lean model driver

type Model struct {
	cmd  *exec.Cmd
	in   io.WriteCloser
	out  *bufio.Reader
	name string
	dead error
}

// StartModel launches `driver <name>`. A nil *Model with an error means the model is unavailable
// (the driver did not build): callers then run monitors only.
func StartModel(driver, name string) (*Model, error) {
	if driver == "" {
		return nil, fmt.Errorf("no driver")
	}
	var cmd *exec.Cmd
	if _, err := os.Stat(driver + "_" + name); err == nil {
		// one executable per model (runner/gen_drivers.py)
		cmd = exec.Command(driver + "_" + name)
	} else if _, err := os.Stat(driver); err == nil {
		cmd = exec.Command(driver, name)
	} else {
		return nil, err
	}
	in, err := cmd.StdinPipe()
	if err != nil {
		return nil, err
	}
	out, err := cmd.StdoutPipe()
	if err != nil {
		return nil, err
	}
	cmd.Stderr = os.Stderr
	if err := cmd.Start(); err != nil {
		return nil, err
	}
	return &Model{cmd: cmd, in: in, out: bufio.NewReaderSize(out, 1<<20), name: name}, nil
}

// Run resets the model, feeds the lines and returns one output line per input line.
func (m *Model) Run(lines []string) ([]string, error) {
	if m.dead != nil {
		return nil, m.dead
	}
	done := make(chan error, 1)
	go func() {
		w := bufio.NewWriterSize(m.in, 1<<16)
		w.WriteString("reset\n")
		for _, l := range lines {
			w.WriteString(l)
			w.WriteByte('\n')
		}
		w.WriteString("#flush\n")
		done <- w.Flush()
	}()
	var out []string
	first := true
	for {
		s, err := m.out.ReadString('\n')
		if err != nil {
			m.dead = fmt.Errorf("model %s died: %v", m.name, err)
			return nil, m.dead
		}
		s = strings.TrimRight(s, "\n")
		if first {
			first = false
			if s != "reset" {
				m.dead = fmt.Errorf("model %s: protocol error, got %q", m.name, s)
				return nil, m.dead
			}
			continue
		}
		if s == "#flushed" {
			break
		}
		out = append(out, s)
	}
	if err := <-done; err != nil {
		m.dead = err
		return nil, err
	}
	if len(out) != len(lines) {
		m.dead = fmt.Errorf("model %s: %d outputs for %d inputs", m.name, len(out), len(lines))
		return nil, m.dead
	}
	return out, nil
}

// RunMany runs several independent cases in one exchange (each starts from the initial state).
func (m *Model) RunMany(cases [][]string) ([][]string, error) {
	var all []string
	for i, c := range cases {
		if i > 0 {
			all = append(all, "reset")
		}
		all = append(all, c...)
	}
	out, err := m.Run(all)
	if err != nil {
		return nil, err
	}
	res := make([][]string, len(cases))
	p := 0
	for i, c := range cases {
		if i > 0 {
			p++ // echo of "reset"
		}
		res[i] = out[p : p+len(c)]
		p += len(c)
	}
	return res, nil
}

func (m *Model) Close() {
	if m == nil {
		return
	}
	m.in.Close()
	m.cmd.Wait()
}

// FirstDiff returns the first index at which the two output streams differ, or -1.
func FirstDiff(a, b []string) int {
	n := len(a)
	if len(b) < n {
		n = len(b)
	}
	for i := 0; i < n; i++ {
		if a[i] != b[i] {
			return i
		}
	}
	if len(a) != len(b) {
		return n
	}
	return -1
}

// ---------------------------------------------------------------------------------------------
// shrinking (ddmin over a list of ops)

// Shrink returns a locally minimal sub-list of ops on which fails still holds.
func Shrink[T any](ops []T, fails func([]T) bool) []T {
	cur := append([]T{}, ops...)
	n := 2
	steps := 0
	for len(cur) >= 2 && steps < 2000 {
		chunk := (len(cur) + n - 1) / n
		reduced := false
		for i := 0; i < len(cur); i += chunk {
			steps++
			j := i + chunk
			if j > len(cur) {
				j = len(cur)
			}
			cand := append(append([]T{}, cur[:i]...), cur[j:]...)
			if len(cand) > 0 && fails(cand) {
				cur = cand
				if n > 2 {
					n--
				}
				reduced = true
				break
			}
		}
		if !reduced {
			if chunk == 1 {
				break
			}
			n *= 2
			if n > len(cur) {
				n = len(cur)
			}
		}
	}
	return cur
}

// ---------------------------------------------------------------------------------------------
// results

// Failure is one failing case. Source "monitor": the implementation violates a clause of the
// property on this concrete input (a replayable violation). Source "correspondence": model and
// implementation disagree (a broken tie, not by itself a violation).
type Failure struct {
	Source string                 `json:"source"`
	Kind   string                 `json:"kind"`
	Params map[string]interface{} `json:"params,omitempty"`
	What   string                 `json:"what"`
	Case   interface{}            `json:"case"`
}

type Result struct {
	Property     string                 `json:"property"`
	Evaluations  int                    `json:"evaluations"`
	Nontrivial   int                    `json:"distinct_nontrivial"`
	Rule         string                 `json:"rule"`
	Samples      []interface{}          `json:"samples"`
	Traces       int                    `json:"traces_validated_against_impl"`
	Exhaustive   bool                   `json:"exhaustive,omitempty"`
	Dist         map[string]int         `json:"distribution"`
	Extra        map[string]interface{} `json:"extra,omitempty"`
	Failures     []Failure              `json:"failures"`
	ModelMissing string                 `json:"model_missing,omitempty"`
	seen         map[string]bool
	failKeys     map[string]bool
}

func NewResult(prop, rule string) *Result {
	return &Result{Property: prop, Rule: rule, Dist: map[string]int{}, Extra: map[string]interface{}{},
		seen: map[string]bool{}, failKeys: map[string]bool{}}
}

// Count bumps a distribution counter.
func (r *Result) Count(key string) { r.Dist[key]++ }

func (r *Result) CountN(key string, n int) { r.Dist[key] += n }

// Case records one evaluated case. key identifies it for distinctness; nontrivial says whether it
// is non-trivial by the stated rule.
func (r *Result) Case(key string, nontrivial bool, sample interface{}) {
	r.Evaluations++
	if nontrivial && !r.seen[key] {
		r.seen[key] = true
		r.Nontrivial++
		if len(r.Samples) < 3 && sample != nil {
			r.Samples = append(r.Samples, sample)
		}
	}
}

// Fail records a failure; failures with the same kind+params are kept once (the first, which
// callers should have shrunk).
func (r *Result) Fail(f Failure) {
	pk, _ := json.Marshal(f.Params)
	k := f.Source + "|" + f.Kind + "|" + string(pk)
	if r.failKeys[k] {
		return
	}
	r.failKeys[k] = true
	if len(r.Failures) < 50 {
		r.Failures = append(r.Failures, f)
	}
}

func (r *Result) HasFailure(source string) bool {
	for _, f := range r.Failures {
		if f.Source == source {
			return true
		}
	}
	return false
}

// Write stores the result where runner/check.py expects it.
func (r *Result) Write(path string) {
	if r.Samples == nil {
		r.Samples = []interface{}{}
	}
	if r.Failures == nil {
		r.Failures = []Failure{}
	}
	b, err := json.MarshalIndent(r, "", " ")
	if err != nil {
		fmt.Fprintln(os.Stderr, "vlib: cannot marshal result:", err)
		os.Exit(3)
	}
	if path == "" {
		os.Stdout.Write(b)
		return
	}
	if err := os.WriteFile(path, b, 0o644); err != nil {
		fmt.Fprintln(os.Stderr, "vlib:", err)
		os.Exit(3)
	}
}

// CorpusFiles lists the files of the corpus directory with the given suffix, sorted.
func CorpusFiles(dir, suffix string) []string {
	ents, err := os.ReadDir(dir)
	if err != nil {
		return nil
	}
	var out []string
	for _, e := range ents {
		if !e.IsDir() && strings.HasSuffix(e.Name(), suffix) {
			out = append(out, dir+"/"+e.Name())
		}
	}
	sort.Strings(out)
	return out
}

// ReadLines reads a text file into non-empty, non-comment lines.
func ReadLines(path string) []string {
	b, err := os.ReadFile(path)
	if err != nil {
		return nil
	}
	var out []string
	for _, l := range strings.Split(string(b), "\n") {
		l = strings.TrimSpace(l)
		if l == "" || strings.HasPrefix(l, "#") {
			continue
		}
		out = append(out, l)
	}
	return out
}

// ReplayCase loads the "case" member of a replay file written by runner/check.py.
func ReplayCase(path string, into interface{}) error {
	b, err := os.ReadFile(path)
	if err != nil {
		return err
	}
	var w struct {
		Case json.RawMessage `json:"case"`
	}
	if err := json.Unmarshal(b, &w); err != nil {
		return err
	}
	return json.Unmarshal(w.Case, into)
}
